(* Go slices over an explicit heap (for C09).  Definitions only; lemmas in Proofs/Mem_proofs.v.

   heap        : allocations are never freed (the GC is not modelled; an unreachable
                 allocation simply is never looked at again); allocation id = position.
   slice       : (id, off, len, cap) - a window [off, off+len) of allocation id that may grow
                 up to off+cap.  Two slices share memory iff they have the same id and their
                 windows intersect.  A nil slice is any slice with cap = 0 (it can neither be
                 read nor written; append to it always allocates).
   append      : Go's rule: when the data fits the capacity the backing array is reused and
                 written in place, otherwise a new array is allocated.  The NEW capacity is
                 chosen by Go's growth policy, which is not modelled: the caller supplies it
                 ([newcap], raised to the needed length when too small).  A second oracle
                 bit [force] lets the caller force a reallocation even when the data fits -
                 Go never does that, the theorems hold for both answers. *)
From JT.Base Require Import Prelude.
From Coq Require Import Arith.
Local Open Scope nat_scope.

Definition heap := list (list N).

Record slice := mkS { s_id : nat; s_off : nat; s_len : nat; s_cap : nat }.

Definition nil_slice : slice := mkS 0 0 0 0.

Definition cells (h : heap) (id : nat) : list N := nth id h [].

(* the bytes a slice currently denotes *)
Definition deref (h : heap) (s : slice) : list N :=
  firstn (s_len s) (skipn (s_off s) (cells h (s_id s))).

(* make([]byte, n) / a fresh array holding c *)
Definition alloc (h : heap) (c : list N) : heap * nat := (h ++ [c], length h).

Fixpoint upd {A} (n : nat) (f : A -> A) (l : list A) : list A :=
  match l, n with
  | [], _ => []
  | x :: t, O => f x :: t
  | x :: t, S n' => x :: upd n' f t
  end.

(* copy(c[off:], d) - never changes the length of the array (what does not fit is dropped) *)
Fixpoint write_at (c : list N) (off : nat) (d : list N) : list N :=
  match c with
  | [] => []
  | x :: t =>
    match off with
    | S o => x :: write_at t o d
    | O => match d with [] => c | y :: d' => y :: write_at t O d' end
    end
  end.

Definition store (h : heap) (id off : nat) (d : list N) : heap :=
  upd id (fun c => write_at c off d) h.

(* s[i:j]  (Go requires i <= j <= cap s; the models only build in-range sub-slices) *)
Definition sub_slice (s : slice) (i j : nat) : slice :=
  mkS (s_id s) (s_off s + i) (j - i) (s_cap s - i).
(* s[i:] *)
Definition slice_from (s : slice) (i : nat) : slice := sub_slice s i (s_len s).

(* append(s, d...) *)
Definition append (h : heap) (s : slice) (d : list N) (force : bool) (newcap : nat) : heap * slice :=
  let need := s_len s + length d in
  if (need <=? s_cap s) && negb force then
    (store h (s_id s) (s_off s + s_len s) d, mkS (s_id s) (s_off s) need (s_cap s))
  else
    let c := Nat.max newcap need in
    let '(h', id) := alloc h (deref h s ++ d ++ repeat 0%N (c - need)) in
    (h', mkS id 0 need c).

(* bytes.Clone(s): a fresh array with the same content (spare capacity is irrelevant: nobody
   appends to it) *)
Definition clone (h : heap) (s : slice) : heap * slice :=
  let d := deref h s in
  let '(h', id) := alloc h d in (h', mkS id 0 (length d) (length d)).

(* clear(s): zero the window *)
Definition clear (h : heap) (s : slice) : heap :=
  store h (s_id s) (s_off s) (repeat 0%N (s_len s)).

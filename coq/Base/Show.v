(* Canonical printers INSIDE Gallina (definitions only): text is a list of ASCII codes (list N).
   Used by bin/coqeval: the same request lines the extracted OCaml oracle answers are evaluated by
   coqc with vm_compute on the Gallina model itself, rendered by these printers, and compared with
   the oracle's answers - a cross-check that extraction + ocamlopt + the hand-written drivers
   (oracle/drv_*.ml) did not change behaviour.  Model/Show_*.v hold, per model, a show_<op> that
   renders exactly what the driver prints for that op.  Nothing here is an extraction root. *)
From Coq Require Import String Ascii ZArith Uint63.
From JT.Base Require Import Prelude.

Definition text := list N.

(* a Coq string literal as text *)
Definition str (s : string) : text := map (fun c => N.of_nat (nat_of_ascii c)) (list_ascii_of_string s).
Arguments str s%string.

Definition cat (l : list text) : text := concat l.

Fixpoint join (sep : text) (l : list text) : text :=
  match l with
  | [] => []
  | [x] => x
  | x :: t => x ++ sep ++ join sep t
  end.
(* String.concat of the drivers, with "-" for the empty list where they print it *)
Definition join_or_dash (sep : text) (l : list text) : text :=
  match l with [] => str "-" | _ => join sep l end.

(* decimal (dec_of_n / string_of_int / %d); fuel = number of bits + 1 >= number of digits *)
Fixpoint show_dec_fuel (fuel : nat) (n : N) (acc : text) : text :=
  match fuel with
  | O => acc
  | S f => let acc' := (48 + n mod 10) :: acc in
           if n / 10 =? 0 then acc' else show_dec_fuel f (n / 10) acc'
  end.
Definition show_N (n : N) : text := show_dec_fuel (S (N.size_nat n)) n [].
Definition show_nat (n : nat) : text := show_N (N.of_nat n).

Definition hexd (d : N) : N := if d <? 10 then 48 + d else 87 + d.
(* hex_of_bytes: two lowercase digits per byte, "-" for the empty string *)
Definition show_hex_bytes (l : list N) : text :=
  match l with
  | [] => str "-"
  | _ => flat_map (fun b => [hexd (b / 16 mod 16); hexd (b mod 16)]) l
  end.
(* hex_of_n: lowercase hex without leading zeros, "0" for zero *)
Fixpoint show_hexN_fuel (fuel : nat) (n : N) (acc : text) : text :=
  match fuel with
  | O => acc
  | S f => let acc' := hexd (n mod 16) :: acc in
           if n / 16 =? 0 then acc' else show_hexN_fuel f (n / 16) acc'
  end.
Definition show_hexN (n : N) : text := show_hexN_fuel (S (N.size_nat n)) n [].
(* Printf "%08x" and friends: at least w digits *)
Definition show_hexN_pad (w : nat) (n : N) : text :=
  let s := show_hexN n in repeat 48 (w - length s) ++ s.

Definition show_bool (b : bool) : text := if b then [49] else [48].
(* flag_string: a list of booleans as 0/1 digits *)
Definition show_flags (l : list bool) : text := map (fun b : bool => if b then 49 else 48) l.

(* "err <n>" / "panic" around a payload printer *)
Definition show_result {A} (ok : A -> text) (r : result A) : text :=
  match r with
  | Ok a => ok a
  | Err e => str "err " ++ show_N e
  | Panic => str "panic"
  end.

(* ---------------- ordering (the drivers sort with OCaml's compare) ---------------- *)
(* compare on strings: lexicographic on bytes, a proper prefix first *)
Fixpoint text_leb (a b : text) : bool :=
  match a, b with
  | [], _ => true
  | _ :: _, [] => false
  | x :: a', y :: b' => if x <? y then true else if y <? x then false else text_leb a' b'
  end.
Definition text_eqb (a b : text) : bool := list_eqb a b.

Fixpoint insert_by {A} (leb : A -> A -> bool) (x : A) (l : list A) : list A :=
  match l with
  | [] => [x]
  | y :: t => if leb x y then x :: l else y :: insert_by leb x t
  end.
(* stable insertion sort (List.sort / List.stable_sort are stable merges: equal keys keep their order) *)
Definition sort_by {A} (leb : A -> A -> bool) (l : list A) : list A :=
  fold_right (insert_by leb) [] l.
(* drop adjacent duplicates of a sorted list (List.sort_uniq keeps one of each class) *)
Fixpoint uniq_by {A} (eqb : A -> A -> bool) (l : list A) : list A :=
  match l with
  | [] => []
  | x :: t => match t with
              | [] => [x]
              | y :: _ => if eqb x y then uniq_by eqb t else x :: uniq_by eqb t
              end
  end.

Definition has_prefix (p s : text) : bool := list_eqb p (firstn (length p) s).

(* ---------------- arguments and expected answers in the generated Cases.v ---------------- *)
(* a byte string of [len] bytes given as primitive 63-bit integers holding 7 bytes each, least
   significant byte first (Uint63 literals are read by Coq's native parser; N / string literals of
   that size go through a Gallina conversion and take ~45 us per character) *)
Definition byte_of (x k : Uint63.int) : N :=
  Z.to_N (Uint63.to_Z (Uint63.land (Uint63.lsr x k) 255%uint63)).
Definition bytes7 (x : Uint63.int) : list N :=
  [byte_of x 0%uint63; byte_of x 8%uint63; byte_of x 16%uint63; byte_of x 24%uint63;
   byte_of x 32%uint63; byte_of x 40%uint63; byte_of x 48%uint63].
Definition hx (len : Uint63.int) (l : list Uint63.int) : list N :=
  firstn (Z.to_nat (Uint63.to_Z len)) (flat_map bytes7 l).
Arguments hx len%uint63 l%uint63.

(* the comparison made inside Coq: the rendering equals the oracle's answer *)
Definition same (got expected : text) : bool := list_eqb got expected.

(* Verified format combinators (C07 / C03).

   A format [fmt A] packages an encoder, a decoder written against the checked cursor primitive
   [take] of Base/Prelude.v (so reading beyond the end of the slice is the value [Panic], exactly as an
   unchecked Go slice expression on a slice with cap = len), a well-formedness predicate (the domain of
   the round trip) and THE ROUND-TRIP LAW AS A FIELD: whoever builds a format has proved
   [dec (enc a ++ rest) = Ok (a, rest)].  Message types (Model/Msg_*.v) are compositions of these
   formats interleaved with the explicit length guards of the Go parsers.

   [fixed f n]: the format always occupies n bytes and its decoder succeeds on every input of at
   least n bytes.  This is what turns a Go length guard into "the unchecked reads that follow cannot
   panic" (C03), generically.  Instances are found by type-class resolution.

   No Program / Equations / axioms; records with proof fields are erased by extraction. *)
From JT.Base Require Import Prelude PreludeP.
From Coq Require Import ZArith ZifyN ZifyNat ZifyBool.
Ltac Zify.zify_post_hook ::= Z.div_mod_to_equations.

Record fmt (A : Type) := {
  enc : A -> list N;
  dec : list N -> result (A * list N);
  wf  : A -> Prop;
  rt  : forall a rest, wf a -> dec (enc a ++ rest) = Ok (a, rest) }.
Arguments enc {A}. Arguments dec {A}. Arguments wf {A}. Arguments rt {A}.

Class fixed {A} (f : fmt A) (n : N) : Prop := {
  fx_len : forall a, wf f a -> len (enc f a) = n;
  fx_ok  : forall l, n <= len l -> exists a r, dec f l = Ok (a, r) /\ len r + n = len l }.

(* a decoder of a fixed format never returns an error, and panics exactly on short input *)
Lemma fixed_not_panic {A} (f : fmt A) n (F : fixed f n) l : n <= len l -> dec f l <> Panic.
Proof. intros H. destruct (fx_ok l H) as (a & r & E & _). rewrite E. discriminate. Qed.

(* ------------------------------------------------------------------ take: more lemmas *)
Lemma take_ok_len n l : n <= len l -> exists a r, take n l = Ok (a, r) /\ len a = n /\ len r + n = len l /\ l = a ++ r.
Proof.
  intros H. destruct (take_ok n l H) as (a & b & E & Hl & Ha). exists a, b. repeat split; auto.
  subst l. rewrite len_app. lia.
Qed.

(* ------------------------------------------------------------------ big-endian unsigned, n bytes *)
Definition ube_dec (n : nat) (l : list N) : result (N * list N) :=
  '(b, r) <- take (N.of_nat n) l ;; Ok (be_dec b, r).
Lemma ube_rt n a rest : a < 256 ^ N.of_nat n -> ube_dec n (be_enc n a ++ rest) = Ok (a, rest).
Proof.
  intros H. unfold ube_dec. rewrite take_app_n by apply be_enc_len. cbn [bind].
  rewrite be_dec_enc by exact H. reflexivity.
Qed.
Definition ube (n : nat) : fmt N :=
  {| enc := be_enc n; dec := ube_dec n; wf := fun a => a < 256 ^ N.of_nat n; rt := ube_rt n |}.

Global Instance fixed_ube n : fixed (ube n) (N.of_nat n).
Proof.
  split.
  - intros a _. apply be_enc_len.
  - intros l H. destruct (take_ok_len _ l H) as (a & r & E & Ha & Hr & _).
    exists (be_dec a), r. split; [|exact Hr]. cbn [dec ube]. unfold ube_dec. rewrite E. reflexivity.
Qed.

Definition u8 : fmt N := ube 1.
Definition u16 : fmt N := ube 2.
Definition u32 : fmt N := ube 4.
Definition u64 : fmt N := ube 8.
Global Instance fixed_u8 : fixed u8 1. Proof. exact (fixed_ube 1). Qed.
Global Instance fixed_u16 : fixed u16 2. Proof. exact (fixed_ube 2). Qed.
Global Instance fixed_u32 : fixed u32 4. Proof. exact (fixed_ube 4). Qed.
Global Instance fixed_u64 : fixed u64 8. Proof. exact (fixed_ube 8). Qed.

(* ------------------------------------------------------------------ n raw bytes *)
Definition bytes_n_dec (n : N) (l : list N) : result (list N * list N) := take n l.
Lemma bytes_n_rt n a rest : len a = n -> bytes_n_dec n (a ++ rest) = Ok (a, rest).
Proof. intros H. unfold bytes_n_dec. apply take_app_n. exact H. Qed.
Definition bytes_n (n : N) : fmt (list N) :=
  {| enc := fun a => a; dec := bytes_n_dec n; wf := fun a => len a = n; rt := bytes_n_rt n |}.
Global Instance fixed_bytes_n n : fixed (bytes_n n) n.
Proof.
  split.
  - intros a H. exact H.
  - intros l H. destruct (take_ok_len _ l H) as (a & r & E & Ha & Hr & _). exists a, r. split; [exact E|exact Hr].
Qed.

(* ------------------------------------------------------------------ fixed-width NUL-padded strings *)
(* utils.String2FillingBytes: pad with NUL on the right, cut when too long *)
Definition fill (s : list N) (n : N) : list N :=
  if len s <? n then s ++ repeat 0 (N.to_nat (n - len s)) else firstn (N.to_nat n) s.
(* bytes.TrimRight(b, "\x00") *)
Fixpoint trim_right0 (l : list N) : list N :=
  match l with
  | [] => []
  | c :: t => match trim_right0 t with
              | [] => if c =? 0 then [] else [c]
              | t' => c :: t'
              end
  end.
(* bytes.TrimLeft / bytes.Trim(b, "\x00") *)
Fixpoint trim_left0 (l : list N) : list N :=
  match l with [] => [] | c :: t => if c =? 0 then trim_left0 t else l end.
Definition trim0 (l : list N) : list N := trim_right0 (trim_left0 l).

(* "no trailing NUL": the last byte, if any, is not 0 *)
Definition no_trail0 (s : list N) : Prop := last s 1 <> 0.
Definition no_trail0b (s : list N) : bool := negb (last s 1 =? 0).
Definition no_lead0 (s : list N) : Prop := hd 1 s <> 0.
Definition no_lead0b (s : list N) : bool := negb (hd 1 s =? 0).

Lemma len_repeat {A} (x : A) n : len (repeat x n) = N.of_nat n.
Proof. unfold len. now rewrite repeat_length. Qed.

Lemma fill_len s n : len (fill s n) = n.
Proof.
  unfold fill. destruct (len s <? n) eqn:E.
  - rewrite len_app, len_repeat. lia.
  - unfold len in *. rewrite firstn_length. lia.
Qed.

Lemma trim_right0_zeros k : trim_right0 (repeat 0 k) = [].
Proof. induction k as [|k IH]; cbn [repeat trim_right0]; auto. now rewrite IH. Qed.

Lemma trim_right0_app_zeros s k : trim_right0 (s ++ repeat 0 k) = trim_right0 s.
Proof.
  induction s as [|c s IH]; cbn [app trim_right0].
  - apply trim_right0_zeros.
  - now rewrite IH.
Qed.

Lemma trim_right0_id s : no_trail0 s -> trim_right0 s = s.
Proof.
  unfold no_trail0. induction s as [|c s IH]; intros H; cbn [trim_right0]; auto.
  destruct s as [|d s].
  - cbn [trim_right0]. cbn [last] in H. destruct (c =? 0) eqn:E; [lia|reflexivity].
  - rewrite IH by exact H. reflexivity.
Qed.

Lemma fill_fits s n : len s <= n -> fill s n = s ++ repeat 0 (N.to_nat (n - len s)).
Proof.
  intros H. unfold fill. destruct (len s <? n) eqn:E; auto.
  assert (len s = n) as <- by lia. rewrite N.sub_diag. cbn [N.to_nat repeat].
  unfold len. rewrite Nat2N.id, firstn_all. now rewrite app_nil_r.
Qed.

Definition str_pad_dec (n : N) (l : list N) : result (list N * list N) :=
  '(b, r) <- take n l ;; Ok (trim_right0 b, r).
Definition str_pad_wf (n : N) (s : list N) : Prop := len s <= n /\ no_trail0 s.
Lemma str_pad_rt n s rest : str_pad_wf n s -> str_pad_dec n (fill s n ++ rest) = Ok (s, rest).
Proof.
  intros [Hl Ht]. unfold str_pad_dec. rewrite take_app_n by apply fill_len. cbn [bind].
  rewrite fill_fits by exact Hl. rewrite trim_right0_app_zeros, trim_right0_id by exact Ht. reflexivity.
Qed.
Definition str_pad (n : N) : fmt (list N) :=
  {| enc := fun s => fill s n; dec := str_pad_dec n; wf := str_pad_wf n; rt := str_pad_rt n |}.
Global Instance fixed_str_pad n : fixed (str_pad n) n.
Proof.
  split.
  - intros a _. apply fill_len.
  - intros l H. destruct (take_ok_len _ l H) as (a & r & E & Ha & Hr & _).
    exists (trim_right0 a), r. split; [|exact Hr]. cbn [dec str_pad]. unfold str_pad_dec. now rewrite E.
Qed.

(* the same field read with bytes.Trim (both sides): the domain loses the strings that begin with NUL *)
Lemma trim_left0_id s : no_lead0 s -> trim_left0 s = s.
Proof. unfold no_lead0. destruct s as [|c s]; cbn [trim_left0 hd]; auto. intros H. destruct (c =? 0) eqn:E; [lia|auto]. Qed.
Lemma trim_left0_app_zeros s k : s <> [] -> no_lead0 s -> trim_left0 (s ++ repeat 0 k) = s ++ repeat 0 k.
Proof. destruct s as [|c s]; [congruence|]. unfold no_lead0. cbn [app trim_left0 hd]. intros _ H.
  destruct (c =? 0) eqn:E; [lia|auto]. Qed.
Lemma trim_left0_zeros k : trim_left0 (repeat 0 k) = [].
Proof. induction k as [|k IH]; cbn [repeat trim_left0]; auto. Qed.

Definition str_pad2_dec (n : N) (l : list N) : result (list N * list N) :=
  '(b, r) <- take n l ;; Ok (trim0 b, r).
Definition str_pad2_wf (n : N) (s : list N) : Prop := len s <= n /\ no_trail0 s /\ no_lead0 s.
Lemma str_pad2_rt n s rest : str_pad2_wf n s -> str_pad2_dec n (fill s n ++ rest) = Ok (s, rest).
Proof.
  intros (Hl & Ht & Hh). unfold str_pad2_dec. rewrite take_app_n by apply fill_len. cbn [bind].
  rewrite fill_fits by exact Hl. unfold trim0. destruct s as [|c s].
  - cbn [app]. rewrite trim_left0_zeros. reflexivity.
  - rewrite trim_left0_app_zeros by (congruence || exact Hh).
    rewrite trim_right0_app_zeros, trim_right0_id by exact Ht. reflexivity.
Qed.
Definition str_pad2 (n : N) : fmt (list N) :=
  {| enc := fun s => fill s n; dec := str_pad2_dec n; wf := str_pad2_wf n; rt := str_pad2_rt n |}.
Global Instance fixed_str_pad2 n : fixed (str_pad2 n) n.
Proof.
  split.
  - intros a _. apply fill_len.
  - intros l H. destruct (take_ok_len _ l H) as (a & r & E & Ha & Hr & _).
    exists (trim0 a), r. split; [|exact Hr]. cbn [dec str_pad2]. unfold str_pad2_dec. now rewrite E.
Qed.

(* ------------------------------------------------------------------ sequencing *)
Section Seq.
Context {A B : Type} (f : fmt A) (g : fmt B).
Definition seq_enc (ab : A * B) := enc f (fst ab) ++ enc g (snd ab).
Definition seq_dec (l : list N) : result ((A * B) * list N) :=
  '(a, r) <- dec f l ;; '(b, r') <- dec g r ;; Ok ((a, b), r').
Definition seq_wf (ab : A * B) := wf f (fst ab) /\ wf g (snd ab).
Lemma seq_rt ab rest : seq_wf ab -> seq_dec (seq_enc ab ++ rest) = Ok (ab, rest).
Proof.
  destruct ab as [a b]. intros [Ha Hb]. unfold seq_enc, seq_dec. cbn [fst snd] in *.
  rewrite <- app_assoc, (rt f) by assumption. cbn [bind]. rewrite (rt g) by assumption. reflexivity.
Qed.
Definition seq : fmt (A * B) := {| enc := seq_enc; dec := seq_dec; wf := seq_wf; rt := seq_rt |}.

Global Instance fixed_seq n m (F : fixed f n) (G : fixed g m) : fixed seq (n + m).
Proof.
  split.
  - intros [a b] [Ha Hb]. cbn [enc seq]. unfold seq_enc. cbn [fst snd] in *.
    rewrite len_app, (fx_len (f := f)), (fx_len (f := g)) by assumption. reflexivity.
  - intros l H. destruct (fx_ok (f := f) l) as (a & r & E & Hr); [lia|].
    destruct (fx_ok (f := g) r) as (b & r' & E' & Hr'); [lia|].
    exists (a, b), r'. split; [|lia]. cbn [dec seq]. unfold seq_dec. rewrite E. cbn [bind]. rewrite E'. reflexivity.
Qed.
End Seq.
Infix "##" := seq (at level 59, right associativity).

(* ------------------------------------------------------------------ isomorphic view (tuples <-> records) *)
Section Iso.
Context {A B : Type} (f : fmt A) (to : A -> B) (from : B -> A) (H : forall b, to (from b) = b).
Definition iso_dec (l : list N) : result (B * list N) := '(a, r) <- dec f l ;; Ok (to a, r).
Lemma iso_rt b rest : wf f (from b) -> iso_dec (enc f (from b) ++ rest) = Ok (b, rest).
Proof. intros Hw. unfold iso_dec. rewrite (rt f) by assumption. cbn [bind]. now rewrite H. Qed.
Definition iso : fmt B :=
  {| enc := fun b => enc f (from b); dec := iso_dec; wf := fun b => wf f (from b); rt := iso_rt |}.
Global Instance fixed_iso n (F : fixed f n) : fixed iso n.
Proof.
  split.
  - intros b Hb. cbn [enc iso]. now apply (fx_len (f := f)).
  - intros l Hl. destruct (fx_ok (f := f) l Hl) as (a & r & E & Hr). exists (to a), r. split; [|exact Hr].
    cbn [dec iso]. unfold iso_dec. now rewrite E.
Qed.
End Iso.

(* ------------------------------------------------------------------ exactly k items *)
Section Rep.
Context {A : Type} (f : fmt A).
Fixpoint rep_dec (k : nat) (l : list N) : result (list A * list N) :=
  match k with
  | O => Ok ([], l)
  | S k' => '(a, r) <- dec f l ;; '(t, r') <- rep_dec k' r ;; Ok (a :: t, r')
  end.
Definition rep_enc (l : list A) : list N := flat_map (enc f) l.
Definition rep_wf (k : nat) (l : list A) : Prop := length l = k /\ Forall (wf f) l.
Lemma rep_rt_gen : forall (l : list A) rest, Forall (wf f) l -> rep_dec (length l) (rep_enc l ++ rest) = Ok (l, rest).
Proof.
  induction l as [|a l IH]; intros rest H; [reflexivity|].
  inversion H as [|? ? Ha Hl]; subst. cbn [length rep_dec rep_enc flat_map]. rewrite <- app_assoc.
  rewrite (rt f) by assumption. cbn [bind]. unfold rep_enc in IH. rewrite IH by assumption. reflexivity.
Qed.
Lemma rep_rt k l rest : rep_wf k l -> rep_dec k (rep_enc l ++ rest) = Ok (l, rest).
Proof. intros [<- H]. now apply rep_rt_gen. Qed.
Definition rep (k : nat) : fmt (list A) :=
  {| enc := rep_enc; dec := rep_dec k; wf := rep_wf k; rt := rep_rt k |}.

Lemma rep_enc_len n (F : fixed f n) l : Forall (wf f) l -> len (rep_enc l) = N.of_nat (length l) * n.
Proof.
  induction l as [|a l IH]; intros H; [reflexivity|]. inversion H as [|? ? Ha Hl]; subst.
  cbn [rep_enc flat_map length]. rewrite len_app, (fx_len (f := f)) by assumption.
  unfold rep_enc in IH. rewrite IH by assumption. lia.
Qed.
Global Instance fixed_rep n (F : fixed f n) k : fixed (rep k) (N.of_nat k * n).
Proof.
  split.
  - intros a [<- Ha]. cbn [enc rep]. now apply rep_enc_len.
  - induction k as [|k IH]; intros l Hl.
    + exists [], l. split; [reflexivity|lia].
    + destruct (fx_ok (f := f) l) as (a & r & E & Hr); [lia|].
      destruct (IH r) as (t & r' & E' & Hr'); [lia|].
      exists (a :: t), r'. split; [|lia]. cbn [dec rep rep_dec]. rewrite E. cbn [bind].
      cbn [dec rep] in E'. rewrite E'. reflexivity.
Qed.
End Rep.

(* ------------------------------------------------------------------ general (variable-size) combinators,
   used where the Go parser has no guard between the length field and the data it governs *)
(* u8 length prefix + that many raw bytes *)
Definition lp8_dec (l : list N) : result (list N * list N) :=
  '(n, r) <- dec u8 l ;; take n r.
Lemma lp8_rt s rest : len s < 256 -> lp8_dec ((enc u8 (len s) ++ s) ++ rest) = Ok (s, rest).
Proof.
  intros H. unfold lp8_dec. rewrite <- app_assoc.
  rewrite (rt u8) by (cbn; lia). cbn [bind]. apply take_app.
Qed.
Definition lp8 : fmt (list N) :=
  {| enc := fun s => enc u8 (len s) ++ s; dec := lp8_dec; wf := fun s => len s < 256; rt := lp8_rt |}.

(* u8 / u16 / u32 counted lists *)
Section Cnt.
Context {A : Type} (f : fmt A) (cw : nat).
Definition cnt_enc (l : list A) : list N := be_enc cw (len l) ++ rep_enc f l.
Definition cnt_dec (l : list N) : result (list A * list N) :=
  '(n, r) <- dec (ube cw) l ;; rep_dec f (N.to_nat n) r.
Definition cnt_wf (l : list A) : Prop := len l < 256 ^ N.of_nat cw /\ Forall (wf f) l.
Lemma cnt_rt l rest : cnt_wf l -> cnt_dec (cnt_enc l ++ rest) = Ok (l, rest).
Proof.
  intros [Hn Hl]. unfold cnt_enc, cnt_dec. rewrite <- app_assoc.
  change (be_enc cw (len l)) with (enc (ube cw) (len l)). rewrite (rt (ube cw)) by exact Hn. cbn [bind].
  unfold len. rewrite Nat2N.id. now apply rep_rt_gen.
Qed.
Definition cnt : fmt (list A) := {| enc := cnt_enc; dec := cnt_dec; wf := cnt_wf; rt := cnt_rt |}.
End Cnt.

(* ------------------------------------------------------------------ BCD timestamps (utils.Time2BCD / utils.BCD2Time) *)
(* Text is a list of character codes.  Time2BCD: when the text contains ':' the characters '-', ':' and ' '
   are removed and a 14-character result loses its first two; an odd length gets a leading '0'; then each pair
   of characters c1 c2 becomes the byte ((c1-'0')<<4)|(c2-'0') in uint8 arithmetic. *)
Definition is_sep (c : N) : bool := (c =? 45) || (c =? 58) || (c =? 32).
Definition sub48 (c : N) : N := (c + 208) mod 256.
Fixpoint bcd_pairs (l : list N) : list N :=
  match l with
  | a :: b :: t => N.lor ((sub48 a * 16) mod 256) (sub48 b) :: bcd_pairs t
  | _ => []
  end.
Definition time2bcd (t : list N) : list N :=
  let t1 := if existsb (N.eqb 58) t
            then (let s := filter (fun c => negb (is_sep c)) t in if len s =? 14 then skipn 2 s else s)
            else t in
  let t2 := if N.odd (len t1) then 48 :: t1 else t1 in
  bcd_pairs t2.

(* BCD2Time: two characters per byte, (v>>4)+'0' and (v&15)+'0'; exactly six bytes are laid out as
   "20YY-MM-DD hh:mm:ss" *)
Definition bcd_chars (b : list N) : list N := flat_map (fun v => [v / 16 + 48; v mod 16 + 48]) b.
Definition bcd2time (b : list N) : list N :=
  match bcd_chars b with
  | [a0; a1; a2; a3; a4; a5; a6; a7; a8; a9; a10; a11] =>
      if len b =? 6 then [50; 48; a0; a1; 45; a2; a3; 45; a4; a5; 32; a6; a7; 58; a8; a9; 58; a10; a11]
      else bcd_chars b
  | r => r
  end.

Definition is_digit (c : N) : bool := (48 <=? c) && (c <=? 57).
(* "20YY-MM-DD hh:mm:ss" with decimal digits: what a 6-byte BCD field can carry *)
Definition time_ok (t : list N) : bool :=
  match t with
  | [c0; c1; y1; y2; s1; m1; m2; s2; d1; d2; s3; h1; h2; s4; i1; i2; s5; e1; e2] =>
      (c0 =? 50) && (c1 =? 48) && (s1 =? 45) && (s2 =? 45) && (s3 =? 32) && (s4 =? 58) && (s5 =? 58) &&
      forallb is_digit [y1; y2; m1; m2; d1; d2; h1; h2; i1; i2; e1; e2]
  | _ => false
  end.
(* six bytes whose nibbles are decimal digits *)
Definition bcd_byte_ok (v : N) : bool := (v / 16 <? 10) && (v mod 16 <? 10) && (v <? 256).
Definition bcd6_ok (b : list N) : bool := (len b =? 6) && forallb bcd_byte_ok b.

Lemma pair_digits_sweep :
  forallb (fun a => forallb (fun b =>
    negb (is_digit a && is_digit b) ||
    (let v := N.lor ((sub48 a * 16) mod 256) (sub48 b) in
     (v / 16 + 48 =? a) && (v mod 16 + 48 =? b) && bcd_byte_ok v)) (nrange 58)) (nrange 58) = true.
Proof. vm_compute. reflexivity. Qed.

Lemma pair_digits a b : is_digit a = true -> is_digit b = true ->
  let v := N.lor ((sub48 a * 16) mod 256) (sub48 b) in
  v / 16 + 48 = a /\ v mod 16 + 48 = b /\ bcd_byte_ok v = true.
Proof.
  intros Ha Hb. assert (a < 58 /\ b < 58) as [La Lb] by (unfold is_digit in *; lia).
  pose proof (sweep 58 _ pair_digits_sweep a La) as H1. cbv beta in H1.
  pose proof (sweep 58 _ H1 b Lb) as H2. cbv beta in H2. rewrite Ha, Hb in H2. cbn [andb negb orb] in H2.
  cbv zeta in *. apply andb_true_iff in H2. destruct H2 as [H2 H3]. apply andb_true_iff in H2. destruct H2 as [H2 H4].
  apply N.eqb_eq in H2, H4. auto.
Qed.

Lemma byte_digits_sweep :
  forallb (fun v => negb (bcd_byte_ok v) ||
    (is_digit (v / 16 + 48) && is_digit (v mod 16 + 48) &&
     (N.lor ((sub48 (v / 16 + 48) * 16) mod 256) (sub48 (v mod 16 + 48)) =? v))) (nrange 256) = true.
Proof. vm_compute. reflexivity. Qed.

Lemma byte_digits v : bcd_byte_ok v = true ->
  is_digit (v / 16 + 48) = true /\ is_digit (v mod 16 + 48) = true /\
  N.lor ((sub48 (v / 16 + 48) * 16) mod 256) (sub48 (v mod 16 + 48)) = v.
Proof.
  intros H. assert (v < 256) as L by (unfold bcd_byte_ok in H; lia).
  pose proof (byte_sweep _ byte_digits_sweep v L) as H1. cbv beta in H1. rewrite H in H1.
  cbn [negb orb] in H1. apply andb_true_iff in H1. destruct H1 as [H1 H3]. apply andb_true_iff in H1. destruct H1 as [H1 H2].
  apply N.eqb_eq in H3. auto.
Qed.

Lemma digit_not_sep c : is_digit c = true -> is_sep c = false /\ (58 =? c) = false.
Proof. unfold is_digit, is_sep. lia. Qed.

Lemma filter_keep {A} (p : A -> bool) x l : p x = true -> filter p (x :: l) = x :: filter p l.
Proof. intros H. cbn [filter]. now rewrite H. Qed.
Lemma filter_drop {A} (p : A -> bool) x l : p x = false -> filter p (x :: l) = filter p l.
Proof. intros H. cbn [filter]. now rewrite H. Qed.

Ltac time_destruct t H :=
  do 19 (destruct t as [|? t]; [discriminate H|]); destruct t; [|discriminate H].

Lemma time_ok_shape t : time_ok t = true -> exists y1 y2 m1 m2 d1 d2 h1 h2 i1 i2 e1 e2,
  t = [50; 48; y1; y2; 45; m1; m2; 45; d1; d2; 32; h1; h2; 58; i1; i2; 58; e1; e2] /\
  Forall (fun c => is_digit c = true) [y1; y2; m1; m2; d1; d2; h1; h2; i1; i2; e1; e2].
Proof.
  intros H. time_destruct t H. cbn [time_ok] in H.
  repeat (apply andb_true_iff in H; destruct H as [H ?]).
  repeat match goal with E : (_ =? _) = true |- _ => apply N.eqb_eq in E; subst end.
  do 12 eexists. split; [reflexivity|].
  match goal with E : forallb _ _ = true |- _ => rewrite forallb_forall in E; apply Forall_forall; exact E end.
Qed.

Lemma time2bcd_ok t : time_ok t = true ->
  bcd2time (time2bcd t) = t /\ bcd6_ok (time2bcd t) = true.
Proof.
  intros H. destruct (time_ok_shape t H) as (y1 & y2 & m1 & m2 & d1 & d2 & h1 & h2 & i1 & i2 & e1 & e2 & -> & F).
  repeat match goal with F : Forall _ (_ :: _) |- _ => inversion F as [|? ? ? F']; subst; clear F; rename F' into F end.
  clear F.
  assert (existsb (N.eqb 58)
    [50; 48; y1; y2; 45; m1; m2; 45; d1; d2; 32; h1; h2; 58; i1; i2; 58; e1; e2] = true) as Ex.
  { apply existsb_exists. exists 58. split; [|reflexivity]. do 13 right. left. reflexivity. }
  unfold time2bcd. rewrite Ex.
  repeat (first [ rewrite filter_drop by reflexivity
                | rewrite filter_keep by (reflexivity || (apply negb_true_iff; apply digit_not_sep; assumption)) ]).
  cbn [filter].
  change (len [50; 48; y1; y2; m1; m2; d1; d2; h1; h2; i1; i2; e1; e2] =? 14) with true. cbv iota.
  cbn [skipn].
  change (N.odd (len [y1; y2; m1; m2; d1; d2; h1; h2; i1; i2; e1; e2])) with false. cbv iota.
  cbn [bcd_pairs].
  destruct (pair_digits y1 y2) as (A1 & A2 & A3); [assumption..|].
  destruct (pair_digits m1 m2) as (B1 & B2 & B3); [assumption..|].
  destruct (pair_digits d1 d2) as (C1 & C2 & C3); [assumption..|].
  destruct (pair_digits h1 h2) as (D1 & D2 & D3); [assumption..|].
  destruct (pair_digits i1 i2) as (E1 & E2 & E3); [assumption..|].
  destruct (pair_digits e1 e2) as (G1 & G2 & G3); [assumption..|].
  cbv zeta in *. split.
  - unfold bcd2time, bcd_chars. cbn [flat_map app].
    change (len [_; _; _; _; _; _] =? 6) with true. cbv iota.
    rewrite A1, A2, B1, B2, C1, C2, D1, D2, E1, E2, G1, G2. reflexivity.
  - unfold bcd6_ok. change (len [_; _; _; _; _; _] =? 6) with true. cbn [andb forallb].
    rewrite A3, B3, C3, D3, E3, G3. reflexivity.
Qed.

Lemma bcd2time_ok b : bcd6_ok b = true -> time2bcd (bcd2time b) = b /\ time_ok (bcd2time b) = true.
Proof.
  unfold bcd6_ok. intros H. apply andb_true_iff in H. destruct H as [Hl Hb].
  do 6 (destruct b as [|? b]; [discriminate Hl|]). destruct b; [|discriminate Hl].
  cbn [forallb] in Hb. repeat (apply andb_true_iff in Hb; destruct Hb as [? Hb]). clear Hb Hl.
  repeat match goal with E : bcd_byte_ok ?v = true |- _ =>
    let A := fresh "A" in let B := fresh "B" in let C := fresh "C" in
    destruct (byte_digits v E) as (A & B & C); clear E end.
  assert (T : time_ok (bcd2time [n; n0; n1; n2; n3; n4]) = true).
  { unfold bcd2time, bcd_chars. cbn [flat_map app]. change (len [_; _; _; _; _; _] =? 6) with true. cbv iota.
    cbn [time_ok forallb]. rewrite !N.eqb_refl. cbn [andb].
    repeat match goal with E : is_digit _ = true |- _ => rewrite E; clear E end. reflexivity. }
  split; [|exact T].
  destruct (time2bcd_ok _ T) as [_ _].
  (* compute time2bcd on the laid-out text exactly as in time2bcd_ok *)
  unfold bcd2time, bcd_chars. cbn [flat_map app]. change (len [_; _; _; _; _; _] =? 6) with true. cbv iota.
  assert (Ex : forall l1 l2, existsb (N.eqb 58) (l1 ++ 58 :: l2) = true).
  { intros l1 l2. apply existsb_exists. exists 58. split; [apply in_elt|reflexivity]. }
  unfold time2bcd.
  match goal with |- context[existsb (N.eqb 58) ?l] =>
    replace (existsb (N.eqb 58) l) with true
      by (symmetry; apply existsb_exists; exists 58; split; [do 13 right; left; reflexivity|reflexivity]) end.
  repeat (first [ rewrite filter_drop by reflexivity
                | rewrite filter_keep by (reflexivity || (apply negb_true_iff; apply digit_not_sep; assumption)) ]).
  cbn [filter].
  change (len [50; 48; _; _; _; _; _; _; _; _; _; _; _; _] =? 14) with true. cbv iota. cbn [skipn].
  change (N.odd (len [_; _; _; _; _; _; _; _; _; _; _; _])) with false. cbv iota. cbn [bcd_pairs].
  congruence.
Qed.

Definition bcd_time_dec (l : list N) : result (list N * list N) := '(b, r) <- take 6 l ;; Ok (bcd2time b, r).
Lemma bcd_time_rt t rest : time_ok t = true -> bcd_time_dec (time2bcd t ++ rest) = Ok (t, rest).
Proof.
  intros H. destruct (time2bcd_ok t H) as [E L]. unfold bcd_time_dec.
  rewrite take_app_n by (unfold bcd6_ok in L; lia). cbn [bind]. now rewrite E.
Qed.
Definition bcd_time : fmt (list N) :=
  {| enc := time2bcd; dec := bcd_time_dec; wf := fun t => time_ok t = true; rt := bcd_time_rt |}.
Global Instance fixed_bcd_time : fixed bcd_time 6.
Proof.
  split.
  - intros t H. destruct (time2bcd_ok t H) as [_ L]. unfold bcd6_ok in L. cbn [enc bcd_time]. lia.
  - intros l H. destruct (take_ok_len _ l H) as (a & r & E & Ha & Hr & _).
    exists (bcd2time a), r. split; [|exact Hr]. cbn [dec bcd_time]. unfold bcd_time_dec. now rewrite E.
Qed.

(* ------------------------------------------------------------------ helpers for message-level proofs *)
(* the decoder of a fixed format on the encoding of a well-formed value followed by anything *)
Lemma dec_enc_app {A} (f : fmt A) a rest : wf f a -> dec f (enc f a ++ rest) = Ok (a, rest).
Proof. apply rt. Qed.
Lemma dec_enc_nil {A} (f : fmt A) a : wf f a -> dec f (enc f a) = Ok (a, []).
Proof. intros H. rewrite <- (app_nil_r (enc f a)). now apply rt. Qed.

(* Example: P0x8003 as a pure format, byte-identical to the re-request observed from the real server *)
Example fmt_8003_example :
  enc (u16 ## cnt u16 1) (101, [2; 4; 5]) = [0; 101; 3; 0; 2; 0; 4; 0; 5] /\
  dec (u16 ## cnt u16 1) [0; 101; 3; 0; 2; 0; 4; 0; 5] = Ok ((101, [2; 4; 5]), []).
Proof. split; vm_compute; reflexivity. Qed.

(* Verified format combinators for C07 (message body round trip).

   A format [fmt A] is a plain triple: encoder, decoder, boolean domain predicate.  The round-trip LAW is the
   predicate [fmt_ok f : forall a rest, wf f a = true -> dec f (enc f a ++ rest) = Ok (a, rest)]; every
   combinator below comes with ONE lemma "[the parts are ok] -> [the composition is ok]", so the theorem of a
   message type (Proofs/Msg_*_proofs.v) is obtained by composition (tactic [fmt_ok]) and never re-proves
   anything about big-endian integers, padding, BCD or counted lists.  Keeping the law outside the record
   keeps Model/Msg_*.v definitions-only: the model runs (and is extracted) even if a proof breaks.

   Message values live in ONE universe [val] = number | byte string | tuple, which is exactly the canonical
   dump the harness prints for a Go value by reflection (declaration order; numbers in hex, strings and
   []byte as x<hex>, structs / slices / maps as (a,b,...)).  So the extracted oracle is generic: one
   printer, one reader, no per-type glue that could hide a field.

   Reading beyond the end of the body is the value [Err 1] here (a rejected body): every two-way parser
   guards its reads, and "no panic on any input" is property C03 with its own models (Model/Total_*.v);
   C07 is about the bodies Encode produces.  Guards that decide between two layouts or reject trailing bytes
   ARE mirrored (tails [tl_exact]/[tl_ignore]/[tl_rest], [msg_switch]).

   No Program / Equations / axioms. *)
From JT.Base Require Import Prelude PreludeP.
From Coq Require Import ZArith ZifyN ZifyNat ZifyBool.
Ltac Zify.zify_post_hook ::= Z.div_mod_to_equations.

(* ------------------------------------------------------------------ formats and their law *)
Record fmt (A : Type) := {
  enc : A -> list N;
  dec : list N -> result (A * list N);
  wf  : A -> bool }.
Arguments enc {A}. Arguments dec {A}. Arguments wf {A}.

Definition fmt_ok {A} (f : fmt A) : Prop :=
  forall a rest, wf f a = true -> dec f (enc f a ++ rest) = Ok (a, rest).

(* every well-formed value occupies exactly n bytes *)
Definition has_len {A} (f : fmt A) (n : N) : Prop := forall a, wf f a = true -> len (enc f a) = n.

Lemma fmt_ok_nil {A} (f : fmt A) a : fmt_ok f -> wf f a = true -> dec f (enc f a) = Ok (a, []).
Proof. intros H Hw. rewrite <- (app_nil_r (enc f a)). now apply H. Qed.

(* ------------------------------------------------------------------ checked read: a short body is rejected *)
Fixpoint split_n (n : nat) (l : list N) : option (list N * list N) :=
  match n with
  | O => Some ([], l)
  | S n' => match l with
            | [] => None
            | x :: t => match split_n n' t with Some (a, r) => Some (x :: a, r) | None => None end
            end
  end.
Definition take_e (n : N) (l : list N) : result (list N * list N) :=
  match split_n (N.to_nat n) l with Some p => Ok p | None => Err 1 end.

Lemma split_n_app a b : split_n (length a) (a ++ b) = Some (a, b).
Proof. induction a as [|x a IH]; [reflexivity|]. cbn [length app split_n]. now rewrite IH. Qed.
Lemma split_n_inv : forall n l a r, split_n n l = Some (a, r) -> l = a ++ r /\ length a = n.
Proof.
  induction n as [|n IH]; intros l a r H; cbn [split_n] in H.
  - inversion H; subst. now split.
  - destruct l as [|x t]; [discriminate H|]. destruct (split_n n t) as [[a' r']|] eqn:E; [|discriminate H].
    inversion H; subst. destruct (IH _ _ _ E) as [-> L]. split; [reflexivity|cbn [length]; now rewrite L].
Qed.
Lemma split_n_short : forall n l, (length l < n)%nat -> split_n n l = None.
Proof.
  induction n as [|n IH]; intros l H; [lia|]. destruct l as [|x t]; [reflexivity|]. cbn [split_n length] in *.
  rewrite IH by lia. reflexivity.
Qed.

Lemma take_e_app a b : take_e (len a) (a ++ b) = Ok (a, b).
Proof. unfold take_e, len. now rewrite Nat2N.id, split_n_app. Qed.
Lemma take_e_app_n n a b : len a = n -> take_e n (a ++ b) = Ok (a, b).
Proof. intros <-. apply take_e_app. Qed.
Lemma take_e_short n l : len l < n -> take_e n l = Err 1.
Proof. intros H. unfold take_e. rewrite split_n_short by (unfold len in H; lia). reflexivity. Qed.
Lemma take_e_inv n l a r : take_e n l = Ok (a, r) -> l = a ++ r /\ len a = n.
Proof.
  unfold take_e. destruct (split_n (N.to_nat n) l) as [[a' r']|] eqn:E; [|discriminate]. intros H. inversion H; subst.
  destruct (split_n_inv _ _ _ _ E) as [-> L]. split; [reflexivity|unfold len; lia].
Qed.

Lemma len_repeat {A} (x : A) n : len (repeat x n) = N.of_nat n.
Proof. unfold len. now rewrite repeat_length. Qed.

(* ------------------------------------------------------------------ big-endian unsigned, n bytes *)
Definition ube (n : nat) : fmt N := {|
  enc := be_enc n;
  dec := fun l => '(b, r) <- take_e (N.of_nat n) l ;; Ok (be_dec b, r);
  wf := fun a => a <? 256 ^ N.of_nat n |}.
Lemma ube_ok n : fmt_ok (ube n).
Proof.
  intros a rest H. cbn [enc dec wf ube] in *. rewrite take_e_app_n by apply be_enc_len. cbn [bind].
  apply N.ltb_lt in H. rewrite be_dec_enc by exact H. reflexivity.
Qed.
Lemma ube_len n : has_len (ube n) (N.of_nat n).
Proof. intros a _. apply be_enc_len. Qed.

(* ------------------------------------------------------------------ n raw bytes *)
Definition bytes_n (n : N) : fmt (list N) := {|
  enc := fun a => a;
  dec := take_e n;
  wf := fun a => len a =? n |}.
Lemma bytes_n_ok n : fmt_ok (bytes_n n).
Proof. intros a rest H. cbn [enc dec wf bytes_n] in *. apply take_e_app_n. lia. Qed.
Lemma bytes_n_len n : has_len (bytes_n n) n.
Proof. intros a H. cbn [enc wf bytes_n] in *. lia. Qed.

(* ------------------------------------------------------------------ fixed-width NUL-padded strings *)
(* utils.String2FillingBytes: pad with NUL on the right, cut when too long *)
Definition fill (s : list N) (n : N) : list N :=
  if len s <? n then s ++ repeat 0 (N.to_nat (n - len s)) else firstn (N.to_nat n) s.
(* a digit string left-padded with '0' to n characters (how a phone number is written back into BCD) *)
Definition pad_zeros (n : N) (s : list N) : list N := repeat 48 (N.to_nat (n - len s)) ++ s.
(* bytes.TrimRight(b, "\x00") *)
Fixpoint trim_right0 (l : list N) : list N :=
  match l with
  | [] => []
  | c :: t => match trim_right0 t with
              | [] => if c =? 0 then [] else [c]
              | t' => c :: t'
              end
  end.
(* bytes.TrimLeft / bytes.Trim(b, "\x00") *)
Fixpoint trim_left0 (l : list N) : list N :=
  match l with [] => [] | c :: t => if c =? 0 then trim_left0 t else l end.
Definition trim0 (l : list N) : list N := trim_right0 (trim_left0 l).
(* if i := bytes.IndexByte(b, 0); i != -1 { b = b[:i] } *)
Fixpoint cut0 (l : list N) : list N :=
  match l with [] => [] | c :: t => if c =? 0 then [] else c :: cut0 t end.

(* "no trailing NUL": the last byte, if any, is not 0; "no leading NUL"; "no NUL at all" *)
Definition no_trail0 (s : list N) : bool := negb (last s 1 =? 0).
Definition no_lead0 (s : list N) : bool := negb (hd 1 s =? 0).
Definition no_nul (s : list N) : bool := forallb (fun c => negb (c =? 0)) s.

Lemma fill_len s n : len (fill s n) = n.
Proof.
  unfold fill. destruct (len s <? n) eqn:E.
  - rewrite len_app, len_repeat. lia.
  - unfold len in *. rewrite firstn_length. lia.
Qed.
Lemma fill_fits s n : len s <= n -> fill s n = s ++ repeat 0 (N.to_nat (n - len s)).
Proof.
  intros H. unfold fill. destruct (len s <? n) eqn:E; auto.
  assert (len s = n) as <- by lia. rewrite N.sub_diag. cbn [N.to_nat repeat].
  unfold len. rewrite Nat2N.id, firstn_all. now rewrite app_nil_r.
Qed.
Lemma fill_exact s : fill s (len s) = s.
Proof. rewrite fill_fits by lia. rewrite N.sub_diag. cbn [N.to_nat repeat]. apply app_nil_r. Qed.

Lemma trim_right0_zeros k : trim_right0 (repeat 0 k) = [].
Proof. induction k as [|k IH]; cbn [repeat trim_right0]; auto. now rewrite IH. Qed.
Lemma trim_right0_app_zeros s k : trim_right0 (s ++ repeat 0 k) = trim_right0 s.
Proof.
  induction s as [|c s IH]; cbn [app trim_right0].
  - apply trim_right0_zeros.
  - now rewrite IH.
Qed.
Lemma trim_right0_id s : no_trail0 s = true -> trim_right0 s = s.
Proof.
  unfold no_trail0. induction s as [|c s IH]; intros H; cbn [trim_right0]; auto.
  destruct s as [|d s].
  - cbn [trim_right0]. cbn [last] in H. destruct (c =? 0) eqn:E; [discriminate H|reflexivity].
  - rewrite IH by exact H. reflexivity.
Qed.
Lemma trim_left0_id s : no_lead0 s = true -> trim_left0 s = s.
Proof.
  unfold no_lead0. destruct s as [|c s]; cbn [trim_left0 hd]; auto. intros H.
  destruct (c =? 0) eqn:E; [discriminate H|auto].
Qed.
Lemma trim_left0_zeros k : trim_left0 (repeat 0 k) = [].
Proof. induction k as [|k IH]; cbn [repeat trim_left0]; auto. Qed.
Lemma trim_left0_app_zeros s k : s <> [] -> no_lead0 s = true -> trim_left0 (s ++ repeat 0 k) = s ++ repeat 0 k.
Proof.
  destruct s as [|c s]; [congruence|]. unfold no_lead0. cbn [app trim_left0 hd]. intros _ H.
  destruct (c =? 0) eqn:E; [discriminate H|auto].
Qed.
Lemma cut0_zeros k : cut0 (repeat 0 k) = [].
Proof. destruct k; reflexivity. Qed.
Lemma cut0_app_zeros s k : no_nul s = true -> cut0 (s ++ repeat 0 k) = s.
Proof.
  induction s as [|c s IH]; cbn [app cut0 no_nul forallb]; intros H.
  - apply cut0_zeros.
  - apply andb_true_iff in H. destruct H as [Hc Hs]. destruct (c =? 0); [discriminate Hc|].
    now rewrite IH.
Qed.

(* field read with bytes.TrimRight *)
Definition str_pad (n : N) : fmt (list N) := {|
  enc := fun s => fill s n;
  dec := fun l => '(b, r) <- take_e n l ;; Ok (trim_right0 b, r);
  wf := fun s => (len s <=? n) && no_trail0 s |}.
Lemma str_pad_ok n : fmt_ok (str_pad n).
Proof.
  intros s rest H. cbn [enc dec wf str_pad] in *. apply andb_true_iff in H. destruct H as [Hl Ht].
  rewrite take_e_app_n by apply fill_len. cbn [bind].
  rewrite fill_fits by lia. rewrite trim_right0_app_zeros, trim_right0_id by exact Ht. reflexivity.
Qed.
Lemma str_pad_len n : has_len (str_pad n) n.
Proof. intros a _. apply fill_len. Qed.

(* the same field read with bytes.Trim (both sides): the domain loses the strings that begin with NUL *)
Definition str_pad2 (n : N) : fmt (list N) := {|
  enc := fun s => fill s n;
  dec := fun l => '(b, r) <- take_e n l ;; Ok (trim0 b, r);
  wf := fun s => (len s <=? n) && no_trail0 s && no_lead0 s |}.
Lemma str_pad2_ok n : fmt_ok (str_pad2 n).
Proof.
  intros s rest H. cbn [enc dec wf str_pad2] in *.
  apply andb_true_iff in H. destruct H as [H Hh]. apply andb_true_iff in H. destruct H as [Hl Ht].
  rewrite take_e_app_n by apply fill_len. cbn [bind].
  rewrite fill_fits by lia. unfold trim0. destruct s as [|c s].
  - cbn [app]. rewrite trim_left0_zeros. reflexivity.
  - rewrite trim_left0_app_zeros by (congruence || exact Hh).
    rewrite trim_right0_app_zeros, trim_right0_id by exact Ht. reflexivity.
Qed.
Lemma str_pad2_len n : has_len (str_pad2 n) n.
Proof. intros a _. apply fill_len. Qed.

(* the same field cut at the first NUL (0x0102 software version) *)
Definition str_cut0 (n : N) : fmt (list N) := {|
  enc := fun s => fill s n;
  dec := fun l => '(b, r) <- take_e n l ;; Ok (cut0 b, r);
  wf := fun s => (len s <=? n) && no_nul s |}.
Lemma str_cut0_ok n : fmt_ok (str_cut0 n).
Proof.
  intros s rest H. cbn [enc dec wf str_cut0] in *. apply andb_true_iff in H. destruct H as [Hl Ht].
  rewrite take_e_app_n by apply fill_len. cbn [bind].
  rewrite fill_fits by lia. rewrite cut0_app_zeros by exact Ht. reflexivity.
Qed.
Lemma str_cut0_len n : has_len (str_cut0 n) n.
Proof. intros a _. apply fill_len. Qed.

(* ------------------------------------------------------------------ BCD timestamps (utils.Time2BCD / utils.BCD2Time) *)
(* Text is a list of character codes.  Time2BCD: when the text contains ':' the characters '-', ':' and ' '
   are removed and a 14-character result loses its first two; an odd length gets a leading '0'; then each pair
   of characters c1 c2 becomes the byte ((c1-'0')<<4)|(c2-'0') in uint8 arithmetic. *)
Definition is_sep (c : N) : bool := (c =? 45) || (c =? 58) || (c =? 32).
Definition sub48 (c : N) : N := (c + 208) mod 256.
Fixpoint bcd_pairs (l : list N) : list N :=
  match l with
  | a :: b :: t => N.lor ((sub48 a * 16) mod 256) (sub48 b) :: bcd_pairs t
  | _ => []
  end.
Definition time2bcd (t : list N) : list N :=
  let t1 := if existsb (N.eqb 58) t
            then (let s := filter (fun c => negb (is_sep c)) t in if len s =? 14 then skipn 2 s else s)
            else t in
  let t2 := if N.odd (len t1) then 48 :: t1 else t1 in
  bcd_pairs t2.

(* BCD2Time: two characters per byte, (v>>4)+'0' and (v&15)+'0'; exactly six bytes are laid out as
   "20YY-MM-DD hh:mm:ss" *)
Definition bcd_chars (b : list N) : list N := flat_map (fun v => [v / 16 + 48; v mod 16 + 48]) b.
Definition bcd2time (b : list N) : list N :=
  match bcd_chars b with
  | [a0; a1; a2; a3; a4; a5; a6; a7; a8; a9; a10; a11] =>
      if len b =? 6 then [50; 48; a0; a1; 45; a2; a3; 45; a4; a5; 32; a6; a7; 58; a8; a9; 58; a10; a11]
      else bcd_chars b
  | r => r
  end.

Definition is_digit (c : N) : bool := (48 <=? c) && (c <=? 57).
(* "20YY-MM-DD hh:mm:ss" with decimal digits: what a 6-byte BCD field can carry *)
Definition time_ok (t : list N) : bool :=
  match t with
  | [c0; c1; y1; y2; s1; m1; m2; s2; d1; d2; s3; h1; h2; s4; i1; i2; s5; e1; e2] =>
      (c0 =? 50) && (c1 =? 48) && (s1 =? 45) && (s2 =? 45) && (s3 =? 32) && (s4 =? 58) && (s5 =? 58) &&
      forallb is_digit [y1; y2; m1; m2; d1; d2; h1; h2; i1; i2; e1; e2]
  | _ => false
  end.
(* six bytes whose nibbles are decimal digits *)
Definition bcd_byte_ok (v : N) : bool := (v / 16 <? 10) && (v mod 16 <? 10) && (v <? 256).
Definition bcd6_ok (b : list N) : bool := (len b =? 6) && forallb bcd_byte_ok b.

Lemma pair_digits_sweep :
  forallb (fun a => forallb (fun b =>
    negb (is_digit a && is_digit b) ||
    (let v := N.lor ((sub48 a * 16) mod 256) (sub48 b) in
     (v / 16 + 48 =? a) && (v mod 16 + 48 =? b) && bcd_byte_ok v)) (nrange 58)) (nrange 58) = true.
Proof. vm_compute. reflexivity. Qed.

Lemma pair_digits a b : is_digit a = true -> is_digit b = true ->
  let v := N.lor ((sub48 a * 16) mod 256) (sub48 b) in
  v / 16 + 48 = a /\ v mod 16 + 48 = b /\ bcd_byte_ok v = true.
Proof.
  intros Ha Hb. assert (a < 58 /\ b < 58) as [La Lb] by (unfold is_digit in *; lia).
  pose proof (sweep 58 _ pair_digits_sweep a La) as H1. cbv beta in H1.
  pose proof (sweep 58 _ H1 b Lb) as H2. cbv beta in H2. rewrite Ha, Hb in H2. cbn [andb negb orb] in H2.
  cbv zeta in *. apply andb_true_iff in H2. destruct H2 as [H2 H3]. apply andb_true_iff in H2. destruct H2 as [H2 H4].
  apply N.eqb_eq in H2, H4. auto.
Qed.

Lemma byte_digits_sweep :
  forallb (fun v => negb (bcd_byte_ok v) ||
    (is_digit (v / 16 + 48) && is_digit (v mod 16 + 48) &&
     (N.lor ((sub48 (v / 16 + 48) * 16) mod 256) (sub48 (v mod 16 + 48)) =? v))) (nrange 256) = true.
Proof. vm_compute. reflexivity. Qed.

Lemma byte_digits v : bcd_byte_ok v = true ->
  is_digit (v / 16 + 48) = true /\ is_digit (v mod 16 + 48) = true /\
  N.lor ((sub48 (v / 16 + 48) * 16) mod 256) (sub48 (v mod 16 + 48)) = v.
Proof.
  intros H. assert (v < 256) as L by (unfold bcd_byte_ok in H; lia).
  pose proof (byte_sweep _ byte_digits_sweep v L) as H1. cbv beta in H1. rewrite H in H1.
  cbn [negb orb] in H1. apply andb_true_iff in H1. destruct H1 as [H1 H3]. apply andb_true_iff in H1. destruct H1 as [H1 H2].
  apply N.eqb_eq in H3. auto.
Qed.

Lemma digit_not_sep c : is_digit c = true -> is_sep c = false /\ (58 =? c) = false.
Proof. unfold is_digit, is_sep. lia. Qed.

Lemma filter_keep {A} (p : A -> bool) x l : p x = true -> filter p (x :: l) = x :: filter p l.
Proof. intros H. cbn [filter]. now rewrite H. Qed.
Lemma filter_drop {A} (p : A -> bool) x l : p x = false -> filter p (x :: l) = filter p l.
Proof. intros H. cbn [filter]. now rewrite H. Qed.

Ltac time_destruct t H :=
  do 19 (destruct t as [|? t]; [discriminate H|]); destruct t; [|discriminate H].

Lemma time_ok_shape t : time_ok t = true -> exists y1 y2 m1 m2 d1 d2 h1 h2 i1 i2 e1 e2,
  t = [50; 48; y1; y2; 45; m1; m2; 45; d1; d2; 32; h1; h2; 58; i1; i2; 58; e1; e2] /\
  Forall (fun c => is_digit c = true) [y1; y2; m1; m2; d1; d2; h1; h2; i1; i2; e1; e2].
Proof.
  intros H. time_destruct t H. cbn [time_ok] in H.
  repeat (apply andb_true_iff in H; destruct H as [H ?]).
  repeat match goal with E : (_ =? _) = true |- _ => apply N.eqb_eq in E; subst end.
  do 12 eexists. split; [reflexivity|].
  match goal with E : forallb _ _ = true |- _ => rewrite forallb_forall in E; apply Forall_forall; exact E end.
Qed.

(* the text laid out from twelve decimal digits packs to the six bytes of its digit pairs *)
Lemma time2bcd_layout y1 y2 m1 m2 d1 d2 h1 h2 i1 i2 e1 e2 :
  Forall (fun c => is_digit c = true) [y1; y2; m1; m2; d1; d2; h1; h2; i1; i2; e1; e2] ->
  time2bcd [50; 48; y1; y2; 45; m1; m2; 45; d1; d2; 32; h1; h2; 58; i1; i2; 58; e1; e2] =
  bcd_pairs [y1; y2; m1; m2; d1; d2; h1; h2; i1; i2; e1; e2].
Proof.
  intros F.
  repeat match goal with F : Forall _ (_ :: _) |- _ => inversion F as [|? ? ? F']; subst; clear F; rename F' into F end.
  clear F.
  assert (existsb (N.eqb 58)
    [50; 48; y1; y2; 45; m1; m2; 45; d1; d2; 32; h1; h2; 58; i1; i2; 58; e1; e2] = true) as Ex.
  { apply existsb_exists. exists 58. split; [|reflexivity]. do 13 right. left. reflexivity. }
  unfold time2bcd. rewrite Ex.
  repeat (first [ rewrite filter_drop by reflexivity
                | rewrite filter_keep by (reflexivity || (apply negb_true_iff; apply digit_not_sep; assumption)) ]).
  cbn [filter].
  change (len [50; 48; y1; y2; m1; m2; d1; d2; h1; h2; i1; i2; e1; e2] =? 14) with true. cbv iota.
  cbn [skipn].
  change (N.odd (len [y1; y2; m1; m2; d1; d2; h1; h2; i1; i2; e1; e2])) with false. cbv iota.
  reflexivity.
Qed.

Lemma time2bcd_ok t : time_ok t = true ->
  bcd2time (time2bcd t) = t /\ bcd6_ok (time2bcd t) = true.
Proof.
  intros H. destruct (time_ok_shape t H) as (y1 & y2 & m1 & m2 & d1 & d2 & h1 & h2 & i1 & i2 & e1 & e2 & -> & F).
  rewrite time2bcd_layout by exact F.
  repeat match goal with F : Forall _ (_ :: _) |- _ => inversion F as [|? ? ? F']; subst; clear F; rename F' into F end.
  clear F. cbn [bcd_pairs].
  destruct (pair_digits y1 y2) as (A1 & A2 & A3); [assumption..|].
  destruct (pair_digits m1 m2) as (B1 & B2 & B3); [assumption..|].
  destruct (pair_digits d1 d2) as (C1 & C2 & C3); [assumption..|].
  destruct (pair_digits h1 h2) as (D1 & D2 & D3); [assumption..|].
  destruct (pair_digits i1 i2) as (E1 & E2 & E3); [assumption..|].
  destruct (pair_digits e1 e2) as (G1 & G2 & G3); [assumption..|].
  cbv zeta in *. split.
  - unfold bcd2time, bcd_chars. cbn [flat_map app].
    change (len [_; _; _; _; _; _] =? 6) with true. cbv iota.
    rewrite A1, A2, B1, B2, C1, C2, D1, D2, E1, E2, G1, G2. reflexivity.
  - unfold bcd6_ok. change (len [_; _; _; _; _; _] =? 6) with true. cbn [andb forallb].
    rewrite A3, B3, C3, D3, E3, G3. reflexivity.
Qed.

Lemma len6_shape (b : list N) : (len b =? 6) = true -> exists b0 b1 b2 b3 b4 b5, b = [b0; b1; b2; b3; b4; b5].
Proof.
  intros H. apply N.eqb_eq in H. unfold len in H. assert (length b = 6%nat) as L by lia. clear H.
  do 6 (destruct b as [|? b]; [discriminate L|]). destruct b; [|discriminate L].
  do 6 eexists. reflexivity.
Qed.

(* the other direction: six bytes of decimal nibbles survive BCD2Time then Time2BCD *)
Lemma bcd2time_ok b : bcd6_ok b = true -> time2bcd (bcd2time b) = b /\ time_ok (bcd2time b) = true.
Proof.
  unfold bcd6_ok. intros H. apply andb_true_iff in H. destruct H as [Hl Hb].
  destruct (len6_shape b Hl) as (b0 & b1 & b2 & b3 & b4 & b5 & ->). clear Hl.
  cbn [forallb] in Hb. repeat (apply andb_true_iff in Hb; destruct Hb as [? Hb]). clear Hb.
  destruct (byte_digits b0) as (P0 & Q0 & R0); [assumption|].
  destruct (byte_digits b1) as (P1 & Q1 & R1); [assumption|].
  destruct (byte_digits b2) as (P2 & Q2 & R2); [assumption|].
  destruct (byte_digits b3) as (P3 & Q3 & R3); [assumption|].
  destruct (byte_digits b4) as (P4 & Q4 & R4); [assumption|].
  destruct (byte_digits b5) as (P5 & Q5 & R5); [assumption|].
  unfold bcd2time, bcd_chars. cbn [flat_map app]. change (len [_; _; _; _; _; _] =? 6) with true. cbv iota.
  split.
  - rewrite time2bcd_layout by (repeat constructor; assumption).
    cbn [bcd_pairs]. rewrite R0, R1, R2, R3, R4, R5. reflexivity.
  - cbn [time_ok forallb]. rewrite !N.eqb_refl. cbn [andb].
    rewrite P0, Q0, P1, Q1, P2, Q2, P3, Q3, P4, Q4, P5, Q5. reflexivity.
Qed.

Definition bcd_time : fmt (list N) := {|
  enc := time2bcd;
  dec := fun l => '(b, r) <- take_e 6 l ;; Ok (bcd2time b, r);
  wf := time_ok |}.
Lemma bcd_time_ok : fmt_ok bcd_time.
Proof.
  intros t rest H. cbn [enc dec wf bcd_time] in *. destruct (time2bcd_ok t H) as [E L].
  rewrite take_e_app_n by (unfold bcd6_ok in L; lia). cbn [bind]. now rewrite E.
Qed.
Lemma bcd_time_len : has_len bcd_time 6.
Proof. intros t H. cbn [enc wf bcd_time] in *. destruct (time2bcd_ok t H) as [_ L]. unfold bcd6_ok in L. lia. Qed.

(* ------------------------------------------------------------------ exactly k items *)
Section Rep.
Context {A : Type} (f : fmt A).
Fixpoint rep_dec (k : nat) (l : list N) : result (list A * list N) :=
  match k with
  | O => Ok ([], l)
  | S k' => '(a, r) <- dec f l ;; '(t, r') <- rep_dec k' r ;; Ok (a :: t, r')
  end.
Definition rep_enc (l : list A) : list N := flat_map (enc f) l.
Lemma rep_rt : fmt_ok f -> forall (l : list A) rest, forallb (wf f) l = true ->
  rep_dec (length l) (rep_enc l ++ rest) = Ok (l, rest).
Proof.
  intros Hf. induction l as [|a l IH]; intros rest H; [reflexivity|].
  cbn [forallb] in H. apply andb_true_iff in H. destruct H as [Ha Hl].
  cbn [length rep_dec rep_enc flat_map]. rewrite <- app_assoc.
  rewrite (Hf a) by assumption. cbn [bind]. unfold rep_enc in IH. rewrite IH by assumption. reflexivity.
Qed.
Lemma rep_enc_len n : has_len f n -> forall l, forallb (wf f) l = true -> len (rep_enc l) = len l * n.
Proof.
  intros Hn. induction l as [|a l IH]; intros H; [reflexivity|].
  cbn [forallb] in H. apply andb_true_iff in H. destruct H as [Ha Hl].
  cbn [rep_enc flat_map]. rewrite len_app, len_cons, (Hn a Ha). unfold rep_enc in IH. rewrite IH by assumption. lia.
Qed.
End Rep.

(* ================================================================== the value universe *)
Inductive val := VN (n : N) | VB (b : list N) | VL (l : list val).

Definition vN (f : fmt N) : fmt val := {|
  enc := fun v => match v with VN a => enc f a | _ => [] end;
  dec := fun l => '(a, r) <- dec f l ;; Ok (VN a, r);
  wf := fun v => match v with VN a => wf f a | _ => false end |}.
Lemma vN_ok f : fmt_ok f -> fmt_ok (vN f).
Proof.
  intros Hf [a|b|l] rest H; cbn [enc dec wf vN] in *; try discriminate H.
  rewrite (Hf a) by exact H. reflexivity.
Qed.
Lemma vN_len f n : has_len f n -> has_len (vN f) n.
Proof. intros Hf [a|b|l] H; cbn [enc wf vN] in *; try discriminate H. now apply Hf. Qed.

Definition vB (f : fmt (list N)) : fmt val := {|
  enc := fun v => match v with VB a => enc f a | _ => [] end;
  dec := fun l => '(a, r) <- dec f l ;; Ok (VB a, r);
  wf := fun v => match v with VB a => wf f a | _ => false end |}.
Lemma vB_ok f : fmt_ok f -> fmt_ok (vB f).
Proof.
  intros Hf [a|b|l] rest H; cbn [enc dec wf vB] in *; try discriminate H.
  rewrite (Hf b) by exact H. reflexivity.
Qed.
Lemma vB_len f n : has_len f n -> has_len (vB f) n.
Proof. intros Hf [a|b|l] H; cbn [enc wf vB] in *; try discriminate H. now apply Hf. Qed.

(* the leaves used by the message models *)
Definition vu8 : fmt val := vN (ube 1).
Definition vu16 : fmt val := vN (ube 2).
Definition vu32 : fmt val := vN (ube 4).
Definition vu64 : fmt val := vN (ube 8).
Definition vbytes (n : N) : fmt val := vB (bytes_n n).
Definition vpad (n : N) : fmt val := vB (str_pad n).
Definition vpad2 (n : N) : fmt val := vB (str_pad2 n).
Definition vcut0 (n : N) : fmt val := vB (str_cut0 n).
Definition vtime : fmt val := vB bcd_time.

(* decidable equality on values (for constant and derived fields) *)
Fixpoint val_eqb (a b : val) : bool :=
  match a, b with
  | VN x, VN y => x =? y
  | VB x, VB y => list_eqb x y
  | VL x, VL y =>
      (fix go (x y : list val) : bool :=
         match x, y with
         | [], [] => true
         | u :: x', w :: y' => val_eqb u w && go x' y'
         | _, _ => false
         end) x y
  | _, _ => false
  end.
Definition vals_eqb : list val -> list val -> bool :=
  fix go (x y : list val) : bool :=
    match x, y with
    | [], [] => true
    | u :: x', w :: y' => val_eqb u w && go x' y'
    | _, _ => false
    end.

Lemma val_eqb_eq : forall a b, val_eqb a b = true -> a = b.
Proof.
  fix IH 1. intros [x|x|x] [y|y|y] H; cbn [val_eqb] in H; try discriminate H.
  - apply N.eqb_eq in H. now subst.
  - apply list_eqb_spec in H. now subst.
  - f_equal. revert y H. induction x as [|u x IHx]; intros [|w y] H; try discriminate H; auto.
    apply andb_true_iff in H. destruct H as [H1 H2]. f_equal; [apply IH, H1 | apply IHx, H2].
Qed.
Lemma vals_eqb_eq : forall x y, vals_eqb x y = true -> x = y.
Proof.
  induction x as [|u x IHx]; intros [|w y] H; cbn [vals_eqb] in H; try discriminate H; auto.
  apply andb_true_iff in H. destruct H as [H1 H2]. f_equal; [apply val_eqb_eq, H1 | apply IHx, H2].
Qed.

(* a field that is not on the wire: its value is a function of nothing (constant) *)
Definition vconst (c : val) : fmt val := {|
  enc := fun _ => [];
  dec := fun l => Ok (c, l);
  wf := fun v => val_eqb v c |}.
Lemma vconst_ok c : fmt_ok (vconst c).
Proof. intros v rest H. cbn [enc dec wf vconst] in *. apply val_eqb_eq in H. now subst. Qed.
Lemma vconst_len c : has_len (vconst c) 0.
Proof. intros v _. reflexivity. Qed.

(* a format whose decoded value must also pass a test (a parser that rejects, or a model that does not cover, the
   other values: Err 7) *)
Definition vcheck (p : val -> bool) (f : fmt val) : fmt val := {|
  enc := enc f;
  dec := fun l => '(v, r) <- dec f l ;; if p v then Ok (v, r) else Err 7;
  wf := fun v => wf f v && p v |}.
Lemma vcheck_ok p f : fmt_ok f -> fmt_ok (vcheck p f).
Proof.
  intros Hf v rest H. cbn [enc dec wf vcheck] in *. apply andb_true_iff in H. destruct H as [H1 H2].
  rewrite (Hf v) by exact H1. cbn [bind]. now rewrite H2.
Qed.
Lemma vcheck_len p f n : has_len f n -> has_len (vcheck p f) n.
Proof. intros Hf v H. cbn [enc wf vcheck] in *. apply andb_true_iff in H. now apply Hf. Qed.

(* exactly k items of one format, as a tuple *)
Definition vrep (k : N) (f : fmt val) : fmt val := {|
  enc := fun v => match v with VL l => rep_enc f l | _ => [] end;
  dec := fun l => '(vs, r) <- rep_dec f (N.to_nat k) l ;; Ok (VL vs, r);
  wf := fun v => match v with VL l => (len l =? k) && forallb (wf f) l | _ => false end |}.
Lemma vrep_ok k f : fmt_ok f -> fmt_ok (vrep k f).
Proof.
  intros Hf [a|b|l] rest H; cbn [enc dec wf vrep] in *; try discriminate H.
  apply andb_true_iff in H. destruct H as [Hk Hl]. apply N.eqb_eq in Hk. subst k.
  unfold len. rewrite Nat2N.id. rewrite rep_rt by assumption. reflexivity.
Qed.
Lemma vrep_len k f n : has_len f n -> has_len (vrep k f) (k * n).
Proof.
  intros Hf [a|b|l] H; cbn [enc wf vrep] in *; try discriminate H.
  apply andb_true_iff in H. destruct H as [Hk Hl]. apply N.eqb_eq in Hk. subst k. now apply rep_enc_len.
Qed.

(* the same with a count too large to unfold blindly (a DWORD count): the Go parsers compare
   count * item width with the body length first, so does this decoder *)
Definition vrep_w (k w : N) (f : fmt val) : fmt val := {|
  enc := enc (vrep k f);
  dec := fun l => if k * w <=? len l then dec (vrep k f) l else Err 1;
  wf := wf (vrep k f) |}.
Lemma vrep_w_ok k w f : fmt_ok f -> has_len f w -> fmt_ok (vrep_w k w f).
Proof.
  intros Hf Hw v rest H. cbn [enc dec wf vrep_w] in *.
  pose proof (vrep_len k f w Hw v H) as L. rewrite len_app, L.
  replace (k * w <=? k * w + len rest) with true by lia. now apply vrep_ok.
Qed.
Lemma vrep_w_len k w f : has_len f w -> has_len (vrep_w k w f) (k * w).
Proof. intros Hf v H. now apply (vrep_len k f w Hf). Qed.

(* ------------------------------------------------------------------ tuples whose later fields may depend on earlier ones *)
Definition field := list val -> fmt val.

Fixpoint ps_enc (fs : list field) (acc vs : list val) : list N :=
  match fs, vs with
  | f :: fs', v :: vs' => enc (f acc) v ++ ps_enc fs' (acc ++ [v]) vs'
  | _, _ => []
  end.
Fixpoint ps_dec (fs : list field) (acc : list val) (l : list N) : result (list val * list N) :=
  match fs with
  | [] => Ok ([], l)
  | f :: fs' => '(v, r) <- dec (f acc) l ;; '(vs, r') <- ps_dec fs' (acc ++ [v]) r ;; Ok (v :: vs, r')
  end.
Fixpoint ps_wf (fs : list field) (acc vs : list val) : bool :=
  match fs, vs with
  | [], [] => true
  | f :: fs', v :: vs' => wf (f acc) v && ps_wf fs' (acc ++ [v]) vs'
  | _, _ => false
  end.

Definition fields_ok (fs : list field) : Prop := Forall (fun f => forall acc, fmt_ok (f acc)) fs.
Lemma fields_ok_nil : fields_ok []. Proof. constructor. Qed.
Lemma fields_ok_cons f fs : (forall acc, fmt_ok (f acc)) -> fields_ok fs -> fields_ok (f :: fs).
Proof. intros H1 H2. constructor; assumption. Qed.

Lemma ps_rt fs : fields_ok fs -> forall acc vs rest, ps_wf fs acc vs = true ->
  ps_dec fs acc (ps_enc fs acc vs ++ rest) = Ok (vs, rest).
Proof.
  induction 1 as [|f fs Hf _ IH]; intros acc vs rest H.
  - destruct vs; [reflexivity|discriminate H].
  - destruct vs as [|v vs]; [discriminate H|]. cbn [ps_wf] in H. apply andb_true_iff in H. destruct H as [Hv Hvs].
    cbn [ps_enc ps_dec]. rewrite <- app_assoc. rewrite (Hf acc v) by exact Hv. cbn [bind].
    rewrite IH by exact Hvs. reflexivity.
Qed.
Lemma ps_wf_length fs : forall acc vs, ps_wf fs acc vs = true -> length vs = length fs.
Proof.
  induction fs as [|f fs IH]; intros acc [|v vs] H; try discriminate H; auto.
  cbn [ps_wf] in H. apply andb_true_iff in H. destruct H as [_ H]. cbn [length]. f_equal. eapply IH, H.
Qed.

(* widths of a tuple whose fields have fixed widths *)
Definition fields_len (fs : list field) (ws : list N) : Prop :=
  Forall2 (fun f w => forall acc, has_len (f acc) w) fs ws.
Definition nsum (ws : list N) : N := fold_right N.add 0 ws.
Lemma ps_len fs ws : fields_len fs ws -> forall acc vs, ps_wf fs acc vs = true -> len (ps_enc fs acc vs) = nsum ws.
Proof.
  induction 1 as [|f w fs ws Hf _ IH]; intros acc vs H.
  - destruct vs; [reflexivity|discriminate H].
  - destruct vs as [|v vs]; [discriminate H|]. cbn [ps_wf] in H. apply andb_true_iff in H. destruct H as [Hv Hvs].
    cbn [ps_enc nsum fold_right]. rewrite len_app, (Hf acc v Hv). f_equal. apply IH, Hvs.
Qed.

(* the i-th earlier field as a number (0 when it is not one) *)
Definition accN (acc : list val) (i : nat) : N := match nth i acc (VN 0) with VN a => a | _ => 0 end.

Definition vstruct (fs : list field) : fmt val := {|
  enc := fun v => match v with VL vs => ps_enc fs [] vs | _ => [] end;
  dec := fun l => '(vs, r) <- ps_dec fs [] l ;; Ok (VL vs, r);
  wf := fun v => match v with VL vs => ps_wf fs [] vs | _ => false end |}.
Lemma vstruct_ok fs : fields_ok fs -> fmt_ok (vstruct fs).
Proof.
  intros Hf [a|b|l] rest H; cbn [enc dec wf vstruct] in *; try discriminate H.
  rewrite ps_rt by assumption. reflexivity.
Qed.
Lemma vstruct_len fs ws : fields_len fs ws -> has_len (vstruct fs) (nsum ws).
Proof. intros Hf [a|b|l] H; cbn [enc wf vstruct] in *; try discriminate H. now apply (ps_len fs ws). Qed.

(* ------------------------------------------------------------------ tails: what a parser does with the bytes after the last field *)
Record tail := {
  tl_enc : list val -> list N;
  tl_dec : list N -> result (list val);
  tl_wf  : list val -> bool }.
Definition tail_ok (t : tail) : Prop := forall vs, tl_wf t vs = true -> tl_dec t (tl_enc t vs) = Ok vs.

(* `if len(body) != N` : nothing may follow (Err 2 = trailing bytes) *)
Definition tl_exact : tail := {|
  tl_enc := fun _ => [];
  tl_dec := fun l => match l with [] => Ok [] | _ => Err 2 end;
  tl_wf := fun vs => match vs with [] => true | _ => false end |}.
Lemma tl_exact_ok : tail_ok tl_exact.
Proof. intros [|v vs] H; [reflexivity|discriminate H]. Qed.

(* `if len(body) < N` only: whatever follows is ignored *)
Definition tl_ignore : tail := {|
  tl_enc := fun _ => [];
  tl_dec := fun _ => Ok [];
  tl_wf := fun vs => match vs with [] => true | _ => false end |}.
Lemma tl_ignore_ok : tail_ok tl_ignore.
Proof. intros [|v vs] H; [reflexivity|discriminate H]. Qed.

(* the remaining bytes, converted by an (external) codec pair, are one last byte-string field:
   body[k:] with the identity, GBK2UTF8(body[k:]) / UTF82GBK(text) with the GBK codec *)
Definition tl_conv (cenc cdec : list N -> list N) (cdom : list N -> bool) : tail := {|
  tl_enc := fun vs => match vs with [VB s] => cenc s | _ => [] end;
  tl_dec := fun l => Ok [VB (cdec l)];
  tl_wf := fun vs => match vs with [VB s] => cdom s | _ => false end |}.
Definition codec_ok (cenc cdec : list N -> list N) (cdom : list N -> bool) : Prop :=
  forall s, cdom s = true -> cdec (cenc s) = s.
Lemma tl_conv_ok cenc cdec cdom : codec_ok cenc cdec cdom -> tail_ok (tl_conv cenc cdec cdom).
Proof.
  intros Hc vs H. cbn [tl_enc tl_dec tl_wf tl_conv] in *.
  destruct vs as [|[a|s|l] [|w vs]]; try discriminate H. now rewrite Hc.
Qed.
Definition tl_rest : tail := tl_conv (fun s => s) (fun s => s) (fun _ => true).
Lemma tl_rest_ok : tail_ok tl_rest.
Proof. apply tl_conv_ok. intros s _. reflexivity. Qed.

(* n fields of the tail t followed by fields that are not on the wire and always hold the constants cs *)
Definition tl_consts (n : nat) (t : tail) (cs : list val) : tail := {|
  tl_enc := fun vs => tl_enc t (firstn n vs);
  tl_dec := fun l => vs <- tl_dec t l ;; Ok (vs ++ cs);
  tl_wf := fun vs => tl_wf t (firstn n vs) && (length (firstn n vs) =? n)%nat && vals_eqb (skipn n vs) cs |}.
Lemma tl_consts_ok n t cs : tail_ok t -> tail_ok (tl_consts n t cs).
Proof.
  intros Ht vs H. cbn [tl_enc tl_dec tl_wf tl_consts] in *.
  apply andb_true_iff in H. destruct H as [H H3]. apply andb_true_iff in H. destruct H as [H1 H2].
  rewrite Ht by exact H1. cbn [bind]. apply vals_eqb_eq in H3. rewrite <- H3. now rewrite firstn_skipn.
Qed.

(* ------------------------------------------------------------------ message bodies *)
Record msg := {
  m_enc : val -> list N;
  m_dec : list N -> result val;
  m_wf  : val -> bool }.
Definition msg_ok (m : msg) : Prop := forall v, m_wf m v = true -> m_dec m (m_enc m v) = Ok v.

(* the property for one message type, both halves: the parsed value is the original, and re-encoding what was
   parsed gives the same bytes *)
Lemma law_of_ok m : msg_ok m -> forall v, m_wf m v = true ->
  m_dec m (m_enc m v) = Ok v /\ (forall v', m_dec m (m_enc m v) = Ok v' -> m_enc m v' = m_enc m v).
Proof. intros H v Hw. split; [now apply H|]. intros v' E. rewrite (H v Hw) in E. now inversion E. Qed.

(* fields, then a tail that may depend on them *)
Definition mk_msg (fs : list field) (t : list val -> tail) : msg :=
  let n := length fs in {|
  m_enc := fun v => match v with
                    | VL vs => ps_enc fs [] (firstn n vs) ++ tl_enc (t (firstn n vs)) (skipn n vs)
                    | _ => [] end;
  m_dec := fun l => '(vs, r) <- ps_dec fs [] l ;; ws <- tl_dec (t vs) r ;; Ok (VL (vs ++ ws));
  m_wf := fun v => match v with
                   | VL vs => ps_wf fs [] (firstn n vs) && tl_wf (t (firstn n vs)) (skipn n vs)
                   | _ => false end |}.
Lemma mk_msg_ok fs t : fields_ok fs -> (forall acc, tail_ok (t acc)) -> msg_ok (mk_msg fs t).
Proof.
  intros Hf Ht [a|b|vs] H; cbn [m_enc m_dec m_wf mk_msg] in *; try discriminate H.
  apply andb_true_iff in H. destruct H as [H1 H2].
  rewrite ps_rt by assumption. cbn [bind]. rewrite Ht by exact H2. cbn [bind]. now rewrite firstn_skipn.
Qed.

(* a further restriction of the domain *)
Definition msg_restrict (p : val -> bool) (m : msg) : msg :=
  {| m_enc := m_enc m; m_dec := m_dec m; m_wf := fun v => m_wf m v && p v |}.
Lemma msg_restrict_ok p m : msg_ok m -> msg_ok (msg_restrict p m).
Proof. intros Hm v H. cbn [m_enc m_dec m_wf msg_restrict] in *. apply andb_true_iff in H. now apply Hm. Qed.

(* two layouts; the parser chooses by looking at the body (sel), the encoder by looking at the value (selv) *)
Definition msg_switch (sel : list N -> bool) (selv : val -> bool) (m1 m2 : msg) : msg := {|
  m_enc := fun v => if selv v then m_enc m1 v else m_enc m2 v;
  m_dec := fun l => if sel l then m_dec m1 l else m_dec m2 l;
  m_wf := fun v => if selv v then m_wf m1 v else m_wf m2 v |}.
Lemma msg_switch_ok sel selv m1 m2 : msg_ok m1 -> msg_ok m2 ->
  (forall v, selv v = true -> m_wf m1 v = true -> sel (m_enc m1 v) = true) ->
  (forall v, selv v = false -> m_wf m2 v = true -> sel (m_enc m2 v) = false) ->
  msg_ok (msg_switch sel selv m1 m2).
Proof.
  intros H1 H2 S1 S2 v H. cbn [m_enc m_dec m_wf msg_switch] in *. destruct (selv v) eqn:E.
  - rewrite S1 by assumption. now apply H1.
  - rewrite S2 by assumption. now apply H2.
Qed.

(* a length guard in front of the parser (`if len(body) < N { return err }` where it matters) *)
Definition msg_guard (g : list N -> bool) (m : msg) : msg :=
  {| m_enc := m_enc m; m_dec := fun l => if g l then m_dec m l else Err 1; m_wf := m_wf m |}.
Lemma msg_guard_ok g m : msg_ok m -> (forall v, m_wf m v = true -> g (m_enc m v) = true) -> msg_ok (msg_guard g m).
Proof. intros Hm Hg v H. cbn [m_enc m_dec m_wf msg_guard] in *. rewrite Hg by exact H. now apply Hm. Qed.

(* the length of what a message with fixed-width fields and nothing in its tail encodes *)
Lemma mk_msg_len fs t ws v : fields_len fs ws -> (forall acc vs, tl_enc (t acc) vs = []) ->
  m_wf (mk_msg fs t) v = true -> len (m_enc (mk_msg fs t) v) = nsum ws.
Proof.
  intros Hf Ht H. destruct v as [a|b|vs]; cbn [m_enc m_wf mk_msg] in *; try discriminate H.
  apply andb_true_iff in H. destruct H as [H1 _]. rewrite Ht, app_nil_r. now apply (ps_len fs ws).
Qed.

(* the same when the tail does encode something *)
Lemma mk_msg_len_gen fs t ws vs : fields_len fs ws ->
  m_wf (mk_msg fs t) (VL vs) = true ->
  len (m_enc (mk_msg fs t) (VL vs)) =
  nsum ws + len (tl_enc (t (firstn (length fs) vs)) (skipn (length fs) vs)).
Proof.
  intros Hf H. cbn [m_enc m_wf mk_msg] in *. apply andb_true_iff in H. destruct H as [H1 _].
  rewrite len_app. f_equal. now apply (ps_len fs ws).
Qed.

(* ================================================================== the converse law: Encode inverts Parse
   [fmt_inj f]: whatever the decoder accepts, IF the value it yields is in the domain, is byte for byte what the
   encoder writes for that value (on inputs that are bytes).  It holds for the formats whose decoder loses nothing:
   not for a field trimmed on both sides (str_pad2), not for one cut at the first NUL (str_cut0: garbage after the NUL
   is dropped), not for a tail that ignores trailing bytes, not for the parameter list (wire order is free). *)
Definition fmt_inj {A} (f : fmt A) : Prop :=
  forall l a r, bytes l -> dec f l = Ok (a, r) -> wf f a = true -> l = enc f a ++ r /\ bytes r.

Lemma take_e_bytes n l a r : bytes l -> take_e n l = Ok (a, r) -> l = a ++ r /\ len a = n /\ bytes a /\ bytes r.
Proof.
  intros Hb H. destruct (take_e_inv _ _ _ _ H) as [-> L]. apply bytes_app in Hb. destruct Hb as [Ha Hr]. auto.
Qed.

Lemma ube_inj n : fmt_inj (ube n).
Proof.
  intros l a r Hb H _. cbn [enc dec wf ube] in *.
  destruct (take_e (N.of_nat n) l) as [[b r']|e|] eqn:E; cbn [bind] in H; try discriminate H. inversion H; subst.
  destruct (take_e_bytes _ _ _ _ Hb E) as (-> & L & Hbb & Hr). split; [|exact Hr]. f_equal.
  assert (length b = n) as <- by (unfold len in L; lia). symmetry. now apply be_enc_dec.
Qed.
Lemma bytes_n_inj n : fmt_inj (bytes_n n).
Proof.
  intros l a r Hb H _. cbn [enc dec wf bytes_n] in *. destruct (take_e_bytes _ _ _ _ Hb H) as (-> & _ & _ & Hr). auto.
Qed.

Lemma trim_right0_length b : (length (trim_right0 b) <= length b)%nat.
Proof.
  induction b as [|c t IH]; cbn [trim_right0 length]; [lia|].
  destruct (trim_right0 t) as [|x t'] eqn:E; [destruct (c =? 0)|]; cbn [length] in *; lia.
Qed.
Lemma trim_right0_pad b : trim_right0 b ++ repeat 0 (length b - length (trim_right0 b)) = b.
Proof.
  induction b as [|c t IH]; [reflexivity|]. pose proof (trim_right0_length t) as L. cbn [trim_right0].
  destruct (trim_right0 t) as [|x t'] eqn:E.
  - cbn [app length] in IH. rewrite Nat.sub_0_r in IH. destruct (c =? 0) eqn:Ec.
    + apply N.eqb_eq in Ec. subst c. cbn [length app]. rewrite Nat.sub_0_r. cbn [repeat]. now rewrite IH.
    + cbn [length app]. replace (S (length t) - 1)%nat with (length t) by lia. now rewrite IH.
  - cbn [length app] in *. replace (S (length t) - S (S (length t')))%nat with (length t - S (length t'))%nat by lia.
    now rewrite IH.
Qed.
Lemma fill_trim b : fill (trim_right0 b) (len b) = b.
Proof.
  pose proof (trim_right0_length b) as L. rewrite fill_fits by (unfold len; lia).
  replace (N.to_nat (len b - len (trim_right0 b))) with (length b - length (trim_right0 b))%nat by (unfold len; lia).
  apply trim_right0_pad.
Qed.
Lemma str_pad_inj n : fmt_inj (str_pad n).
Proof.
  intros l a r Hb H _. cbn [enc dec wf str_pad] in *.
  destruct (take_e n l) as [[b r']|e|] eqn:E; cbn [bind] in H; try discriminate H. inversion H; subst.
  destruct (take_e_bytes _ _ _ _ Hb E) as (-> & L & _ & Hr). split; [|exact Hr]. f_equal. rewrite <- L. symmetry. apply fill_trim.
Qed.

Lemma time_ok_bcd6 b : bytes b -> (len b =? 6) = true -> time_ok (bcd2time b) = true -> bcd6_ok b = true.
Proof.
  intros Hb Hl H. unfold bcd6_ok. rewrite Hl. cbn [andb].
  destruct (len6_shape b Hl) as (b0 & b1 & b2 & b3 & b4 & b5 & ->).
  unfold bcd2time, bcd_chars in H. cbn [flat_map app] in H. change (len [_; _; _; _; _; _] =? 6) with true in H. cbv iota in H.
  cbn [time_ok forallb] in H. rewrite !N.eqb_refl in H. cbn [andb] in H.
  repeat (apply andb_true_iff in H; destruct H as [? H]).
  repeat match goal with B : bytes (_ :: _) |- _ => apply bytes_cons in B; destruct B as [? B] end.
  cbn [forallb]. unfold bcd_byte_ok, is_digit in *.
  repeat (apply andb_true_iff; split); try reflexivity; lia.
Qed.
Lemma bcd_time_inj : fmt_inj bcd_time.
Proof.
  intros l a r Hb H Hw. cbn [enc dec wf bcd_time] in *.
  destruct (take_e 6 l) as [[b r']|e|] eqn:E; cbn [bind] in H; try discriminate H. inversion H; subst.
  destruct (take_e_bytes _ _ _ _ Hb E) as (-> & L & Hbb & Hr). split; [|exact Hr]. f_equal.
  symmetry. apply bcd2time_ok. apply time_ok_bcd6; [exact Hbb | lia | exact Hw].
Qed.

Lemma vN_inj f : fmt_inj f -> fmt_inj (vN f).
Proof.
  intros Hf l v r Hb H Hw. cbn [enc dec wf vN] in *.
  destruct (dec f l) as [[a r']|e|] eqn:E; cbn [bind] in H; try discriminate H. inversion H; subst. now apply Hf.
Qed.
Lemma vB_inj f : fmt_inj f -> fmt_inj (vB f).
Proof.
  intros Hf l v r Hb H Hw. cbn [enc dec wf vB] in *.
  destruct (dec f l) as [[a r']|e|] eqn:E; cbn [bind] in H; try discriminate H. inversion H; subst. now apply Hf.
Qed.
Lemma vconst_inj c : fmt_inj (vconst c).
Proof. intros l v r Hb H _. cbn [enc dec wf vconst] in *. inversion H; subst. auto. Qed.
Lemma vcheck_inj p f : fmt_inj f -> fmt_inj (vcheck p f).
Proof.
  intros Hf l v r Hb H Hw. cbn [enc dec wf vcheck] in *. apply andb_true_iff in Hw. destruct Hw as [Hw _].
  destruct (dec f l) as [[a r']|e|] eqn:E; cbn [bind] in H; try discriminate H.
  destruct (p a); inversion H; subst. now apply Hf.
Qed.

Lemma rep_inj {A} (f : fmt A) : fmt_inj f -> forall k l vs r, bytes l -> rep_dec f k l = Ok (vs, r) ->
  forallb (wf f) vs = true -> l = rep_enc f vs ++ r /\ bytes r /\ length vs = k.
Proof.
  intros Hf. induction k as [|k IH]; intros l vs r Hb H Hw; cbn [rep_dec] in H.
  - inversion H; subst. auto.
  - destruct (dec f l) as [[a r1]|e|] eqn:E; cbn [bind] in H; try discriminate H.
    destruct (rep_dec f k r1) as [[t r2]|e|] eqn:E2; cbn [bind] in H; try discriminate H. inversion H; subst.
    cbn [forallb] in Hw. apply andb_true_iff in Hw. destruct Hw as [Ha Ht].
    destruct (Hf _ _ _ Hb E Ha) as [-> Hb1]. destruct (IH _ _ _ Hb1 E2 Ht) as (-> & Hb2 & L).
    cbn [rep_enc flat_map length]. rewrite <- app_assoc. auto.
Qed.
Lemma vrep_inj k f : fmt_inj f -> fmt_inj (vrep k f).
Proof.
  intros Hf l v r Hb H Hw. cbn [enc dec wf vrep] in *.
  destruct (rep_dec f (N.to_nat k) l) as [[vs r']|e|] eqn:E; cbn [bind] in H; try discriminate H. inversion H; subst.
  apply andb_true_iff in Hw. destruct Hw as [_ Hw]. destruct (rep_inj f Hf _ _ _ _ Hb E Hw) as (-> & Hr & _). auto.
Qed.
Lemma vrep_w_inj k w f : fmt_inj f -> fmt_inj (vrep_w k w f).
Proof.
  intros Hf l v r Hb H Hw. cbn [enc dec wf vrep_w] in *. destruct (k * w <=? len l); [|discriminate H].
  now apply (vrep_inj k f Hf).
Qed.

Definition fields_inj (fs : list field) : Prop := Forall (fun f => forall acc, fmt_inj (f acc)) fs.
Lemma fields_inj_nil : fields_inj []. Proof. constructor. Qed.
Lemma fields_inj_cons f fs : (forall acc, fmt_inj (f acc)) -> fields_inj fs -> fields_inj (f :: fs).
Proof. intros H1 H2. constructor; assumption. Qed.
Lemma ps_inj fs : fields_inj fs -> forall acc l vs r, bytes l -> ps_dec fs acc l = Ok (vs, r) ->
  ps_wf fs acc vs = true -> l = ps_enc fs acc vs ++ r /\ bytes r.
Proof.
  induction 1 as [|f fs Hf _ IH]; intros acc l vs r Hb H Hw; cbn [ps_dec] in H.
  - inversion H; subst. auto.
  - destruct (dec (f acc) l) as [[v r1]|e|] eqn:E; cbn [bind] in H; try discriminate H.
    destruct (ps_dec fs (acc ++ [v]) r1) as [[t r2]|e|] eqn:E2; cbn [bind] in H; try discriminate H. inversion H; subst.
    cbn [ps_wf] in Hw. apply andb_true_iff in Hw. destruct Hw as [Hv Ht].
    destruct (Hf acc _ _ _ Hb E Hv) as [-> Hb1]. destruct (IH _ _ _ _ Hb1 E2 Ht) as (-> & Hb2).
    cbn [ps_enc]. rewrite <- app_assoc. auto.
Qed.
Lemma vstruct_inj fs : fields_inj fs -> fmt_inj (vstruct fs).
Proof.
  intros Hf l v r Hb H Hw. cbn [enc dec wf vstruct] in *.
  destruct (ps_dec fs [] l) as [[vs r']|e|] eqn:E; cbn [bind] in H; try discriminate H. inversion H; subst.
  now apply (ps_inj fs Hf [] l).
Qed.

Definition tail_inj (t : tail) : Prop :=
  forall l vs, bytes l -> tl_dec t l = Ok vs -> tl_wf t vs = true -> tl_enc t vs = l.
Lemma tl_exact_inj : tail_inj tl_exact.
Proof. intros l vs _ H _. cbn [tl_dec tl_enc tl_exact] in *. destruct l; [reflexivity|discriminate H]. Qed.
Lemma tl_rest_inj : tail_inj tl_rest.
Proof. intros l vs _ H _. cbn [tl_dec tl_enc tl_rest tl_conv] in *. now inversion H. Qed.
(* a converted rest: needs the codec to be invertible in the other direction too, on what decodes into the domain *)
Definition codec_inv (cenc cdec : list N -> list N) (cdom : list N -> bool) : Prop :=
  forall l, bytes l -> cdom (cdec l) = true -> cenc (cdec l) = l.
Lemma tl_conv_inj cenc cdec cdom : codec_inv cenc cdec cdom -> tail_inj (tl_conv cenc cdec cdom).
Proof. intros Hc l vs Hb H Hw. cbn [tl_dec tl_enc tl_wf tl_conv] in *. inversion H; subst. now apply Hc. Qed.
Lemma tl_consts_inj n t cs : tail_inj t -> tail_inj (tl_consts n t cs).
Proof.
  intros Ht l vs Hb H Hw. cbn [tl_dec tl_enc tl_wf tl_consts] in *.
  destruct (tl_dec t l) as [ws|e|] eqn:E; cbn [bind] in H; try discriminate H. inversion H; subst.
  apply andb_true_iff in Hw. destruct Hw as [Hw H3]. apply andb_true_iff in Hw. destruct Hw as [H1 H2].
  apply vals_eqb_eq in H3. apply Nat.eqb_eq in H2.
  assert (length ws = n) as L.
  { assert (length (skipn n (ws ++ cs)) = length cs) as L1 by now rewrite H3.
    rewrite skipn_length, app_length in L1. rewrite firstn_length, app_length in H2. lia. }
  assert (firstn n (ws ++ cs) = ws) as F by (rewrite <- L, firstn_app, Nat.sub_diag, firstn_all; cbn [firstn]; apply app_nil_r).
  rewrite F in *. now apply Ht.
Qed.

Definition msg_inj (m : msg) : Prop :=
  forall b v, bytes b -> m_dec m b = Ok v -> m_wf m v = true -> m_enc m v = b.
Lemma mk_msg_inj fs t : fields_inj fs -> (forall acc, tail_inj (t acc)) -> msg_inj (mk_msg fs t).
Proof.
  intros Hf Ht b v Hb H Hw. cbn [m_enc m_dec m_wf mk_msg] in *.
  destruct (ps_dec fs [] b) as [[vs r]|e|] eqn:E; cbn [bind] in H; try discriminate H.
  destruct (tl_dec (t vs) r) as [ws|e|] eqn:E2; cbn [bind] in H; try discriminate H. inversion H; subst.
  apply andb_true_iff in Hw. destruct Hw as [H1 H2].
  assert (L : length vs = length fs).
  { clear -E. revert vs r E. generalize (@nil val) as acc. revert b. induction fs as [|f fs IH]; intros b acc vs r E; cbn [ps_dec] in E.
    - now inversion E.
    - destruct (dec (f acc) b) as [[v r1]|e|]; cbn [bind] in E; try discriminate E.
      destruct (ps_dec fs (acc ++ [v]) r1) as [[t0 r2]|e|] eqn:E2; cbn [bind] in E; try discriminate E. inversion E; subst.
      cbn [length]. f_equal. eapply IH, E2. }
  assert (F : firstn (length fs) (vs ++ ws) = vs) by (rewrite <- L, firstn_app, Nat.sub_diag, firstn_all; cbn [firstn]; apply app_nil_r).
  assert (S : skipn (length fs) (vs ++ ws) = ws) by (rewrite <- L, skipn_app, Nat.sub_diag, skipn_all; reflexivity).
  rewrite F, S in *. destruct (ps_inj fs Hf [] b vs r Hb E H1) as [-> Hr]. f_equal. now apply Ht.
Qed.
Lemma msg_restrict_inj p m : msg_inj m -> msg_inj (msg_restrict p m).
Proof. intros Hm b v Hb H Hw. cbn [m_enc m_dec m_wf msg_restrict] in *. apply andb_true_iff in Hw. now apply Hm. Qed.
Lemma msg_guard_inj g m : msg_inj m -> msg_inj (msg_guard g m).
Proof. intros Hm b v Hb H Hw. cbn [m_enc m_dec m_wf msg_guard] in *. destruct (g b); [now apply Hm|discriminate H]. Qed.
(* two layouts: additionally, what the parser chose by the body must be what the encoder chooses by the value *)
Lemma msg_switch_inj sel selv m1 m2 : msg_inj m1 -> msg_inj m2 ->
  (forall b v, sel b = true -> m_dec m1 b = Ok v -> selv v = true) ->
  (forall b v, sel b = false -> m_dec m2 b = Ok v -> selv v = false) ->
  msg_inj (msg_switch sel selv m1 m2).
Proof.
  intros H1 H2 S1 S2 b v Hb H Hw. cbn [m_enc m_dec m_wf msg_switch] in *. destruct (sel b) eqn:E.
  - rewrite (S1 b v E H) in *. now apply H1.
  - rewrite (S2 b v E H) in *. now apply H2.
Qed.

Ltac fmt_inj :=
  repeat first
    [ assumption
    | apply fields_inj_nil
    | apply fields_inj_cons; [intro; cbv beta|]
    | apply mk_msg_inj; [|intro; cbv beta]
    | apply msg_restrict_inj | apply msg_guard_inj
    | apply vstruct_inj
    | apply vrep_inj | apply vrep_w_inj
    | apply vN_inj | apply vB_inj | apply vcheck_inj
    | apply ube_inj | apply bytes_n_inj | apply str_pad_inj
    | apply bcd_time_inj | apply vconst_inj
    | apply tl_exact_inj | apply tl_rest_inj
    | apply tl_consts_inj
    | apply tl_conv_inj ].

(* ------------------------------------------------------------------ proof automation for compositions *)
Ltac fmt_ok :=
  repeat first
    [ assumption
    | apply fields_ok_nil
    | apply fields_ok_cons; [intro; cbv beta|]
    | apply mk_msg_ok; [|intro; cbv beta]
    | apply msg_restrict_ok
    | apply vstruct_ok
    | apply vrep_ok
    | apply vN_ok | apply vB_ok | apply vcheck_ok
    | apply ube_ok | apply bytes_n_ok | apply str_pad_ok | apply str_pad2_ok | apply str_cut0_ok
    | apply bcd_time_ok | apply vconst_ok
    | apply tl_exact_ok | apply tl_ignore_ok | apply tl_rest_ok
    | apply tl_consts_ok
    | apply tl_conv_ok ].

Ltac fmt_len :=
  repeat first
    [ assumption
    | apply Forall2_nil
    | apply Forall2_cons; [intro; cbv beta|]
    | apply vN_len | apply vB_len | apply vcheck_len
    | apply ube_len | apply bytes_n_len | apply str_pad_len | apply str_pad2_len | apply str_cut0_len
    | apply bcd_time_len | apply vconst_len ].

(* Example: P0x8003 (serial, count, ids), byte-identical to the re-request observed from the real server *)
Definition ex_8003 : msg :=
  mk_msg [fun _ => vu16; fun _ => vu8; fun acc => vrep (accN acc 1) vu16] (fun _ => tl_exact).
Example fmt_8003_example :
  m_enc ex_8003 (VL [VN 101; VN 3; VL [VN 2; VN 4; VN 5]]) = [0; 101; 3; 0; 2; 0; 4; 0; 5] /\
  m_dec ex_8003 [0; 101; 3; 0; 2; 0; 4; 0; 5] = Ok (VL [VN 101; VN 3; VL [VN 2; VN 4; VN 5]]) /\
  m_wf ex_8003 (VL [VN 101; VN 3; VL [VN 2; VN 4; VN 5]]) = true.
Proof. repeat split; vm_compute; reflexivity. Qed.
Example fmt_8003_ok : msg_ok ex_8003.
Proof. unfold ex_8003. fmt_ok. Qed.

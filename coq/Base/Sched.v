(* Goroutines, channels, schedules (DESIGN.md section 3).

   A concurrent system is an executable small-step function
       step : state -> choice -> option (state * list obs)
   where a [choice] names the process that moves (and, for a Go `select`, the ready
   branch it takes), [None] means that this move is not enabled in this state (the
   process is blocked or the branch is not ready) and the [obs] are what an outside
   observer sees.  A schedule is a [list choice]; [run] applies it from left to right
   and SKIPS moves that are not enabled, so `forall sched : list choice` ranges over
   every interleaving of the processes, of any length.

   Channels are Go's: a FIFO buffer with a capacity and a closed flag.  Sending on a
   closed channel is the observable crash of the whole process; sending on a full one
   blocks.  The small generic lemmas about [run] live here as well (they are three
   inductions and every concurrent model needs them). *)
From Coq Require Import List Arith Bool.
Import ListNotations.

(* ---------------- channels ---------------- *)
Record chan (A : Type) := { buf : list A; cap : nat; closed : bool }.
Arguments buf {A} _. Arguments cap {A} _. Arguments closed {A} _.

Definition mkchan {A} (n : nat) : chan A := {| buf := []; cap := n; closed := false |}.

Inductive send_res (A : Type) := SendOk (c : chan A) | SendBlock | SendCrash.
Arguments SendOk {A} _. Arguments SendBlock {A}. Arguments SendCrash {A}.

(* ch <- v *)
Definition ch_send {A} (c : chan A) (v : A) : send_res A :=
  if closed c then SendCrash
  else if Nat.ltb (length (buf c)) (cap c)
       then SendOk {| buf := buf c ++ [v]; cap := cap c; closed := false |}
       else SendBlock.

Inductive recv_res (A : Type) := RecvVal (v : A) (c : chan A) | RecvClosed | RecvBlock.
Arguments RecvVal {A} _ _. Arguments RecvClosed {A}. Arguments RecvBlock {A}.

(* v, ok := <-ch : buffered values are still delivered after close *)
Definition ch_recv {A} (c : chan A) : recv_res A :=
  match buf c with
  | v :: q => RecvVal v {| buf := q; cap := cap c; closed := closed c |}
  | [] => if closed c then RecvClosed else RecvBlock
  end.

(* close(ch); closing twice is a crash as well *)
Definition ch_close {A} (c : chan A) : option (chan A) :=
  if closed c then None else Some {| buf := buf c; cap := cap c; closed := true |}.

(* ---------------- schedules ---------------- *)
Section Sched.
  Variables state choice obs : Type.
  Variable step : state -> choice -> option (state * list obs).

  Fixpoint run (s : state) (sched : list choice) : state * list obs :=
    match sched with
    | [] => (s, [])
    | c :: t =>
      match step s c with
      | None => run s t                       (* not enabled: skipped *)
      | Some (s', o) => let (s'', o') := run s' t in (s'', o ++ o')
      end
    end.

  Definition final (s : state) (sched : list choice) : state := fst (run s sched).
  Definition trace (s : state) (sched : list choice) : list obs := snd (run s sched).

  Lemma run_app : forall a b s,
    run s (a ++ b) =
    (fst (run (fst (run s a)) b), snd (run s a) ++ snd (run (fst (run s a)) b)).
  Proof.
    induction a as [|c a IH]; intros b s; simpl.
    - destruct (run s b); reflexivity.
    - destruct (step s c) as [[s' o]|].
      + rewrite IH. destruct (run s' a) as [s1 o1]; simpl.
        destruct (run s1 b) as [s2 o2]; simpl. now rewrite app_assoc.
      + apply IH.
  Qed.

  Lemma final_app : forall a b s, final s (a ++ b) = final (final s a) b.
  Proof. intros; unfold final; now rewrite run_app. Qed.

  Lemma trace_app : forall a b s, trace s (a ++ b) = trace s a ++ trace (final s a) b.
  Proof. intros; unfold trace, final; now rewrite run_app. Qed.

  (* An invariant over (state, trace so far) that every enabled step of a choice
     satisfying P preserves holds after every schedule made of such choices. *)
  Lemma run_invariant (P : choice -> Prop) (I : state -> list obs -> Prop) :
    (forall s tr c s' o, P c -> I s tr -> step s c = Some (s', o) -> I s' (tr ++ o)) ->
    forall sched s tr, Forall P sched -> I s tr ->
      I (final s sched) (tr ++ trace s sched).
  Proof.
    intros Hstep. unfold final, trace.
    induction sched as [|c t IH]; intros s tr HP HI; simpl.
    - now rewrite app_nil_r.
    - inversion HP as [|? ? Hc Ht]; subst.
      destruct (step s c) as [[s' o]|] eqn:E.
      + specialize (IH s' (tr ++ o) Ht (Hstep _ _ _ _ _ Hc HI E)).
        destruct (run s' t) as [s'' o']; simpl in *. now rewrite app_assoc.
      + now apply IH.
  Qed.

  Lemma run_invariant_all (I : state -> list obs -> Prop) :
    (forall s tr c s' o, I s tr -> step s c = Some (s', o) -> I s' (tr ++ o)) ->
    forall sched s, I s [] -> I (final s sched) (trace s sched).
  Proof.
    intros Hstep sched s HI.
    assert (H : I (final s sched) ([] ++ trace s sched)).
    { apply (run_invariant (fun _ => True) I); auto.
      - intros; eapply Hstep; eauto.
      - apply Forall_forall; auto. }
    exact H.
  Qed.

  (* state-only version *)
  Lemma final_invariant (P : choice -> Prop) (I : state -> Prop) :
    (forall s c s' o, P c -> I s -> step s c = Some (s', o) -> I s') ->
    forall sched s, Forall P sched -> I s -> I (final s sched).
  Proof.
    intros Hstep sched s HP HI.
    exact (run_invariant P (fun s _ => I s)
             (fun s tr c s' o Hc Hs E => Hstep s c s' o Hc Hs E) sched s [] HP HI).
  Qed.
End Sched.

Arguments run {state choice obs} step s sched.
Arguments final {state choice obs} step s sched.
Arguments trace {state choice obs} step s sched.

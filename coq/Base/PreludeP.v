(* Lemmas about Base/Prelude.v *)
From JT.Base Require Import Prelude.
From Coq Require Import ZArith ZifyN ZifyNat ZifyBool.
Ltac Zify.zify_post_hook ::= Z.div_mod_to_equations.

Lemma len_app {A} (a b : list A) : len (a ++ b) = len a + len b.
Proof. unfold len. rewrite app_length. lia. Qed.

Lemma len_cons {A} (x : A) (l : list A) : len (x :: l) = 1 + len l.
Proof. unfold len. cbn [length]. lia. Qed.

Lemma len_nil {A} : len (@nil A) = 0. Proof. reflexivity. Qed.

Lemma bytes_app a b : bytes (a ++ b) <-> bytes a /\ bytes b.
Proof. unfold bytes. apply Forall_app. Qed.

Lemma bytes_cons x l : bytes (x :: l) <-> x < 256 /\ bytes l.
Proof. unfold bytes. split; intros H. inversion H; auto. constructor; tauto. Qed.

Lemma bytes_nil : bytes []. Proof. constructor. Qed.

Lemma bytesb_spec l : bytesb l = true <-> bytes l.
Proof.
  unfold bytesb, bytes. rewrite forallb_forall, Forall_forall.
  split; intros H x Hx; specialize (H x Hx); lia.
Qed.

(* ---------- finite sweeps ---------- *)
Lemma nrange_in n b : (b < N.of_nat n) -> In b (nrange n).
Proof.
  intros H. unfold nrange. apply in_map_iff. exists (N.to_nat b). split. lia.
  apply in_seq. lia.
Qed.

Lemma sweep (n : nat) (P : N -> bool) :
  forallb P (nrange n) = true -> forall b, b < N.of_nat n -> P b = true.
Proof. intros H b Hb. rewrite forallb_forall in H. apply H, nrange_in, Hb. Qed.

Lemma byte_sweep (P : N -> bool) :
  forallb P (nrange 256) = true -> forall b, b < 256 -> P b = true.
Proof. intros H b Hb. apply (sweep 256 P H). exact Hb. Qed.

(* ---------- big endian ---------- *)
Lemma be_dec_acc_app acc a b : be_dec_acc acc (a ++ b) = be_dec_acc (be_dec_acc acc a) b.
Proof. revert acc. induction a as [|x a IH]; intros acc; cbn [be_dec_acc app]; auto. Qed.

Lemma be_enc_length n x : length (be_enc n x) = n.
Proof. revert x. induction n as [|n IH]; intros x; cbn [be_enc]; auto.
  rewrite app_length, IH. cbn. lia. Qed.

Lemma be_enc_len n x : len (be_enc n x) = N.of_nat n.
Proof. unfold len. now rewrite be_enc_length. Qed.

Lemma be_enc_bytes n x : bytes (be_enc n x).
Proof. revert x. induction n as [|n IH]; intros x; cbn [be_enc]. constructor.
  apply bytes_app. split. apply IH. constructor; [|constructor].
  apply N.mod_lt. discriminate. Qed.

Lemma be_dec_enc n x : x < 256 ^ N.of_nat n -> be_dec (be_enc n x) = x.
Proof.
  unfold be_dec. revert x. induction n as [|n IH]; intros x Hx.
  - cbn in *. lia.
  - cbn [be_enc]. rewrite be_dec_acc_app. cbn [be_dec_acc].
    rewrite IH.
    + pose proof (N.div_mod x 256). lia.
    + replace (N.of_nat (S n)) with (N.succ (N.of_nat n)) in Hx by lia.
      rewrite N.pow_succ_r' in Hx. apply N.div_lt_upper_bound; lia.
Qed.

Lemma be_dec_acc_lt acc l k : bytes l -> acc < 256 ^ k ->
  be_dec_acc acc l < 256 ^ (k + len l).
Proof.
  revert acc k. induction l as [|b l IH]; intros acc k Hb Hacc.
  - cbn [be_dec_acc]. rewrite len_nil, N.add_0_r. exact Hacc.
  - apply bytes_cons in Hb. destruct Hb as [Hb Hl]. cbn [be_dec_acc].
    rewrite len_cons. replace (k + (1 + len l)) with ((k + 1) + len l) by lia.
    apply IH; auto. rewrite N.pow_add_r. cbn. lia.
Qed.

Lemma be_dec_lt l : bytes l -> be_dec l < 256 ^ len l.
Proof. intros H. unfold be_dec. apply (be_dec_acc_lt 0 l 0 H). cbn. lia. Qed.

Lemma div256 a b : b < 256 -> (a * 256 + b) / 256 = a.
Proof. intros H. symmetry. apply N.div_unique with b; lia. Qed.
Lemma mod256 a b : b < 256 -> (a * 256 + b) mod 256 = b.
Proof. intros H. symmetry. apply N.mod_unique with a; lia. Qed.

Lemma be_enc_dec l : bytes l -> be_enc (length l) (be_dec l) = l.
Proof.
  unfold be_dec. induction l as [|b l IH] using rev_ind; intros Hb; auto.
  apply bytes_app in Hb. destruct Hb as [Hl Hb]. apply bytes_cons in Hb. destruct Hb as [Hb _].
  rewrite be_dec_acc_app. cbn [be_dec_acc]. rewrite app_length. cbn [length].
  replace (length l + 1)%nat with (S (length l)) by lia. cbn [be_enc].
  rewrite div256, mod256 by exact Hb.
  rewrite IH by auto. reflexivity.
Qed.

(* ---------- take / slice ---------- *)
Lemma take_app a b : take (len a) (a ++ b) = Ok (a, b).
Proof.
  unfold take. rewrite len_app.
  replace (len a <=? len a + len b) with true by lia.
  unfold len. rewrite Nat2N.id, firstn_app, skipn_app, Nat.sub_diag, firstn_all, skipn_all.
  cbn. now rewrite app_nil_r.
Qed.

Lemma take_app_n n a b : len a = n -> take n (a ++ b) = Ok (a, b).
Proof. intros <-. apply take_app. Qed.

Lemma take_short n l : len l < n -> take n l = Panic.
Proof. unfold take. intros H. replace (n <=? len l) with false by lia. reflexivity. Qed.

Lemma take_ok n l : n <= len l -> exists a b, take n l = Ok (a, b) /\ l = a ++ b /\ len a = n.
Proof.
  intros H. unfold take. replace (n <=? len l) with true by lia.
  eexists _, _. split. reflexivity. split. symmetry; apply firstn_skipn.
  unfold len in *. rewrite firstn_length. lia.
Qed.

Lemma slice_app a b c : slice (a ++ b ++ c) (len a) (len a + len b) = Ok b.
Proof.
  unfold slice. rewrite !len_app.
  replace ((len a <=? len a + len b) && (len a + len b <=? len a + (len b + len c))) with true by lia.
  f_equal. replace (len a + len b - len a) with (len b) by lia. unfold len. rewrite !Nat2N.id.
  rewrite skipn_app, skipn_all, Nat.sub_diag. cbn [app skipn].
  rewrite firstn_app, Nat.sub_diag, firstn_all. cbn. now rewrite app_nil_r.
Qed.

Lemma list_eqb_spec a b : list_eqb a b = true <-> a = b.
Proof.
  revert b. induction a as [|x a IH]; intros [|y b]; cbn; split; intros H; try congruence; auto.
  - apply andb_true_iff in H. destruct H as [H1 H2]. apply IH in H2. f_equal; auto. lia.
  - inversion H; subst. apply andb_true_iff. split. lia. now apply IH.
Qed.

Lemma xor_all_app a b : xor_all (a ++ b) = N.lxor (xor_all a) (xor_all b).
Proof. induction a as [|x a IH]; cbn [xor_all app]. now rewrite N.lxor_0_l.
  now rewrite IH, N.lxor_assoc. Qed.

(* Base definitions shared by every model: results, byte strings, checked Go-slice
   primitives, big-endian integers.  Definitions only (plus a few computational
   notations); lemmas live in Base/PreludeP.v so that the model still runs when a
   proof breaks. *)
From Coq Require Export List NArith Bool Lia.
Export ListNotations.
Open Scope N_scope.

(* ---------------- results ---------------- *)
(* Err carries a small error enumeration (an N tag chosen by each model); Panic is a
   Go run-time panic (index / slice out of range, nil dereference). *)
Inductive result (A : Type) := Ok (a : A) | Err (e : N) | Panic.
Arguments Ok {A} _. Arguments Err {A} _. Arguments Panic {A}.

Definition bind {A B} (r : result A) (f : A -> result B) : result B :=
  match r with Ok a => f a | Err e => Err e | Panic => Panic end.
Notation "x <- r ;; k" := (bind r (fun x => k))
  (at level 61, r at next level, right associativity).
Notation "' p <- r ;; k" := (bind r (fun p => k))
  (at level 61, p pattern, r at next level, right associativity).

Definition is_panic {A} (r : result A) : bool := match r with Panic => true | _ => false end.
Definition is_ok {A} (r : result A) : bool := match r with Ok _ => true | _ => false end.

(* ---------------- bytes ---------------- *)
Definition bytes (l : list N) : Prop := Forall (fun b => b < 256) l.
Definition bytesb (l : list N) : bool := forallb (fun b => b <? 256) l.
Definition len {A} (l : list A) : N := N.of_nat (length l).

Fixpoint xor_all (l : list N) : N :=
  match l with [] => 0 | b :: t => N.lxor b (xor_all t) end.

(* ---------------- checked slice primitives (Go semantics with cap = len) -------- *)
(* l[i] *)
Definition idx (l : list N) (i : N) : result N :=
  match nth_error l (N.to_nat i) with Some b => Ok b | None => Panic end.
(* l[i:j] *)
Definition slice (l : list N) (i j : N) : result (list N) :=
  if (i <=? j) && (j <=? len l)
  then Ok (firstn (N.to_nat (j - i)) (skipn (N.to_nat i) l)) else Panic.
(* l[i:] *)
Definition slice_from (l : list N) (i : N) : result (list N) :=
  if i <=? len l then Ok (skipn (N.to_nat i) l) else Panic.
(* cursor style: split off the first n bytes *)
Definition take (n : N) (l : list N) : result (list N * list N) :=
  if n <=? len l then Ok (firstn (N.to_nat n) l, skipn (N.to_nat n) l) else Panic.

(* unchecked variants for specs *)
Definition sub (l : list N) (i j : N) : list N :=
  firstn (N.to_nat (j - i)) (skipn (N.to_nat i) l).
Definition at_ (l : list N) (i : N) : N := nth (N.to_nat i) l 0.

(* ---------------- big-endian integers ---------------- *)
Fixpoint be_dec_acc (acc : N) (l : list N) : N :=
  match l with [] => acc | b :: t => be_dec_acc (acc * 256 + b) t end.
Definition be_dec (l : list N) : N := be_dec_acc 0 l.

Fixpoint be_enc (n : nat) (x : N) : list N :=
  match n with
  | O => []
  | S n' => be_enc n' (x / 256) ++ [x mod 256]
  end.

(* binary.BigEndian.UintNN(l[i:i+n]) *)
Definition be_at (l : list N) (i : N) (n : N) : result N :=
  s <- slice l i (i + n) ;; Ok (be_dec s).

(* ---------------- BCD rendering (utils.Bcd2Dec / bcdConvert) ---------------- *)
Definition nibble_char (n : N) : N := if n <=? 9 then n + 48 else n + 87. (* '0'.. / 'a'.. *)
Definition bcd_convert (l : list N) : list N :=
  flat_map (fun b => [nibble_char (b / 16); nibble_char (b mod 16)]) l.
Fixpoint strip0 (l : list N) : list N :=
  match l with
  | [] => []
  | c :: t => if c =? 48 then strip0 t else l
  end.
(* Bcd2Dec: leading '0' characters removed unless every character is '0' *)
Definition bcd2dec (l : list N) : list N :=
  let out := bcd_convert l in
  match strip0 out with [] => out | s => s end.

(* ---------------- misc ---------------- *)
Fixpoint list_eqb (a b : list N) : bool :=
  match a, b with
  | [], [] => true
  | x :: a', y :: b' => (x =? y) && list_eqb a' b'
  | _, _ => false
  end.

Definition nrange (n : nat) : list N := map N.of_nat (seq 0 n).

(* C03, locality, second part — spare-capacity variants (see Model/Total_cap.v for the conventions:
   `tail` = the bytes behind len in the same array; s[i] and s[i:] are checked against len, s[i:j]
   against cap) of the decoders whose cap = len models belong to other properties:
     Model/Location.v     block_parse, decode_item, adds_walk / additions_parse, t0200_parse,
                          items_loop / t0704_parse, t0801_parse
     Model/LocationExt.v  sbbase_parse, ext64/65/67/70_parse (0x66 already has its tail as an input)
     Model/Frame.v        decode_chk: Header.decode / JTMessage.Decode read the UNESCAPED buffer, which
                          is data[1:len-1] on the fast path (spare capacity: the closing delimiter and
                          whatever lies behind the caller's slice) or a bytes.Buffer's array; `ptail`
                          is the content of that spare capacity, whatever it is.  The unescape walk
                          itself is a pure function in Model/Frame.v (no checked primitives), so it is
                          not part of the statement.
     Model/Jt1078.v       decode_head / decode after Total_codec.rtp_reset (cursor style: `take`)
   DEFINITIONS ONLY.  The text is that of the originals with slice / be_at / take replaced by the
   _cap variants and every sub-slice handed the rest of its array as its own spare capacity
   (an item's content: the following items and the tail; 0x0704's item: the following items; the
   28-byte block inside 0x0801: the multimedia package; the 35-byte base block of an extension item
   and the alarm identification inside it: what follows them). *)
From JT.Base Require Import Prelude.
From JT.Model Require Import Location LocationExt Frame Jt1078 Total_base Total_msgs Total_codec Total_cap.
From Coq Require Import String.

(* cursor style: split off the first n bytes of a slice with spare capacity.  Beyond len but within
   cap the bytes come from the tail (the silent over-read); what is left of the slice is then empty *)
Definition take_cap (n : N) (l tail : list N) : result (list N * list N) :=
  if n <=? len l then Ok (firstn (N.to_nat n) l, skipn (N.to_nat n) l)
  else if n <=? len l + len tail then Ok (firstn (N.to_nat n) (l ++ tail), [])
  else Panic.

Definition block_parse_cap (body tail : list N) : result loc :=
  if len body <? 28 then Err E_LEN else
  a <- be_at_cap body tail 0 4 ;;
  af <- flags_parse alarm_table (bin_str 32 a) (repeat false 32) ;;
  s <- be_at_cap body tail 4 4 ;;
  sf <- flags_parse status_table (bin_str 32 s) (repeat false 22) ;;
  cg <- cargo_parse (bin_str 32 s) ;;
  lat <- be_at_cap body tail 8 4 ;;
  lon <- be_at_cap body tail 12 4 ;;
  alt <- be_at_cap body tail 16 2 ;;
  sp <- be_at_cap body tail 18 2 ;;
  di <- be_at_cap body tail 20 2 ;;
  tm <- slice_capT body tail 22 28 ;;
  Ok {| l_alarm := a; l_status := s; l_lat := lat; l_lon := lon; l_alt := alt; l_speed := sp;
        l_dir := di; l_time := bcd2time tm; l_aflags := af; l_sflags := sf; l_cargo := cg |}.

Definition decode_item_cap (id : N) (c ctail : list N) : result aval :=
  if id =? 1 then v <- u32 c ;; Ok (VMile v)
  else if id =? 2 then v <- u16 c ;; Ok (VOil v)
  else if id =? 3 then v <- u16 c ;; Ok (VSpeed v)
  else if id =? 4 then v <- u16 c ;; Ok (VManual v)
  else if id =? 5 then Ok (VTire (tire_parse 0 c))
  else if id =? 6 then v <- u16 c ;; Ok (VTemp v)
  else if id =? 17 then
    ty <- idx c 0 ;;
    
    if negb (ty =? 0) && (4 <=? len c) then a <- u32 c ;; Ok (VOverSpeed ty a)
    else Ok (VOverSpeed ty 0)
  else if id =? 18 then
    ty <- idx c 0 ;; a <- be_at_cap c ctail 1 4 ;; d <- idx c 5 ;; Ok (VArea ty a d)
  else if id =? 19 then
    a <- be_at_cap c ctail 0 4 ;; t <- be_at_cap c ctail 4 2 ;; r <- idx c 6 ;; Ok (VDrive a t r)
  else if id =? 37 then
    v <- u32 c ;;
    f <- flags_parse extsig_table (bin_str 32 v) (repeat false 16) ;; Ok (VExt v f)
  else if id =? 42 then
    v <- u16 c ;;
    f <- flags_parse io_table (bin_str 16 v) (repeat false 3) ;; Ok (VIO v f)
  else if id =? 43 then v <- u32 c ;; Ok (VAnalog v)
  else if id =? 48 then v <- idx c 0 ;; Ok (VWifi v)
  else if id =? 49 then v <- idx c 0 ;; Ok (VGnss v)
  else Ok VNone.

Fixpoint adds_walk_cap (fuel : nat) (m : list addition) (body tail : list N) : result (list addition) :=
  match body with
  | [] => Ok m
  | [_] => Err E_LEN                                  
  | id :: alen :: rest =>
    match fuel with
    | O => Err 99
    | S f =>
      if negb (contrast id alen) then Err E_LEN else
      if len rest <? alen then Err E_LEN else           
      p <- take_cap alen rest tail ;;
      v <- decode_item_cap id (fst p) (snd p ++ tail) ;;
      adds_walk_cap f (amap_set m {| a_id := id; a_len := alen; a_data := fst p; a_val := v |}) (snd p) tail
    end
  end.

Definition additions_cap (body tail : list N) : result (list addition) :=
  adds_walk_cap (List.length body) [] body tail.

Definition t0200_cap (r : t0200) (body tail : list N) : result t0200 :=
  l <- block_parse_cap body tail ;;
  if 28 <? len body then
    rest <- slice_from body 28 ;;
    m <- additions_cap rest tail ;;
    Ok {| t_loc := l; t_adds := m |}
  else Ok {| t_loc := l; t_adds := [] |}.

Fixpoint items_loop_cap (n : nat) (rest tail : list N) (acc : list item0704) : result (list item0704) :=
  match n with
  | O => Ok acc
  | S n' =>
    if len rest <? 2 then Err E_LEN else                 
    p <- take_cap 2 rest tail ;;
    let ilen := be_dec (fst p) in
    if len (snd p) <? ilen then Err E_LEN else           
    q <- take_cap ilen (snd p) tail ;;
    let cur := fst q in
    let ctail := snd q ++ tail in
    l <- block_parse_cap cur ctail ;;
    m <- (if 28 <? len cur then r28 <- slice_from cur 28 ;; additions_cap r28 ctail else Ok []) ;;
    items_loop_cap n' (snd q) tail (acc ++ [{| i_len := ilen; i_loc := l; i_adds := m |}])
  end.

Definition t0704_cap (r : t0704) (body tail : list N) : result t0704 :=
  if len body <? 31 then Err E_LEN else
  num <- be_at_cap body tail 0 2 ;;
  ty <- idx body 2 ;;
  rest <- slice_from body 3 ;;
  its <- items_loop_cap (N.to_nat num) rest tail [] ;;            
  Ok {| b_num := num; b_type := ty; b_items := its |}.

Definition t0801_cap (r : t0801) (body tail : list N) : result t0801 :=
  if len body <? 36 then Err E_LEN else
  id <- be_at_cap body tail 0 4 ;;
  ty <- idx body 4 ;;
  fm <- idx body 5 ;;
  ev <- idx body 6 ;;
  ch <- idx body 7 ;;
  blk <- slice_capT body tail 8 36 ;;
  l <- match block_parse_cap blk (skipn 36 body ++ tail) with Ok l => Ok l | Err _ => Ok (Location.m_loc r) | Panic => Panic end ;;
  pkg <- slice_from body 36 ;;
  Ok {| Location.m_id := id; Location.m_type := ty; Location.m_fmt := fm; Location.m_event := ev; Location.m_chan := ch; Location.m_loc := l; Location.m_pkg := pkg |}.

Definition sbbase_cap (r : sbbase) (data dtail : list N) : result sbbase :=
  sp <- idx data 0 ;;
  alt <- be_at_cap data dtail 1 2 ;;
  lat <- be_at_cap data dtail 3 4 ;;
  lon <- be_at_cap data dtail 7 4 ;;
  tm <- slice_capT data dtail 11 17 ;;
  st <- be_at_cap data dtail 17 2 ;;
  fl <- flags_parse table18_table (bin_str 16 st) (repeat false 8) ;;
  sg <- slice_capT data dtail 19 35 ;;
  sign <- asign_parse_cap (sb_sign r) sg (skipn 35 data ++ dtail) ;;
  Ok {| sb_speed := sp; sb_alt := alt; sb_lat := lat; sb_lon := lon; sb_time := bcd2time tm;
        sb_status := st; sb_flags := fl; sb_sign := sign; sb_ok := true |}.

Definition ext64_cap (r : ext) (id : N) (c tail : list N) : result ext :=
  if (id =? 100) && (len c =? 47) then
    aid <- be_at_cap c tail 0 4 ;; fl <- idx c 4 ;; ty <- idx c 5 ;; lv <- idx c 6 ;; ps <- idx c 7 ;;
    pd <- idx c 8 ;; dv <- idx c 9 ;; rt <- idx c 10 ;; rd <- idx c 11 ;;
    sb <- slice_capT c tail 12 47 ;;
    base <- sbbase_cap (e_base r) sb (skipn 47 c ++ tail) ;;
    Ok {| e_aid := aid; e_flag := fl; e_fields := [ty; lv; ps; pd; dv; rt; rd]; e_base := base;
          e_cnt := 0; e_list := [] |}
  else Err E_DECLINE.

Definition ext65_cap (r : ext) (id : N) (c tail : list N) : result ext :=
  if (id =? 101) && (len c =? 47) then
    aid <- be_at_cap c tail 0 4 ;; fl <- idx c 4 ;; ty <- idx c 5 ;; lv <- idx c 6 ;; fa <- idx c 7 ;;
    rs <- slice_capT c tail 8 12 ;;
    sb <- slice_capT c tail 12 47 ;;
    base <- sbbase_cap (e_base r) sb (skipn 47 c ++ tail) ;;
    Ok {| e_aid := aid; e_flag := fl; e_fields := [ty; lv; fa] ++ rs; e_base := base;
          e_cnt := 0; e_list := [] |}
  else Err E_DECLINE.

Definition ext67_cap (r : ext) (id : N) (c tail : list N) : result ext :=
  if (id =? 103) && (len c =? 41) then
    aid <- be_at_cap c tail 0 4 ;; fl <- idx c 4 ;; ty <- idx c 5 ;;
    sb <- slice_capT c tail 6 41 ;;
    base <- sbbase_cap (e_base r) sb (skipn 41 c ++ tail) ;;
    Ok {| e_aid := aid; e_flag := fl; e_fields := [ty]; e_base := base; e_cnt := 0; e_list := [] |}
  else Err E_DECLINE.

Definition ext70_cap (r : ext) (id : N) (c tail : list N) : result ext :=
  if (id =? 112) && (len c =? 47) then
    aid <- be_at_cap c tail 0 4 ;; fl <- idx c 4 ;; ty <- idx c 5 ;;
    tt <- be_at_cap c tail 6 2 ;; t1 <- be_at_cap c tail 8 2 ;; t2 <- be_at_cap c tail 10 2 ;;
    sb <- slice_capT c tail 12 47 ;;
    base <- sbbase_cap (e_base r) sb (skipn 47 c ++ tail) ;;
    Ok {| e_aid := aid; e_flag := fl; e_fields := [ty; tt; t1; t2]; e_base := base;
          e_cnt := 0; e_list := [] |}
  else Err E_DECLINE.

Definition ext_cap (kind : N) (r : ext) (id : N) (c tail : list N) : result ext :=
  if kind =? 100 then ext64_cap r id c tail
  else if kind =? 101 then ext65_cap r id c tail
  else if kind =? 102 then ext66_parse r id c tail
  else if kind =? 103 then ext67_cap r id c tail
  else ext70_cap r id c tail.

Definition be16_at_cap (p ptail : list N) (i : N) : result N :=
  s <- slice_capT p ptail i (i + 2) ;; Ok (be_dec s).

Definition decode_chk_cap (d ptail : list N) : result msg :=
  p <- unescape d ;;
  if negb (xor_all p =? 0) then Err E_CHECK else
  if len p <? 4 then Err E_HEAD_SHORT else
  id <- be16_at_cap p ptail 0 ;;
  attr <- be16_at_cap p ptail 2 ;;
  let ver := N.land (N.shiftr attr 14) 1 in
  let frag := N.land (N.shiftr attr 13) 1 in
  let enc := N.shiftr (N.land attr 1024) 10 in
  let blen := N.land attr 1023 in
  let start := if ver =? 1 then 5 else 4 in
  let plen := if ver =? 1 then 10 else 6 in
  if len p <? start + plen + 2 then Err E_HEAD_SHORT else
  bcd <- slice_capT p ptail start (start + plen) ;;
  ser <- be16_at_cap p ptail (start + plen) ;;
  if (frag =? 1) && (len p <? start + plen + 6) then Err E_HEAD_SHORT else
  sum <- (if frag =? 1 then be16_at_cap p ptail (start + plen + 2) else Ok 0) ;;
  no <- (if frag =? 1 then be16_at_cap p ptail (start + plen + 4) else Ok 0) ;;
  let hend := if frag =? 1 then start + plen + 6 else start + plen + 2 in
  if negb (hend + blen + 1 =? len p) then Err E_BODY_LEN else
  body <- slice_capT p ptail hend (hend + blen) ;;
  chk <- idx p (hend + blen) ;;
  Ok {| m_id := id; m_len := blen; m_enc := enc; m_frag := frag; m_ver := ver;
        m_bcd := bcd; m_serial := ser; m_sum := sum; m_no := no;
        m_body := body; m_check := chk |}.

Definition decode_head_cap (r : pkt) (d tail : list N) : result (pkt * list N) :=
  match d with
  | i0 :: i1 :: i2 :: i3 :: attr :: sign :: s0 :: s1 :: m0 :: m1 :: m2 :: m3 :: m4 :: m5 :: ch :: tb :: rest =>
    if negb (list_eqb [i0; i1; i2; i3] marker) then Err E1078_UNQUALIFIED else
    let dt := N.land (N.shiftr tb 4) 15 in
    let sb := N.land tb 15 in
    let video := is_video_dt dt in                            
    let e := 18 + (if dt =? DT_PENETRATE then 0 else 8) + (if is_video_dt dt then 4 else 0) in
    if len d <? e then Err E1078_SHORT_HEAD else
    '(tsb, r1) <- (if dt =? DT_PENETRATE then Ok ([], rest) else take_cap 8 rest tail) ;;
    '(iv, r2) <- (if video then take_cap 4 r1 tail else Ok ([], r1)) ;;
    '(lb, r3) <- take_cap 2 r2 tail ;;
    Ok ({| k_v := N.land (N.shiftr attr 6) 3; k_p := N.land (N.shiftr attr 5) 1;
           k_x := N.land (N.shiftr attr 4) 1; k_cc := N.land attr 15;
           k_m := N.land (N.shiftr sign 7) 1; k_pt := N.land sign 127;
           k_seq := be_dec [s0; s1]; k_sim := [m0; m1; m2; m3; m4; m5];
           k_chan := ch; k_dt := dt; k_sub := sb;
           k_ts := if dt =? DT_PENETRATE then 0 else be_dec tsb;
           k_ifi := if video then be_dec (firstn 2 iv) else 0;
           k_fi := if video then be_dec (skipn 2 iv) else 0;
           k_blen := be_dec lb; k_body := k_body r; k_video := video |}, r3)
  | _ => Err E1078_SHORT_HEAD
  end.

Definition rtp_decode_cap (r : pkt) (d tail : list N) : result (pkt * list N) :=
  '(p, body) <- decode_head_cap (rtp_reset r) d tail ;;
  if len body <? k_blen p then Err E1078_SHORT_BODY else
  '(b, rest) <- take_cap (k_blen p) body tail ;;
  Ok ({| k_v := k_v p; k_p := k_p p; k_x := k_x p; k_cc := k_cc p; k_m := k_m p; k_pt := k_pt p;
         k_seq := k_seq p; k_sim := k_sim p; k_chan := k_chan p; k_dt := k_dt p; k_sub := k_sub p;
         k_ts := k_ts p; k_ifi := k_ifi p; k_fi := k_fi p; k_blen := k_blen p; k_body := b;
         k_video := k_video p |}, rest).

(* show_<op> for oracle/drv_c17.ml: ops jt1078, jt1078reuse (definitions only; see Base/Show.v) *)
From Coq Require Import String.
From JT.Base Require Import Prelude Show.
From JT.Model Require Import Jt1078.

Definition show_pkt (p : pkt) : text :=
  cat [str "v="; show_N (k_v p); str " p="; show_N (k_p p); str " x="; show_N (k_x p); str " cc="; show_N (k_cc p);
       str " m="; show_N (k_m p); str " pt="; show_N (k_pt p); str " seq="; show_N (k_seq p);
       str " sim="; bcd2dec (k_sim p); str " ch="; show_N (k_chan p); str " dt="; show_N (k_dt p);
       str " sub="; show_N (k_sub p); str " ts="; show_hexN (k_ts p); str " ifi="; show_N (k_ifi p);
       str " fi="; show_N (k_fi p); str " blen="; show_N (k_blen p); str " body="; show_hex_bytes (k_body p)].

Definition show_res (r : result (pkt * list N)) : text :=
  show_result (fun pr => cat [str "ok "; show_pkt (fst pr); str " rest="; show_hex_bytes (snd pr)]) r.

(* jt1078 <hex> : decode with a fresh receiver *)
Definition show_jt1078 (d : list N) : text := show_res (decode fresh_pkt d).

(* jt1078reuse <hex> : decode a stream with ONE reused receiver *)
Definition show_jt1078reuse (d : list N) : text :=
  show_result (fun ps => str "ok " ++ join (str " | ") (map (fun p => show_pkt p ++ str " rest=-") ps))
              (decode_stream_reuse fresh_pkt d).

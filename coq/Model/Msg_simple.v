(* C07 — message bodies as compositions of the format combinators of Base/Fmt.v.  DEFINITIONS ONLY.

   One definition per two-way message type of /repo/protocol/model (those without text conversion and
   without terminal parameters; see Msg_text.v, Params.v, Msg_location.v for the others).  The value of a
   message is the tuple of its exported Go fields in declaration order (embedded structs nested, BaseHandle
   skipped) - exactly the canonical dump of harness/lib/ops_bodies.go.  The field list is the WIRE order of
   Encode/Parse; fields that are not on the wire (Version, the dialect stored in the alarm sign, lists a
   parser always leaves nil) are [vconst].  The tail says what Parse does after the last field:
   [tl_exact] for `len(body) != N`, [tl_ignore] when only lower bounds are checked, [tl_rest] when the
   remaining bytes are the last field.

   Length-prefixed strings: the length is a field of the Go struct (ServerIPLen, FileNameLen, ...), Parse
   reads that many bytes, Encode writes the field and then the string; the domain ("length fields consistent
   with their strings") is what [vbytes (accN acc i)] demands.  Count fields and lists likewise ([vrep]). *)
From JT.Base Require Import Prelude Fmt.

Notation F f := (fun _ : list val => f) (only parsing).

(* ---- fixed layouts *)
(* T0x0001 / P0x8001: serial WORD, id WORD, result BYTE; `len(body) != 5` *)
Definition m_0001 : msg := mk_msg [F vu16; F vu16; F vu8] (F tl_exact).
Definition m_8001 : msg := mk_msg [F vu16; F vu16; F vu8] (F tl_exact).
(* T0x0002, P0x8104, P0x9003: empty body, Parse ignores whatever is there *)
Definition m_empty : msg := mk_msg [] (F tl_ignore).
(* T0x0800: multimedia id DWORD, type, format, event, channel; `!= 8` *)
Definition m_0800 : msg := mk_msg [F vu32; F vu8; F vu8; F vu8; F vu8] (F tl_exact).
(* T0x1003: `!= 10` *)
Definition m_1003 : msg := mk_msg [F vu8; F vu8; F vu8; F vu8; F vu16; F vu8; F vu8; F vu8; F vu8] (F tl_exact).
(* T0x1005: start BCD[6], end BCD[6], board WORD, alight WORD; `!= 16` *)
Definition m_1005 : msg := mk_msg [F vtime; F vtime; F vu16; F vu16] (F tl_exact).
(* T0x1206 / P0x9207: serial WORD, result BYTE; `!= 3` *)
Definition m_1206 : msg := mk_msg [F vu16; F vu8] (F tl_exact).
Definition m_9207 : msg := mk_msg [F vu16; F vu8] (F tl_exact).
(* P0x8801: `!= 12` *)
Definition m_8801 : msg :=
  mk_msg [F vu8; F vu16; F vu16; F vu8; F vu8; F vu8; F vu8; F vu8; F vu8; F vu8] (F tl_exact).
(* P0x9102 `!= 4`, P0x9105 `!= 2` *)
Definition m_9102 : msg := mk_msg [F vu8; F vu8; F vu8; F vu8] (F tl_exact).
Definition m_9105 : msg := mk_msg [F vu8; F vu8] (F tl_exact).
(* P0x9202: channel, control, speed, BCD[6]; `!= 9` *)
Definition m_9202 : msg := mk_msg [F vu8; F vu8; F vu8; F vtime] (F tl_exact).
(* P0x9205: channel, start, end, alarm flag 8 bytes, media, stream, storage; `!= 24` *)
Definition m_9205 : msg := mk_msg [F vu8; F vtime; F vtime; F vu64; F vu8; F vu8; F vu8] (F tl_exact).

(* ---- counted lists *)
(* P0x8003: original serial WORD, count BYTE, count x WORD; `len(body) != 3+2*count` *)
Definition m_8003 : msg := mk_msg [F vu16; F vu8; fun acc => vrep (accN acc 1) vu16] (F tl_exact).
(* T0x0805: serial WORD, result BYTE, count WORD, count x DWORD; `!= 5+4*count` *)
Definition m_0805 : msg := mk_msg [F vu16; F vu8; F vu16; fun acc => vrep (accN acc 2) vu32] (F tl_exact).
(* T0x1205: serial WORD, total DWORD, total x 28-byte resource; `!= 6+28*total` *)
Definition item_1205 : fmt val :=
  vstruct [F vu8; F vtime; F vtime; F vu64; F vu8; F vu8; F vu8; F vu32].
Definition m_1205 : msg := mk_msg [F vu16; F vu32; fun acc => vrep_w (accN acc 1) 28 item_1205] (F tl_exact).
(* P0x8800: multimedia id DWORD, then count BYTE and count x WORD -- but Encode omits both when the list is
   empty and Parse accepts exactly 4 bytes as "count 0, no list" (repaired: 9c3f0b5) *)
Definition m_8800_short : msg := mk_msg [F vu32; F (vconst (VN 0)); F (vconst (VL []))] (F tl_exact).
Definition m_8800_long : msg := mk_msg [F vu32; F vu8; fun acc => vrep (accN acc 1) vu16] (F tl_exact).
Definition sel_8800 (l : list N) : bool := len l =? 4.
Definition selv_8800 (v : val) : bool :=
  match v with VL [_; _; VL (_ :: _)] => false | _ => true end.
Definition m_8800 : msg := msg_switch sel_8800 selv_8800 m_8800_short m_8800_long.

(* ---- length-prefixed strings *)
(* P0x8100: serial WORD, result BYTE, auth code = the rest *)
Definition m_8100 : msg := mk_msg [F vu16; F vu8] (F tl_rest).
(* T0x1211: name length BYTE, name, type BYTE, size DWORD; `len(body) != 6+l` *)
Definition fields_1211 : list field := [F vu8; fun acc => vbytes (accN acc 0); F vu8; F vu32].
Definition m_1211 : msg := mk_msg fields_1211 (F tl_exact).
(* T0x1212 embeds T0x1211 (its Parse and Encode) and a list no parser ever fills *)
Definition m_1212 : msg := mk_msg [F (vstruct fields_1211); F (vconst (VL []))] (F tl_exact).
(* P0x9101: ip length, ip, tcp WORD, udp WORD, channel, data type, stream type; `!= 1+n+7` *)
Definition m_9101 : msg :=
  mk_msg [F vu8; fun acc => vbytes (accN acc 0); F vu16; F vu16; F vu8; F vu8; F vu8] (F tl_exact).
(* P0x9201: ... six bytes of flags, start BCD[6], end BCD[6]; `!= 1+n+22` *)
Definition m_9201 : msg :=
  mk_msg [F vu8; fun acc => vbytes (accN acc 0); F vu16; F vu16; F vu8; F vu8; F vu8; F vu8; F vu8; F vu8;
          F vtime; F vtime] (F tl_exact).
(* P0x9206: four length-prefixed strings (port WORD after the first), channel, start, end, alarm flag,
   four bytes; the last guard is `len(body) != end+25` *)
Definition m_9206 : msg :=
  mk_msg [F vu8; fun acc => vbytes (accN acc 0); F vu16;
          F vu8; fun acc => vbytes (accN acc 3);
          F vu8; fun acc => vbytes (accN acc 5);
          F vu8; fun acc => vbytes (accN acc 7);
          F vu8; F vtime; F vtime; F vu64; F vu8; F vu8; F vu8; F vu8] (F tl_exact).
(* P0x9212: name length, name, type, result, count BYTE, count x (offset DWORD, length DWORD);
   `!= 4+l+8*count` (stride repaired: 6ccfea4) *)
Definition m_9212 : msg :=
  mk_msg [F vu8; fun acc => vbytes (accN acc 0); F vu8; F vu8; F vu8;
          fun acc => vrep (accN acc 4) (vstruct [F vu32; F vu32])] (F tl_exact).

(* ---- layouts that depend on the header version *)
(* T0x0102.  2019: code length BYTE, code, IMEI BYTE[15], software version BYTE[20] cut at the first NUL;
   only lower bounds are checked.  Otherwise the whole body is the code and the 2019 fields are cleared. *)
Definition m_0102 (ver : N) : msg :=
  if ver =? 3
  then mk_msg [F vu8; fun acc => vbytes (accN acc 0); F (vbytes 15); F (vcut0 20); F (vconst (VN 3))] (F tl_ignore)
  else mk_msg [F (vconst (VN 0))] (F (tl_consts 1 tl_rest [VB []; VB []; VN 2])).

(* ---- layouts that depend on the active-safety dialect (getTerminalIDLen / getAlarmSignLen) *)
(* dialect: 1 JS, 2 HLJ, 3 GD, 4 HN, 5 SC; anything else (0 unset, 6 BJ) falls to the default *)
Definition dialect_table : list (N * (N * N)) :=     (* dialect -> (terminal id length, alarm sign length) *)
  [(1, (7, 16)); (2, (30, 38)); (3, (30, 40)); (4, (7, 32)); (5, (30, 39))].
Definition dialect_default : N * N := (7, 16).
Fixpoint assoc {A} (k : N) (t : list (N * A)) : option A :=
  match t with [] => None | (k', a) :: t' => if k' =? k then Some a else assoc k t' end.
Definition dialect_widths (d : N) : N * N :=
  match assoc d dialect_table with Some p => p | None => dialect_default end.
Definition id_len (d : N) : N := fst (dialect_widths d).
Definition sign_len (d : N) : N := snd (dialect_widths d).

(* P9208AlarmSign: terminal id (NUL-padded; read with bytes.Trim = BOTH sides: recorded finding
   C07/sign-id-leading-nul), BCD[6], serial, attachment count, reserve up to the sign length; the dialect is a
   field of the Go struct that is not on the wire *)
Definition alarm_sign (d : N) : fmt val :=
  vstruct [F (vpad2 (id_len d)); F vtime; F vu8; F vu8; F (vbytes (sign_len d - id_len d - 8)); F (vconst (VN d))].
(* the behaviour the property requires of the same field (bytes.TrimRight) *)
Definition alarm_sign_required (d : N) : fmt val :=
  vstruct [F (vpad (id_len d)); F vtime; F vu8; F vu8; F (vbytes (sign_len d - id_len d - 8)); F (vconst (VN d))].

(* P0x9208: ip length, ip, tcp, udp, alarm sign (dialect width; repaired: 24f9b7e), alarm id BYTE[32]
   (TrimRight; repaired: d313880), reserve = the rest *)
Definition m_9208 (d : N) : msg :=
  mk_msg [F vu8; fun acc => vbytes (accN acc 0); F vu16; F vu16; F (alarm_sign d); F (vpad 32)] (F tl_rest).
Definition m_9208_required (d : N) : msg :=
  mk_msg [F vu8; fun acc => vbytes (accN acc 0); F vu16; F vu16; F (alarm_sign_required d); F (vpad 32)] (F tl_rest).

(* T0x1210: terminal id (absent for HLJ), alarm sign, alarm id BYTE[32], info type, count BYTE,
   count x (name length, name, size DWORD); trailing bytes are not looked at *)
Definition item_1210 : fmt val := vstruct [F vu8; fun acc => vbytes (accN acc 0); F vu32].
Definition m_1210 (d : N) : msg :=
  mk_msg [F (if d =? 2 then vconst (VB []) else vpad (id_len d)); F (alarm_sign d); F (vpad 32); F vu8; F vu8;
          fun acc => vrep (accN acc 4) item_1210] (F tl_ignore).

(* ---- the registry used by the oracle: message id, header version, dialect -> model *)
Definition simple_table (ver d : N) : list (N * msg) :=
  [(0x0001, m_0001); (0x0002, m_empty); (0x0102, m_0102 ver); (0x0800, m_0800); (0x0805, m_0805);
   (0x1003, m_1003); (0x1005, m_1005); (0x1205, m_1205); (0x1206, m_1206); (0x1210, m_1210 d);
   (0x1211, m_1211); (0x1212, m_1212);
   (0x8001, m_8001); (0x8003, m_8003); (0x8100, m_8100); (0x8104, m_empty); (0x8800, m_8800);
   (0x8801, m_8801); (0x9003, m_empty); (0x9101, m_9101); (0x9102, m_9102); (0x9105, m_9105);
   (0x9201, m_9201); (0x9202, m_9202); (0x9205, m_9205); (0x9206, m_9206); (0x9207, m_9207);
   (0x9208, m_9208 d); (0x9212, m_9212)].
Definition msg_simple (id ver d : N) : option msg := assoc id (simple_table ver d).

(* C12 / C13 — one connection of the server with everything that talks to it
   (service/connection.go, service/session_manager.go).  DEFINITIONS ONLY.

   Processes and what they mirror (the REPAIRED protocol, /repo after 6c53d16 a9e0f38 c13075d b2f792d):

     callers   GoJT808.SendActiveMessage -> sessionManager.write: the closure is queued for the manager, the
               caller blocks on its own unbuffered replyChan until somebody answers           [Call]
     manager   sessionManager.run: ONE goroutine applying the queued closures in order
                 write : key registered -> `v.activeMsgChan <- activeMsg` (blocks the manager while the
                         channel is full), else replyChan <- ErrNotExistKey
                 join  : key free -> registered, else _errKeyExist (another connection owns the key:
                         decided by the environment, [jres]); _errKeyInvalid when KeyFunc refuses
                 leave : delete the key                                                          [MgrStep]
     terminal  sends frames, closes / resets / sends garbage (all "the reader's Read fails")  [PeerSend, PeerClose]
     reader    connection.reader: Read -> (join through the manager while !join) -> `c.msgChan <- msg`;
               on a failed read or _errKeyExist: stop() = leaveFunc (through the manager) ;
               close(stopChan) ; conn.Close() ; close(msgChan) ; close(activeMsgChan)
                                                                                   [RdRead RdFail RdPush RdClose]
     writer    connection.write: select over stopChan / activeMsgChan / activeMsgCompleteChan / msgChan
                 activeMsgChan : onActiveEvent   seq := curSeq(); record[seq] = cmd; conn.Write;
                                 write error -> completed INLINE with ErrWriteDataFail;
                                 else, OverTimeDuration >= 0 -> a timer goroutine                [WAct]
                 msgChan       : onActiveRespondEvent (record non-empty): a response type whose body
                                 parses completes the record entry whose key is the echoed serial
                                 (0x1003: an entry whose command is 0x9003) INLINE; a response type whose
                                 body does not parse is swallowed; everything else: defaultReplyEvent
                                 (HasReply -> curSeq, conn.Write)                                 [WMsg]
                 completion    : a timer's message: record[seq] present -> reply, delete          [WCpl]
                 stopChan      : onStopEvent: every record entry is answered ErrNotExistKey, then the
                                 commands still queued in activeMsgChan, one by one, until it is empty
                                 or closed; the writer exits                                [WStop, WDrain]
     timers    go func: time.Sleep(d); select { <-stopChan ; activeMsgCompleteChan <- msg }  [TSend, TQuit]

   Real time is not in the model: a timer may fire at any moment after its command was written (every
   real execution is one of these schedules; "the timeout does not come early" is outside the model).
   The reply `v.replyChan <- msg` is one step with the completion: the caller is blocked in `<-replyChan`
   from the moment its closure is queued.  A closed-and-empty channel chosen by the writer's select is
   a stuttering step and not represented.  reissuePackChan (0x8003 from a terminal) and sub-packaged
   messages (C05/C14) are not in this model; every message that reaches msgChan is complete.

   Timeout of a command ([c_tmo]): onActiveEvent arms a timer iff OverTimeDuration >= 0; 0 means "the 3 s
   default", only a negative duration arms none (such a call is answered by its response or by the
   disconnect).  The model therefore has one bit; which positive duration is real time and not modelled.

   The reader handles ONE parsed message per step ([RdRead] takes it, [RdPush] is its `c.msgChan <- msg`), so
   a Read that delivered many messages is pushed message by message, interleaved with everything else,
   including the writer falling behind (msgChan full: RdPush blocks).  stop() runs in the reader only:
   msgChan is closed by its only sender, after that sender's last send (invariant invA.a_msg in
   Proofs/Writer_proofs.v; a stop() started by the writer would break exactly this).

   Fragmented terminal messages: packageParse.parse hands the reader EVERY sub-package as a message of its
   own (Header.SubPackageSum > 0, SubcontractComplete = false: hasComplete() = false) and, right after the
   last one, the merged message (SubcontractComplete = true: hasComplete() = true, body = the concatenation).
   All of them go through msgChan.  The writer's guard in front of the matcher is `len(record) > 0 &&
   msg.hasComplete()` and the one in front of defaultReplyEvent `msg.hasComplete() || !c.filter`, so with the
   default FilterSubcontract = true a sub-package ([TFrag]) is taken from msgChan and dropped, and the merged
   message is an ordinary complete message: a [TResp] / [TAttr] / [TOther] like one that came in a single
   frame.  A response sent in k sub-packages is therefore the terminal sending k [TFrag]s and, with the last
   one, the response itself.  (The reassembly is C05's model; the 5 s re-request through reissuePackChan is
   C14's and not in this model.)

   Serial numbers: uint16, [next_serial].  Overwriting a record entry that is still in use (the serial
   counter went round while a command, its timer or its timeout message was still there) is reported as
   the observation [OReuse]; the theorems about matching assume it does not happen (65 536 frames would
   have to be written while one command is outstanding).

   ghost data: call ids (the i-th Call gets id i), the call id carried by timers and timeout messages.
   They are never inspected by a step (lookups go by serial, as in the code). *)
From Coq Require Import List NArith Bool Arith.
From JT.Base Require Import Sched.
Import ListNotations.
Open Scope N_scope.

(* ---------------- data ---------------- *)
Inductive tmsg :=
| TResp (typ echo : N)           (* 0x0001 0x0104 0x0805 0x1205 0x1206, body parses, echoes serial [echo] *)
| TBad (typ : N)                 (* one of those five (or 0x1003) with a body that does not parse *)
| TAttr                          (* 0x1003: carries no serial *)
| TOther (tag : N) (reply : bool)  (* any other handled message; tag = its terminal serial; reply = HasReply() *)
| TFrag.                         (* one sub-package of a fragmented message: hasComplete() = false *)

Inductive cres := RResp (m : tmsg) | RTimeout | RWriteFail | RNoExist.

Record call := { c_id : nat; c_cmd : N; c_tmo : bool (* OverTimeDuration >= 0 *) }.

Definition cmd_9003 : N := 36867.   (* consts.P9003QueryTerminalAudioVideoProperties *)

Inductive mop := MRoute (c : call) | MJoin | MLeave.
Inductive jres := JOk | JExist | JInvalid.

Inductive rstate :=
| RRun                 (* in the read loop *)
| RJoinWait (m : tmsg) (* joinFunc called, waiting for the manager *)
| RPush (m : tmsg)     (* at `c.msgChan <- msg` *)
| RLeaveWait           (* stop(): leaveFunc called, waiting for the manager *)
| RClose1              (* next: close(stopChan); conn.Close() *)
| RClose2              (* next: close(msgChan) *)
| RClose3              (* next: close(activeMsgChan) *)
| RDone.

Inductive wstate := WsRun | WsDrain | WsExit.

Inductive obs :=
| OCall (c : call)                       (* the call's closure reached the manager's queue *)
| OSent (m : tmsg)                       (* the terminal sent m *)
| OWrite (k : N) (c : call) (ok : bool)  (* command of call c handed to conn.Write with serial k *)
| OReply (k : N) (m : tmsg) (ok : bool)  (* automatic reply to m handed to conn.Write with serial k *)
| OSeen (m : tmsg)                       (* the writer took m from msgChan *)
| OFire (i : nat)                        (* the timer of call i delivered its timeout message *)
| OReturn (i : nat) (r : cres)           (* SendActiveMessage of call i returned r *)
| OReuse                                 (* a serial still in use was handed out again *)
| OCrash.                                (* send on a closed channel / close of a closed channel *)

Record st := {
  seq : N;                       (* platformSerialNumber *)
  rec : list (N * call);         (* record: serial -> outstanding command *)
  inQ : list tmsg;               (* frames sent by the terminal, not yet read *)
  peer_closed : bool;            (* the reader's next Read may fail *)
  rd : rstate;
  joined : bool;                 (* reader's local `join` *)
  registered : bool;             (* the registry routes this connection's key here *)
  mgrQ : list mop;               (* operationFuncChan + blocked senders, in arrival order *)
  msgQ : chan tmsg;              (* msgChan *)
  actQ : chan call;              (* activeMsgChan *)
  cplQ : chan (N * nat);         (* activeMsgCompleteChan: serial (, ghost: call id of the timer) *)
  stop_closed : bool;            (* close(stopChan) happened *)
  conn_closed : bool;            (* conn.Close() happened *)
  wr : wstate;
  timers : list (nat * N);       (* sleeping / selecting timer goroutines: (ghost call id, serial) *)
  ncalls : nat
}.

Definition cap_msg : nat := 10.
Definition cap_act : nat := 3.
Definition cap_cpl : nat := 3.

Definition init (s0 : N) : st :=
  {| seq := s0; rec := []; inQ := []; peer_closed := false; rd := RRun; joined := false;
     registered := false; mgrQ := []; msgQ := mkchan cap_msg; actQ := mkchan cap_act;
     cplQ := mkchan cap_cpl; stop_closed := false; conn_closed := false; wr := WsRun;
     timers := []; ncalls := 0 |}.

Inductive choice :=
| Call (cmd : N) (tmo : bool) | PeerSend (m : tmsg) | PeerClose
| MgrStep (j : jres)
| RdRead | RdFail | RdPush | RdClose
| WStop | WAct (wok : bool) | WMsg (pick : N) (wok : bool) | WCpl | WDrain
| TSend (i : nat) | TQuit (i : nat).

(* everything but the environment *)
Definition internal (c : choice) : bool :=
  match c with Call _ _ | PeerSend _ | PeerClose => false | _ => true end.

(* ---------------- setters ---------------- *)
Definition set_seq s v := {| seq := v; rec := rec s; inQ := inQ s; peer_closed := peer_closed s; rd := rd s; joined := joined s; registered := registered s; mgrQ := mgrQ s; msgQ := msgQ s; actQ := actQ s; cplQ := cplQ s; stop_closed := stop_closed s; conn_closed := conn_closed s; wr := wr s; timers := timers s; ncalls := ncalls s |}.
Definition set_rec s v := {| seq := seq s; rec := v; inQ := inQ s; peer_closed := peer_closed s; rd := rd s; joined := joined s; registered := registered s; mgrQ := mgrQ s; msgQ := msgQ s; actQ := actQ s; cplQ := cplQ s; stop_closed := stop_closed s; conn_closed := conn_closed s; wr := wr s; timers := timers s; ncalls := ncalls s |}.
Definition set_inQ s v := {| seq := seq s; rec := rec s; inQ := v; peer_closed := peer_closed s; rd := rd s; joined := joined s; registered := registered s; mgrQ := mgrQ s; msgQ := msgQ s; actQ := actQ s; cplQ := cplQ s; stop_closed := stop_closed s; conn_closed := conn_closed s; wr := wr s; timers := timers s; ncalls := ncalls s |}.
Definition set_peer_closed s v := {| seq := seq s; rec := rec s; inQ := inQ s; peer_closed := v; rd := rd s; joined := joined s; registered := registered s; mgrQ := mgrQ s; msgQ := msgQ s; actQ := actQ s; cplQ := cplQ s; stop_closed := stop_closed s; conn_closed := conn_closed s; wr := wr s; timers := timers s; ncalls := ncalls s |}.
Definition set_rd s v := {| seq := seq s; rec := rec s; inQ := inQ s; peer_closed := peer_closed s; rd := v; joined := joined s; registered := registered s; mgrQ := mgrQ s; msgQ := msgQ s; actQ := actQ s; cplQ := cplQ s; stop_closed := stop_closed s; conn_closed := conn_closed s; wr := wr s; timers := timers s; ncalls := ncalls s |}.
Definition set_joined s v := {| seq := seq s; rec := rec s; inQ := inQ s; peer_closed := peer_closed s; rd := rd s; joined := v; registered := registered s; mgrQ := mgrQ s; msgQ := msgQ s; actQ := actQ s; cplQ := cplQ s; stop_closed := stop_closed s; conn_closed := conn_closed s; wr := wr s; timers := timers s; ncalls := ncalls s |}.
Definition set_registered s v := {| seq := seq s; rec := rec s; inQ := inQ s; peer_closed := peer_closed s; rd := rd s; joined := joined s; registered := v; mgrQ := mgrQ s; msgQ := msgQ s; actQ := actQ s; cplQ := cplQ s; stop_closed := stop_closed s; conn_closed := conn_closed s; wr := wr s; timers := timers s; ncalls := ncalls s |}.
Definition set_mgrQ s v := {| seq := seq s; rec := rec s; inQ := inQ s; peer_closed := peer_closed s; rd := rd s; joined := joined s; registered := registered s; mgrQ := v; msgQ := msgQ s; actQ := actQ s; cplQ := cplQ s; stop_closed := stop_closed s; conn_closed := conn_closed s; wr := wr s; timers := timers s; ncalls := ncalls s |}.
Definition set_msgQ s v := {| seq := seq s; rec := rec s; inQ := inQ s; peer_closed := peer_closed s; rd := rd s; joined := joined s; registered := registered s; mgrQ := mgrQ s; msgQ := v; actQ := actQ s; cplQ := cplQ s; stop_closed := stop_closed s; conn_closed := conn_closed s; wr := wr s; timers := timers s; ncalls := ncalls s |}.
Definition set_actQ s v := {| seq := seq s; rec := rec s; inQ := inQ s; peer_closed := peer_closed s; rd := rd s; joined := joined s; registered := registered s; mgrQ := mgrQ s; msgQ := msgQ s; actQ := v; cplQ := cplQ s; stop_closed := stop_closed s; conn_closed := conn_closed s; wr := wr s; timers := timers s; ncalls := ncalls s |}.
Definition set_cplQ s v := {| seq := seq s; rec := rec s; inQ := inQ s; peer_closed := peer_closed s; rd := rd s; joined := joined s; registered := registered s; mgrQ := mgrQ s; msgQ := msgQ s; actQ := actQ s; cplQ := v; stop_closed := stop_closed s; conn_closed := conn_closed s; wr := wr s; timers := timers s; ncalls := ncalls s |}.
Definition set_stop_closed s v := {| seq := seq s; rec := rec s; inQ := inQ s; peer_closed := peer_closed s; rd := rd s; joined := joined s; registered := registered s; mgrQ := mgrQ s; msgQ := msgQ s; actQ := actQ s; cplQ := cplQ s; stop_closed := v; conn_closed := conn_closed s; wr := wr s; timers := timers s; ncalls := ncalls s |}.
Definition set_conn_closed s v := {| seq := seq s; rec := rec s; inQ := inQ s; peer_closed := peer_closed s; rd := rd s; joined := joined s; registered := registered s; mgrQ := mgrQ s; msgQ := msgQ s; actQ := actQ s; cplQ := cplQ s; stop_closed := stop_closed s; conn_closed := v; wr := wr s; timers := timers s; ncalls := ncalls s |}.
Definition set_wr s v := {| seq := seq s; rec := rec s; inQ := inQ s; peer_closed := peer_closed s; rd := rd s; joined := joined s; registered := registered s; mgrQ := mgrQ s; msgQ := msgQ s; actQ := actQ s; cplQ := cplQ s; stop_closed := stop_closed s; conn_closed := conn_closed s; wr := v; timers := timers s; ncalls := ncalls s |}.
Definition set_timers s v := {| seq := seq s; rec := rec s; inQ := inQ s; peer_closed := peer_closed s; rd := rd s; joined := joined s; registered := registered s; mgrQ := mgrQ s; msgQ := msgQ s; actQ := actQ s; cplQ := cplQ s; stop_closed := stop_closed s; conn_closed := conn_closed s; wr := wr s; timers := v; ncalls := ncalls s |}.
Definition set_ncalls s v := {| seq := seq s; rec := rec s; inQ := inQ s; peer_closed := peer_closed s; rd := rd s; joined := joined s; registered := registered s; mgrQ := mgrQ s; msgQ := msgQ s; actQ := actQ s; cplQ := cplQ s; stop_closed := stop_closed s; conn_closed := conn_closed s; wr := wr s; timers := timers s; ncalls := v |}.

(* ---------------- the record map, serials ---------------- *)
Definition next_serial (k : N) : N := (k + 1) mod 65536.    (* uint16 ++ *)

Fixpoint lookup (k : N) (l : list (N * call)) : option call :=
  match l with
  | [] => None
  | (a, c) :: t => if a =? k then Some c else lookup k t
  end.

Definition del (k : N) (l : list (N * call)) : list (N * call) :=
  filter (fun p => negb (fst p =? k)) l.

Definition is_9003 (c : call) : bool := c_cmd c =? cmd_9003.

(* serial k is still in use: an outstanding command, a live timer or a queued timeout message carries it *)
Definition busy (k : N) (s : st) : bool :=
  existsb (fun p => fst p =? k) (rec s)
  || existsb (fun t => snd t =? k) (timers s)
  || existsb (fun p => fst p =? k) (buf (cplQ s)).

Fixpoint timer_of (i : nat) (l : list (nat * N)) : option N :=
  match l with
  | [] => None
  | (j, k) :: t => if Nat.eqb j i then Some k else timer_of i t
  end.
(* the timer goroutine of call i is gone (the first one, should two carry the same ghost id) *)
Fixpoint del_timer (i : nat) (l : list (nat * N)) : list (nat * N) :=
  match l with
  | [] => []
  | (j, k) :: t => if Nat.eqb j i then t else (j, k) :: del_timer i t
  end.

(* conn.Write: succeeds only on a socket this side has not closed; may fail once the peer is gone *)
Definition write_possible (s : st) (wok : bool) : bool :=
  if wok then negb (conn_closed s) else peer_closed s || conn_closed s.

(* ---------------- steps ---------------- *)
Definition step_mgr (s : st) (j : jres) : option (st * list obs) :=
  match mgrQ s with
  | [] => None
  | MRoute c :: q =>
      if registered s then
        match ch_send (actQ s) c with
        | SendOk a => Some (set_actQ (set_mgrQ s q) a, [])
        | SendBlock => None
        | SendCrash => Some (set_mgrQ s q, [OCrash])
        end
      else Some (set_mgrQ s q, [OReturn (c_id c) RNoExist])
  | MJoin :: q =>
      match rd s with
      | RJoinWait m =>
          match j with
          | JOk => Some (set_rd (set_joined (set_registered (set_mgrQ s q) true) true) (RPush m), [])
          | JInvalid => Some (set_rd (set_mgrQ s q) (RPush m), [])
          | JExist => Some (set_rd (set_mgrQ s (q ++ [MLeave])) RLeaveWait, [])
          end
      | _ => Some (set_mgrQ s q, [])
      end
  | MLeave :: q =>
      match rd s with
      | RLeaveWait => Some (set_rd (set_registered (set_mgrQ s q) false) RClose1, [])
      | _ => Some (set_registered (set_mgrQ s q) false, [])
      end
  end.

Definition step_rdclose (s : st) : option (st * list obs) :=
  match rd s with
  | RClose1 =>
      if stop_closed s then Some (set_rd s RDone, [OCrash])
      else Some (set_rd (set_conn_closed (set_stop_closed s true) true) RClose2, [])
  | RClose2 =>
      match ch_close (msgQ s) with
      | Some q => Some (set_rd (set_msgQ s q) RClose3, [])
      | None => Some (set_rd s RDone, [OCrash])
      end
  | RClose3 =>
      match ch_close (actQ s) with
      | Some q => Some (set_rd (set_actQ s q) RDone, [])
      | None => Some (set_rd s RDone, [OCrash])
      end
  | _ => None
  end.

(* onActiveCompleteEvent(record, msg) with msg.PlatformSeq = k *)
Definition complete (s : st) (k : N) (r : cres) : st * list obs :=
  match lookup k (rec s) with
  | Some c => (set_rec s (del k (rec s)), [OReturn (c_id c) r])
  | None => (s, [])
  end.

Definition step_wact (s : st) (wok : bool) : option (st * list obs) :=
  match wr s, ch_recv (actQ s) with
  | WsRun, RecvVal c q =>
      if write_possible s wok then
        let k := seq s in
        let reuse := if busy k s then [OReuse] else [] in
        let s1 := set_rec (set_seq (set_actQ s q) (next_serial k)) ((k, c) :: del k (rec s)) in
        if wok then
          Some (if c_tmo c then set_timers s1 ((c_id c, k) :: timers s1) else s1,
                reuse ++ [OWrite k c true])
        else
          let (s2, o) := complete s1 k RWriteFail in
          Some (s2, reuse ++ OWrite k c false :: o)
      else None
  | _, _ => None
  end.

(* defaultReplyEvent *)
Definition default_reply (s : st) (m : tmsg) (has : bool) (wok : bool) : st * list obs :=
  if has then (set_seq s (next_serial (seq s)), [OReply (seq s) m wok]) else (s, []).

Definition step_wmsg (s : st) (pick : N) (wok : bool) : option (st * list obs) :=
  match wr s, ch_recv (msgQ s) with
  | WsRun, RecvVal m q =>
      if write_possible s wok then
        let s1 := set_msgQ s q in
        match m with
        | TResp _ e => let (s2, o) := complete s1 e (RResp m) in Some (s2, OSeen m :: o)
        | TBad _ => Some (s1, [OSeen m])
        | TFrag => Some (s1, [OSeen m])     (* not complete: neither matched nor answered (FilterSubcontract) *)
        | TAttr =>
            if existsb (fun p => is_9003 (snd p)) (rec s) then
              match lookup pick (rec s) with
              | Some c =>
                  if is_9003 c then let (s2, o) := complete s1 pick (RResp m) in Some (s2, OSeen m :: o)
                  else None
              | None => None
              end
            else let (s2, o) := default_reply s1 m true wok in Some (s2, OSeen m :: o)
        | TOther _ has => let (s2, o) := default_reply s1 m has wok in Some (s2, OSeen m :: o)
        end
      else None
  | _, _ => None
  end.

Definition step_wcpl (s : st) : option (st * list obs) :=
  match wr s, ch_recv (cplQ s) with
  | WsRun, RecvVal (k, _) q => let (s2, o) := complete (set_cplQ s q) k RTimeout in Some (s2, o)
  | _, _ => None
  end.

Definition step_wstop (s : st) : option (st * list obs) :=
  match wr s with
  | WsRun =>
      if stop_closed s then
        Some (set_wr (set_rec s []) WsDrain, map (fun p => OReturn (c_id (snd p)) RNoExist) (rec s))
      else None
  | _ => None
  end.

Definition step_wdrain (s : st) : option (st * list obs) :=
  match wr s with
  | WsDrain =>
      match ch_recv (actQ s) with
      | RecvVal c q => Some (set_actQ s q, [OReturn (c_id c) RNoExist])
      | _ => Some (set_wr s WsExit, [])
      end
  | _ => None
  end.

Definition step (s : st) (c : choice) : option (st * list obs) :=
  match c with
  | Call cmd tmo =>
      let cl := {| c_id := ncalls s; c_cmd := cmd; c_tmo := tmo |} in
      Some (set_ncalls (set_mgrQ s (mgrQ s ++ [MRoute cl])) (S (ncalls s)), [OCall cl])
  | PeerSend m =>
      if peer_closed s then None else Some (set_inQ s (inQ s ++ [m]), [OSent m])
  | PeerClose =>
      if peer_closed s then None else Some (set_peer_closed s true, [])
  | MgrStep j => step_mgr s j
  | RdRead =>
      match rd s, inQ s with
      | RRun, m :: q =>
          if joined s then Some (set_rd (set_inQ s q) (RPush m), [])
          else Some (set_rd (set_mgrQ (set_inQ s q) (mgrQ s ++ [MJoin])) (RJoinWait m), [])
      | _, _ => None
      end
  | RdFail =>
      match rd s with
      | RRun => if peer_closed s then Some (set_rd (set_mgrQ s (mgrQ s ++ [MLeave])) RLeaveWait, []) else None
      | _ => None
      end
  | RdPush =>
      match rd s with
      | RPush m =>
          match ch_send (msgQ s) m with
          | SendOk q => Some (set_rd (set_msgQ s q) RRun, [])
          | SendBlock => None
          | SendCrash => Some (set_rd s RDone, [OCrash])
          end
      | _ => None
      end
  | RdClose => step_rdclose s
  | WStop => step_wstop s
  | WAct wok => step_wact s wok
  | WMsg pick wok => step_wmsg s pick wok
  | WCpl => step_wcpl s
  | WDrain => step_wdrain s
  | TSend i =>
      match timer_of i (timers s) with
      | Some k =>
          match ch_send (cplQ s) (k, i) with
          | SendOk q => Some (set_timers (set_cplQ s q) (del_timer i (timers s)), [OFire i])
          | SendBlock => None
          | SendCrash => Some (set_timers s (del_timer i (timers s)), [OCrash])
          end
      | None => None
      end
  | TQuit i =>
      match timer_of i (timers s) with
      | Some _ => if stop_closed s then Some (set_timers s (del_timer i (timers s)), []) else None
      | None => None
      end
  end.

Definition run_w (s : st) (sched : list choice) : st * list obs := run step s sched.

(* ---------------- what the theorems talk about ---------------- *)
Definition quiescent (s : st) : Prop := forall c, internal c = true -> step s c = None.

(* ids of the calls somewhere inside the system *)
Fixpoint route_ids (l : list mop) : list nat :=
  match l with
  | [] => []
  | MRoute c :: t => c_id c :: route_ids t
  | _ :: t => route_ids t
  end.
Definition pending_ids (s : st) : list nat :=
  route_ids (mgrQ s) ++ map c_id (buf (actQ s)) ++ map (fun p => c_id (snd p)) (rec s).

Fixpoint returns (tr : list obs) : list (nat * cres) :=
  match tr with
  | [] => []
  | OReturn i r :: t => (i, r) :: returns t
  | _ :: t => returns t
  end.
Definition returned (tr : list obs) : list nat := map fst (returns tr).

Fixpoint calls (tr : list obs) : list call :=
  match tr with [] => [] | OCall c :: t => c :: calls t | _ :: t => calls t end.

(* serials of the frames handed to conn.Write, in order *)
Fixpoint serials (tr : list obs) : list N :=
  match tr with
  | [] => []
  | OWrite k _ _ :: t => k :: serials t
  | OReply k _ _ :: t => k :: serials t
  | _ :: t => serials t
  end.

Fixpoint written (tr : list obs) : list nat :=
  match tr with [] => [] | OWrite _ c _ :: t => c_id c :: written t | _ :: t => written t end.

Fixpoint nth_serial (s0 : N) (n : nat) : N :=
  match n with O => s0 | S m => next_serial (nth_serial s0 m) end.

(* other traffic that must be answered, by tag *)
Definition wants_reply (m : tmsg) : list N :=
  match m with TOther tag true => [tag] | _ => [] end.
Fixpoint sent_tags (tr : list obs) : list N :=
  match tr with [] => [] | OSent m :: t => wants_reply m ++ sent_tags t | _ :: t => sent_tags t end.
Fixpoint replied_tags (tr : list obs) : list N :=
  match tr with [] => [] | OReply _ m _ :: t => wants_reply m ++ replied_tags t | _ :: t => replied_tags t end.

(* does response m answer the command written with serial k for call c *)
Definition answers (m : tmsg) (k : N) (c : call) : bool :=
  match m with
  | TResp _ e => e =? k
  | TAttr => is_9003 c
  | _ => false
  end.

(* m is a response that echoes serial k *)
Definition answers_serial (m : tmsg) (k : N) : bool :=
  match m with TResp _ e => e =? k | _ => false end.
(* no response echoing k was taken from msgChan in this stretch of the trace *)
Definition noseen (k : N) (a : list obs) : Prop := forall m, In (OSeen m) a -> answers_serial m k = false.

(* the run predicate of the matching theorems: no serial was handed out while still in use *)
Definition no_reuse (tr : list obs) : Prop := ~ In OReuse tr.

(* number of choices of a schedule that were enabled (not skipped) *)
Fixpoint executed (s : st) (sched : list choice) : nat :=
  match sched with
  | [] => O
  | c :: t => match step s c with
              | Some (s', _) => S (executed s' t)
              | None => executed s t
              end
  end.

(* the measure that every internal step decreases *)
Definition w_mop (o : mop) : nat := match o with MRoute _ => 8 | MJoin => 1 | MLeave => 1 end.
Definition w_rd (r : rstate) : nat :=
  match r with
  | RRun => 7 | RJoinWait _ => 11 | RPush _ => 10
  | RLeaveWait => 5 | RClose1 => 3 | RClose2 => 2 | RClose3 => 1 | RDone => 0
  end.
Definition w_wr (w : wstate) : nat := match w with WsRun => 2 | WsDrain => 1 | WsExit => 0 end.
Definition sumn (l : list nat) : nat := fold_right Nat.add O l.
Definition measure (s : st) : nat :=
  (13 * length (inQ s) + w_rd (rd s) + sumn (map w_mop (mgrQ s)) + 2 * length (buf (msgQ s))
   + 7 * length (buf (actQ s)) + 1 * length (rec s) + 2 * length (timers s) + 1 * length (buf (cplQ s))
   + w_wr (wr s))%nat.

(* show_<op> for oracle/drv_c19.ml: ops c19, c19abs (definitions only; see Base/Show.v).
   The driver's first `sort_uniq compare` of the announced names (OCaml's structural order on the
   extracted N) only removes duplicates before the final sort by created path, which removes them
   as well: it is not reproduced here. *)
From Coq Require Import String.
From JT.Base Require Import Prelude Show.
From JT.Model Require Import Frame Paths.
From JT.Model Require Attach.

Definition cwd : list (list N) := [[119]].   (* "w" *)

Definition fnv32 (l : list N) : N :=
  fold_left (fun h b => (N.lxor h b * 16777619) mod 4294967296) l 2166136261.

(* relative location of a written path, by the lexical resolution of the model *)
Definition rel (p : list N) : text :=
  let r := resolve cwd p in
  if insideb cwd r then join (Show.str "/") (tl r) else Show.str "OUTSIDE:" ++ join (Show.str "/") r.

Fixpoint uniq_keep {A} (eqb : A -> A -> bool) (prev : A) (l : list A) : list A :=
  match l with
  | [] => []
  | y :: t => if eqb prev y then uniq_keep eqb prev t else y :: uniq_keep eqb y t
  end.
Definition uniq_first {A} (eqb : A -> A -> bool) (l : list A) : list A :=
  match l with [] => [] | x :: t => x :: uniq_keep eqb x t end.

Definition show_created (phone : list N) (files : list (list N * list N)) : text :=
  let files := filter (fun f => negb (os_refuses (fst f))) files in
  let entries := (phone, None) :: map (fun f => (rel (fst f), Some (snd f))) files in
  let entries := uniq_first (fun a b => text_eqb (fst a) (fst b))
                            (sort_by (fun a b => text_leb (fst a) (fst b)) entries) in
  Show.str "ok created=" ++
  join (Show.str ",") (map (fun e : text * option (list N) =>
    match snd e with
    | None => show_hex_bytes (fst e)
    | Some body => cat [show_hex_bytes (fst e); Show.str ":"; show_nat (length body); Show.str "/";
                        show_hexN_pad 8 (fnv32 body)]
    end) entries).

(* c19 <dialect> <segment-hex>... : a whole session through the upload model *)
Definition show_c19 (d : N) (segs : list (list N)) : text :=
  match Attach.on_quit_saves (snd (Attach.run d segs)) with
  | Some (phone, files) => show_created phone files
  | None => Show.str "ok created=-"
  end.

(* c19abs <dialect> <v2019> <bcd-hex> <name-hex|->... : names only, plus "zz" *)
Definition show_c19abs (bcd : list N) (names : list (list N)) : text :=
  let phone := bcd2dec bcd in
  show_created phone (map (fun p => (p, [])) (writes phone (names ++ [[122; 122]]))).

(* show_<op> for oracle/drv_x_stream.ml (ops up, sp) and oracle/drv_c14.ml (op rrw)
   (definitions only; see Base/Show.v) *)
From Coq Require Import String.
From JT.Base Require Import Prelude Show.
From JT.Model Require Import Frame Unpack Subpkg.
From JT.Model Require Reply.

Definition show_smsg (raw : list N) (m : msg) (complete : bool) : text :=
  join (str ",") [show_N (m_id m); show_N (m_serial m); show_N (m_sum m); show_N (m_no m);
                  show_bool complete; show_hex_bytes (m_body m); show_hex_bytes raw].

Fixpoint span_while {A} (p : A -> bool) (l : list A) : list A * list A :=
  match l with
  | [] => ([], [])
  | x :: t => if p x then let '(a, b) := span_while p t in (x :: a, b) else ([], l)
  end.

(* the maximal trailing run of id-0x8003 messages is sorted *)
Definition canon_msg_list (ms : list text) : text :=
  match ms with
  | [] => str "-"
  | _ => let '(tail_rev, head_rev) := span_while (has_prefix (str "32771,")) (rev ms) in
         join (str ";") (rev head_rev ++ sort_by text_leb (rev tail_rev))
  end.

Definition show_obs (err : option N) (hist : list N) (pending : text) (ms : list text) : text :=
  match err with
  | Some 99 => str "panic"
  | _ => cat [str "e="; match err with None => str "0" | Some e => show_N e end;
              str " h="; show_nat (length hist); str " p="; pending; str " m="; canon_msg_list ms]
  end.

(* stop after a panic like the harness does *)
Fixpoint until_panic (l : list text) : list text :=
  match l with
  | [] => []
  | s :: t => if text_eqb s (str "panic") then [s] else s :: until_panic t
  end.

(* up <chunk-hex> ... *)
Definition show_up (chunks : list (list N)) : text :=
  match trace_unpack [] chunks with
  | [] => str "none"
  | tr => join (str " | ") (until_panic (map (fun o =>
            show_obs (u_err o) (u_hist o) (str "-")
                     (map (fun rm => show_smsg (fst rm) (snd rm) false) (u_msgs o))) tr))
  end.

Definition pend_leb (a b : N * nat) : bool :=
  if fst a <? fst b then true else if fst b <? fst a then false else Nat.leb (snd a) (snd b).

Definition show_pending (s : pstate) : text :=
  match s with
  | [] => str "-"
  | _ => join (str ",") (map (fun kv => show_N (fst kv) ++ str ":" ++ show_nat (snd kv))
                             (sort_by pend_leb (map (fun kv => (fst kv, length (x_slots (snd kv)))) s)))
  end.

(* sp <step> ...   step = f:<hex> | a:<ms> *)
Definition show_sp (steps : list sstep) : text :=
  match run_script 0 pst0 steps with
  | [] => str "none"
  | rs => join (str " | ") (until_panic (map (fun r =>
            let '(st, ms, err) := r in
            show_obs err (ps_hist st) (show_pending (ps_x st))
                     (map (fun p => show_smsg (p_raw p) (p_msg p) (p_complete p)) ms)) rs))
  end.

(* rrw <platform serial> <k | s<first serial>> <step> ...  (w:/y: = one read, s: = clock) *)
Definition show_rrw (ps : N) (sel : nat + N) (steps : list sstep) : text :=
  let rr := flat_map (fun r => filter (fun p => (m_id (p_msg p) =? 32771) && negb (p_complete p)) (snd (fst r)))
                     (run_script 0 pst0 steps) in
  let pick := match sel with
              | inl k => nth_error rr k
              | inr ser => List.find (fun p => match m_body (p_msg p) with
                                          | a :: b :: _ => a * 256 + b =? ser
                                          | _ => false end) rr
              end in
  match pick with
  | None => str "none"
  | Some p =>
    let d := {| Reply.d_m := p_msg p; Reply.d_complete := p_complete p; Reply.d_data := p_raw p |} in
    let c := {| Reply.c_pending := []; Reply.c_hand := None; Reply.c_q := []; Reply.c_rq := [d];
                Reply.c_seq := ps; Reply.c_h := Reply.hstate0 |} in
    match List.find (fun o => match o with Reply.OWrite _ => true | _ => false end) (snd (Reply.writer_rereq c)) with
    | Some (Reply.OWrite w) => str "ok " ++ show_hex_bytes (Reply.wire_bytes w)
    | _ => str "none"
    end
  end.

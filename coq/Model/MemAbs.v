(* The memory-level model (Model/Mem.v) read at value level: how a state and a delivered message of
   Mem correspond to a state and a delivered message of the value-level parser model
   (Model/Unpack.v + Model/Subpkg.v).  Definitions only; Proofs/Mem_refine.v shows that under the
   current code (variant cur) every read of the memory-level machine delivers exactly what the
   value-level model delivers - the memory model adds aliasing, and cur has none that matters. *)
From Coq Require Import Arith.
From JT.Base Require Import Prelude GoSlice.
From JT.Model Require Import Frame.
From JT.Model Require Unpack Subpkg Mem Reply.

(* what a holder of a delivered message reads in heap h, as a value-level delivered message:
   TerminalData, the JTMessage (header values, Body as it reads now), SubcontractComplete *)
Definition pmsg_of (h : heap) (m : Mem.dmsg) : Subpkg.pmsg :=
  {| Subpkg.p_raw := deref h (Mem.d_raw m);
     Subpkg.p_msg := Subpkg.set_body (Mem.d_hdr m) (deref h (Mem.d_body m));
     Subpkg.p_complete := Mem.d_complete m |}.

(* subcontractingRecord at both levels: the same ids in the same order, every slot's content
   (the value level also keeps the time stamps and the first header: C14's matter) *)
Fixpoint rel_recs (h : heap) (r : Mem.recs) (s : Subpkg.pstate) : Prop :=
  match r, s with
  | [], [] => True
  | (k, slots) :: r', (k', x) :: s' =>
    k = k' /\ Subpkg.x_slots x = map (deref h) slots /\ rel_recs h r' s'
  | _, _ => False
  end.

Definition rel (st : Mem.pst) (vs : Subpkg.pst) : Prop :=
  Subpkg.ps_hist vs = deref (Mem.p_heap st) (Mem.p_hist st) /\
  rel_recs (Mem.p_heap st) (Mem.p_rec st) (Subpkg.ps_x vs).

(* packageParse.parse without the housekeeping pass at its end (Subpkg.parse is this plus
   Subpkg.housekeeping, which does nothing while no transfer is 5 s idle / 60 s old) *)
Definition parse_core (now : N) (vs : Subpkg.pst) (d : list N) : Subpkg.pst * list Subpkg.pmsg * option N :=
  let o := Unpack.unpack (Subpkg.ps_hist vs) d in
  let '(s1, outs) := Subpkg.cp_loop now (Subpkg.ps_x vs) (Unpack.u_msgs o) in
  ({| Subpkg.ps_hist := Unpack.u_hist o; Subpkg.ps_x := s1 |}, outs, Unpack.u_err o).

(* a history of reads at both levels *)
Fixpoint run_core (now : N) (vs : Subpkg.pst) (reads : list (list N)) : list (list Subpkg.pmsg * option N) :=
  match reads with
  | [] => []
  | d :: t => let r := parse_core now vs d in (snd (fst r), snd r) :: run_core now (fst (fst r)) t
  end.

(* the reads of a memory-level history (data, append oracle) *)
Fixpoint run_mem (bufsz : nat) (st : Mem.pst) (reads : list (list N * bool * nat)) : list (list Subpkg.pmsg * option N) :=
  match reads with
  | [] => []
  | (d, force, newcap) :: t =>
    let o := Mem.step Mem.cur bufsz st (Mem.Read d force newcap) in
    (map (pmsg_of (Mem.p_heap (Mem.o_st o))) (Mem.o_msgs o), Mem.o_err o) :: run_mem bufsz (Mem.o_st o) t
  end.

(* the reply frame the writer computes for a delivered message when it reads it in heap h:
   ReplyBody of its handler kind on the JTMessage as it reads then (header values, Body through the
   slice), encoded with Header.Encode (BCD phone through the slice); None when ReplyBody fails *)
Definition reply_frame_at (h : heap) (m : Mem.dmsg) (k : Reply.rkind) (s : Reply.hstate) (rid ps : N) : option (list N) :=
  match snd (Reply.reply_body k s (Subpkg.set_body (Mem.d_hdr m) (deref h (Mem.d_body m)))) with
  | Some b => Some (encode (Mem.with_bcd (Mem.d_hdr m) (deref h (Mem.d_bcd m))) rid ps b)
  | None => None
  end.

(* Model of service/packet_parse.go: packageParse.unpack (the stream splitter of a connection)
   and of the reader loop of service/connection.go that feeds it one read at a time.
   Definitions only; proofs in Proofs/Unpack_proofs.v, statements in Props/C04.v. *)
From JT.Base Require Import Prelude.
From JT.Model Require Import Frame.

(* a decode that panics is reported as this error number (never produced: Frame.decode is total) *)
Definition E_PANIC : N := 99.

(* index (0-based, counted from position i) of the k-th (k>=1) occurrence of 0x7e in l.
   k = 2, i = 0 is the fast path's bytes.IndexFunc with the counting closure (every 0x7e byte
   is a rune of its own, so the rune walk and the byte walk find the same index);
   k = 1, i = 1 on the tail is the buffered path's `for i := 1; ...` search *)
Fixpoint nth_delim (l : list N) (k : nat) (i : N) : option N :=
  match l with
  | [] => None
  | b :: t =>
    if b =? 126
    then match k with
         | 1%nat => Some i
         | S k' => nth_delim t k' (i + 1)
         | O => None
         end
    else nth_delim t k (i + 1)
  end.

(* result of one unpack call: the new historyData, the messages (raw frame, decoded message)
   in order, the returned error *)
Record uout := { u_hist : list N; u_msgs : list (list N * msg); u_err : option N }.

(* buffered path, the `for { ... }` loop over historyData.  Fuel = length of the history
   (each round removes at least two bytes; Proofs/Unpack_proofs.v scan_fuel_enough shows
   the out-of-fuel branch is never the reason for stopping). *)
Fixpoint scan (fuel : nat) (h : list N) (acc : list (list N * msg)) : uout :=
  match fuel with
  | O => {| u_hist := h; u_msgs := acc; u_err := None |}
  | S fuel' =>
    if (2 <? len h) && (hd 0 h =? 126) then
      match nth_delim (tl h) 1 1 with
      | None => {| u_hist := h; u_msgs := acc; u_err := None |}            (* end == -1: break *)
      | Some i =>
        let fr := firstn (N.to_nat (i + 1)) h in                          (* historyData[:end] *)
        let rest := skipn (N.to_nat (i + 1)) h in                         (* historyData[end:] *)
        match decode fr with
        | Ok m =>
          match rest with
          | [] => {| u_hist := []; u_msgs := acc ++ [(fr, m)]; u_err := None |}
          | _ => scan fuel' rest (acc ++ [(fr, m)])
          end
        | Err e => {| u_hist := rest; u_msgs := acc; u_err := Some e |}
        | Panic => {| u_hist := rest; u_msgs := acc; u_err := Some E_PANIC |}
        end
      end
    else {| u_hist := h; u_msgs := acc; u_err := None |}
  end.

(* packageParse.unpack: h = historyData before the call, d = the bytes of this read *)
Definition unpack (h d : list N) : uout :=
  if (len h =? 0) && (2 <? len d) && (last d 0 =? 126) &&
     (match nth_delim d 2 0 with Some i => i =? len d - 1 | None => false end)
  then (* fast path: the read is one frame (exactly two delimiters, the second one last) *)
    match decode d with
    | Ok m => {| u_hist := h; u_msgs := [(d, m)]; u_err := None |}
    | Err e => {| u_hist := h; u_msgs := []; u_err := Some e |}
    | Panic => {| u_hist := h; u_msgs := []; u_err := Some E_PANIC |}
    end
  else scan (length (h ++ d)) (h ++ d) [].

(* connection.reader restricted to the splitter: one unpack per read, the reader returns at
   the first error (later reads are never made) *)
Fixpoint run_unpack (h : list N) (chunks : list (list N)) (acc : list (list N * msg)) : uout :=
  match chunks with
  | [] => {| u_hist := h; u_msgs := acc; u_err := None |}
  | c :: cs =>
    let o := unpack h c in
    match u_err o with
    | Some e => {| u_hist := u_hist o; u_msgs := acc ++ u_msgs o; u_err := Some e |}
    | None => run_unpack (u_hist o) cs (acc ++ u_msgs o)
    end
  end.

(* the same, keeping what every single read produced (and not stopping: the parser object
   itself stays usable after an error; used by the correspondence check) *)
Fixpoint trace_unpack (h : list N) (chunks : list (list N)) : list uout :=
  match chunks with
  | [] => []
  | c :: cs => let o := unpack h c in o :: trace_unpack (u_hist o) cs
  end.

(* ---------------- specification side ---------------- *)

(* a valid frame on the wire: delimiter, a non-empty interior without delimiter, delimiter,
   accepted by the decoder *)
Definition vframe (f : list N) : Prop :=
  exists mid m, f = 126 :: mid ++ [126] /\ mid <> [] /\ ~ In 126 mid /\ decode f = Ok m.

(* what may be left in the history between two frames: nothing, or an opening delimiter
   followed by bytes none of which is a delimiter *)
Definition partial (r : list N) : Prop := r = [] \/ exists t, r = 126 :: t /\ ~ In 126 t.

(* decidable version (vframeb_spec) *)
Definition vframeb (f : list N) : bool :=
  is_ok (decode f) && negb (existsb (N.eqb 126) (removelast (tl f))).

Definition decode_ok (f : list N) : list N * msg :=
  match decode f with Ok m => (f, m) | _ => (f, empty_msg) end.

(* the frames of fs that lie entirely within the first n bytes of concat fs, i.e. those whose
   closing delimiter is among the first n bytes *)
Fixpoint frames_within (fs : list (list N)) (n : nat) : list (list N) :=
  match fs with
  | [] => []
  | f :: t => if Nat.leb (length f) n then f :: frames_within t (Nat.sub n (length f)) else []
  end.

(* ---------------- connection.reader: the dispatch loop over the messages of a read ----------------
   `for _, msg := range msgs { if handler, ok := c.handles[msg.Command]; ok { ... } else
   { OnNotSupportedEvent(msg); continue } ... c.msgChan <- msg }`: every message of the read is
   looked at, in order; a message without a registered handler is reported and skipped (continue -
   it does not end the loop); 0x8003 goes to the re-request channel; the rest is executed and queued
   for the writer.  A read whose parse returns an error ends the reader: none of ITS messages is
   dispatched.  (Sub-package bookkeeping between unpack and this loop is Model/Subpkg.v, C05; the
   join on the first supported message is Model/Registry.v, C11.) *)
Inductive revent :=
| RExec (raw : list N) (m : msg)        (* onReadExecutionEvent + msgChan *)
| RUnsupported (raw : list N) (m : msg) (* OnNotSupportedEvent *)
| RReissue (raw : list N) (m : msg).    (* reissuePackChan *)

(* createDefaultHandle: the message ids with a registered handler, in source order
   (Gen/TablesOk_stream.v: equal to what the translator reads from the source now) *)
Definition registered_ids : list N :=
  [1; 256; 258; 2; 512; 1796; 260; 2053; 2048; 2049; 32771; 33027; 33028; 34817; 36867; 4099; 4101;
   37121; 37122; 37381; 4613; 37382; 4614; 37383; 37384; 4624; 4625; 4626].

Definition dispatch1 (reg : list N) (x : list N * msg) : revent :=
  let '(raw, m) := x in
  if existsb (N.eqb (m_id m)) reg
  then if m_id m =? 32771 then RReissue raw m else RExec raw m
  else RUnsupported raw m.

Fixpoint reader_run (reg : list N) (h : list N) (chunks : list (list N)) (acc : list revent)
  : list revent * option N :=
  match chunks with
  | [] => (acc, None)
  | c :: cs =>
    let o := unpack h c in
    match u_err o with
    | Some e => (acc, Some e)
    | None => reader_run reg (u_hist o) cs (acc ++ map (dispatch1 reg) (u_msgs o))
    end
  end.

(* Model of the location family of protocol/model (tree after the fix: commits listed in
   known_findings.json):
     t_0x0200_location_item.go  T0x0200LocationItem.parse / encode / String, AlarmSignDetails.parse,
                                StatusSignDetails.parse
     t_0x0200_addition.go       T0x0200AdditionDetails.parse (TLV walk, contrastFunc) / decode,
                                parseExtendVehicleStatus, parseIOStatus, parseTirePressure
     t_0x0200.go t_0x0704.go t_0x0801.go   the three carriers
     utils.BCD2Time / utils.Time2BCD
   DEFINITIONS ONLY.  Checked primitives (idx / slice / be_at / take) return Panic where Go would
   panic with cap = len.  A returned Go error is Err E_LEN (all errors of this family are
   protocol.ErrBodyLengthInconsistency, numbered 4 as in Model/Frame.v).
   CustomAdditionContentFunc is nil here (the vendor extension parsers are in LocationExt.v). *)
From JT.Base Require Import Prelude.
From Coq Require Import String.

Definition E_LEN : N := 4.

(* ------------------------------------------------------------------------------------------ *)
(* fmt.Sprintf("%.32b", w) / "%.16b": exactly n characters '0'/'1', most significant first
   (w < 2^n because the Go value is a uintN).  Built as the digits are produced: by repeated
   division by two. *)
Fixpoint bin_str (n : nat) (w : N) : list N :=
  match n with
  | O => []
  | S n' => bin_str n' (w / 2) ++ [48 + w mod 2]
  end.

(* a.<field f> = true   (fields of a details struct numbered by declaration order) *)
Fixpoint set_flag (f : nat) (fl : list bool) {struct fl} : list bool :=
  match fl with
  | [] => []
  | b :: t => match f with O => true :: t | S f' => b :: set_flag f' t end
  end.

(* the chain  `if data[K] == '1' { a.F = true }`  for a table of (string index K, field number F),
   in source order; data[K] is a checked index *)
Fixpoint flags_parse (table : list (N * N)) (data : list N) (fl : list bool) : result (list bool) :=
  match table with
  | [] => Ok fl
  | p :: t =>
      c <- idx data (fst p) ;;
      flags_parse t data (if c =? 49 then set_flag (N.to_nat (snd p)) fl else fl)
  end.

(* ---- field numbering = declaration order of the Go struct (non-bool fields keep their slot,
        which then stays false) ---- *)
Definition alarm_fields : list string :=
  ["EmergencyAlarm"; "OverSpeed"; "FatigueDriving"; "DangerousAlarm"; "GNSSModuleFault";
   "GNSSAntennaFault"; "GNSSAntennaShortCircuit"; "TerminalPowerSupply";
   "TerminalPowerSupplyShutdown"; "TerminalLCDFault"; "TTSModuleFault"; "CameraFault";
   "ICCardModuleFault"; "OverSpeedAlarm"; "FatigueDrivingAlarm"; "ViolationDrivingAlarm";
   "TirePressureAlarm"; "RightTurnBlindAreaAlarm"; "DrivingTimeout"; "OverTimeStop"; "InOutArea";
   "InOutLine"; "SectionDrivingTime"; "LineDeviation"; "VSSFault"; "OilLevelAbnormality";
   "StealCar"; "LaneDeviation"; "LaneOffset"; "CollisionAlarm"; "SideSlipAlarm";
   "LaneOpeningAlarm"]%string.

(* AlarmSignDetails.parse: (index K into the 32-character string, field number) in source order *)
Definition alarm_table : list (N * N) :=
  [(31,0); (30,1); (29,2); (28,3); (27,4); (26,5); (25,6); (24,7); (23,8); (22,9); (21,10);
   (20,11); (19,12); (18,13); (17,14); (16,15); (15,16); (14,17); (13,18); (12,19); (11,20);
   (10,21); (9,22); (8,23); (7,24); (6,25); (5,26); (4,27); (3,28); (2,29); (1,30); (0,31)].

Definition status_fields : list string :=
  ["ACC"; "Location"; "South"; "East"; "Suspended"; "Encryption"; "EmergencyBrake"; "LaneOffset";
   "Cargo" (* uint8, slot 8 unused *); "Oil"; "Electricity"; "VehicleDoor"; "FrontDoor";
   "MiddleDoor"; "BackDoor"; "DriverDoor"; "CustomDoor"; "UseGPS"; "UseBD"; "UseGLONASS";
   "UseGalileo"; "VehicleRunning"]%string.

(* StatusSignDetails.parse *)
Definition status_table : list (N * N) :=
  [(31,0); (30,1); (29,2); (28,3); (27,4); (26,5); (25,6); (24,7);
   (21,9); (20,10); (19,11); (18,12); (17,13); (16,14); (15,15); (14,16); (13,17); (12,18);
   (11,19); (10,20); (9,21)].

(* the two-character Cargo decision, exactly as written (data[23] is bit 8, data[22] is bit 9) *)
Definition cargo_parse (data : list N) : result N :=
  c23 <- idx data 23 ;;
  c22 <- idx data 22 ;;
  Ok (if (c23 =? 48) && (c22 =? 48) then 0
      else if (c23 =? 48) && (c22 =? 49) then 1
      else if (c23 =? 49) && (c22 =? 48) then 2
      else 3).

Definition extsig_fields : list string :=
  ["Value" (* uint32, slot 0 unused *); "LowBeamSignal"; "HighBeamSignal"; "RightTurnSignal";
   "LeftTurnSignal"; "BrakeSignal"; "ReverseGearSignal"; "FogLightSignal"; "ClearanceLights";
   "HornSignal"; "AirConditionerSignal"; "NeutralSignal"; "RetarderWork"; "ABSWork";
   "HeaterWork"; "ClutchStatus"]%string.

(* parseExtendVehicleStatus (32-character string) *)
Definition extsig_table : list (N * N) :=
  [(31,1); (30,2); (29,3); (28,4); (27,5); (26,6); (25,7); (24,8); (23,9); (22,10); (21,11);
   (20,12); (19,13); (18,14); (17,15)].

Definition io_fields : list string := ["Value"; "DeepSleepStatus"; "SleepStatus"]%string.
(* parseIOStatus (16-character string) *)
Definition io_table : list (N * N) := [(15,1); (14,2)].

(* ------------------------------------------------------------------------------------------ *)
(* utils.BCD2Time: (v>>4)+'0', (v&0x0F)+'0' for every byte; six bytes are laid out as
   "20YY-MM-DD hh:mm:ss" *)
Definition bcd_chars (b : list N) : list N := flat_map (fun v => [v / 16 + 48; v mod 16 + 48]) b.
Definition bcd2time (b : list N) : list N :=
  let r := bcd_chars b in
  match r with           (* len(bcd) == 6, i.e. twelve characters *)
  | [y0; y1; m0; m1; d0; d1; h0; h1; i0; i1; s0; s1] =>
      [50; 48; y0; y1; 45; m0; m1; 45; d0; d1; 32; h0; h1; 58; i0; i1; 58; s0; s1]
  | _ => r
  end.

(* ------------------------------------------------------------------------------------------ *)
(* T0x0200LocationItem *)
Record loc := {
  l_alarm : N; l_status : N; l_lat : N; l_lon : N; l_alt : N; l_speed : N; l_dir : N;
  l_time : list N;            (* DateTime, the characters of the Go string *)
  l_aflags : list bool;       (* AlarmSignDetails, 32 slots *)
  l_sflags : list bool;       (* StatusSignDetails, 22 slots (slot 8 = Cargo unused) *)
  l_cargo : N }.

Definition fresh_loc : loc :=
  {| l_alarm := 0; l_status := 0; l_lat := 0; l_lon := 0; l_alt := 0; l_speed := 0; l_dir := 0;
     l_time := []; l_aflags := repeat false 32; l_sflags := repeat false 22; l_cargo := 0 |}.

(* T0x0200LocationItem.parse.  Every field is assigned and both details structs are reset
   (`*a = AlarmSignDetails{}`) before the flag chain, so the previous receiver is not an input. *)
Definition block_parse (body : list N) : result loc :=
  if len body <? 28 then Err E_LEN else
  a <- be_at body 0 4 ;;
  af <- flags_parse alarm_table (bin_str 32 a) (repeat false 32) ;;
  s <- be_at body 4 4 ;;
  sf <- flags_parse status_table (bin_str 32 s) (repeat false 22) ;;
  cg <- cargo_parse (bin_str 32 s) ;;
  lat <- be_at body 8 4 ;;
  lon <- be_at body 12 4 ;;
  alt <- be_at body 16 2 ;;
  sp <- be_at body 18 2 ;;
  di <- be_at body 20 2 ;;
  tm <- slice body 22 28 ;;
  Ok {| l_alarm := a; l_status := s; l_lat := lat; l_lon := lon; l_alt := alt; l_speed := sp;
        l_dir := di; l_time := bcd2time tm; l_aflags := af; l_sflags := sf; l_cargo := cg |}.

(* ------------------------------------------------------------------------------------------ *)
(* AdditionContent: Data plus the one sub-structure the switch in decode fills in (all other
   members keep their zero value) *)
Inductive aval :=
| VNone
| VMile (v : N) | VOil (v : N) | VSpeed (v : N) | VManual (v : N)
| VTire (values : list (N * N))         (* map[uint8]uint8 without the zero pressures *)
| VTemp (v : N)
| VOverSpeed (ty area : N)
| VArea (ty area dir : N)
| VDrive (id time res : N)
| VExt (value : N) (flags : list bool)  (* 16 slots, slot 0 = Value unused *)
| VIO (value : N) (flags : list bool)   (* 3 slots, slot 0 = Value unused *)
| VAnalog (v : N) | VWifi (v : N) | VGnss (v : N).

Record addition := { a_id : N; a_len : N; a_data : list N; a_val : aval }.

(* the Additions map: association list, a later item with the same id replaces the earlier one *)
Fixpoint amap_set (m : list addition) (a : addition) : list addition :=
  match m with
  | [] => [a]
  | x :: t => if a_id x =? a_id a then a :: t else x :: amap_set t a
  end.
Fixpoint amap_find (id : N) (m : list addition) : option addition :=
  match m with
  | [] => None
  | x :: t => if a_id x =? id then Some x else amap_find id t
  end.

(* contrastFunc as data: id -> admissible lengths; ids not listed accept every length *)
Definition item_len_table : list (N * list N) :=
  [(1, [4]); (37, [4]); (43, [4]);
   (2, [2]); (3, [2]); (4, [2]); (6, [2]); (42, [2]);
   (5, [30]);
   (17, [1; 5]);
   (18, [6]);
   (19, [7]);
   (48, [1]); (49, [1])].

Fixpoint lookup {A} (k : N) (t : list (N * A)) : option A :=
  match t with
  | [] => None
  | p :: r => if fst p =? k then Some (snd p) else lookup k r
  end.

Definition contrast (id alen : N) : bool :=
  match lookup id item_len_table with
  | Some ls => existsb (N.eqb alen) ls
  | None => true
  end.

(* binary.BigEndian.Uint32(content) / Uint16(content): `_ = b[3]` panics on a short slice, a
   longer one is read at its first bytes *)
Definition u32 (c : list N) : result N := if len c <? 4 then Panic else Ok (be_dec (firstn 4 c)).
Definition u16 (c : list N) : result N := if len c <? 2 then Panic else Ok (be_dec (firstn 2 c)).

(* parseTirePressure: for k, v := range content { if v != 0 { Values[uint8(k)] = v } } *)
Fixpoint tire_parse (k : N) (content : list N) : list (N * N) :=
  match content with
  | [] => []
  | v :: t => (if v =? 0 then [] else [(k, v)]) ++ tire_parse (k + 1) t
  end.

(* T0x0200AdditionDetails.decode *)
Definition decode_item (id : N) (c : list N) : result aval :=
  if id =? 1 then v <- u32 c ;; Ok (VMile v)
  else if id =? 2 then v <- u16 c ;; Ok (VOil v)
  else if id =? 3 then v <- u16 c ;; Ok (VSpeed v)
  else if id =? 4 then v <- u16 c ;; Ok (VManual v)
  else if id =? 5 then Ok (VTire (tire_parse 0 c))
  else if id =? 6 then v <- u16 c ;; Ok (VTemp v)
  else if id =? 17 then
    ty <- idx c 0 ;;
    (* AreaID = Uint32(content): the first four bytes, i.e. INCLUDING the type byte (pinned by
       testdata/0x0200_addition_1.txt; known finding C08/0x11-areaid) *)
    if negb (ty =? 0) && (4 <=? len c) then a <- u32 c ;; Ok (VOverSpeed ty a)
    else Ok (VOverSpeed ty 0)
  else if id =? 18 then
    ty <- idx c 0 ;; a <- be_at c 1 4 ;; d <- idx c 5 ;; Ok (VArea ty a d)
  else if id =? 19 then
    a <- be_at c 0 4 ;; t <- be_at c 4 2 ;; r <- idx c 6 ;; Ok (VDrive a t r)
  else if id =? 37 then
    v <- u32 c ;;
    f <- flags_parse extsig_table (bin_str 32 v) (repeat false 16) ;; Ok (VExt v f)
  else if id =? 42 then
    v <- u16 c ;;
    f <- flags_parse io_table (bin_str 16 v) (repeat false 3) ;; Ok (VIO v f)
  else if id =? 43 then v <- u32 c ;; Ok (VAnalog v)
  else if id =? 48 then v <- idx c 0 ;; Ok (VWifi v)
  else if id =? 49 then v <- idx c 0 ;; Ok (VGnss v)
  else Ok VNone.

(* T0x0200AdditionDetails.parse: the loop `for index < len(body)`, cursor style (body = the bytes
   from index on).  fuel = length of the body: every round consumes at least two bytes; running
   out of fuel (Err 99) is unreachable (Location_proofs.adds_walk_fuel). *)
Fixpoint adds_walk (fuel : nat) (m : list addition) (body : list N) : result (list addition) :=
  match body with
  | [] => Ok m
  | [_] => Err E_LEN                                  (* index+2 > len(body) *)
  | id :: alen :: rest =>
    match fuel with
    | O => Err 99
    | S f =>
      if negb (contrast id alen) then Err E_LEN else
      if len rest <? alen then Err E_LEN else           (* end > len(body) *)
      p <- take alen rest ;;
      v <- decode_item id (fst p) ;;
      adds_walk f (amap_set m {| a_id := id; a_len := alen; a_data := fst p; a_val := v |}) (snd p)
    end
  end.

(* the map is created anew on every parse *)
Definition additions_parse (body : list N) : result (list addition) :=
  adds_walk (List.length body) [] body.

(* ------------------------------------------------------------------------------------------ *)
(* T0x0200.Parse *)
Record t0200 := { t_loc : loc; t_adds : list addition }.
Definition fresh_0200 : t0200 := {| t_loc := fresh_loc; t_adds := [] |}.

Definition t0200_parse (r : t0200) (body : list N) : result t0200 :=
  l <- block_parse body ;;
  if 28 <? len body then
    rest <- slice_from body 28 ;;
    m <- additions_parse rest ;;
    Ok {| t_loc := l; t_adds := m |}
  else Ok {| t_loc := l; t_adds := [] |}.               (* t.Additions = nil *)

(* T0x0704.Parse *)
Record item0704 := { i_len : N; i_loc : loc; i_adds : list addition }.
Record t0704 := { b_num : N; b_type : N; b_items : list item0704 }.
Definition fresh_0704 : t0704 := {| b_num := 0; b_type := 0; b_items := [] |}.

(* the loop body, cursor style: rest = body[start:] *)
Fixpoint items_loop (n : nat) (rest : list N) (acc : list item0704) : result (list item0704) :=
  match n with
  | O => Ok acc
  | S n' =>
    if len rest <? 2 then Err E_LEN else                 (* start+2 > len(body) *)
    p <- take 2 rest ;;
    let ilen := be_dec (fst p) in
    if len (snd p) <? ilen then Err E_LEN else           (* start+2+Len > len(body) *)
    q <- take ilen (snd p) ;;
    let cur := fst q in
    l <- block_parse cur ;;
    m <- (if 28 <? len cur then r28 <- slice_from cur 28 ;; additions_parse r28 else Ok []) ;;
    items_loop n' (snd q) (acc ++ [{| i_len := ilen; i_loc := l; i_adds := m |}])
  end.

Definition t0704_parse (r : t0704) (body : list N) : result t0704 :=
  if len body <? 31 then Err E_LEN else
  num <- be_at body 0 2 ;;
  ty <- idx body 2 ;;
  rest <- slice_from body 3 ;;
  its <- items_loop (N.to_nat num) rest [] ;;            (* t.Items = nil before the loop *)
  Ok {| b_num := num; b_type := ty; b_items := its |}.

(* T0x0801.Parse: the error of the embedded block parse is discarded (`_ =`) *)
Record t0801 := { m_id : N; m_type : N; m_fmt : N; m_event : N; m_chan : N; m_loc : loc;
                  m_pkg : list N }.
Definition fresh_0801 : t0801 :=
  {| m_id := 0; m_type := 0; m_fmt := 0; m_event := 0; m_chan := 0; m_loc := fresh_loc; m_pkg := [] |}.

Definition t0801_parse (r : t0801) (body : list N) : result t0801 :=
  if len body <? 36 then Err E_LEN else
  id <- be_at body 0 4 ;;
  ty <- idx body 4 ;;
  fm <- idx body 5 ;;
  ev <- idx body 6 ;;
  ch <- idx body 7 ;;
  blk <- slice body 8 36 ;;
  l <- match block_parse blk with Ok l => Ok l | Err _ => Ok (m_loc r) | Panic => Panic end ;;
  pkg <- slice_from body 36 ;;
  Ok {| m_id := id; m_type := ty; m_fmt := fm; m_event := ev; m_chan := ch; m_loc := l; m_pkg := pkg |}.

(* ------------------------------------------------------------------------------------------ *)
(* String(): the places where rendered text re-slices an encoded value *)

(* byte arithmetic of Time2BCD: ((a-'0')<<4) | (b-'0') on uint8 *)
Definition bsub48 (c : N) : N := (c + 208) mod 256.
Definition remove_chars (cs : list N) (s : list N) : list N :=
  filter (fun c => negb (existsb (N.eqb c) cs)) s.
Fixpoint pairs_bcd (s : list N) : list N :=
  match s with
  | a :: b :: t => N.lor ((bsub48 a * 16) mod 256) (bsub48 b) :: pairs_bcd t
  | _ => []
  end.
(* utils.Time2BCD *)
Definition time2bcd (time : list N) : list N :=
  let t1 := if existsb (N.eqb 58) time
            then let t := remove_chars [45; 58; 32] time in
                 if len t =? 14 then skipn 2 t else t
            else time in
  let t2 := if N.odd (len t1) then 48 :: t1 else t1 in
  pairs_bcd t2.

(* s[i:j] of a slice with spare capacity: allowed up to cap, the bytes between len and cap of a
   freshly made array are zero *)
Definition slice_cap (l : list N) (cap i j : N) : result (list N) :=
  if (i <=? j) && (j <=? cap)
  then Ok (sub (l ++ repeat 0 (N.to_nat (cap - len l))) i j) else Panic.

(* T0x0200LocationItem.encode: make([]byte, 22, 30) then append(Time2BCD(DateTime)) *)
Definition loc_encode (l : loc) : list N :=
  be_enc 4 (l_alarm l) ++ be_enc 4 (l_status l) ++ be_enc 4 (l_lat l) ++ be_enc 4 (l_lon l) ++
  be_enc 2 (l_alt l) ++ be_enc 2 (l_speed l) ++ be_enc 2 (l_dir l) ++ time2bcd (l_time l).
(* capacity after the append: 30 while it fits, otherwise whatever append allocates (>= len) *)
Definition loc_encode_cap (l : loc) : N := N.max 30 (len (loc_encode l)).

(* T0x0200LocationItem.String: the six bytes printed as `[%x] 时间`, body[22:28] *)
Definition loc_render (l : loc) : result (list N) :=
  slice_cap (loc_encode l) (loc_encode_cap l) 22 28.

(* T0x0801.String: t.Encode()[:26]  (Encode: make([]byte, 8, 100) + block + package) *)
Definition t0801_encode (t : t0801) : list N :=
  be_enc 4 (m_id t) ++ [m_type t; m_fmt t; m_event t; m_chan t] ++ loc_encode (m_loc t) ++ m_pkg t.
Definition t0801_render (t : t0801) : result (list N * list N) :=
  let e := t0801_encode t in
  head <- slice_cap e (N.max 100 (len e)) 0 26 ;;
  tm <- loc_render (m_loc t) ;;
  Ok (head, tm).

(* AdditionExtendVehicleStatus.String / AdditionIOStatus.String:
   fmt.Sprintf("%032b", Value)[:16], fmt.Sprintf("%016b", Value)[:14] *)
Definition aval_render (v : aval) : result (list N) :=
  match v with
  | VExt value _ => slice (bin_str 32 value) 0 16
  | VIO value _ => slice (bin_str 16 value) 0 14
  | _ => Ok []
  end.

(* T0x0200.String and T0x0704.String re-slice nothing but what the block renderer does *)
Definition t0200_render (t : t0200) : result (list N) := loc_render (t_loc t).
Fixpoint t0704_render (its : list item0704) : result (list (list N)) :=
  match its with
  | [] => Ok []
  | i :: r => x <- loc_render (i_loc i) ;; xs <- t0704_render r ;; Ok (x :: xs)
  end.

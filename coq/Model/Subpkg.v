(* Model of service/packet_parse.go: completePack / add / remove / deleteTimeoutPackage /
   supplementarySubPackage / parse, with an explicit clock (now, in milliseconds: every
   time.Now() of one parse call is the same instant).  Definitions only; proofs in
   Proofs/Subpkg_proofs.v, statements in Props/C05.v and Props/C14.v. *)
From JT.Base Require Import Prelude.
From JT.Model Require Import Frame Unpack.

(* one transfer in progress: subcontractingRecord[id] (slots; "received" = non-empty, as the code
   tests len(data) != 0) and timeoutRecord[id] (create / update time, header of packet 1) *)
Record xfer := { x_slots : list (list N); x_create : N; x_update : N; x_first : msg }.
(* message id -> transfer; the two Go maps always have the same key set (add / remove) *)
Definition pstate := list (N * xfer).

Fixpoint find (id : N) (s : pstate) : option xfer :=
  match s with [] => None | (k, v) :: t => if k =? id then Some v else find id t end.
Fixpoint remove (id : N) (s : pstate) : pstate :=
  match s with [] => [] | (k, v) :: t => if k =? id then remove id t else (k, v) :: remove id t end.
Definition put (id : N) (v : xfer) (s : pstate) : pstate := (id, v) :: remove id s.

Fixpoint set_nth {A} (n : nat) (v : A) (l : list A) : list A :=
  match l, n with
  | [], _ => []
  | _ :: t, O => v :: t
  | x :: t, S n' => x :: set_nth n' v t
  end.

(* receivedSum: the number of non-empty slots *)
Definition received (slots : list (list N)) : N :=
  len (filter (fun b => negb (len b =? 0)) slots).

Definition set_body (m : msg) (b : list N) : msg :=
  {| m_id := m_id m; m_len := m_len m; m_enc := m_enc m; m_frag := m_frag m; m_ver := m_ver m;
     m_bcd := m_bcd m; m_serial := m_serial m; m_sum := m_sum m; m_no := m_no m;
     m_body := b; m_check := m_check m |}.

(* packageParse.add *)
Definition new_xfer (now : N) (m : msg) : xfer :=
  {| x_slots := repeat [] (N.to_nat (m_sum m)); x_create := now; x_update := now; x_first := m |}.

(* packageParse.completePack: the new state and, when this packet completes the transfer, the
   reassembled body.  Guards in the code's order: sum > 0; packet 1 (re)creates the record;
   seq < 1 || seq > len(record) -> ignored (a missing record has length 0); store; stamp;
   count the non-empty slots; equal to THIS packet's total -> concatenate the first sum slots
   and delete the record *)
Definition complete_pack (now : N) (s : pstate) (m : msg) : pstate * option (list N) :=
  let sum := m_sum m in
  if sum =? 0 then (s, None) else
  let id := m_id m in
  let seq := m_no m in
  let s1 := if seq =? 1 then put id (new_xfer now m) s else s in
  match find id s1 with
  | None => (s1, None)                                   (* seq > len(nil) = 0, or seq < 1 *)
  | Some x =>
    if (seq <? 1) || (len (x_slots x) <? seq) then (s1, None) else
    let slots' := set_nth (N.to_nat (seq - 1)) (m_body m) (x_slots x) in
    if received slots' =? sum
    then (remove id s1, Some (concat (firstn (N.to_nat sum) slots')))
    else (put id {| x_slots := slots'; x_create := x_create x; x_update := now; x_first := x_first x |} s1,
          None)
  end.

(* deleteTimeoutPackage: now.Add(-60s).After(createTime) *)
Definition delete_timeout (now : N) (s : pstate) : pstate :=
  filter (fun kv => negb (x_create (snd kv) + 60000 <? now)) s.

(* the numbers (from k) of the empty slots, ascending *)
Fixpoint missing (slots : list (list N)) (k : N) : list N :=
  match slots with
  | [] => []
  | b :: t => (if len b =? 0 then [k] else []) ++ missing t (k + 1)
  end.

(* a re-request: for which message id, the header of packet 1 it is addressed from, the 0x8003
   body: original serial (WORD), count (BYTE = byte(len(seqs))), the numbers (WORD each, uint16) *)
Record rereq := { rr_id : N; rr_first : msg; rr_list : list N; rr_body : list N }.

Definition body_8003 (serial : N) (count : N) (l : list N) : list N :=
  be_enc 2 serial ++ [count mod 256] ++ flat_map (be_enc 2) l.

Definition mk_rereq (id : N) (x : xfer) : rereq :=
  let ms := missing (x_slots x) 1 in
  {| rr_id := id; rr_first := x_first x; rr_list := ms;
     rr_body := body_8003 (m_serial (x_first x)) (len ms) ms |}.

(* supplementarySubPackage: now.Add(-5s).After(updateTime) -> re-request, stamp refreshed *)
Fixpoint supplementary (now : N) (s : pstate) : pstate * list rereq :=
  match s with
  | [] => ([], [])
  | (id, x) :: t =>
    let '(t', rs) := supplementary now t in
    if x_update x + 5000 <? now
    then ((id, {| x_slots := x_slots x; x_create := x_create x; x_update := now; x_first := x_first x |}) :: t',
          mk_rereq id x :: rs)
    else ((id, x) :: t', rs)
  end.

(* the tail of parse: `if len(p.timeoutRecord) > 0 { deleteTimeoutPackage; supplementarySubPackage }` *)
Definition housekeeping (now : N) (s : pstate) : pstate * list rereq :=
  match s with
  | [] => (s, [])
  | _ => supplementary now (delete_timeout now s)
  end.

(* ---------------- parse: what one read delivers ---------------- *)
(* p_raw = ExtensionFields.TerminalData, p_msg = the JTMessage, p_complete = SubcontractComplete *)
Record pmsg := { p_raw : list N; p_msg : msg; p_complete : bool }.

Definition ID_8003 : N := 32771.

(* the message object built for a re-request: Header.Encode with ReplyID 0x8003 and the first
   packet's (never assigned, hence 0) platform serial, decoded again with the error ignored.
   When the body exceeds 1023 bytes (more than 510 numbers) the decode fails after the header was
   read: id 0x8003, nothing else (valid while the length does not reach the fragment bit, i.e.
   fewer than 4095 numbers) *)
Definition rereq_pmsg (r : rereq) : pmsg :=
  let raw := encode (rr_first r) ID_8003 0 (rr_body r) in
  {| p_raw := raw;
     p_msg := match decode raw with
              | Ok m => m
              | _ => {| m_id := ID_8003; m_len := 0; m_enc := 0; m_frag := 0; m_ver := 0; m_bcd := [];
                        m_serial := 0; m_sum := 0; m_no := 0; m_body := []; m_check := 0 |}
              end;
     p_complete := false |}.

(* the loop over the unpacked messages: each is delivered, followed at once by the completed
   message when it was the last missing packet.  The completed Message is built on the
   JTMessage of that last packet (newTerminalMessage(msg.JTMessage, data); completeMsg.Body = data
   writes through the still shared pointer), so the packet's own message shows the whole body too;
   afterwards the completed message gets its own JTMessage / Header copy (fix a3fb0a0) *)
Fixpoint cp_loop (now : N) (s : pstate) (ms : list (list N * msg)) : pstate * list pmsg :=
  match ms with
  | [] => (s, [])
  | (raw, m) :: t =>
    let '(s1, r) := complete_pack now s m in
    let outs := match r with
                | None => [{| p_raw := raw; p_msg := m; p_complete := false |}]
                | Some data =>
                  [{| p_raw := raw; p_msg := set_body m data; p_complete := false |};
                   {| p_raw := data; p_msg := set_body m data; p_complete := true |}]
                end in
    let '(s2, rest) := cp_loop now s1 t in
    (s2, outs ++ rest)
  end.

Record pst := { ps_hist : list N; ps_x : pstate }.
Definition pst0 : pst := {| ps_hist := []; ps_x := [] |}.

(* packageParse.parse(data) at time now: new state, delivered messages, returned error.
   Transfers older than 60 s are dropped BEFORE the messages of the read are processed (fix 4f00aa1:
   late packets can no longer complete a stale transfer); the pass at the end drops and re-requests *)
Definition parse (now : N) (st : pst) (d : list N) : pst * list pmsg * option N :=
  let o := unpack (ps_hist st) d in
  let '(s1, outs) := cp_loop now (delete_timeout now (ps_x st)) (u_msgs o) in
  let '(s2, rrs) := housekeeping now s1 in
  ({| ps_hist := u_hist o; ps_x := s2 |}, outs ++ map rereq_pmsg rrs, u_err o).

(* a script for the correspondence check: reads and clock advances (VerifParser.Age) *)
Inductive sstep := SFeed (d : list N) | SAge (ms : N).

Fixpoint run_script (now : N) (st : pst) (l : list sstep) : list (pst * list pmsg * option N) :=
  match l with
  | [] => []
  | SAge ms :: t => run_script (now + ms) st t
  | SFeed d :: t => let r := parse now st d in r :: run_script now (fst (fst r)) t
  end.

(* ---------------- the same machine, message by message (for the theorems) ---------------- *)
(* A connection's life is a list of timed events: a decoded message handed to completePack, or
   the end of a read (the housekeeping at the end of parse).  Any grouping of messages into
   reads is some placement of EvEnd events.  The expiry pass at the beginning of a read is part of
   every message event: within one read (one instant) it acts at most once, because what
   completePack creates at time now is not older than 60 s at time now (Proofs: cp_loop_is_run). *)
Inductive event := EvMsg (m : msg) | EvEnd.
Inductive eout := ONone | OComplete (id : N) (body : list N) | ORereq (l : list rereq).

Definition step (now : N) (s : pstate) (e : event) : pstate * eout :=
  match e with
  | EvMsg m =>
    let '(s1, r) := complete_pack now (delete_timeout now s) m in
    (s1, match r with Some b => OComplete (m_id m) b | None => ONone end)
  | EvEnd => let '(s1, rrs) := housekeeping now s in (s1, ORereq rrs)
  end.

Fixpoint run (s : pstate) (evs : list (N * event)) : pstate * list eout :=
  match evs with
  | [] => (s, [])
  | (now, e) :: t =>
    let '(s1, o) := step now s e in
    let '(s2, os) := run s1 t in
    (s2, o :: os)
  end.

(* the events of one parse call *)
Definition read_events (now : N) (ms : list (list N * msg)) : list (N * event) :=
  map (fun rm => (now, EvMsg (snd rm))) ms ++ [(now, EvEnd)].

(* ---------------- specification vocabulary ---------------- *)
(* positions (0-based, in the event list) and bodies of the messages delivered as complete for id *)
Fixpoint completions_from (k : nat) (id : N) (os : list eout) : list (nat * list N) :=
  match os with
  | [] => []
  | OComplete i b :: t => if i =? id then (k, b) :: completions_from (S k) id t
                          else completions_from (S k) id t
  | _ :: t => completions_from (S k) id t
  end.
Definition completions (id : N) (os : list eout) : list (nat * list N) := completions_from 0 id os.

(* re-requests for id: (position, re-request) *)
Fixpoint rereqs_from (k : nat) (id : N) (os : list eout) : list (nat * rereq) :=
  match os with
  | [] => []
  | ORereq l :: t => map (fun r => (k, r)) (filter (fun r => rr_id r =? id) l) ++ rereqs_from (S k) id t
  | _ :: t => rereqs_from (S k) id t
  end.
Definition rereqs (id : N) (os : list eout) : list (nat * rereq) := rereqs_from 0 id os.

(* a packet of the transfer (id X, total n, bodies): id, total, a number in 1..n, that number's body *)
Definition good_pkt (X n : N) (bodies : list (list N)) (m : msg) : Prop :=
  m_id m = X /\ m_sum m = n /\ 1 <= m_no m <= n /\ m_body m = nth (N.to_nat (m_no m - 1)) bodies [].
(* a packet of id X with an impossible number: 0, or greater than the announced total *)
Definition bad_pkt (X n : N) (m : msg) : Prop :=
  m_id m = X /\ m_sum m <> 0 /\ (m_no m = 0 \/ n < m_no m).
(* anything that is not a sub-package of X: unfragmented messages, sub-packages of other ids *)
Definition foreign (X : N) (m : msg) : Prop := m_sum m = 0 \/ m_id m <> X.

(* what may follow packet 1 of the transfer: foreign messages, packets 2..n (any order, repeated),
   impossible numbers, ends of reads *)
Definition ev_ok (X n : N) (bodies : list (list N)) (e : event) : Prop :=
  match e with
  | EvEnd => True
  | EvMsg m => foreign X m \/ (good_pkt X n bodies m /\ m_no m <> 1) \/ bad_pkt X n m
  end.

(* a sub-package of id X whose number lies in 1..n: the ones completePack stores (when the
   transfer's table has n slots) *)
Definition accepted (X n : N) (m : msg) : bool :=
  (m_id m =? X) && negb (m_sum m =? 0) && (1 <=? m_no m) && (m_no m <=? n).

(* the package numbers of the accepted packets in a list of events, in order *)
Fixpoint numbers (X n : N) (evs : list (N * event)) : list N :=
  match evs with
  | [] => []
  | (_, EvMsg m) :: t => if accepted X n m then m_no m :: numbers X n t else numbers X n t
  | _ :: t => numbers X n t
  end.

(* the time stamp of the transfer (updateTime) after a list of events, starting from upd: the time
   of the last accepted packet or of the last end-of-read that re-requested (stamp older than 5 s) *)
Fixpoint last_stamp (X n : N) (upd : N) (evs : list (N * event)) : N :=
  match evs with
  | [] => upd
  | (t, EvMsg m) :: r => if accepted X n m then last_stamp X n t r else last_stamp X n upd r
  | (t, EvEnd) :: r => if upd + 5000 <? t then last_stamp X n t r else last_stamp X n upd r
  end.

(* every number 1..n occurs in l *)
Definition covers (n : N) (l : list N) : Prop := forall k, 1 <= k <= n -> In k l.

(* the numbers 1..n not in l, ascending *)
Definition missing_of (n : N) (l : list N) : list N :=
  filter (fun k => negb (existsb (N.eqb k) l)) (map (fun i => N.of_nat i + 1) (seq 0 (N.to_nat n))).

(* ---------------- more specification vocabulary ---------------- *)
(* a well-formed map: one entry per message id (a Go map; [] and every reachable state are) *)
Definition wf (s : pstate) : Prop := NoDup (map fst s).

Definition nonempty (b : list N) : Prop := b <> [].

(* an event that may follow packet 1 (received at t1) of the transfer (X, bodies): not later than
   60 s after it, and one of the kinds of ev_ok *)
Definition ok_after (X : N) (bodies : list (list N)) (t1 : N) (te : N * event) : Prop :=
  fst te <= t1 + 60000 /\ ev_ok X (len bodies) bodies (snd te).

(* events that cannot start a transfer of X: anything but a sub-package of X numbered 1 *)
Definition no_start (X : N) (e : event) : Prop :=
  match e with EvMsg m => m_id m = X -> m_sum m <> 0 -> m_no m <> 1 | EvEnd => True end.

(* the re-requests for X in the output of one event *)
Definition rr_for (X : N) (o : eout) : list rereq :=
  match o with ORereq l => filter (fun r => rr_id r =? X) l | _ => [] end.

(* a sub-package of X that completePack stores in state s: packet 1, or a number within the table *)
Definition stored (X : N) (s : pstate) (m : msg) : Prop :=
  m_id m = X /\ m_sum m <> 0 /\
  (m_no m = 1 \/ exists x, find X s = Some x /\ 1 <= m_no m <= len (x_slots x)).

Fixpoint ascending (l : list N) : Prop :=
  match l with
  | [] => True
  | a :: t => (forall b, In b t -> a < b) /\ ascending t
  end.

(* ---------------- vocabulary for the composition with the stream splitter (C05_segmentation) ---------------- *)
(* the messages flagged complete among what parse delivered: (message id, body) *)
Definition completed_msgs (outs : list pmsg) : list (N * list N) :=
  map (fun p => (m_id (p_msg p), m_body (p_msg p))) (filter p_complete outs).
(* the same for the message-level machine *)
Fixpoint completed_outs (os : list eout) : list (N * list N) :=
  match os with
  | [] => []
  | OComplete i b :: t => (i, b) :: completed_outs t
  | _ :: t => completed_outs t
  end.
(* everything a list of reads, all processed at the instant now, delivers (in order) and the errors returned *)
Definition feed_all (now : N) (st : pst) (chunks : list (list N)) : list pmsg * list (option N) :=
  let rs := run_script now st (map SFeed chunks) in
  (concat (map (fun r => snd (fst r)) rs), map snd rs).
(* no transfer of s is old enough for the housekeeping pass to act at time now *)
Definition fresh (now : N) (s : pstate) : Prop :=
  Forall (fun kv => (x_create (snd kv) + 60000 <? now) = false /\ (x_update (snd kv) + 5000 <? now) = false) s.

(* ---------------- reads spread over time (C05_segmentation_timed) ---------------- *)
(* a history of reads, each processed at its own time *)
Fixpoint feed_timed (st : pst) (reads : list (N * list N)) : list (pst * list pmsg * option N) :=
  match reads with
  | [] => []
  | (now, d) :: t => let r := parse now st d in r :: feed_timed (fst (fst r)) t
  end.
(* what the completePack loop delivers in each of those reads: everything parse returns except the
   0x8003 messages its housekeeping pass generates (parse appends those after it) *)
Fixpoint owns_timed (st : pst) (reads : list (N * list N)) : list (list pmsg) :=
  match reads with
  | [] => []
  | (now, d) :: t =>
    snd (cp_loop now (delete_timeout now (ps_x st)) (u_msgs (unpack (ps_hist st) d))) :: owns_timed (fst (fst (parse now st d))) t
  end.
(* the expiry pass never drops a transfer during the history: neither at the beginning of a read
   nor at its end (after its messages were processed) was a pending transfer created more than
   60 s earlier *)
Fixpoint no_expiry (st : pst) (reads : list (N * list N)) : Prop :=
  match reads with
  | [] => True
  | (now, d) :: t =>
    let s1 := fst (cp_loop now (ps_x st) (u_msgs (unpack (ps_hist st) d))) in
    delete_timeout now (ps_x st) = ps_x st /\ delete_timeout now s1 = s1 /\ no_expiry (fst (fst (parse now st d))) t
  end.

(* show_<op> for oracle/drv_c09.ml: op mem (definitions only; see Base/Show.v) *)
From Coq Require Import String.
From JT.Base Require Import Prelude GoSlice Show.
From JT.Model Require Import Frame Mem.

Definition show_d (h : heap) (m : dmsg) : text :=
  let '(raw, body, bcd) := content h m in
  let hd := d_hdr m in
  join (str ",") [show_N (m_id hd); show_N (m_serial hd); show_N (m_sum hd); show_N (m_no hd);
                  show_bool (d_complete m); show_hex_bytes body; show_hex_bytes raw; show_hex_bytes bcd].

(* per event: e=<err> hl=<len hist> hc=<cap hist> d=<msg;...> x=<idx=msg;...>; [seen] = the messages
   delivered so far with their index and rendering at delivery, in delivery order *)
Fixpoint show_trace (tr : list sout) (n : nat) (seen : list (nat * dmsg * text)) : list text :=
  match tr with
  | [] => []
  | o :: t =>
    let h := p_heap (o_st o) in
    let hist := p_hist (o_st o) in
    let x := flat_map (fun e => let '(i, m, snap) := e in
                                let c := show_d h m in
                                if text_eqb c snap then [] else [show_nat i ++ str "=" ++ c]) seen in
    let d := map (show_d h) (o_msgs o) in
    let seen' := seen ++ map (fun im => (fst im, snd im, show_d h (snd im)))
                             (combine (seq n (length (o_msgs o))) (o_msgs o)) in
    let e := match o_err o with None => str "0" | Some 99 => str "panic" | Some e => show_N e end in
    cat [str "e="; e; str " hl="; show_nat (s_len hist); str " hc="; show_nat (s_cap hist);
         str " d="; join_or_dash (str ";") d; str " x="; join_or_dash (str ";") x]
      :: show_trace t (n + length (o_msgs o)) seen'
  end.

(* mem <variant> <bufsz> <ev> ...   ev = r:<hex>:<newcap>:<force> | c *)
Definition show_mem (v : variant) (bufsz : nat) (evs : list ev) : text :=
  match trace v bufsz (init bufsz) evs with
  | [] => str "none"
  | tr => join (str " | ") (show_trace tr 0 [])
  end.

(* The writer / timers / teardown of service/connection.go AS THEY WERE before the repairs
   6c53d16 (completions sent to the writer's own capacity-3 channel), a9e0f38 (timer: check stopChan, then
   send; stop() closes activeMsgCompleteChan) and c13075d (nobody answers outstanding commands on stop).
   This is the scheduler model of DESIGN.md appendix A.5, unchanged; it exists only so that the historical
   defects stay on record as concrete schedules (Props/C13.v, the C13_refuted_old theorems).  DEFINITIONS ONLY.
   The model of the current code is Model/Writer.v. *)
From Coq Require Import List NArith Bool.
Import ListNotations.
Open Scope N_scope.

(* service/connection.go write()/onActiveEvent/onActiveRespondEvent/stop, one connection.
   Executable small-step model; a schedule is a list of [choice]s. *)
Inductive cres := RResp (echo : N) | RTimeout | RWriteFail.
Inductive cmsg := CM (seq : N) (r : cres).
Inductive tmsg := TResp (echo : N) | TOther (id : N).            (* terminal traffic as the writer sees it *)
Inductive tstate := TSleep | TChecked.
Inductive wstate := WIdle | WSend (m : cmsg) | WExit.
Inductive obs := OWrite (seq : N) (what : N) | OReturn (caller : N) (r : cres) | OCrash.

Record st := { seq : N; rec : list (N * N) (* serial -> caller *);
               msgQ : list tmsg; actQ : list N (* callers *); cplQ : list cmsg;
               stopped : bool (* stopChan closed + four channels closed *); sock_ok : bool;
               w : wstate; timers : list (N * tstate) (* serial *); }.

Definition cap_msg := 10%nat. Definition cap_act := 3%nat. Definition cap_cpl := 3%nat.

Inductive choice :=
| ReaderPush (m : tmsg) | MgrPush (caller : N) | PeerClose | ReaderStop
| WSelMsg | WSelAct | WSelCpl | WSelStop | WDoSend
| TFire (serial : N) | TSend (serial : N).

Fixpoint lookup (k : N) (l : list (N * N)) : option N :=
  match l with [] => None | (a, b) :: t => if a =? k then Some b else lookup k t end.
Definition del (k : N) (l : list (N * N)) := filter (fun p => negb (fst p =? k)) l.

Definition set_w s x := {| seq := seq s; rec := rec s; msgQ := msgQ s; actQ := actQ s; cplQ := cplQ s; stopped := stopped s; sock_ok := sock_ok s; w := x; timers := timers s |}.

Definition step (s : st) (c : choice) : option (st * list obs) :=
  match c with
  | ReaderPush m =>
      if stopped s then None else
      if (Nat.ltb (length (msgQ s)) cap_msg) then Some ({| seq := seq s; rec := rec s; msgQ := msgQ s ++ [m]; actQ := actQ s; cplQ := cplQ s; stopped := false; sock_ok := sock_ok s; w := w s; timers := timers s |}, []) else None
  | MgrPush i =>
      if stopped s then None (* after leave the registry no longer routes here *) else
      if (Nat.ltb (length (actQ s)) cap_act) then Some ({| seq := seq s; rec := rec s; msgQ := msgQ s; actQ := actQ s ++ [i]; cplQ := cplQ s; stopped := false; sock_ok := sock_ok s; w := w s; timers := timers s |}, []) else None
  | PeerClose => Some ({| seq := seq s; rec := rec s; msgQ := msgQ s; actQ := actQ s; cplQ := cplQ s; stopped := stopped s; sock_ok := false; w := w s; timers := timers s |}, [])
  | ReaderStop => if sock_ok s then None else
      Some ({| seq := seq s; rec := rec s; msgQ := msgQ s; actQ := actQ s; cplQ := cplQ s; stopped := true; sock_ok := false; w := w s; timers := timers s |}, [])
  | WSelStop => match w s with WIdle => if stopped s then Some ({| seq := seq s; rec := []; msgQ := msgQ s; actQ := actQ s; cplQ := cplQ s; stopped := true; sock_ok := sock_ok s; w := WExit; timers := timers s |}, []) else None | _ => None end
  | WSelAct => match w s, actQ s with
      | WIdle, i :: q =>
        let s' := {| seq := (seq s + 1) mod 65536; rec := (seq s, i) :: rec s; msgQ := msgQ s; actQ := q; cplQ := cplQ s; stopped := stopped s; sock_ok := sock_ok s;
                     w := if sock_ok s then WIdle else WSend (CM (seq s) RWriteFail);
                     timers := if sock_ok s then (seq s, TSleep) :: timers s else timers s |} in
        Some (s', if sock_ok s then [OWrite (seq s) i] else [])
      | _, _ => None end
  | WSelMsg => match w s, msgQ s with
      | WIdle, TResp e :: q =>
        let s' := {| seq := seq s; rec := rec s; msgQ := q; actQ := actQ s; cplQ := cplQ s; stopped := stopped s; sock_ok := sock_ok s;
                     w := match lookup e (rec s) with Some _ => WSend (CM e (RResp e)) | None => WIdle end; timers := timers s |} in Some (s', [])
      | WIdle, TOther id :: q =>
        Some ({| seq := (seq s + 1) mod 65536; rec := rec s; msgQ := q; actQ := actQ s; cplQ := cplQ s; stopped := stopped s; sock_ok := sock_ok s; w := WIdle; timers := timers s |}, [OWrite (seq s) id])
      | _, _ => None end
  | WDoSend => match w s with
      | WSend m => if stopped s then Some (set_w s WExit, [OCrash])           (* send on closed channel *)
                   else if (Nat.ltb (length (cplQ s)) cap_cpl)
                   then Some ({| seq := seq s; rec := rec s; msgQ := msgQ s; actQ := actQ s; cplQ := cplQ s ++ [m]; stopped := false; sock_ok := sock_ok s; w := WIdle; timers := timers s |}, [])
                   else None                                                   (* blocks: the writer is the only consumer *)
      | _ => None end
  | WSelCpl => match w s, cplQ s with
      | WIdle, CM k r :: q =>
        match lookup k (rec s) with
        | Some i => Some ({| seq := seq s; rec := del k (rec s); msgQ := msgQ s; actQ := actQ s; cplQ := q; stopped := stopped s; sock_ok := sock_ok s; w := WIdle; timers := timers s |}, [OReturn i r])
        | None => Some ({| seq := seq s; rec := rec s; msgQ := msgQ s; actQ := actQ s; cplQ := q; stopped := stopped s; sock_ok := sock_ok s; w := WIdle; timers := timers s |}, [])
        end
      | _, _ => None end
  | TFire k => if existsb (fun t => (fst t =? k) && match snd t with TSleep => true | _ => false end) (timers s)
      then Some ({| seq := seq s; rec := rec s; msgQ := msgQ s; actQ := actQ s; cplQ := cplQ s; stopped := stopped s; sock_ok := sock_ok s; w := w s;
                    timers := if stopped s then filter (fun t => negb (fst t =? k)) (timers s)
                              else map (fun t => if fst t =? k then (k, TChecked) else t) (timers s) |}, [])
      else None
  | TSend k => if existsb (fun t => (fst t =? k) && match snd t with TChecked => true | _ => false end) (timers s)
      then if stopped s then Some (s, [OCrash])
           else if (Nat.ltb (length (cplQ s)) cap_cpl)
           then Some ({| seq := seq s; rec := rec s; msgQ := msgQ s; actQ := actQ s; cplQ := cplQ s ++ [CM k RTimeout]; stopped := false; sock_ok := sock_ok s; w := w s;
                         timers := filter (fun t => negb (fst t =? k)) (timers s) |}, [])
           else None
      else None
  end.

Fixpoint run (s : st) (sched : list choice) : st * list obs :=
  match sched with
  | [] => (s, [])
  | c :: t => match step s c with
              | None => run s t                      (* a disabled choice is skipped *)
              | Some (s', o) => let (s'', o') := run s' t in (s'', o ++ o') end
  end.

Definition init := {| seq := 0; rec := []; msgQ := []; actQ := []; cplQ := []; stopped := false; sock_ok := true; w := WIdle; timers := [] |}.

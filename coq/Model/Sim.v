(* Model of the terminal simulator (C20):
     terminal/option.go    WithHeader                          -> template, hdr_decode, with_header
     terminal/terminal.go  New, CreateDefaultCommandData,
                           CreateCommandData, ExpectedReply    -> sim, create_command, create_default,
                                                                  expected_reply
     terminal/handle.go    defaultProtocolHandles              -> sim_handles (ReplyProtocol / which
                                                                  ReplyBody method), default_body
   The frame codec is Model/Frame.v, the reply bodies are those of Model/Reply.v (the simulator uses
   the same protocol/model types as the server).  Definitions only; lemmas in Proofs/Sim_proofs.v.

   A phone number is the list of its decimal digits as numbers 0..9 (most significant first); protocol
   versions are consts.JT808Protocol2011 = 1, 2013 = 2, 2019 = 3. *)
From JT.Base Require Import Prelude.
From JT.Model Require Import Frame Reply.

Definition V2011 : N := 1.
Definition V2013 : N := 2.
Definition V2019 : N := 3.

(* ------------------------------------------------------------------------------------------ *)
(* WithHeader                                                                                 *)
(* ------------------------------------------------------------------------------------------ *)

(* fmt.Sprintf("%0ns", phone): zeros on the left up to n characters, never truncated *)
Definition pad_left (n : nat) (l : list N) : list N := repeat 0 (n - length l) ++ l.

(* hex.DecodeString on a string of decimal digits: two digits per byte (a dangling last digit is
   dropped together with the error) *)
Fixpoint bcd_pack (l : list N) : list N :=
  match l with
  | a :: b :: t => (a * 16 + b) :: bcd_pack t
  | _ => []
  end.

(* the template frame: "000200000123456789010000" (2011/2013) resp.
   "000240000112345678901234567890000002" (2019) with the phone substituted, the checksum appended
   (escaped by hand) and the delimiters *)
Definition template_payload (ver : N) (phone : list N) : list N :=
  let p12 := pad_left 12 phone in
  if ver =? V2019 then [0; 2; 64; 0; 1] ++ bcd_pack (pad_left 20 p12) ++ [0; 0; 2]
  else [0; 2; 0; 0] ++ bcd_pack p12 ++ [0; 0].

Definition template (ver : N) (phone : list N) : list N :=
  let payload := template_payload ver phone in
  let code := xor_all payload in
  126 :: payload ++ (if code =? 126 then [125; 2] else if code =? 125 then [125; 1] else [code]) ++ [126].

(* Header.decode on the unescaped bytes (the part of JTMessage.Decode that fills the header; the
   body-length check comes after it) *)
Definition hdr_decode (p : list N) : result msg :=
  if len p <? 4 then Err E_HEAD_SHORT else
  let attr := be16 (at_ p 2) (at_ p 3) in
  let ver := N.land (N.shiftr attr 14) 1 in
  let frag := N.land (N.shiftr attr 13) 1 in
  let enc := N.shiftr (N.land attr 1024) 10 in
  let blen := N.land attr 1023 in
  let start := if ver =? 1 then 5 else 4 in
  let plen := if ver =? 1 then 10 else 6 in
  if len p <? start + plen + 2 then Err E_HEAD_SHORT else
  let ser := be16 (at_ p (start + plen)) (at_ p (start + plen + 1)) in
  if (frag =? 1) && (len p <? start + plen + 6) then Err E_HEAD_SHORT else
  Ok {| m_id := be16 (at_ p 0) (at_ p 1); m_len := blen; m_enc := enc; m_frag := frag; m_ver := ver;
        m_bcd := sub p start (start + plen); m_serial := ser;
        m_sum := if frag =? 1 then be16 (at_ p (start + plen + 2)) (at_ p (start + plen + 3)) else 0;
        m_no  := if frag =? 1 then be16 (at_ p (start + plen + 4)) (at_ p (start + plen + 5)) else 0;
        m_body := []; m_check := 0 |}.

(* the simulator: Terminal.header (the Header object: decoded fields, ProtocolVersion as set by
   WithHeader, PlatformSerialNumber) and the handler state that can reach a predicted reply
   (T0x1212's file name fields, preset by newP0x1212) *)
Record sim := { t_hdr : msg; t_pv : N; t_ps : N; t_h : hstate }.

(* newP0x1212: FileNameLen 11, FileName "123_aaa.jpg", FileType 0 *)
Definition sim_hstate0 : hstate :=
  {| s_mmid := 0; s_fnlen := 11; s_fname := [49; 50; 51; 95; 97; 97; 97; 46; 106; 112; 103]; s_ftype := 0 |}.

(* New(WithHeader(ver, phone)): jtMsg.Decode(template) — an error of the body-length check (the
   2019 template carries one byte more than its length field says) is logged and the header, already
   filled, is used; SerialNumber := 0, ProtocolVersion := ver.  A template that fails before the
   header is filled is [Err] (it cannot happen for phones of the property's domain: Sim_proofs) *)
Definition with_header (ver : N) (phone : list N) : result sim :=
  p <- unescape (template ver phone) ;;
  if negb (xor_all p =? 0) then Err E_CHECK else
  h <- hdr_decode p ;;
  Ok {| t_hdr := {| m_id := m_id h; m_len := m_len h; m_enc := m_enc h; m_frag := m_frag h; m_ver := m_ver h;
                    m_bcd := m_bcd h; m_serial := 0; m_sum := m_sum h; m_no := m_no h;
                    m_body := []; m_check := 0 |};
        t_pv := ver; t_ps := 0; t_h := sim_hstate0 |}.

(* ------------------------------------------------------------------------------------------ *)
(* Header.Encode as the simulator's header object sees it                                     *)
(* ------------------------------------------------------------------------------------------ *)
(* The version BYTE is written iff Header.ProtocolVersion = 2019, the version BIT of the attribute
   word comes from Property.Version; for a decoded header the two agree (Frame.encode), WithHeader
   sets ProtocolVersion by hand *)
Definition encode_pv (pv : N) (h : msg) (rid ps : N) (body : list N) : list N :=
  let id := if rid =? 0 then m_id h else rid in
  let attr := prop_word (m_ver h) (m_enc h) (len body) in
  let p := [id / 256 mod 256; id mod 256; attr / 256 mod 256; attr mod 256]
             ++ (if pv =? V2019 then [1] else []) ++ m_bcd h ++ [ps / 256 mod 256; ps mod 256] ++ body in
  escape (p ++ [xor_all p]).

(* CreateCommandData: ReplyID := command, PlatformSerialNumber++ (uint16), Encode(body) *)
Definition create_command (t : sim) (cmd : N) (body : list N) : sim * list N :=
  let ps := (t_ps t + 1) mod 65536 in
  ({| t_hdr := t_hdr t; t_pv := t_pv t; t_ps := ps; t_h := t_h t |},
   encode_pv (t_pv t) (t_hdr t) cmd ps body).

(* a sequence of CreateCommandData calls on one Terminal *)
Fixpoint create_all (t : sim) (cs : list (N * list N)) : list (list N) :=
  match cs with
  | [] => []
  | (cmd, body) :: rest => let r := create_command t cmd body in snd r :: create_all (fst r) rest
  end.

(* ------------------------------------------------------------------------------------------ *)
(* defaultProtocolHandles                                                                     *)
(* ------------------------------------------------------------------------------------------ *)
(* per command: ReplyProtocol() and which ReplyBody the registered type has (REmpty also stands
   for defaultHandle.ReplyBody = nil, nil) *)
Definition sim_handles : list (N * (N * rkind)) := [
  (0x0001, (0x8001, RGeneral));
  (0x0002, (0x8001, RGeneral));
  (0x0100, (0x8100, RRegister));
  (0x0102, (0x8001, RAuth));
  (0x0200, (0x8001, RGeneral));
  (0x0704, (0x8001, RGeneral));
  (0x1003, (0x8001, REmpty));
  (0x1205, (0x8001, RGeneral));
  (0x1206, (0x8001, RGeneral));
  (0x8001, (0x0000, REmpty));
  (0x8003, (0x0000, REmpty));
  (0x8100, (0x0000, REmpty));
  (0x8104, (0x0104, RGeneral));
  (0x8801, (0x0805, RGeneral));
  (0x9003, (0x1003, RGeneral));
  (0x9101, (0x0001, RGeneral));
  (0x9102, (0x0001, RGeneral));
  (0x9201, (0x0001, RGeneral));
  (0x9205, (0x1205, RGeneral));
  (0x9206, (0x1206, RGeneral));
  (0x9207, (0x0001, RGeneral));
  (0x1210, (0x8001, RGeneral));
  (0x1211, (0x8001, RGeneral));
  (0x1212, (0x9212, RFile)) ].

Definition sim_lookup (id : N) : option (N * rkind) := assoc id sim_handles.

(* ExpectedReply(seq, frame): None = nil (the frame does not decode, or ReplyBody fails - the server
   then logs and sends nothing).  With a handler: ReplyID := ReplyProtocol, PlatformSerialNumber :=
   seq, body := ReplyBody; without one the decoded header is encoded as it is (ReplyID 0, serial 0,
   no body) *)
Definition expected_reply (t : sim) (seq : N) (f : list N) : sim * option (list N) :=
  match decode f with
  | Ok m =>
    match sim_lookup (m_id m) with
    | Some (rid, k) =>
      let r := reply_body k (t_h t) m in
      ({| t_hdr := t_hdr t; t_pv := t_pv t; t_ps := t_ps t; t_h := fst r |},
       match snd r with Some body => Some (encode m rid seq body) | None => None end)
    | None => (t, Some (encode m 0 0 []))
    end
  | _ => (t, None)
  end.

(* ------------------------------------------------------------------------------------------ *)
(* CreateDefaultCommandData                                                                   *)
(* ------------------------------------------------------------------------------------------ *)
(* v.Encode() of the handler defaultProtocolHandles(version) registers for the command: the default
   values of terminal/handle.go run through the Encode methods of protocol/model.  The table was
   produced by the harness (op simdump) and is compared with the running code on every check (op
   simgen ... D, for every version and command). *)
Definition default_bodies : list ((N * N) * list N) := [
  ((1, 0x0001), [0; 0; 0; 1; 0]);
  ((1, 0x0002), []);
  ((1, 0x0100), [0; 31; 0; 110; 99; 100; 49; 50; 51; 119; 119; 119; 46; 56; 48; 56; 46; 55; 54; 53; 52; 51; 50; 49; 1; 178; 226; 65; 49; 50; 51; 52; 53; 54; 55; 56]);
  ((1, 0x0102), [57; 56; 55; 54; 53; 52; 51; 50; 49]);
  ((1, 0x0200), [0; 0; 4; 0; 0; 0; 8; 0; 6; 238; 182; 173; 2; 99; 61; 247; 1; 56; 0; 3; 0; 99; 36; 16; 1; 35; 89; 89]);
  ((1, 0x0704), [0; 2; 0; 0; 28; 0; 0; 4; 0; 0; 0; 8; 0; 6; 238; 182; 173; 2; 99; 61; 247; 1; 56; 0; 3; 0; 99; 36; 16; 1; 35; 89; 89; 0; 28; 0; 0; 4; 0; 0; 0; 8; 0; 6; 238; 182; 173; 2; 99; 61; 247; 1; 56; 0; 3; 0; 99; 36; 16; 1; 35; 89; 89]);
  ((1, 0x1003), [1; 1; 2; 2; 0; 3; 2; 1; 1; 2]);
  ((1, 0x1205), [0; 0; 0; 0; 0; 1; 1; 36; 17; 2; 0; 0; 0; 36; 17; 2; 0; 1; 2; 0; 0; 0; 0; 0; 0; 4; 0; 1; 1; 1; 0; 0; 0; 11]);
  ((1, 0x1206), [0; 0; 0]);
  ((1, 0x8001), [0; 1; 2; 0; 0]);
  ((1, 0x8003), [0; 1; 0]);
  ((1, 0x8100), [0; 1; 0; 49; 50; 51; 52; 53; 54; 55; 56; 57; 48; 97; 98; 99; 100; 101; 102; 103; 104; 105; 106; 107]);
  ((1, 0x8104), []);
  ((1, 0x8801), [1; 0; 2; 0; 3; 1; 4; 5; 255; 127; 127; 255]);
  ((1, 0x9003), []);
  ((1, 0x9101), [12; 52; 57; 46; 50; 51; 52; 46; 50; 51; 53; 46; 55; 4; 54; 0; 0; 1; 1; 1]);
  ((1, 0x9102), [1; 1; 2; 1]);
  ((1, 0x9201), [12; 52; 57; 46; 50; 51; 52; 46; 50; 51; 53; 46; 55; 4; 54; 0; 0; 1; 1; 0; 0; 0; 0; 36; 16; 7; 25; 35; 89; 36; 16; 7; 32; 35; 89]);
  ((1, 0x9205), [1; 36; 16; 7; 25; 35; 89; 36; 16; 7; 32; 35; 89; 0; 0; 0; 0; 0; 0; 0; 0; 1; 1; 1]);
  ((1, 0x9206), [9; 49; 50; 55; 46; 48; 46; 48; 46; 49; 39; 17; 8; 117; 115; 101; 114; 110; 97; 109; 101; 8; 112; 97; 115; 115; 119; 111; 114; 100; 11; 47; 97; 108; 97; 114; 109; 95; 102; 105; 108; 101; 1; 32; 7; 38; 0; 0; 0; 32; 7; 38; 35; 35; 89; 0; 0; 0; 0; 0; 0; 0; 0; 0; 1; 1; 1]);
  ((1, 0x9207), [0; 0; 2]);
  ((1, 0x1210), [49; 50; 51; 99; 100; 0; 0; 49; 50; 51; 99; 100; 0; 0; 36; 17; 17; 0; 0; 0; 1; 2; 0; 97; 97; 97; 0; 0; 0; 0; 0; 0; 0; 0; 0; 0; 0; 0; 0; 0; 0; 0; 0; 0; 0; 0; 0; 0; 0; 0; 0; 0; 0; 0; 0; 0; 2; 11; 49; 50; 51; 95; 97; 97; 97; 46; 106; 112; 103; 0; 0; 4; 210; 10; 99; 100; 95; 97; 97; 97; 46; 109; 112; 52; 0; 1; 226; 64]);
  ((1, 0x1211), [11; 49; 50; 51; 95; 97; 97; 97; 46; 106; 112; 103; 0; 0; 0; 4; 210]);
  ((1, 0x1212), [11; 49; 50; 51; 95; 97; 97; 97; 46; 106; 112; 103; 0; 0; 0; 4; 210]);
  ((2, 0x0001), [0; 0; 0; 1; 0]);
  ((2, 0x0002), []);
  ((2, 0x0100), [0; 31; 0; 110; 99; 100; 49; 50; 51; 119; 119; 119; 46; 56; 48; 56; 46; 99; 111; 109; 0; 0; 0; 0; 0; 0; 0; 0; 0; 55; 54; 53; 52; 51; 50; 49; 1; 178; 226; 65; 49; 50; 51; 52; 53; 54; 55; 56]);
  ((2, 0x0102), [57; 56; 55; 54; 53; 52; 51; 50; 49]);
  ((2, 0x0200), [0; 0; 4; 0; 0; 0; 8; 0; 6; 238; 182; 173; 2; 99; 61; 247; 1; 56; 0; 3; 0; 99; 36; 16; 1; 35; 89; 89]);
  ((2, 0x0704), [0; 2; 0; 0; 28; 0; 0; 4; 0; 0; 0; 8; 0; 6; 238; 182; 173; 2; 99; 61; 247; 1; 56; 0; 3; 0; 99; 36; 16; 1; 35; 89; 89; 0; 28; 0; 0; 4; 0; 0; 0; 8; 0; 6; 238; 182; 173; 2; 99; 61; 247; 1; 56; 0; 3; 0; 99; 36; 16; 1; 35; 89; 89]);
  ((2, 0x1003), [1; 1; 2; 2; 0; 3; 2; 1; 1; 2]);
  ((2, 0x1205), [0; 0; 0; 0; 0; 1; 1; 36; 17; 2; 0; 0; 0; 36; 17; 2; 0; 1; 2; 0; 0; 0; 0; 0; 0; 4; 0; 1; 1; 1; 0; 0; 0; 11]);
  ((2, 0x1206), [0; 0; 0]);
  ((2, 0x8001), [0; 1; 2; 0; 0]);
  ((2, 0x8003), [0; 1; 0]);
  ((2, 0x8100), [0; 1; 0; 49; 50; 51; 52; 53; 54; 55; 56; 57; 48; 97; 98; 99; 100; 101; 102; 103; 104; 105; 106; 107]);
  ((2, 0x8104), []);
  ((2, 0x8801), [1; 0; 2; 0; 3; 1; 4; 5; 255; 127; 127; 255]);
  ((2, 0x9003), []);
  ((2, 0x9101), [12; 52; 57; 46; 50; 51; 52; 46; 50; 51; 53; 46; 55; 4; 54; 0; 0; 1; 1; 1]);
  ((2, 0x9102), [1; 1; 2; 1]);
  ((2, 0x9201), [12; 52; 57; 46; 50; 51; 52; 46; 50; 51; 53; 46; 55; 4; 54; 0; 0; 1; 1; 0; 0; 0; 0; 36; 16; 7; 25; 35; 89; 36; 16; 7; 32; 35; 89]);
  ((2, 0x9205), [1; 36; 16; 7; 25; 35; 89; 36; 16; 7; 32; 35; 89; 0; 0; 0; 0; 0; 0; 0; 0; 1; 1; 1]);
  ((2, 0x9206), [9; 49; 50; 55; 46; 48; 46; 48; 46; 49; 39; 17; 8; 117; 115; 101; 114; 110; 97; 109; 101; 8; 112; 97; 115; 115; 119; 111; 114; 100; 11; 47; 97; 108; 97; 114; 109; 95; 102; 105; 108; 101; 1; 32; 7; 38; 0; 0; 0; 32; 7; 38; 35; 35; 89; 0; 0; 0; 0; 0; 0; 0; 0; 0; 1; 1; 1]);
  ((2, 0x9207), [0; 0; 2]);
  ((2, 0x1210), [49; 50; 51; 99; 100; 0; 0; 49; 50; 51; 99; 100; 0; 0; 36; 17; 17; 0; 0; 0; 1; 2; 0; 97; 97; 97; 0; 0; 0; 0; 0; 0; 0; 0; 0; 0; 0; 0; 0; 0; 0; 0; 0; 0; 0; 0; 0; 0; 0; 0; 0; 0; 0; 0; 0; 0; 2; 11; 49; 50; 51; 95; 97; 97; 97; 46; 106; 112; 103; 0; 0; 4; 210; 10; 99; 100; 95; 97; 97; 97; 46; 109; 112; 52; 0; 1; 226; 64]);
  ((2, 0x1211), [11; 49; 50; 51; 95; 97; 97; 97; 46; 106; 112; 103; 0; 0; 0; 4; 210]);
  ((2, 0x1212), [11; 49; 50; 51; 95; 97; 97; 97; 46; 106; 112; 103; 0; 0; 0; 4; 210]);
  ((3, 0x0001), [0; 0; 0; 1; 0]);
  ((3, 0x0002), []);
  ((3, 0x0100), [0; 31; 0; 110; 99; 100; 49; 50; 51; 52; 53; 54; 55; 56; 57; 119; 119; 119; 46; 56; 48; 56; 46; 99; 111; 109; 0; 0; 0; 0; 0; 0; 0; 0; 0; 0; 0; 0; 0; 0; 0; 0; 0; 0; 0; 55; 54; 53; 52; 51; 50; 49; 0; 0; 0; 0; 0; 0; 0; 0; 0; 0; 0; 0; 0; 0; 0; 0; 0; 0; 0; 0; 0; 0; 0; 1; 178; 226; 65; 49; 50; 51; 52; 53; 54; 55; 56]);
  ((3, 0x0102), [9; 57; 56; 55; 54; 53; 52; 51; 50; 49; 49; 50; 51; 52; 53; 54; 55; 56; 57; 48; 49; 50; 51; 52; 53; 51; 46; 55; 46; 49; 53; 0; 0; 0; 0; 0; 0; 0; 0; 0; 0; 0; 0; 0; 0]);
  ((3, 0x0200), [0; 0; 4; 0; 0; 0; 8; 0; 6; 238; 182; 173; 2; 99; 61; 247; 1; 56; 0; 3; 0; 99; 36; 16; 1; 35; 89; 89]);
  ((3, 0x0704), [0; 2; 0; 0; 28; 0; 0; 4; 0; 0; 0; 8; 0; 6; 238; 182; 173; 2; 99; 61; 247; 1; 56; 0; 3; 0; 99; 36; 16; 1; 35; 89; 89; 0; 28; 0; 0; 4; 0; 0; 0; 8; 0; 6; 238; 182; 173; 2; 99; 61; 247; 1; 56; 0; 3; 0; 99; 36; 16; 1; 35; 89; 89]);
  ((3, 0x1003), [1; 1; 2; 2; 0; 3; 2; 1; 1; 2]);
  ((3, 0x1205), [0; 0; 0; 0; 0; 1; 1; 36; 17; 2; 0; 0; 0; 36; 17; 2; 0; 1; 2; 0; 0; 0; 0; 0; 0; 4; 0; 1; 1; 1; 0; 0; 0; 11]);
  ((3, 0x1206), [0; 0; 0]);
  ((3, 0x8001), [0; 1; 2; 0; 0]);
  ((3, 0x8003), [0; 1; 0]);
  ((3, 0x8100), [0; 1; 0; 49; 50; 51; 52; 53; 54; 55; 56; 57; 48; 97; 98; 99; 100; 101; 102; 103; 104; 105; 106; 107]);
  ((3, 0x8104), []);
  ((3, 0x8801), [1; 0; 2; 0; 3; 1; 4; 5; 255; 127; 127; 255]);
  ((3, 0x9003), []);
  ((3, 0x9101), [12; 52; 57; 46; 50; 51; 52; 46; 50; 51; 53; 46; 55; 4; 54; 0; 0; 1; 1; 1]);
  ((3, 0x9102), [1; 1; 2; 1]);
  ((3, 0x9201), [12; 52; 57; 46; 50; 51; 52; 46; 50; 51; 53; 46; 55; 4; 54; 0; 0; 1; 1; 0; 0; 0; 0; 36; 16; 7; 25; 35; 89; 36; 16; 7; 32; 35; 89]);
  ((3, 0x9205), [1; 36; 16; 7; 25; 35; 89; 36; 16; 7; 32; 35; 89; 0; 0; 0; 0; 0; 0; 0; 0; 1; 1; 1]);
  ((3, 0x9206), [9; 49; 50; 55; 46; 48; 46; 48; 46; 49; 39; 17; 8; 117; 115; 101; 114; 110; 97; 109; 101; 8; 112; 97; 115; 115; 119; 111; 114; 100; 11; 47; 97; 108; 97; 114; 109; 95; 102; 105; 108; 101; 1; 32; 7; 38; 0; 0; 0; 32; 7; 38; 35; 35; 89; 0; 0; 0; 0; 0; 0; 0; 0; 0; 1; 1; 1]);
  ((3, 0x9207), [0; 0; 2]);
  ((3, 0x1210), [49; 50; 51; 99; 100; 0; 0; 49; 50; 51; 99; 100; 0; 0; 36; 17; 17; 0; 0; 0; 1; 2; 0; 97; 97; 97; 0; 0; 0; 0; 0; 0; 0; 0; 0; 0; 0; 0; 0; 0; 0; 0; 0; 0; 0; 0; 0; 0; 0; 0; 0; 0; 0; 0; 0; 0; 2; 11; 49; 50; 51; 95; 97; 97; 97; 46; 106; 112; 103; 0; 0; 4; 210; 10; 99; 100; 95; 97; 97; 97; 46; 109; 112; 52; 0; 1; 226; 64]);
  ((3, 0x1211), [11; 49; 50; 51; 95; 97; 97; 97; 46; 106; 112; 103; 0; 0; 0; 4; 210]);
  ((3, 0x1212), [11; 49; 50; 51; 95; 97; 97; 97; 46; 106; 112; 103; 0; 0; 0; 4; 210]) ].

Fixpoint assoc2 (ver cmd : N) (l : list ((N * N) * list N)) : option (list N) :=
  match l with
  | [] => None
  | ((v, c), b) :: t => if (v =? ver) && (c =? cmd) then Some b else assoc2 ver cmd t
  end.
Definition default_body (ver cmd : N) : option (list N) := assoc2 ver cmd default_bodies.

(* CreateDefaultCommandData: nil (None) for a command without handler; the serial is not consumed then *)
Definition create_default (t : sim) (cmd : N) : sim * option (list N) :=
  match default_body (t_pv t) cmd with
  | Some body => let r := create_command t cmd body in (fst r, Some (snd r))
  | None => (t, None)
  end.

(* ------------------------------------------------------------------------------------------ *)
(* Any sequence of calls on one Terminal                                                      *)
(* ------------------------------------------------------------------------------------------ *)
Inductive call :=
| CDefault (cmd : N)                  (* CreateDefaultCommandData(cmd): nil without a handler *)
| CCustom (cmd : N) (body : list N).  (* CreateCommandData(cmd, body) *)

Definition do_call (t : sim) (c : call) : sim * option (list N) :=
  match c with
  | CDefault cmd => create_default t cmd
  | CCustom cmd body => let r := create_command t cmd body in (fst r, Some (snd r))
  end.

(* what every call returns, in order (None = nil) *)
Fixpoint run_calls (t : sim) (cs : list call) : list (option (list N)) :=
  match cs with
  | [] => []
  | c :: rest => let r := do_call t c in snd r :: run_calls (fst r) rest
  end.

(* the frames actually produced *)
Definition somes {A} (l : list (option A)) : list A :=
  flat_map (fun o => match o with Some x => [x] | None => [] end) l.

(* the calls that produce a frame, as (command, body): a default call without handler produces none
   and must not consume a serial *)
Definition effective (ver : N) (cs : list call) : list (N * list N) :=
  flat_map (fun c => match c with
                     | CDefault cmd => match default_body ver cmd with Some b => [(cmd, b)] | None => [] end
                     | CCustom cmd body => [(cmd, body)]
                     end) cs.

(* ------------------------------------------------------------------------------------------ *)
(* Specification side                                                                         *)
(* ------------------------------------------------------------------------------------------ *)
Definition digits (phone : list N) : Prop := Forall (fun d => d < 10) phone.
Definition maxlen (ver : N) : nat := if ver =? V2019 then 20%nat else 12%nat.

(* the phone number as the header carries it and as the library renders it *)
Definition phone_bcd (ver : N) (phone : list N) : list N :=
  bcd_pack (if ver =? V2019 then pad_left 20 (pad_left 12 phone) else pad_left 12 phone).
Definition dchar (d : N) : N := d + 48.

(* commands whose predicted reply is claimed: supported by the simulator AND answered by the server *)
Definition sim_reply_ids : list N := [0x0002; 0x0100; 0x0102; 0x0200; 0x0704; 0x1003; 0x1210; 0x1211; 0x1212].

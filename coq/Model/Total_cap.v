(* C03, locality — the decoders of Model/Total_msgs.v once more, this time reading a slice that
   has SPARE CAPACITY: `body` is the slice (its length is what len(body) returns), `tail` are the
   bytes that lie behind it in the same array (cap = len body + len tail).  DEFINITIONS ONLY.

   Go's rules: an index expression s[i] and the default high bound of s[i:] are checked against
   len(s), so they never reach the tail (idx and slice_from are unchanged); a slice expression
   s[i:j] is checked against cap(s), so with spare capacity s[i:j] with len < j <= cap does not
   panic but silently reads the tail: slice_capT.  A sub-slice s[i:j] keeps the rest of the array
   as its own spare capacity (the alarm identification inside 0x9208 / 0x1210 is parsed from such
   a sub-slice: its tail is the rest of the body followed by the tail).
   With tail = [] these are the decoders of Total_msgs.v.  The text below is that of
   Total_msgs.v with slice / be_at / read_fields / rec_loop replaced by their _cap variants (same
   guards, same index expressions, same order), so that Proofs/Total_cap_proofs.v can relate the
   two definitions step by step: wherever the cap = len decoder does not panic, the spare-capacity
   decoder returns the same result for EVERY tail — it never looks at it. *)
From JT.Base Require Import Prelude.
From JT.Model Require Import Location LocationExt Total_base Total_msgs.

(* s[i:j] of a slice with spare capacity *)
Definition slice_capT (l tail : list N) (i j : N) : result (list N) :=
  if (i <=? j) && (j <=? len l + len tail) then Ok (sub (l ++ tail) i j) else Panic.

Definition be_at_cap (l tail : list N) (i n : N) : result N :=
  s <- slice_capT l tail i (i + n) ;; Ok (be_dec s).

Definition read_field_cap (base : N) (body tail : list N) (f : field) : result val :=
  let o := base + f_off f in
  match f_kind f with
  | KByte => b <- idx body o ;; Ok (VN b)
  | KNum => s <- slice_capT body tail o (o + f_w f) ;; Ok (VN (be_dec s))
  | KNumFrom => s <- slice_from body o ;; v <- uint_of (f_w f) s ;; Ok (VN v)
  | KTime => s <- slice_capT body tail o (o + f_w f) ;; Ok (VS (bcd2time s))
  | KRaw => s <- slice_capT body tail o (o + f_w f) ;; Ok (VS s)
  | KRawFrom => s <- slice_from body o ;; Ok (VS s)
  end.

Fixpoint read_fields_cap (base : N) (body tail : list N) (fs : list field) : result (list val) :=
  match fs with
  | [] => Ok []
  | f :: r => v <- read_field_cap base body tail f ;; vs <- read_fields_cap base body tail r ;; Ok (v :: vs)
  end.

Definition fixed_parse_cap (g : guard) (fs : list field) (body tail : list N) : result val :=
  if guard_ok g (len body) then vs <- read_fields_cap 0 body tail fs ;; Ok (VL vs) else Err E_LEN.

Fixpoint rec_loop_cap (n : nat) (i : N) (body tail : list N) (start stride : N) (fs : list field)
  : result (list (list val)) :=
  match n with
  | O => Ok []
  | S n' =>
    v <- read_fields_cap (start + stride * i) body tail fs ;;
    r <- rec_loop_cap n' (i + 1) body tail start stride fs ;;
    Ok (v :: r)
  end.

(* P9208AlarmSign.parse on a (sub-)slice with spare capacity *)
Definition asign_parse_cap (r : asign) (data tail : list N) : result asign :=
  let n := tid_len (s_dialect r) in
  if len data <? n + 8 then Ok (fresh_asign (s_dialect r)) else
  tid <- slice_capT data tail 0 n ;;
  tm <- slice_capT data tail n (n + 6) ;;
  ser <- idx data (n + 6) ;;
  att <- idx data (n + 7) ;;
  res <- (if n + 8 <=? len data then slice_from data (n + 8) else Ok (s_reserve r)) ;;
  Ok {| s_dialect := s_dialect r; s_tid := trim0 tid; s_time := bcd2time tm; s_serial := ser;
        s_attach := att; s_reserve := res |}.

Definition t1211_cap (body tail : list N) : result val :=
  if len body <? 6 then Err E_LEN else
  l <- idx body 0 ;;
  if negb (len body =? 6 + l) then Err E_LEN else
  name <- slice_capT body tail 1 (1 + l) ;;
  rest <- read_fields_cap (1 + l) body tail [fbyte 0; fnumfrom 1 4] ;;
  Ok (VL (VN l :: VS name :: rest)).

Definition t1212_cap (r : val) (body tail : list N) : result val :=
  v <- t1211_cap body tail ;; Ok (VL [v; vnth 1 r]).

Definition p9101_cap (body tail : list N) : result val :=
  if len body <? 1 then Err E_LEN else
  n <- idx body 0 ;;
  if negb (len body =? 1 + n + 7) then Err E_LEN else
  ip <- slice_capT body tail 1 (n + 1) ;;
  rest <- read_fields_cap (n + 1) body tail [fnumfrom 0 2; fnumfrom 2 2; fbyte 4; fbyte 5; fbyte 6] ;;
  Ok (VL (VN n :: VS ip :: rest)).

Definition p9201_cap (body tail : list N) : result val :=
  if len body <? 1 then Err E_LEN else
  n <- idx body 0 ;;
  if negb (len body =? 1 + n + 22) then Err E_LEN else
  ip <- slice_capT body tail 1 (n + 1) ;;
  rest <- read_fields_cap (n + 1) body tail
            [fnumfrom 0 2; fnumfrom 2 2; fbyte 4; fbyte 5; fbyte 6; fbyte 7; fbyte 8; fbyte 9; ftime 10; ftime 16] ;;
  Ok (VL (VN n :: VS ip :: rest)).

Definition p9206_cap (body tail : list N) : result val :=
  if len body <? 1 then Err E_LEN else
  a <- idx body 0 ;;
  let e1 := 1 + a in
  if len body <? e1 + 2 + 1 then Err E_LEN else
  addr <- slice_capT body tail 1 e1 ;;
  port <- be_at_cap body tail e1 2 ;;
  ul <- idx body (e1 + 2) ;;
  let s2 := e1 + 2 + 1 in
  let e2 := s2 + ul in
  if len body <? e2 + 1 then Err E_LEN else
  user <- slice_capT body tail s2 e2 ;;
  pl <- idx body e2 ;;
  let s3 := e2 + 1 in
  let e3 := s3 + pl in
  if len body <? e3 + 1 then Err E_LEN else
  pass <- slice_capT body tail s3 e3 ;;
  fl <- idx body e3 ;;
  let s4 := e3 + 1 in
  let e4 := s4 + fl in
  if negb (len body =? e4 + 25) then Err E_LEN else
  path <- slice_capT body tail s4 e4 ;;
  rest <- read_fields_cap e4 body tail [fbyte 0; ftime 1; ftime 7; fnum 13 8; fbyte 21; fbyte 22; fbyte 23; fbyte 24] ;;
  Ok (VL ([VN a; VS addr; VN port; VN ul; VS user; VN pl; VS pass; VN fl; VS path] ++ rest)).

Definition t0102_cap (ver : N) (body tail : list N) : result val :=
  if ver =? 3 then
    if len body <? 1 + 15 + 20 then Err E_LEN else
    n <- idx body 0 ;;
    if len body <? 1 + n + 15 + 20 then Err E_LEN else
    auth <- slice_capT body tail 1 (1 + n) ;;
    imei <- slice_capT body tail (1 + n) (1 + n + 15) ;;
    sv <- slice_capT body tail (1 + n + 15) (1 + n + 15 + 20) ;;
    Ok (VL [VN n; VS auth; VS imei; VS (until_zero sv); VN 3])
  else Ok (VL [VN 0; VS body; VS []; VS []; VN 2]).

Definition t0100_cap (gbk : list N -> list N) (ver : N) (r : val) (body tail : list N) : result val :=
  let l := len body in
  let '(m, t, i) := t0100_widths ver l in
  let version := t0100_version ver l r in
  if ((version =? 1) && (l <? 25)) || ((version =? 3) && (l <? 76)) then Err E_LEN else
  prov <- be_at_cap body tail 0 2 ;;
  city <- be_at_cap body tail 2 2 ;;
  mf <- slice_capT body tail 4 (4 + m) ;;
  tm <- slice_capT body tail (4 + m) (4 + m + t) ;;
  ti <- slice_capT body tail (4 + m + t) (4 + m + t + i) ;;
  pc <- idx body (4 + m + t + i) ;;
  pl <- slice_from body (4 + m + t + i + 1) ;;
  Ok (VL [VN prov; VN city; VS (trim_right0 mf); VS (trim_right0 tm); VS (trim_right0 ti); VN pc;
          VS (gbk pl); VN version]).

Definition p9208_cap (d : N) (body tail : list N) : result val :=
  let sign := 1 + 2 + 2 + sign_len d + 32 in
  if len body <? sign then Err E_LEN else
  k <- idx body 0 ;;
  if len body <? sign + k then Err E_LEN else
  addr <- slice_capT body tail 1 (1 + k) ;;
  tcp <- be_at_cap body tail (1 + k) 2 ;;
  udp <- be_at_cap body tail (3 + k) 2 ;;
  sg <- slice_capT body tail (5 + k) (sign + k - 32) ;;
  s <- asign_parse_cap (fresh_asign d) sg (skipn (N.to_nat (sign + k - 32)) body ++ tail) ;;
  aid <- slice_capT body tail (sign + k - 32) (sign + k) ;;
  res <- slice_from body (sign + k) ;;
  Ok (VL [VN k; VS addr; VN tcp; VN udp; asign_val s; VS (trim_right0 aid); VS res]).

Definition t0805_cap (body tail : list N) : result val :=
  if len body <? 5 then Err E_LEN else
  sn <- be_at_cap body tail 0 2 ;;
  res <- idx body 2 ;;
  num <- be_at_cap body tail 3 2 ;;
  if negb (len body =? 5 + num * 4) then Err E_LEN else
  ids <- rec_loop_cap (N.to_nat num) 0 body tail 5 4 [fnum 0 4] ;;
  Ok (VL [VN sn; VN res; VN num; VL (flat ids)]).

Definition t1205_cap (body tail : list N) : result val :=
  if len body <? 6 then Err E_LEN else
  sn <- be_at_cap body tail 0 2 ;;
  total <- be_at_cap body tail 2 4 ;;
  if negb (len body =? 6 + total * 28) then Err E_LEN else
  rs <- rec_loop_cap (N.to_nat total) 0 body tail 6 28
          [fbyte 0; ftime 1; ftime 7; fnum 13 8; fbyte 21; fbyte 22; fbyte 23; fnum 24 4] ;;
  Ok (VL [VN sn; VN total; VL (structs rs)]).

Definition p8003_cap (body tail : list N) : result val :=
  if len body <? 3 then Err E_LEN else
  sn <- be_at_cap body tail 0 2 ;;
  cnt <- idx body 2 ;;
  if negb (len body =? 3 + 2 * cnt) then Err E_LEN else
  ids <- rec_loop_cap (N.to_nat cnt) 0 body tail 3 2 [fnum 0 2] ;;
  Ok (VL [VN sn; VN cnt; VL (flat ids)]).

Definition p8800_cap (body tail : list N) : result val :=
  if len body =? 4 then id <- be_at_cap body tail 0 4 ;; Ok (VL [VN id; VN 0; VL []]) else
  if len body <? 5 then Err E_LEN else
  id <- be_at_cap body tail 0 4 ;;
  cnt <- idx body 4 ;;
  if negb (len body =? 5 + 2 * cnt) then Err E_LEN else
  ids <- rec_loop_cap (N.to_nat cnt) 0 body tail 5 2 [fnum 0 2] ;;
  Ok (VL [VN id; VN cnt; VL (flat ids)]).

Definition p9212_cap (body tail : list N) : result val :=
  if len body <? 4 then Err E_LEN else
  l <- idx body 0 ;;
  if len body <? 4 + l then Err E_LEN else
  name <- slice_capT body tail 1 (1 + l) ;;
  ft <- idx body (1 + l) ;;
  ur <- idx body (2 + l) ;;
  cnt <- idx body (3 + l) ;;
  if negb (len body =? 4 + l + 8 * cnt) then Err E_LEN else
  ps <- rec_loop_cap (N.to_nat cnt) 0 body tail (4 + l) 8 [fnumfrom 0 4; fnumfrom 4 4] ;;
  Ok (VL [VN l; VS name; VN ft; VN ur; VN cnt; VL (structs ps)]).

Fixpoint t1210_items_cap (n : nat) (body tail : list N) (start : N) : result (list val) :=
  match n with
  | O => Ok []
  | S n' =>
    if len body <? start + 1 then Err E_LEN else
    fl <- idx body start ;;
    if len body <? start + 1 + fl + 4 then Err E_LEN else
    name <- slice_capT body tail (start + 1) (start + 1 + fl) ;;
    rest <- slice_from body (start + 1 + fl) ;;
    size <- uint_of 4 rest ;;
    r <- t1210_items_cap n' body tail (start + 1 + fl + 4) ;;
    Ok (VL [VN fl; VS name; VN size] :: r)
  end.

Definition t1210_cap (d : N) (r : val) (body tail : list N) : result val :=
  let idl := if d =? 2 then 0 else tid_len d in
  let sl := sign_len d in
  if len body <? idl + sl + 32 + 1 + 1 then Err E_LEN else
  tid <- (if 0 <? idl then s <- slice_capT body tail 0 idl ;; Ok (trim_right0 s)
          else Ok (vstr (vnth 0 r))) ;;
  sg <- slice_capT body tail idl (idl + sl) ;;
  s <- asign_parse_cap (fresh_asign d) sg (skipn (N.to_nat (idl + sl)) body ++ tail) ;;
  aid <- slice_capT body tail (idl + sl) (idl + sl + 32) ;;
  info <- idx body (idl + sl + 32) ;;
  cnt <- idx body (idl + sl + 32 + 1) ;;
  let cursor := idl + sl + 32 + 2 in
  if len body <? cursor + cnt * (1 + 4) then Err E_LEN else
  items <- t1210_items_cap (N.to_nat cnt) body tail cursor ;;
  Ok (VL [VS tid; asign_val s; VS (trim_right0 aid); VN info; VN cnt; VL items]).

Fixpoint params_walk_cap (fuel : nat) (gbk : list N -> list N) (count : N)
                     (known other : list (N * val)) (body tail : list N)
  : result (N * (list (N * val) * list (N * val))) :=
  match body with
  | [] => Ok (count, (known, other))
  | _ =>
    match fuel with
    | O => Err 99
    | S f =>
      if len body <? 5 then Err E_LEN else
      id <- be_at_cap body tail 0 4 ;;
      plen <- idx body 4 ;;
      if len body <? 5 + plen then Err E_LEN else
      c <- slice_capT body tail 5 (5 + plen) ;;
      ko <- param_store gbk id plen c known other ;;
      rest <- slice_from body (5 + plen) ;;
      params_walk_cap f gbk ((count + 255) mod 256) (fst ko) (snd ko) rest tail
    end
  end.

Definition params_cap (gbk : list N -> list N) (count : N) (body tail : list N) : result val :=
  r <- params_walk_cap (List.length body) gbk count [] [] body tail ;;
  if negb (fst r =? 0) then Err E_LEN else
  Ok (VL [VL (map snd (fst (snd r))); VL (map snd (snd (snd r)))]).

Definition t0104_cap (gbk : list N -> list N) (body tail : list N) : result val :=
  if len body <? 3 then Err E_LEN else
  sn <- be_at_cap body tail 0 2 ;;
  cnt <- idx body 2 ;;
  rest <- slice_from body 3 ;;
  p <- params_cap gbk cnt rest tail ;;
  Ok (VL [VN sn; VN cnt; p]).

Definition p8103_cap (gbk : list N -> list N) (body tail : list N) : result val :=
  if len body <? 1 then Err E_LEN else
  cnt <- idx body 0 ;;
  rest <- slice_from body 1 ;;
  p <- params_cap gbk cnt rest tail ;;
  Ok (VL [VN cnt; p]).

Definition parse_msg_cap (id : N) (gbk : list N -> list N) (ver d : N) (r : val) (body tail : list N) : result val :=
  match lookup id fixed_layouts with
  | Some lay => fixed_parse_cap (fst lay) (snd lay) body tail
  | None =>
    if id =? 256 then t0100_cap gbk ver r body tail
    else if id =? 258 then t0102_cap ver body tail
    else if id =? 260 then t0104_cap gbk body tail
    else if id =? 2053 then t0805_cap body tail
    else if id =? 4613 then t1205_cap body tail
    else if id =? 4624 then t1210_cap d r body tail
    else if id =? 4625 then t1211_cap body tail
    else if id =? 4626 then t1212_cap r body tail
    else if id =? 32771 then p8003_cap body tail
    else if id =? 33027 then p8103_cap gbk body tail
    else if id =? 34816 then p8800_cap body tail
    else if id =? 37121 then p9101_cap body tail
    else if id =? 37377 then p9201_cap body tail
    else if id =? 37382 then p9206_cap body tail
    else if id =? 37384 then p9208_cap d body tail
    else if id =? 37394 then p9212_cap body tail
    else Err 98
  end.

(* Model of attachment/package.go: Package.StatisticalMissSegments, and of the 0x1212 -> 0x9212
   path: protocol/model/t_0x1211.go (Parse), t_0x1212.go (ReplyBody), p_0x9212.go (Encode, Parse).
   Definitions only; proofs in Proofs/Ranges_proofs.v. *)
From JT.Base Require Import Prelude.
From JT.Model Require Import Frame.

(* a byte range of a file: (offset, length).  Package.OffsetRecord (map offset -> length) is a
   list of such pairs with pairwise different offsets; model.P0x9212RetransmitPacket is one. *)
Notation seg := (N * N)%type (only parsing).

Definition u32 (x : N) : N := x mod 4294967296.

(* sort.Slice(segments, DataOffset <): the offsets are the keys of a map, hence pairwise
   different, so every sorting algorithm yields the same list *)
Fixpoint insert (r : seg) (l : list seg) : list seg :=
  match l with
  | [] => [r]
  | x :: t => if fst r <=? fst x then r :: l else x :: insert r t
  end.
Definition sort_off (l : list seg) : list seg := fold_right insert [] l.

(* the loop over the sorted segments; (missSegments, currentOffset) with currentOffset = [cur] on
   entry.  currentOffset = segment.DataOffset + segment.DataLength is uint32 arithmetic. *)
Fixpoint gaps (cur : N) (sorted : list seg) : list seg * N :=
  match sorted with
  | [] => ([], cur)
  | (o, n) :: t =>
    let (g, c) := gaps (u32 (o + n)) t in
    ((if cur <? o then [(cur, o - cur)] else []) ++ g, c)
  end.

(* StatisticalMissSegments of a Package with FileSize = size, CurrentSize = cursize,
   OffsetRecord = recs *)
Definition miss_segments (size cursize : N) (recs : list seg) : list seg :=
  if cursize =? size then [] else
  let (g, c) := gaps 0 (sort_off recs) in
  g ++ (if c <? size then [(c, size - c)] else []).

(* ---------------- specification vocabulary ---------------- *)
Definition covered (l : list seg) (x : N) : Prop :=
  exists o n, In (o, n) l /\ o <= x < o + n.

Fixpoint disjoint (l : list seg) : Prop :=
  match l with
  | [] => True
  | (o, n) :: t => (forall x, o <= x < o + n -> ~ covered t x) /\ disjoint t
  end.

Definition sum_len (l : list seg) : N := fold_right (fun r a => snd r + a) 0 l.

(* strictly ascending, every range non-empty, no two ranges adjacent (= maximal runs) *)
Fixpoint sorted_maximal (l : list seg) : Prop :=
  match l with
  | [] => True
  | (o, n) :: t =>
    0 < n /\ match t with [] => True | (o', _) :: _ => o + n < o' end /\ sorted_maximal t
  end.

(* a received chunk set of a file of [size] bytes *)
Definition chunks_ok (size : N) (recs : list seg) : Prop :=
  disjoint recs /\ Forall (fun r => 0 < snd r /\ fst r + snd r <= size) recs.

(* boolean versions (for Examples and the extracted oracle) *)
Definition coveredb (l : list seg) (x : N) : bool :=
  existsb (fun r => (fst r <=? x) && (x <? fst r + snd r)) l.

(* ---------------- 0x1211 / 0x1212 body (T0x1211.Parse, also used by T0x1212) -------------- *)
Record t1211 := { f_namelen : N; f_name : list N; f_type : N; f_size : N }.

(* binary.BigEndian.Uint32(body[i:]) *)
Definition be32_from (body : list N) (i : N) : result N :=
  s <- slice_from body i ;;
  if len s <? 4 then Panic else Ok (be_dec (firstn 4 s)).

Definition parse1211 (body : list N) : result t1211 :=
  if len body <? 6 then Err E_BODY_LEN else
  nl <- idx body 0 ;;
  if negb (len body =? 6 + nl) then Err E_BODY_LEN else
  name <- slice body 1 (1 + nl) ;;
  ty <- idx body (1 + nl) ;;
  sz <- be32_from body (2 + nl) ;;
  Ok {| f_namelen := nl; f_name := name; f_type := ty; f_size := sz |}.

Definition enc1211 (t : t1211) : list N :=
  [f_namelen t] ++ f_name t ++ [f_type t] ++ be_enc 4 (f_size t).

(* ---------------- 0x9212 ---------------- *)
Record r9212 := { r_namelen : N; r_name : list N; r_type : N; r_result : N; r_count : N;
                  r_list : list seg }.

Definition enc_seg (r : seg) : list N := be_enc 4 (fst r) ++ be_enc 4 (snd r).

(* P0x9212.Encode *)
Definition enc9212 (r : r9212) : list N :=
  [r_namelen r] ++ r_name r ++ [r_type r; r_result r; r_count r] ++ flat_map enc_seg (r_list r).

(* T0x1212.ReplyBody: the 0x1212 body is parsed again, the stored list decides flag and count;
   RetransmitPacketNumber = byte(len(list)) *)
Definition reply1212 (t : t1211) (miss : list seg) : list N :=
  match miss with
  | [] => enc9212 {| r_namelen := f_namelen t; r_name := f_name t; r_type := f_type t;
                     r_result := 0; r_count := 0; r_list := [] |}
  | _ => enc9212 {| r_namelen := f_namelen t; r_name := f_name t; r_type := f_type t;
                    r_result := 1; r_count := len miss mod 256; r_list := miss |}
  end.

(* P0x9212.Parse on a fresh receiver (stride 8*i: the repaired parser) *)
Fixpoint parse_pairs (body : list N) (base : N) (is : list N) : result (list seg) :=
  match is with
  | [] => Ok []
  | i :: t =>
    o <- be32_from body (base + 8 * i) ;;
    n <- be32_from body (base + 8 * i + 4) ;;
    r <- parse_pairs body base t ;;
    Ok ((o, n) :: r)
  end.

Definition parse9212 (body : list N) : result r9212 :=
  if len body <? 4 then Err E_BODY_LEN else
  nl <- idx body 0 ;;
  if len body <? 4 + nl then Err E_BODY_LEN else
  name <- slice body 1 (1 + nl) ;;
  ty <- idx body (1 + nl) ;;
  res <- idx body (2 + nl) ;;
  cnt <- idx body (3 + nl) ;;
  if negb (len body =? 4 + nl + 8 * cnt) then Err E_BODY_LEN else
  l <- parse_pairs body (4 + nl) (nrange (N.to_nat cnt)) ;;
  Ok {| r_namelen := nl; r_name := name; r_type := ty; r_result := res; r_count := cnt;
        r_list := l |}.

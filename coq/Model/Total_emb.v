(* C03 — the README pattern: a vendor extension handler embedded in T0x0200 through
   CustomAdditionContentFunc (t.CustomAdditionContentFunc = handler.Parse).  DEFINITIONS ONLY.

   T0x0200AdditionDetails.decode calls the handler FIRST, for every item, with the item's content (a
   sub-slice of the body: its spare capacity is the following items and whatever lies behind the
   body); when the handler accepts (ok = true) its AdditionContent{Data, CustomValue: handler} is
   stored and the standard per-id decoder is skipped; when it declines the standard decoder runs.
   The handler object lives across items, so the walk carries its state `e`.
   Written directly with a tail behind the body (Model/Total_cap2.v: ext_cap, decode_item_cap,
   take_cap, block_parse_cap); tail = [] is the cap = len decoder.  `kind` selects the handler
   (0x64 0x65 0x66 0x67 0x70 as in LocationExt.ext_parse). *)
From JT.Base Require Import Prelude.
From JT.Model Require Import Location LocationExt Total_cap Total_cap2.

(* an entry of the Additions map: the item, and whether its content is the handler's (CustomValue set) *)
Record eitem := { ei_add : addition; ei_custom : bool }.

Fixpoint emap_set (m : list eitem) (a : eitem) : list eitem :=
  match m with
  | [] => [a]
  | x :: t => if a_id (ei_add x) =? a_id (ei_add a) then a :: t else x :: emap_set t a
  end.

(* T0x0200AdditionDetails.decode with CustomAdditionContentFunc set: (value, custom?, handler state) *)
Definition decode_emb (kind : N) (e : ext) (id : N) (c ctail : list N) : result (aval * bool * ext) :=
  match ext_cap kind e id c ctail with
  | Ok e' => Ok (VNone, true, e')                                  (* accepted: every other member stays zero *)
  | Err _ => v <- decode_item_cap id c ctail ;; Ok (v, false, e)   (* declined: the standard switch *)
  | Panic => Panic
  end.

(* T0x0200AdditionDetails.parse (as Location.adds_walk: cursor style, fuel = length of the body) *)
Fixpoint adds_walk_emb (fuel : nat) (kind : N) (e : ext) (m : list eitem) (body tail : list N)
  : result (list eitem * ext) :=
  match body with
  | [] => Ok (m, e)
  | [_] => Err E_LEN
  | id :: alen :: rest =>
    match fuel with
    | O => Err 99
    | S f =>
      if negb (contrast id alen) then Err E_LEN else
      if len rest <? alen then Err E_LEN else
      p <- take_cap alen rest tail ;;
      r <- decode_emb kind e id (fst p) (snd p ++ tail) ;;
      adds_walk_emb f kind (snd r)
        (emap_set m {| ei_add := {| a_id := id; a_len := alen; a_data := fst p; a_val := fst (fst r) |};
                       ei_custom := snd (fst r) |})
        (snd p) tail
    end
  end.

(* T0x0200.Parse with the handler installed: (location block, Additions, handler afterwards) *)
Definition t0200_emb (kind : N) (e : ext) (body tail : list N) : result (loc * list eitem * ext) :=
  l <- block_parse_cap body tail ;;
  if 28 <? len body then
    rest <- slice_from body 28 ;;
    r <- adds_walk_emb (List.length rest) kind e [] rest tail ;;
    Ok (l, fst r, snd r)
  else Ok (l, [], e).

(* C18 — any number of connections.  DEFINITIONS ONLY.

   Model/Race.v describes ONE connection together with the accepting goroutine, the manager goroutine and
   the callers.  Here N connections run side by side:

   Part G (generic): events, vector clocks, [graces], the ownership monitor — word for word the definitions
     of Model/Race.v Parts 1 and 2, but over ARBITRARY name types T (goroutines), L (locations), K
     (synchronisation tokens) with their equality tests.

   Part N: the names of the N-connection system and the system itself.
       goroutines  NMain, NMgr (ONE accepting goroutine, ONE manager goroutine, shared by all connections),
                   NT c t  (goroutine t of connection c: its reader, writer, timers, the callers that address it)
       locations   NReg (THE manager's map with its session structs: one location for all connections),
                   NL c l  (location l of connection c)
       tokens      NK c k
     [tage c e] renames an event of the one-connection model into connection c; the state of the system is
     one Model/Race.v state per connection; a choice (c, ch) lets connection c make the step ch of the
     one-connection model; a schedule is a list of such choices, so `forall sched` is every interleaving of
     every number of connections (each with every number of messages, commands, timers).

   What is per connection and what is shared is exactly the code's structure: every field of a
   `connection`, its parser, its messages, its commands belong to that connection alone; the connections
   meet in the session manager only, whose map is one location touched by the manager goroutine, and
   in the accepting goroutine that constructs them.  (The immutable sessionManager fields are, as in
   Model/Race.v, part of each connection's LConn and are published to the manager when the connection is
   accepted.) *)
From Coq Require Import List Arith Bool.
From JT.Base Require Import Sched.
From JT.Model Require Import Race.
Import ListNotations.

(* ================================================================ Part G *)
Section Generic.
  Variables T L K : Type.
  Variable teqb : T -> T -> bool.
  Variable leqb : L -> L -> bool.
  Variable keqb : K -> K -> bool.

  Inductive gev :=
  | GAcc (t : T) (l : L) (w : bool)
  | GSend (t : T) (k : K) (give : list L)
  | GRecv (t : T) (k : K)
  | GFork (t u : T) (give share : list L).

  Definition gvc := T -> nat.
  Definition gupdt {A} (f : T -> A) (t : T) (a : A) : T -> A := fun x => if teqb x t then a else f x.
  Definition gupdk {A} (f : K -> A) (k : K) (a : A) : K -> A := fun x => if keqb x k then a else f x.
  Definition gupdl {A} (f : L -> A) (l : L) (a : A) : L -> A := fun x => if leqb x l then a else f x.
  Definition gvjoin (a b : gvc) : gvc := fun x => Nat.max (a x) (b x).
  Definition gtick (t : T) (v : gvc) : gvc := gupdt v t (S (v t)).

  Record gaccess := { ga_tid : T; ga_loc : L; ga_w : bool; ga_ep : nat }.
  Record gvcs := { gclk : T -> gvc; gtkv : K -> option gvc; ghist : list gaccess }.

  Definition gvc0 : gvcs :=
    {| gclk := fun t x => if teqb x t then 1 else 0; gtkv := fun _ => None; ghist := [] |}.

  Record grace := { gr_loc : L; gr_first : T; gr_second : T }.

  Definition gconflict (c : gvc) (t : T) (l : L) (w : bool) (a : gaccess) : bool :=
    leqb (ga_loc a) l && negb (teqb (ga_tid a) t) && (w || ga_w a) && negb (ga_ep a <=? c (ga_tid a)).

  Definition gvc_step (s : gvcs) (e : gev) : gvcs * list grace :=
    match e with
    | GAcc t l w =>
        ({| gclk := gclk s; gtkv := gtkv s;
            ghist := {| ga_tid := t; ga_loc := l; ga_w := w; ga_ep := gclk s t t |} :: ghist s |},
         map (fun a => {| gr_loc := l; gr_first := ga_tid a; gr_second := t |})
             (filter (gconflict (gclk s t) t l w) (ghist s)))
    | GSend t k _ =>
        ({| gclk := gupdt (gclk s) t (gtick t (gclk s t)); gtkv := gupdk (gtkv s) k (Some (gclk s t)); ghist := ghist s |}, [])
    | GRecv t k =>
        match gtkv s k with
        | Some v => ({| gclk := gupdt (gclk s) t (gvjoin (gclk s t) v); gtkv := gtkv s; ghist := ghist s |}, [])
        | None => (s, [])
        end
    | GFork t u _ _ =>
        ({| gclk := gupdt (gupdt (gclk s) u (gvjoin (gclk s u) (gclk s t))) t (gtick t (gclk s t));
            gtkv := gtkv s; ghist := ghist s |}, [])
    end.

  Fixpoint gvc_run (s : gvcs) (tr : list gev) : list grace :=
    match tr with
    | [] => []
    | e :: t => let (s', r) := gvc_step s e in r ++ gvc_run s' t
    end.

  Definition graces (tr : list gev) : list grace := gvc_run gvc0 tr.

  Inductive gowner := GFresh | GThread (t : T) | GToken (k : K) | GShared (ts : list T).
  Record gmon := { gown : L -> gowner; gsent : K -> bool }.
  Definition gmon0 : gmon := {| gown := fun _ => GFresh; gsent := fun _ => false |}.

  Definition gmem_loc (l : L) (ls : list L) : bool := existsb (leqb l) ls.
  Definition gmem_tid (t : T) (ts : list T) : bool := existsb (teqb t) ts.

  Definition gowned_by (m : gmon) (t : T) (l : L) : bool :=
    match gown m l with GThread t' => teqb t' t | _ => false end.
  Definition gshareable (m : gmon) (t : T) (l : L) : bool :=
    match gown m l with GThread t' => teqb t' t | GShared ts => gmem_tid t ts | _ => false end.

  Definition gmon_step (m : gmon) (e : gev) : option gmon :=
    match e with
    | GAcc t l w =>
        match gown m l with
        | GFresh => Some {| gown := gupdl (gown m) l (GThread t); gsent := gsent m |}
        | GThread t' => if teqb t' t then Some m else None
        | GShared ts => if negb w && gmem_tid t ts then Some m else None
        | GToken _ => None
        end
    | GSend t k give =>
        if gsent m k then None
        else if forallb (gowned_by m t) give
        then Some {| gown := fun l => if gmem_loc l give then GToken k else gown m l; gsent := gupdk (gsent m) k true |}
        else None
    | GRecv t k =>
        Some {| gown := fun l => match gown m l with
                                 | GToken k' => if keqb k' k then GThread t else GToken k'
                                 | o => o
                                 end;
                gsent := gsent m |}
    | GFork t u give share =>
        if teqb t u then None
        else if forallb (gowned_by m t) give && forallb (gshareable m t) share
        then Some {| gown := fun l =>
                       if gmem_loc l give then GThread u
                       else if gmem_loc l share
                            then match gown m l with
                                 | GThread _ => GShared [u; t]
                                 | GShared ts => GShared (u :: ts)
                                 | o => o
                                 end
                            else gown m l;
                     gsent := gsent m |}
        else None
    end.

  Fixpoint gmon_run (m : gmon) (tr : list gev) : option gmon :=
    match tr with
    | [] => Some m
    | e :: t => match gmon_step m e with Some m' => gmon_run m' t | None => None end
    end.
End Generic.

Arguments GAcc {T L K} t l w.
Arguments GSend {T L K} t k give.
Arguments GRecv {T L K} t k.
Arguments GFork {T L K} t u give share.
Arguments GFresh {T K}.
Arguments GThread {T K} t.
Arguments GToken {T K} k.
Arguments GShared {T K} ts.
Arguments gclk {T L K} g t.
Arguments gtkv {T L K} g k.
Arguments ghist {T L K} g.
Arguments ga_tid {T L} g.
Arguments ga_loc {T L} g.
Arguments ga_w {T L} g.
Arguments ga_ep {T L} g.
Arguments gown {T L K} g l.
Arguments gsent {T L K} g k.

(* ================================================================ Part N *)
Inductive ntid := NMain | NMgr | NT (c : nat) (t : tid).
Inductive nloc := NReg | NL (c : nat) (l : loc).
Inductive ntok := NK (c : nat) (k : tok).

Definition ntid_eqb (a b : ntid) : bool :=
  match a, b with
  | NMain, NMain | NMgr, NMgr => true
  | NT c t, NT d u => Nat.eqb c d && tid_eqb t u
  | _, _ => false
  end.
Definition nloc_eqb (a b : nloc) : bool :=
  match a, b with
  | NReg, NReg => true
  | NL c l, NL d l' => Nat.eqb c d && loc_eqb l l'
  | _, _ => false
  end.
Definition ntok_eqb (a b : ntok) : bool :=
  match a, b with NK c k, NK d k' => Nat.eqb c d && tok_eqb k k' end.

Definition nev := gev ntid nloc ntok.

(* the names of connection c *)
Definition tagt (c : nat) (t : tid) : ntid := match t with TMain => NMain | TMgr => NMgr | _ => NT c t end.
Definition tagl (c : nat) (l : loc) : nloc := match l with LRegistry => NReg | _ => NL c l end.
Definition tagk (c : nat) (k : tok) : ntok := NK c k.

Definition tage (c : nat) (e : ev) : nev :=
  match e with
  | EAcc t l w => GAcc (tagt c t) (tagl c l) w
  | ESend t k give => GSend (tagt c t) (tagk c k) (map (tagl c) give)
  | ERecv t k => GRecv (tagt c t) (tagk c k)
  | EFork t u give share => GFork (tagt c t) (tagt c u) (map (tagl c) give) (map (tagl c) share)
  end.

(* the system: one one-connection state per connection *)
Definition nst := nat -> st.
Definition ninit : nst := fun _ => init.

Definition nstep (v : variant) (s : nst) (ch : nat * choice) : option (nst * list nev) :=
  let (c, x) := ch in
  match step v (s c) x with
  | Some (s', evs) => Some (fun d => if Nat.eqb d c then s' else s d, map (tage c) evs)
  | None => None
  end.

Definition nraces (tr : list nev) : list (grace ntid nloc) := graces ntid nloc ntok ntid_eqb nloc_eqb ntok_eqb tr.

(* Header cells (for C09: message id, phone, serial and package numbers of a delivered message).
   Model/Mem.v keeps the header of a delivered message as a VALUE; here the headers are memory:
   every *jt808.Header is a cell of a heap of headers, every *jt808.BodyProperty (Header.Property is a
   pointer) a cell of a heap of property words, a delivered Message holds the index of its header
   cell, and everything that assigns header fields after Decode is a store into a cell:
     - packageParse.supplementarySubPackage on timeoutRecord[id].initHeader: ReplyID := 0x8003,
       Property.PacketFragmented := 0, and Header.Encode: Property.BodyDayaLen := len(body);
     - the writer answering a delivered message (connection.defaultReplyEvent / subPackReplyEvent):
       ReplyID, PlatformSerialNumber, and Header.Encode: BodyDayaLen := len(reply body),
       PacketFragmented := 0 - on the delivered message's OWN header (by design of the library).
   (A third site, connection.onActiveEvent, writes the SESSION's header, a deep copy made in
   sessionManager.join - never a delivered message's cell: not a step here, see checks/C09.json.  The
   deferred clear of a closing connection touches no header: no Close step.)
   Which headers are shared is a parameter (variant), so that the two repaired sharings can still be
   expressed: timeoutRecord.initHeader vs the first packet's header (fix 4b6a3bd), the merged message
   vs the completing packet (fix a3fb0a0); `Shallow` is a copy of the Header struct that still shares
   the *BodyProperty.  [hcur] (deep copies) is the current code.
   The value-level parser (Model/Unpack.v, Model/Subpkg.v) decides WHAT is delivered; this model
   adds WHERE the headers live.  Definitions only; proofs in Proofs/HdrMem_proofs.v, statements in
   Props/C09.v. *)
From Coq Require Import Arith.
From JT.Base Require Import Prelude GoSlice.
From JT.Model Require Import Frame Unpack Subpkg.

Record hcell := { hc_id : N; hc_serial : N; hc_sum : N; hc_no : N; hc_phone : list N;  (* the listed fields *)
                  hc_pv : N;                                   (* ProtocolVersion: 2 = 2013, 3 = 2019 *)
                  hc_rid : N; hc_ps : N;                       (* ReplyID, PlatformSerialNumber *)
                  hc_prop : nat }.                             (* Property *BodyProperty *)
Record pcell := { pc_ver : N; pc_frag : N; pc_enc : N; pc_blen : N }.
Record hheap := { hh_h : list hcell; hh_p : list pcell }.

Definition hcell0 : hcell :=
  {| hc_id := 0; hc_serial := 0; hc_sum := 0; hc_no := 0; hc_phone := []; hc_pv := 0; hc_rid := 0; hc_ps := 0; hc_prop := 0 |}.
Definition pcell0 : pcell := {| pc_ver := 0; pc_frag := 0; pc_enc := 0; pc_blen := 0 |}.

(* what a holder of header pointer hp reads: the header cell and, through its pointer, the property word *)
Definition hread (h : hheap) (hp : nat) : hcell * pcell :=
  let c := nth hp (hh_h h) hcell0 in (c, nth (hc_prop c) (hh_p h) pcell0).
(* the fields the property lists *)
Definition listed (v : hcell * pcell) : N * N * N * N * list N :=
  (hc_id (fst v), hc_serial (fst v), hc_sum (fst v), hc_no (fst v), hc_phone (fst v)).

(* NewJTMessage() + Header.decode: a fresh header and a fresh property word holding the decoded values *)
Definition halloc (h : hheap) (m : msg) : hheap * nat :=
  let pp := length (hh_p h) in
  let hp := length (hh_h h) in
  ({| hh_h := hh_h h ++ [{| hc_id := m_id m; hc_serial := m_serial m; hc_sum := m_sum m; hc_no := m_no m;
                            hc_phone := phone_of m; hc_pv := (if m_ver m =? 1 then 3 else 2);
                            hc_rid := 0; hc_ps := 0; hc_prop := pp |}];
      hh_p := hh_p h ++ [{| pc_ver := m_ver m; pc_frag := m_frag m; pc_enc := m_enc m; pc_blen := m_len m |}] |}, hp).

Inductive share := Shared | Shallow | Deep.

(* the header another holder gets for "the same" message: the very cell, a copy of the Header struct
   (still pointing at the same property word), or a copy of both *)
Definition hcopy (k : share) (h : hheap) (hp : nat) : hheap * nat :=
  match k with
  | Shared => (h, hp)
  | Shallow => ({| hh_h := hh_h h ++ [nth hp (hh_h h) hcell0]; hh_p := hh_p h |}, length (hh_h h))
  | Deep =>
    let c := nth hp (hh_h h) hcell0 in
    let pp := length (hh_p h) in
    ({| hh_h := hh_h h ++ [{| hc_id := hc_id c; hc_serial := hc_serial c; hc_sum := hc_sum c; hc_no := hc_no c;
                              hc_phone := hc_phone c; hc_pv := hc_pv c; hc_rid := hc_rid c; hc_ps := hc_ps c;
                              hc_prop := pp |}];
        hh_p := hh_p h ++ [nth (hc_prop c) (hh_p h) pcell0] |}, length (hh_h h))
  end.

(* header.ReplyID = rid; header.PlatformSerialNumber = ps; header.Encode(body of blen bytes) *)
Definition set_reply (rid ps : N) (c : hcell) : hcell :=
  {| hc_id := hc_id c; hc_serial := hc_serial c; hc_sum := hc_sum c; hc_no := hc_no c; hc_phone := hc_phone c;
     hc_pv := hc_pv c; hc_rid := rid; hc_ps := ps; hc_prop := hc_prop c |}.
Definition set_encode (blen : N) (p : pcell) : pcell :=
  {| pc_ver := pc_ver p; pc_frag := 0; pc_enc := pc_enc p; pc_blen := blen mod 65536 |}.

Definition store_reply (h : hheap) (hp : nat) (rid ps blen : N) : hheap :=
  let pp := hc_prop (nth hp (hh_h h) hcell0) in
  {| hh_h := upd hp (set_reply rid ps) (hh_h h); hh_p := upd pp (set_encode blen) (hh_p h) |}.
(* supplementarySubPackage: ReplyID only (the platform serial of the record's header is never assigned) *)
Definition store_rereq (h : hheap) (hp : nat) (blen : N) : hheap :=
  let c := nth hp (hh_h h) hcell0 in
  store_reply h hp 32771 (hc_ps c) blen.

Record hvariant := { hv_rec : share;      (* packageParse.add: timeoutRecord[id].initHeader *)
                     hv_merge : share }.  (* completePack: the merged message's header *)
Definition hcur : hvariant := {| hv_rec := Deep; hv_merge := Deep |}.

Fixpoint rec_remove (id : N) (r : list (N * nat)) : list (N * nat) :=
  match r with [] => [] | (k, v) :: t => if k =? id then rec_remove id t else (k, v) :: rec_remove id t end.
Fixpoint rec_find (id : N) (r : list (N * nat)) : option nat :=
  match r with [] => None | (k, v) :: t => if k =? id then Some v else rec_find id t end.

Record hst := { hs_v : pst;                 (* the value-level parser state *)
                hs_heap : hheap;
                hs_del : list nat;          (* header pointers of the delivered messages, in delivery order *)
                hs_rec : list (N * nat) }.  (* message id -> initHeader of its timeout record *)
Definition hst0 : hst := {| hs_v := pst0; hs_heap := {| hh_h := []; hh_p := [] |}; hs_del := []; hs_rec := [] |}.

(* heap, delivered pointers, record headers: what the loop of parse threads besides the value state *)
Definition hparts := (hheap * list nat * list (N * nat))%type.

(* one message of the read: its own header (Decode into a fresh JTMessage), the timeout record when it
   is packet 1 of a sub-packaged message (completePack: add), and - when completePack completes the
   transfer with it - the merged message built from ITS header *)
Definition deliver_msg (v : hvariant) (st : hparts) (m : msg) (completes : bool) : hparts :=
  let '(h, del, rc) := st in
  let '(h1, hp) := halloc h m in
  let '(h2, rc2) :=
    if negb (m_sum m =? 0) && (m_no m =? 1)
    then let '(h2, rp) := hcopy (hv_rec v) h1 hp in (h2, (m_id m, rp) :: rec_remove (m_id m) rc)
    else (h1, rc) in
  if completes
  then let '(h3, mp) := hcopy (hv_merge v) h2 hp in (h3, del ++ [hp; mp], rc2)
  else (h2, del ++ [hp], rc2).

(* the loop of packageParse.parse (Subpkg.cp_loop on the value side) *)
Fixpoint hloop (v : hvariant) (now : N) (s : pstate) (st : hparts) (ms : list (list N * msg)) : pstate * hparts :=
  match ms with
  | [] => (s, st)
  | (raw, m) :: t =>
    let '(s1, r) := complete_pack now s m in
    hloop v now s1 (deliver_msg v st m (match r with Some _ => true | None => false end)) t
  end.

Definition with_serial (m : msg) (ser : N) : msg :=
  {| m_id := m_id m; m_len := m_len m; m_enc := m_enc m; m_frag := m_frag m; m_ver := m_ver m; m_bcd := m_bcd m;
     m_serial := ser; m_sum := m_sum m; m_no := m_no m; m_body := m_body m; m_check := m_check m |}.

(* one generated re-request: the stores into the record's header, then the message decoded from the
   frame encoded with that header.  The frame's serial field is the record header's
   PlatformSerialNumber: 0 in the current code (nobody else can write that header), whatever the
   writer left there when the header is shared with a delivered message *)
Definition deliver_rereq (st : hparts) (r : rereq) : hparts :=
  let '(h, del, rc) := st in
  let '(h0, ser) := match rec_find (rr_id r) rc with
                    | Some rp => (store_rereq h rp (len (rr_body r)), hc_ps (nth rp (hh_h h) hcell0))
                    | None => (h, 0)
                    end in
  let '(h1, hp) := halloc h0 (with_serial (p_msg (rereq_pmsg r)) ser) in
  (h1, del ++ [hp], rc).

Inductive hstep :=
| HFeed (now : N) (d : list N)             (* one read at time now: packageParse.parse *)
| HReply (k : nat) (rid ps blen : N).      (* the writer answers delivered message number k *)

Definition hstep_run (v : hvariant) (st : hst) (e : hstep) : hst :=
  match e with
  | HFeed now d =>
    let o := unpack (ps_hist (hs_v st)) d in
    let '(s1, parts1) := hloop v now (delete_timeout now (ps_x (hs_v st))) (hs_heap st, hs_del st, hs_rec st) (u_msgs o) in
    let '(s2, rrs) := housekeeping now s1 in
    let '(h2, del2, rc2) := fold_left deliver_rereq rrs parts1 in
    {| hs_v := {| ps_hist := u_hist o; ps_x := s2 |}; hs_heap := h2; hs_del := del2; hs_rec := rc2 |}
  | HReply k rid ps blen =>
    match nth_error (hs_del st) k with
    | Some hp => {| hs_v := hs_v st; hs_heap := store_reply (hs_heap st) hp rid ps blen; hs_del := hs_del st;
                    hs_rec := hs_rec st |}
    | None => st
    end
  end.

Definition hrun (v : hvariant) (es : list hstep) : hst := fold_left (hstep_run v) es hst0.

(* what the holder of delivered message number k reads in state st *)
Definition hview (st : hst) (k : nat) : option (hcell * pcell) :=
  match nth_error (hs_del st) k with Some hp => Some (hread (hs_heap st) hp) | None => None end.

(* the states after every step (for the oracle) *)
Fixpoint htrace (v : hvariant) (st : hst) (es : list hstep) : list hst :=
  match es with [] => [] | e :: t => let s := hstep_run v st e in s :: htrace v s t end.

(* ---------------- specification vocabulary and witnesses ---------------- *)
(* no step of es is the writer's answer to delivered message number k *)
Definition no_reply_to (k : nat) (es : list hstep) : Prop :=
  Forall (fun e => match e with HReply k' _ _ _ => k' <> k | HFeed _ _ => True end) es.

(* some holder reads a different header after steps none of which answers his message *)
Definition header_disturbed (v : hvariant) (es1 es2 : list hstep) (k : nat) : Prop :=
  no_reply_to k es2 /\ hview (hrun v es1) k <> None /\ hview (hrun v (es1 ++ es2)) k <> hview (hrun v es1) k.

(* frames of a two-packet transfer of 0x0801 (written out: Frame.encode never sets the fragment bit) and a heartbeat *)
Definition hx_pkt (no : N) (body : list N) : list N :=
  let q := [8; 1; 32; len body; 1; 35; 69; 103; 137; 1; 0; no; 0; 2; 0; no] ++ body in escape (q ++ [xor_all q]).
Definition hx_hb : list N :=
  let q := [0; 2; 0; 0; 1; 35; 69; 103; 137; 1; 0; 9] in escape (q ++ [xor_all q]).
(* packet 1, then 5.1 s later any read: the parser generates a re-request for the transfer *)
Definition hx_rereq_1 : list hstep := [HFeed 0 (hx_pkt 1 [65; 66])].
Definition hx_rereq_2 : list hstep := [HFeed 5100 hx_hb].
(* both packets in one read (own messages 0 and 1, merged message 2), then the writer answers packet 2 *)
Definition hx_merge_1 : list hstep := [HFeed 0 (hx_pkt 1 [65; 66] ++ hx_pkt 2 [67])].
Definition hx_merge_2 : list hstep := [HReply 1 32769 4 5].

(* C07 — the location family as far as Encode goes: T0x0200 (Encode writes the 28-byte block only), T0x0704 (items
   of exactly that block), T0x0801 (block inside a multimedia upload).  DEFINITIONS ONLY.

   The value of the block is the Go struct T0x0200LocationItem: seven numbers, the time text and the two details
   structs, which are FUNCTIONS of the alarm and status words - computed here by the bit tables and the walk of
   Model/Location.v (imported, tied to the source by Gen/TablesOk_location.v), so the domain of the round trip
   demands details consistent with their word.  Additional-information items are never written by these
   encoders: a body that carries them is outside THIS model (they are C08's subject, Model/Location.v) and is
   answered Err 2 / Err 7; the Additions map of the parsed value is therefore always empty: (()). *)
From JT.Base Require Import Prelude Fmt.
From JT.Model Require Import Msg_simple Location.

Definition bool_val (b : bool) : val := VN (if b then 1 else 0).
(* AlarmSignDetails of an alarm word: 32 flags in declaration order *)
Definition aflags_val (a : N) : val :=
  match flags_parse alarm_table (bin_str 32 a) (repeat false 32) with
  | Ok fl => VL (map bool_val fl)
  | _ => VL []
  end.
(* StatusSignDetails of a status word: 22 slots in declaration order, slot 8 is the two-bit Cargo number *)
Definition sflags_val (s : N) : val :=
  match flags_parse status_table (bin_str 32 s) (repeat false 22), cargo_parse (bin_str 32 s) with
  | Ok fl, Ok c => VL (map bool_val (firstn 8 fl) ++ [VN c] ++ map bool_val (skipn 9 fl))
  | _, _ => VL []
  end.

(* T0x0200LocationItem.parse / encode: alarm, status, latitude, longitude DWORD, altitude, speed, direction WORD,
   BCD[6]; `len(body) < 28` *)
Definition loc_block : fmt val :=
  vstruct [F vu32; F vu32; F vu32; F vu32; F vu16; F vu16; F vu16; F vtime;
           fun acc => vconst (aflags_val (accN acc 0)); fun acc => vconst (sflags_val (accN acc 1))].
Definition no_adds : val := VL [VL []].

(* T0x0200: the block; anything after it would be additional information *)
Definition m_0200 : msg := mk_msg [F loc_block] (F (tl_consts 0 tl_exact [no_adds])).

(* T0x0801: multimedia id DWORD, type, format, event, channel, the block, the package = the rest; `< 36` *)
Definition m_0801 : msg := mk_msg [F vu32; F vu8; F vu8; F vu8; F vu8; F loc_block] (F tl_rest).

(* T0x0704: count WORD, type BYTE, count x (length WORD, block); Encode writes the length of what it encodes, 28;
   `len(body) < 31` rejects the empty batch, so the domain has at least one item *)
Definition item_0704 : fmt val :=
  vstruct [F (vcheck (val_eqb (VN 28)) vu16); F loc_block; F (vconst no_adds)].
Definition m_0704_layout : msg :=
  mk_msg [F vu16; F vu8; fun acc => vrep (accN acc 0) item_0704] (F tl_ignore).
Definition num_of (v : val) : N := match v with VL (VN n :: _) => n | _ => 0 end.
Definition m_0704 : msg :=
  msg_guard (fun l => 31 <=? len l) (msg_restrict (fun v => 1 <=? num_of v) m_0704_layout).

Definition msg_location (id : N) : option msg :=
  assoc id [(0x0200, m_0200); (0x0704, m_0704); (0x0801, m_0801)].

(* C03, rendering — the String() bodies of the location family that loop or index over PARSED lists,
   at the level of their index expressions.  DEFINITIONS ONLY.  (Coordinator's static inventory
   Gen/TablesOk_strings.v bounds the partial operations of every String body; these are the two
   bodies whose operations range over a parsed collection.  TerminalParamDetails.String has no loop,
   no index and no slice: it formats ninety fixed members, there is nothing to model.)

   T0x0704.String:               for i := 0; i < len(t.Items); i++ { t.Items[i].T0x0200LocationItem.String() }
                                 (the item's String re-slices body[22:28] of its encode(): Location.loc_render)
   T0x0200AdditionDetails.String: fourteen lookups a.Additions[id] in a map of struct VALUES (a missing key is
                                 the zero value, never a panic: amap_find + default), a range over the map, and
                                 the sub-renderers; the only partial operations below it are the two binary
                                 prefixes of AdditionExtendVehicleStatus / AdditionIOStatus (Location.aval_render),
                                 applied to the looked-up value or to the zero value. *)
From JT.Base Require Import Prelude.
From JT.Model Require Import Location.

(* t.Items[i] is a checked index; fuel = number of items (i grows by one per round) *)
Fixpoint items_render_loop (fuel : nat) (its : list item0704) (i : N) : result (list (list N)) :=
  if i <? len its then
    match fuel with
    | O => Err 99
    | S f =>
      match nth_error its (N.to_nat i) with
      | None => Panic
      | Some it => x <- loc_render (i_loc it) ;; r <- items_render_loop f its (i + 1) ;; Ok (x :: r)
      end
    end
  else Ok [].
Definition t0704_string (its : list item0704) : result (list (list N)) := items_render_loop (List.length its) its 0.

(* a.Additions[id].Content.<member>: the stored value, or the zero value of the member *)
Definition ext_status_of (m : list addition) : aval :=
  match amap_find 37 m with Some a => (match a_val a with VExt v f => VExt v f | _ => VExt 0 [] end) | None => VExt 0 [] end.
Definition io_status_of (m : list addition) : aval :=
  match amap_find 42 m with Some a => (match a_val a with VIO v f => VIO v f | _ => VIO 0 [] end) | None => VIO 0 [] end.
Definition adds_string (m : list addition) : result (list N * list N) :=
  a <- aval_render (ext_status_of m) ;; b <- aval_render (io_status_of m) ;; Ok (a, b).

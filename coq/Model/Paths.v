(* Model of the default attachment file handler's save step (attachment/file_event.go, OnEvent,
   ProgressStageSuccessQuit branch) and of lexical path resolution.  Characters are bytes (N);
   '/' = 47, '.' = 46, '\' = 92.  Definitions only; proofs in Proofs/Paths_proofs.v.

   Symbolic links, hard links and mount points that already exist below the working directory are
   outside this (purely lexical) model; so are OS-level refusals (a NUL byte in a name: EINVAL). *)
From JT.Base Require Import Prelude.

Definition SLASH : N := 47.
Definition DOT : N := 46.
Definition BACKSLASH : N := 92.

Definition str := list N.

(* ---------- file_event.go ---------- *)
(* savePath := fmt.Sprintf("./%s/%s", phone, name) *)
Definition save_path (phone name : str) : str := [DOT; SLASH] ++ phone ++ [SLASH] ++ name.

(* the (repaired) filter:
   name == "" || name == "." || name == ".." || strings.ContainsAny(name, "/\\")  -> not stored *)
Definition accepted (name : str) : bool :=
  negb (list_eqb name [] || list_eqb name [DOT] || list_eqb name [DOT; DOT] ||
        existsb (fun c => (c =? SLASH) || (c =? BACKSLASH)) name).

(* the paths handed to os.WriteFile for the records of a session, in record order *)
Definition writes (phone : str) (names : list str) : list str :=
  map (save_path phone) (filter accepted names).

(* what the OS then does with an accepted name containing NUL: refuses (Go: EINVAL before any
   system call); used by the correspondence only *)
Definition os_refuses (name : str) : bool := existsb (fun c => c =? 0) name.

(* ---------- lexical resolution (POSIX path walk without links) ---------- *)
(* components between slashes; "a//b/" -> ["a"; ""; "b"; ""] *)
Fixpoint split_slash (p : str) : list str :=
  match p with
  | [] => [[]]
  | c :: t =>
    if c =? SLASH then [] :: split_slash t
    else match split_slash t with
         | [] => [[c]]
         | h :: r => (c :: h) :: r
         end
  end.

(* a location is the list of directory names from the root *)
Definition step (loc : list str) (comp : str) : list str :=
  if list_eqb comp [] || list_eqb comp [DOT] then loc
  else if list_eqb comp [DOT; DOT] then removelast loc     (* ".." of the root is the root *)
  else loc ++ [comp].

Definition resolve (cwd : list str) (p : str) : list str :=
  fold_left step (split_slash p) (match p with c :: _ => if c =? SLASH then [] else cwd | [] => cwd end).

(* q lies strictly inside directory dir *)
Definition inside (dir q : list str) : Prop := exists c rest, q = dir ++ c :: rest.

Fixpoint str_list_eqb (a b : list str) : bool :=
  match a, b with
  | [], [] => true
  | x :: a', y :: b' => list_eqb x y && str_list_eqb a' b'
  | _, _ => false
  end.
Definition insideb (dir q : list str) : bool :=
  Nat.ltb (length dir) (length q) && str_list_eqb dir (firstn (length dir) q).

(* the terminal directory's name: Header.TerminalPhoneNo = bcd2dec of 6 or 10 BCD bytes: a
   non-empty string over 0-9a-f *)
Definition hexdigit (c : N) : bool := ((48 <=? c) && (c <=? 57)) || ((97 <=? c) && (c <=? 102)).
Definition phone_chars (phone : str) : Prop := phone <> [] /\ forallb hexdigit phone = true.

(* C07 — the registry of every message model: (message id, header version, dialect) -> model.  The oracle's
   only entry point (oracle/drv_c07.ml).  DEFINITIONS ONLY. *)
From JT.Base Require Import Prelude Fmt.
From JT.Model Require Import Msg_simple Msg_text Params Msg_location.

Definition msg_all (u2g g2u : list N -> list N) (gdom : list N -> bool) (id ver d : N) : option msg :=
  if id =? 0x8103 then Some (m_8103 u2g g2u gdom)
  else match msg_location id with
       | Some m => Some m
       | None => msg_text u2g g2u gdom id ver d
       end.

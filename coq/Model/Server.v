(* C10 — the two servers as step functions over connection events, with every index / slice /
   pointer dereference of the per-connection code evaluated by the CHECKED primitives of
   Base/Prelude.v (Panic beyond len; Panic on nil), so that "the process dies" is a possible outcome
   of the model and its absence is a theorem (Proofs/Server_proofs.v), not a modelling choice.

   JT808 server (service/service.go Run, connection.go reader / write, packet_parse.go):
     one goroutine pair per connection and no recover: a panic anywhere is process-wide   -> Crash
     reader: parse (unpack -> Decode -> completePack -> housekeeping) on every read; a returned error
             ends this connection only; per delivered message: handler lookup, 0x8003 to the
             re-issue path, join under the phone number (a key held by another live connection ends
             this connection), then the message goes to the writer
     writer: defaultReplyEvent (HasReply, ReplyBody of the registered type, Header.Encode, curSeq),
             subPackReplyEvent
   The checked functions are proved equal to the models of C04 (Unpack.unpack), C05 (Subpkg.parse)
   and C06 (Reply.reply_body), which the correspondence checks of those properties tie to the code.

   Attachment server (attachment/service.go Run, connection.go run, package.go, file_event.go):
     iter / stageStreamData / stageJT808Data with checked slices, and the DEFAULT file handler's
     OnEvent in every stage (CurrentPackage / RecentTerminalMessage dereferences), also for the final
     event after a close or a fatal error; proved equal to Attach.feed (C15).

   Not modelled: OS behaviour (RST delivery, accept backlog, descriptors), memory exhaustion (a
   65535-slot table per message id; a buffer that does not start with 7e grows for ever: findings
   C10/808/memory-exhaustion, C10/*/unbounded-buffer), String() of the logged values, active platform commands.
   A failing conn.Write IS modelled (event WriteErr, k_broken). *)
From JT.Base Require Import Prelude.
From JT.Model Require Import Frame Unpack Subpkg.
From JT.Model Require Ranges Reply Attach Location Total_base Total_msgs.

Inductive fate := Running | Crash.        (* of the server process *)

(* connection events as the kernel delivers them to the process *)
Inductive sev :=
| Connect (c : N)                          (* accept *)
| Data (c : N) (now : N) (d : list N)      (* one successful Read of d at time now (ms) *)
| Close (c : N)                            (* Read returns EOF / ECONNRESET / any error *)
| WriteErr (c : N).                        (* the peer stopped receiving: from now on conn.Write on c returns an error *)

(* maps from connection ids *)
Section CMap.
  Context {V : Type}.
  Fixpoint cfind (c : N) (m : list (N * V)) : option V :=
    match m with [] => None | (k, v) :: t => if k =? c then Some v else cfind c t end.
  Fixpoint cremove (c : N) (m : list (N * V)) : list (N * V) :=
    match m with [] => [] | (k, v) :: t => if k =? c then cremove c t else (k, v) :: cremove c t end.
  Fixpoint cset (c : N) (v : V) (m : list (N * V)) : list (N * V) :=
    match m with
    | [] => [(c, v)]
    | (k, v') :: t => if k =? c then (k, v) :: t else (k, v') :: cset c v t
    end.
End CMap.

(* ============================================================================================ *)
(*                                       JT808 server                                           *)
(* ============================================================================================ *)

(* ---------- packageParse.unpack ---------- *)
Definition mk_uout (h : list N) (ms : list (list N * msg)) (e : option N) : uout :=
  {| u_hist := h; u_msgs := ms; u_err := e |}.

(* the buffered path: p.historyData[0], p.historyData[:end], p.historyData[end:] *)
Fixpoint scan_chk (fuel : nat) (h : list N) (acc : list (list N * msg)) : result uout :=
  match fuel with
  | O => Ok (mk_uout h acc None)
  | S fuel' =>
    opens <- (if 2 <? len h then b <- idx h 0 ;; Ok (b =? 126) else Ok false) ;;
    if (opens : bool) then
      match nth_delim (tl h) 1 1 with
      | None => Ok (mk_uout h acc None)
      | Some i =>
        fr <- slice h 0 (i + 1) ;;
        rest <- slice_from h (i + 1) ;;
        match decode_chk fr with
        | Ok m =>
          match rest with
          | [] => Ok (mk_uout [] (acc ++ [(fr, m)]) None)
          | _ => scan_chk fuel' rest (acc ++ [(fr, m)])
          end
        | Err e => Ok (mk_uout rest acc (Some e))
        | Panic => Panic
        end
      end
    else Ok (mk_uout h acc None)
  end.

(* the fast path: data[len(data)-1] *)
Definition unpack_chk (h d : list N) : result uout :=
  fast <- (if (len h =? 0) && (2 <? len d) then
             b <- idx d (len d - 1) ;;
             Ok ((b =? 126) && match nth_delim d 2 0 with Some i => i =? len d - 1 | None => false end)
           else Ok false) ;;
  if (fast : bool) then
    match decode_chk d with
    | Ok m => Ok (mk_uout h [(d, m)] None)
    | Err e => Ok (mk_uout h [] (Some e))
    | Panic => Panic
    end
  else scan_chk (length (h ++ d)) (h ++ d) [].

(* ---------- packageParse.completePack ---------- *)
(* p.subcontractingRecord[id][seq-1] = body *)
Fixpoint set_nth_chk {A} (n : nat) (v : A) (l : list A) : result (list A) :=
  match l, n with
  | [], _ => Panic
  | _ :: t, O => Ok (v :: t)
  | x :: t, S n' => r <- set_nth_chk n' v t ;; Ok (x :: r)
  end.

(* for i := 0; i < sum; i++ { ... p.subcontractingRecord[id][i] ... } *)
Definition first_slots_chk (sum : N) (slots : list (list N)) : result (list (list N)) :=
  if sum <=? len slots then Ok (firstn (N.to_nat sum) slots) else Panic.

Definition complete_pack_chk (now : N) (s : pstate) (m : msg) : result (pstate * option (list N)) :=
  let sum := m_sum m in
  if sum =? 0 then Ok (s, None) else
  let id := m_id m in
  let seq := m_no m in
  let s1 := if seq =? 1 then put id (new_xfer now m) s else s in
  match find id s1 with
  | None => Ok (s1, None)                       (* len(nil) = 0: `seq < 1 || seq > 0` *)
  | Some x =>
    if (seq <? 1) || (len (x_slots x) <? seq) then Ok (s1, None) else
    slots' <- set_nth_chk (N.to_nat (seq - 1)) (m_body m) (x_slots x) ;;
    if received slots' =? sum then
      parts <- first_slots_chk sum slots' ;;
      Ok (remove id s1, Some (concat parts))
    else
      Ok (put id {| x_slots := slots'; x_create := x_create x; x_update := now; x_first := x_first x |} s1, None)
  end.

Fixpoint cp_loop_chk (now : N) (s : pstate) (ms : list (list N * msg)) : result (pstate * list pmsg) :=
  match ms with
  | [] => Ok (s, [])
  | (raw, m) :: t =>
    r1 <- complete_pack_chk now s m ;;
    let outs := match snd r1 with
                | None => [{| p_raw := raw; p_msg := m; p_complete := false |}]
                | Some data =>
                  [{| p_raw := raw; p_msg := set_body m data; p_complete := false |};
                   {| p_raw := data; p_msg := set_body m data; p_complete := true |}]
                end in
    r2 <- cp_loop_chk now (fst r1) t ;;
    Ok (fst r2, outs ++ snd r2)
  end.

(* packageParse.parse *)
Definition parse_chk (now : N) (st : pst) (d : list N) : result (pst * list pmsg * option N) :=
  o <- unpack_chk (ps_hist st) d ;;
  r <- cp_loop_chk now (delete_timeout now (ps_x st)) (u_msgs o) ;;     (* fix 4f00aa1: stale transfers dropped first *)
  let '(s2, rrs) := housekeeping now (fst r) in
  Ok ({| ps_hist := u_hist o; ps_x := s2 |}, snd r ++ map rereq_pmsg rrs, u_err o).

(* ---------- ReplyBody of the registered types ---------- *)
(* T0x0102.Parse (2019 layout: body[0], body[1:1+n], body[1+n:1+n+15], body[1+n+15:1+n+35]) *)
Definition auth_code_chk (m : msg) : result (option (list N)) :=
  let body := m_body m in
  if m_ver m =? 1 then
    if len body <? 36 then Ok None else
    n <- idx body 0 ;;
    if len body <? 36 + n then Ok None else
    code <- slice body 1 (1 + n) ;;
    imei <- slice body (1 + n) (1 + n + 15) ;;
    sv <- slice body (1 + n + 15) (1 + n + 15 + 20) ;;
    Ok (Some code)
  else Ok (Some body).

Definition set_mmid (s : Reply.hstate) (v : N) : Reply.hstate :=
  {| Reply.s_mmid := v; Reply.s_fnlen := Reply.s_fnlen s; Reply.s_fname := Reply.s_fname s;
     Reply.s_ftype := Reply.s_ftype s |}.

Definition reply_body_chk (k : Reply.rkind) (s : Reply.hstate) (m : msg)
  : result (Reply.hstate * option (list N)) :=
  let body := m_body m in
  match k with
  | Reply.RGeneral => Ok (s, Some (Reply.general_body (m_serial m) (m_id m) 0))
  | Reply.RRegister => Ok (s, Some (be_enc 2 (m_serial m) ++ [0] ++ phone_of m))
  | Reply.RAuth =>
    c <- auth_code_chk m ;;
    match c with
    | None => Ok (s, None)
    | Some code => Ok (s, Some (Reply.general_body (m_serial m) (m_id m)
                                  (if list_eqb (phone_of m) code then 0 else 1)))
    end
  | Reply.RMedia =>
    (* _ = t.Parse(jtMsg): T0x0801.Parse with its embedded location block (Model/Location.v) *)
    match Location.t0801_parse Location.fresh_0801 body with
    | Ok t => let s' := set_mmid s (Location.m_id t) in Ok (s', Some (be_enc 4 (Reply.s_mmid s')))
    | Err _ => Ok (s, Some (be_enc 4 (Reply.s_mmid s)))
    | Panic => Panic
    end
  | Reply.RFile =>
    (* _ = t.T0x1211.Parse(jtMsg): body[0], body[1:1+l], body[1+l], Uint32(body[2+l:]) *)
    s' <- (if len body <? 6 then Ok s else
           l <- idx body 0 ;;
           if negb (len body =? 6 + l)
           then Ok {| Reply.s_mmid := Reply.s_mmid s; Reply.s_fnlen := l; Reply.s_fname := Reply.s_fname s;
                      Reply.s_ftype := Reply.s_ftype s |}
           else
             nm <- slice body 1 (1 + l) ;;
             ty <- idx body (1 + l) ;;
             sz <- Ranges.be32_from body (2 + l) ;;
             Ok {| Reply.s_mmid := Reply.s_mmid s; Reply.s_fnlen := l; Reply.s_fname := nm;
                   Reply.s_ftype := ty |}) ;;
    Ok (s', Some ([Reply.s_fnlen s'] ++ Reply.s_fname s' ++ [Reply.s_ftype s'; 0; 0]))
  | Reply.REmpty => Ok (s, Some [])
  end.

(* ---------- handlers that parse every body (README pattern) ---------- *)
(* OnReadExecutionEvent calling Parse of the registered type on a fresh receiver.  Location reports and the
   types of the reply path use the models of C08 / C06 / C15 / C16; every other registered type is parsed by
   C03's checked model of protocol/model (Total_msgs.parse_msg: Err 98 for an id it does not know). *)
Definition handler_parse_chk (m : msg) : result unit :=
  let body := m_body m in
  let id := m_id m in
  if id =? 0x0200 then
    match Location.t0200_parse Location.fresh_0200 body with Panic => Panic | _ => Ok tt end
  else if id =? 0x0704 then
    match Location.t0704_parse Location.fresh_0704 body with Panic => Panic | _ => Ok tt end
  else if id =? 0x0801 then
    match Location.t0801_parse Location.fresh_0801 body with Panic => Panic | _ => Ok tt end
  else if id =? 0x0102 then
    match auth_code_chk m with Panic => Panic | _ => Ok tt end
  else if (id =? 0x1211) || (id =? 0x1212) then
    match Ranges.parse1211 body with Panic => Panic | _ => Ok tt end
  else if id =? 0x1210 then
    match Attach.parse1210 1 body with Panic => Panic | _ => Ok tt end
  else
    match Total_msgs.parse_msg id (fun x => x) (if m_ver m =? 1 then 3 else 2) 1 (Total_base.VL []) body with
    | Panic => Panic
    | _ => Ok tt
    end.

(* ---------- one connection ---------- *)
Record conn := {
  k_ps : pst;                      (* packageParse *)
  k_h : Reply.hstate;              (* handler instances of this connection *)
  k_seq : N;                       (* platformSerialNumber *)
  k_key : option (list N);         (* the key the connection joined under *)
  k_broken : bool                  (* conn.Write fails (the writer logs it, sets ExtensionFields.Err and goes on) *)
}.
Definition conn0 : conn := {| k_ps := pst0; k_h := Reply.hstate0; k_seq := 0; k_key := None; k_broken := false |}.
Definition break_conn (c : conn) : conn :=
  {| k_ps := k_ps c; k_h := k_h c; k_seq := k_seq c; k_key := k_key c; k_broken := true |}.

(* one conn.Write *)
Record wout := { o_rid : N; o_seq : N; o_bytes : list N }.

Inductive dres :=
| D_go (c : conn) (outs : list wout)          (* the connection goes on *)
| D_closed (c : conn) (outs : list wout).     (* the reader returned: stop() *)

Definition pm_complete (p : pmsg) : bool := (m_sum (p_msg p) =? 0) || p_complete p.   (* hasComplete *)

(* reader loop body for one delivered message followed by what the writer does with it.  parse_all:
   the handlers parse every body; taken key: the key is held by another live connection *)
Definition deliver (parse_all : bool) (taken : list N -> bool) (c : conn) (p : pmsg) : result dres :=
  let m := p_msg p in
  match Reply.lookup (m_id m) with
  | None => Ok (D_go c [])                                       (* OnNotSupportedEvent *)
  | Some hi =>
    if m_id m =? Reply.REISSUE then                              (* reissuePackChan -> subPackReplyEvent *)
      Ok (D_go {| k_ps := k_ps c; k_h := k_h c; k_seq := Reply.next_seq (k_seq c); k_key := k_key c; k_broken := k_broken c |}
               [{| o_rid := Reply.REISSUE; o_seq := k_seq c;
                   o_bytes := encode m Reply.REISSUE (k_seq c) (m_body m) |}])
    else
      _ <- (if parse_all && pm_complete p then handler_parse_chk m else Ok tt) ;;   (* onReadExecutionEvent *)
      let joined := match k_key c with
                    | Some k => Some (Some k)
                    | None => if taken (phone_of m) then None else Some (Some (phone_of m))
                    end in
      match joined with
      | None => Ok (D_closed c [])                               (* _errKeyExist: return *)
      | Some key =>
        if pm_complete p && Reply.hi_has hi then                 (* defaultReplyEvent *)
          r <- reply_body_chk (Reply.hi_kind hi) (k_h c) m ;;
          match snd r with
          | Some body =>
            Ok (D_go {| k_ps := k_ps c; k_h := fst r; k_seq := Reply.next_seq (k_seq c); k_key := key; k_broken := k_broken c |}
                     [{| o_rid := Reply.hi_rid hi; o_seq := k_seq c;
                         o_bytes := encode m (Reply.hi_rid hi) (k_seq c) body |}])
          | None => Ok (D_go {| k_ps := k_ps c; k_h := fst r; k_seq := k_seq c; k_key := key; k_broken := k_broken c |} [])
          end
        else Ok (D_go {| k_ps := k_ps c; k_h := k_h c; k_seq := k_seq c; k_key := key; k_broken := k_broken c |} [])
      end
  end.

Fixpoint deliver_all (parse_all : bool) (taken : list N -> bool) (c : conn) (ps : list pmsg) : result dres :=
  match ps with
  | [] => Ok (D_go c [])
  | p :: t =>
    r <- deliver parse_all taken c p ;;
    match r with
    | D_closed c' o => Ok (D_closed c' o)
    | D_go c' o =>
      r2 <- deliver_all parse_all taken c' t ;;
      Ok (match r2 with D_go c'' o2 => D_go c'' (o ++ o2) | D_closed c'' o2 => D_closed c'' (o ++ o2) end)
    end
  end.

(* one Read of the reader goroutine *)
Definition conn_data (parse_all : bool) (taken : list N -> bool) (now : N) (c : conn) (d : list N) : result dres :=
  r <- parse_chk now (k_ps c) d ;;
  let '(ps', msgs, err) := r in
  let c' := {| k_ps := ps'; k_h := k_h c; k_seq := k_seq c; k_key := k_key c; k_broken := k_broken c |} in
  match err with
  | Some _ => Ok (D_closed c' [])                                (* parse error: return (messages dropped) *)
  | None => deliver_all parse_all taken c' msgs
  end.

(* ---------- the process ---------- *)
Record srv808 := {
  v_conns : list (N * conn);       (* live connections *)
  v_log : list (N * wout);         (* every conn.Write so far, newest first *)
  v_shut : list N;                 (* connections the server ended *)
  v_crashed : bool
}.
Definition init808 : srv808 := {| v_conns := []; v_log := []; v_shut := []; v_crashed := false |}.

(* the session registry seen from connection c: a key is taken when another live connection joined under it *)
Definition taken_by_others (c : N) (conns : list (N * conn)) (key : list N) : bool :=
  existsb (fun kv => negb (fst kv =? c) &&
                     match k_key (snd kv) with Some k => list_eqb k key | None => false end) conns.

(* what reaches the peer: nothing once conn.Write fails (defaultReplyEvent / subPackReplyEvent log the error, record it
   in the message and carry on; the connection ends when the reader's Read fails) *)
Definition delivered (k : conn) (outs : list wout) : list wout := if k_broken k then [] else outs.

Definition step808 (parse_all : bool) (s : srv808) (e : sev) : srv808 :=
  if v_crashed s then s else
  match e with
  | Connect c =>
    match cfind c (v_conns s) with
    | Some _ => s
    | None => {| v_conns := cset c conn0 (v_conns s); v_log := v_log s; v_shut := v_shut s; v_crashed := false |}
    end
  | Data c now d =>
    match cfind c (v_conns s) with
    | None => s
    | Some k =>
      match d with
      | [] => s                                                   (* n = 0 *)
      | _ =>
        match conn_data parse_all (taken_by_others c (v_conns s)) now k d with
        | Panic => {| v_conns := v_conns s; v_log := v_log s; v_shut := v_shut s; v_crashed := true |}
        | Err _ => s
        | Ok (D_go k' outs) =>
          {| v_conns := cset c k' (v_conns s); v_log := rev (map (fun o => (c, o)) (delivered k outs)) ++ v_log s;
             v_shut := v_shut s; v_crashed := false |}
        | Ok (D_closed k' outs) =>
          {| v_conns := cremove c (v_conns s); v_log := rev (map (fun o => (c, o)) (delivered k outs)) ++ v_log s;
             v_shut := c :: v_shut s; v_crashed := false |}
        end
      end
    end
  | Close c =>
    {| v_conns := cremove c (v_conns s); v_log := v_log s; v_shut := v_shut s; v_crashed := false |}
  | WriteErr c =>
    match cfind c (v_conns s) with
    | Some k => {| v_conns := cset c (break_conn k) (v_conns s); v_log := v_log s; v_shut := v_shut s; v_crashed := false |}
    | None => s
    end
  end.

Definition outcome808 (s : srv808) : fate := if v_crashed s then Crash else Running.
Definition run808 (parse_all : bool) (evs : list sev) : srv808 := fold_left (step808 parse_all) evs init808.

(* what connection c observes: the frames written to it, oldest first, and whether the server ended it *)
Definition seen808 (c : N) (s : srv808) : list wout * bool :=
  (map snd (filter (fun x => fst x =? c) (rev (v_log s))), existsb (N.eqb c) (v_shut s)).

(* ============================================================================================ *)
(*                                    attachment server                                         *)
(* ============================================================================================ *)
Import Attach.

(* heiBiaoStreamDataHandle.HasMinHeadLen: data[4] *)
Definition has_min_head_chk (d : N) (b : list N) : result bool :=
  if d =? D_HLJ then
    if len b <? 5 then Ok false else nl <- idx b 4 ;; Ok (4 + 1 + nl + 4 + 4 <=? len b)
  else Ok (62 <=? len b).

(* Parse of the chunk header: data[4:54], data[54:58], data[58:62]; HLJ: data[4], data[5:5+n], ... *)
Definition parse_head_chk (d : N) (b : list N) : result (N * name * N * N) :=
  if d =? D_HLJ then
    nl <- idx b 4 ;;
    nm <- slice b 5 (5 + nl) ;;
    o <- slice b (5 + nl) (9 + nl) ;;
    l <- slice b (9 + nl) (13 + nl) ;;
    Ok (4 + 1 + nl + 4 + 4, trim0 nm, be_dec o, be_dec l)
  else
    nm <- slice b 4 54 ;;
    o <- slice b 54 58 ;;
    l <- slice b 58 62 ;;
    Ok (62, trim0 nm, be_dec o, be_dec l).

Definition lex_chk (d : N) (b : list N) : result lexed :=
  if has_prefix MARKER b then
    mh <- has_min_head_chk d b ;;
    if negb mh then Ok L_more else
    r <- parse_head_chk d b ;;
    let '(hl, nm, off, dlen) := r in
    Ok (if hl + dlen <=? len b then L_chunk hl nm off dlen else L_more)
  else if len b <? 10 then Ok L_more
  else
    t <- slice_from b 1 ;;                                   (* p.historyData[1:] *)
    match index_of SIGN t with
    | None => Ok L_more
    | Some i => Ok (L_frame (i + 2))
    end.

(* stageStreamData: p.historyData[headLen:headLen+bodyLen], [:headLen], [headLen+bodyLen:] *)
Definition do_chunk_chk (s : st) (hl : N) (nm : name) (off dlen : N) : result Attach.outcome :=
  let h := s_hist s in
  match afind name_eqb nm (s_record s) with
  | None => Ok (O_fatal (set_stage s ST_STREAM))
  | Some pk =>
    data <- slice h hl (hl + dlen) ;;
    head <- slice h 0 hl ;;
    rest <- slice_from h (hl + dlen) ;;
    Ok (O_ok (after_chunk s nm (pkg_add pk off dlen data head) rest))
  end.

Definition frame_decide_chk (d : N) (s : st) (m : msg) : result fdec :=
  if m_id m =? ID_1210 then
    match parse1210 d (m_body m) with
    | Ok items => Ok (F_go ST_INIT (announce (s_record s) items) (s_cur s) (h_name1212 s) (h_miss s))
    | Err _ => Ok F_fatal
    | Panic => Panic
    end
  else if m_id m =? ID_1211 then
    match Ranges.parse1211 (m_body m) with
    | Ok _ => Ok (F_go ST_START (s_record s) (s_cur s) (h_name1212 s) (h_miss s))
    | Err _ => Ok F_fatal
    | Panic => Panic
    end
  else if m_id m =? ID_1212 then
    match Ranges.parse1211 (m_body m) with
    | Ok t =>
      match afind name_eqb (Ranges.f_name t) (s_record s) with
      | Some pk =>
        let miss := Ranges.miss_segments (p_size pk) (p_cur pk) (p_recs pk) in
        Ok (F_go (match miss with [] => ST_COMPLETE | _ => ST_SUPPL end) (s_record s)
                 (Some (Ranges.f_name t)) (Ranges.f_name t) miss)
      | None => Ok (F_go ST_COMPLETE (s_record s) (s_cur s) (Ranges.f_name t) (h_miss s))
      end
    | Err _ => Ok F_fatal
    | Panic => Panic
    end
  else Ok F_fatal.

Definition frame_core_chk (d : N) (s : st) (m : msg) : result Attach.outcome :=
  let s2 := with_msg s m in
  fd <- frame_decide_chk d s2 m ;;
  match fd with
  | F_fatal => Ok (O_fatal s2)
  | F_go stage rec cur n1212 miss =>
    let s3 := commit s2 m stage rec cur n1212 miss in
    if has_reply stage then
      match reply_data s3 with                          (* d.head / d.jtMsg nil, ReplyBody: Panic *)
      | Ok data => Ok (O_ok (replied s3 data))
      | Err _ => Ok (O_fatal s3)
      | Panic => Panic
      end
    else Ok (O_ok s3)
  end.

(* parseJT808Message: p.historyData[:index], p.historyData[index:] *)
Definition do_frame_chk (d : N) (s : st) (index : N) : result Attach.outcome :=
  let h := s_hist s in
  fr <- slice h 0 index ;;
  match decode_chk fr with
  | Ok m => rest <- slice_from h index ;; frame_core_chk d (set_hist s rest) m
  | Err _ => Ok (O_fatal s)
  | Panic => Panic
  end.

Definition step_chk (d : N) (s : st) : result Attach.outcome :=
  l <- lex_chk d (s_hist s) ;;
  match l with
  | L_more => Ok O_more
  | L_chunk hl nm off dlen => do_chunk_chk s hl nm off dlen
  | L_frame index => do_frame_chk d s index
  end.

(* fileEvent.OnEvent (the default handler): extension.CurrentPackage.FileName in the two transfer
   stages, Parse(extension.RecentTerminalMessage) in the three control stages, the nil check of the
   repaired SuccessQuit branch *)
Definition on_event_chk (d : N) (s : st) : result unit :=
  let g := s_stage s in
  if (g =? ST_STREAM) || (g =? ST_SUPPL) then
    match s_cur s with Some _ => Ok tt | None => Panic end
  else if g =? ST_INIT then
    match s_recent s with
    | Some m => match parse1210 d (m_body m) with Panic => Panic | _ => Ok tt end
    | None => Panic
    end
  else if (g =? ST_START) || (g =? ST_COMPLETE) then
    match s_recent s with
    | Some m => match Ranges.parse1211 (m_body m) with Panic => Panic | _ => Ok tt end
    | None => Panic
    end
  else Ok tt.

(* iter + the consumer loop of run for one read: bytes written, final state, stopped? *)
Fixpoint iter_chk (fuel : nat) (d : N) (s : st) : result (list N * st * bool) :=
  match s_hist s with
  | [] => Ok ([], s, false)
  | _ =>
    match fuel with
    | O => Ok ([], s, true)
    | S f =>
      o <- step_chk d s ;;
      match o with
      | O_more => Ok ([], s, false)
      | O_fatal s' => Ok ([], set_err s', true)
      | O_ok s' =>
        _ <- on_event_chk d s' ;;
        r <- iter_chk f d s' ;;
        let '(w, s'', stop) := r in
        Ok ((if has_reply (s_stage s') then s_reply s' else []) ++ w, s'', stop)
      end
    end
  end.

Definition feed_chk (d : N) (s : st) (seg : list N) : result (list N * st * bool) :=
  let s1 := set_hist s (s_hist s ++ seg) in
  iter_chk (S (length (s_hist s1))) d s1.

(* a connection of the attachment server: Some st while run() is in its read loop, None after run()
   returned because of a fatal error (the socket stays open but is no longer read) *)
(* what a connection of the attachment server does to the outside world *)
Inductive aobs :=
| AWrite (w : list N)                                      (* conn.Write *)
| AStopped                                                 (* run() returned after a fatal error: the socket is no longer read *)
| ASaved (dir : list N) (files : list (list N * list N)).  (* the default file handler at SuccessQuit: MkdirAll(dir), os.WriteFile(path, content) *)

Record srvatt := {
  a_conns : list (N * option (st * bool));   (* + conn.Write fails *)
  a_log : list (N * aobs);         (* newest first *)
  a_crashed : bool
}.
Definition initatt : srvatt := {| a_conns := []; a_log := []; a_crashed := false |}.

Definition crashatt (s : srvatt) : srvatt := {| a_conns := a_conns s; a_log := a_log s; a_crashed := true |}.

(* fileEvent.OnEvent in stage SuccessQuit (Attach.on_quit_saves): what the final event writes to the file system *)
Definition att_saves (c : N) (k : st) : list (N * aobs) :=
  match on_quit_saves (quit k) with
  | Some (dir, files) => [(c, ASaved dir files)]
  | None => []
  end.

Definition stepatt (d : N) (s : srvatt) (e : sev) : srvatt :=
  if a_crashed s then s else
  match e with
  | Connect c =>
    match cfind c (a_conns s) with
    | Some _ => s
    | None => {| a_conns := cset c (Some (init_st, false)) (a_conns s); a_log := a_log s; a_crashed := false |}
    end
  | Data c _ seg =>
    match cfind c (a_conns s), seg with
    | Some (Some (k, br)), _ :: _ =>
      match feed_chk d k seg with
      | Ok (w, k', stop) =>
        (* a failed conn.Write leaves ExtensionFields.Err set: the session will end in stage FailQuit *)
        let k'' := if br && negb (len w =? 0) then set_err k' else k' in
        let w' := if (br : bool) then [] else w in
        if (stop : bool) then
          (* the deferred final event of run() *)
          match on_event_chk d (set_stage k'' ST_FAIL_QUIT) with
          | Ok _ => {| a_conns := cset c None (a_conns s); a_log := (c, AStopped) :: (c, AWrite w') :: a_log s;
                       a_crashed := false |}
          | _ => crashatt s
          end
        else {| a_conns := cset c (Some (k'', br)) (a_conns s); a_log := (c, AWrite w') :: a_log s; a_crashed := false |}
      | _ => crashatt s
      end
    | _, _ => s
    end
  | Close c =>
    match cfind c (a_conns s) with
    | Some (Some (k, _)) =>
      match on_event_chk d (quit k) with
      | Ok _ => {| a_conns := cremove c (a_conns s); a_log := att_saves c k ++ a_log s; a_crashed := false |}
      | _ => crashatt s
      end
    | Some None => {| a_conns := cremove c (a_conns s); a_log := a_log s; a_crashed := false |}
    | None => s
    end
  | WriteErr c =>
    match cfind c (a_conns s) with
    | Some (Some (k, _)) => {| a_conns := cset c (Some (k, true)) (a_conns s); a_log := a_log s; a_crashed := false |}
    | _ => s
    end
  end.

Definition outcomeatt (s : srvatt) : fate := if a_crashed s then Crash else Running.
Definition runatt (d : N) (evs : list sev) : srvatt := fold_left (stepatt d) evs initatt.
(* everything connection c caused, oldest first: the bytes written to it, whether its run() stopped reading, the
   files its final event stored *)
Definition seenatt (c : N) (s : srvatt) : list aobs :=
  map snd (filter (fun x => fst x =? c) (rev (a_log s))).
Definition bytesatt (c : N) (s : srvatt) : list N :=
  flat_map (fun o => match o with AWrite w => w | _ => [] end) (seenatt c s).

(* ---------- specification vocabulary for isolation ---------- *)
Definition ev_conn (e : sev) : N := match e with Connect c => c | Data c _ _ => c | Close c => c | WriteErr c => c end.
Definition without (c : N) (evs : list sev) : list sev := filter (fun e => negb (ev_conn e =? c)) evs.

(* the side condition of isolation on the JT808 server, computed along the run: whenever a connection
   other than c is served, it has already joined the registry, or c holds no key (then the registry
   gives it the same answer with and without c).  C11 is the property about the registry itself. *)
Definition holds_no_key (c : N) (s : srv808) : bool :=
  match cfind c (v_conns s) with Some k => match k_key k with None => true | Some _ => false end | None => true end.
Definition joined (c : N) (s : srv808) : bool :=
  match cfind c (v_conns s) with Some k => match k_key k with None => false | Some _ => true end | None => false end.
Fixpoint iso_ok (parse_all : bool) (c : N) (s : srv808) (evs : list sev) : bool :=
  match evs with
  | [] => true
  | e :: t =>
    ((ev_conn e =? c) || joined (ev_conn e) s || holds_no_key c s ||
     match e with Data _ _ _ => false | _ => true end) &&
    iso_ok parse_all c (step808 parse_all s e) t
  end.

(* the events of one connection only *)
Definition only (c : N) (evs : list sev) : list sev := filter (fun e => ev_conn e =? c) evs.
Definition no_reconnect (c : N) (evs : list sev) : bool :=
  forallb (fun e => match e with Connect c0 => negb (c0 =? c) | _ => true end) evs.

(* ---- the exact side condition of isolation on the JT808 server ---- *)
(* the key a not yet joined connection presents when these messages are delivered: the terminal number of the
   first message of a registered type other than 0x8003 (reader: handler lookup, re-issue path, then join) *)
Fixpoint first_key (ps : list pmsg) : option (list N) :=
  match ps with
  | [] => None
  | p :: t =>
    match Reply.lookup (m_id (p_msg p)) with
    | Some _ => if m_id (p_msg p) =? Reply.REISSUE then first_key t else Some (phone_of (p_msg p))
    | None => first_key t
    end
  end.

(* the key connection k claims with the read d (None: it has joined already, the read ends it, or no message of
   it reaches the join) *)
Definition claimed_key (now : N) (k : conn) (d : list N) : option (list N) :=
  match k_key k with
  | Some _ => None
  | None =>
    let '(_, msgs, err) := parse now (k_ps k) d in
    match err with Some _ => None | None => first_key msgs end
  end.

(* nobody claims a key while connection c OWNS it.  (c itself may claim any key, also that of an established
   session: it is refused and owns nothing.)  This is the one way a connection can influence another by design of
   the registry - the first owner of a key keeps it (C11_refused_leaves_first_alone), a later claimant is ended. *)
Fixpoint unclaimed (parse_all : bool) (c : N) (s : srv808) (evs : list sev) : bool :=
  match evs with
  | [] => true
  | e :: t =>
    match e with
    | Data c0 now d =>
      (c0 =? c) ||
      match cfind c0 (v_conns s), cfind c (v_conns s) with
      | Some k0, Some kc =>
        match k_key kc, claimed_key now k0 d with
        | Some own, Some cl => negb (list_eqb own cl)
        | _, _ => true
        end
      | _, _ => true
      end
    | _ => true
    end && unclaimed parse_all c (step808 parse_all s e) t
  end.

(* connection c owns no key after any prefix of the events (it never joined, or whatever it claimed was refused) *)
Definition never_owns (parse_all : bool) (c : N) (s : srv808) (evs : list sev) : bool :=
  forallb (fun n => holds_no_key c (fold_left (step808 parse_all) (firstn n evs) s)) (seq 0 (S (length evs))).

(* every key connection c claims is in use at that moment (it is refused each time) *)
Fixpoint all_claims_refused (parse_all : bool) (c : N) (s : srv808) (evs : list sev) : bool :=
  match evs with
  | [] => true
  | e :: t =>
    match e with
    | Data c0 now d =>
      negb (c0 =? c) ||
      match cfind c (v_conns s) with
      | Some k => match claimed_key now k d with
                  | Some key => taken_by_others c (v_conns s) key
                  | None => true
                  end
      | None => true
      end
    | _ => true
    end && all_claims_refused parse_all c (step808 parse_all s e) t
  end.

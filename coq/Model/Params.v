(* C07 — terminal parameters (TerminalParamDetails.parse / parseParam / encode of
   protocol/model/t_terminal_params.go) and the message that carries them both ways, P0x8103.  DEFINITIONS ONLY.

   The Go value is a struct of 86 typed fields `ParamContent[T]{ID, Len, Value}` in declaration order plus the
   map OtherContent of the ids the parser has no case for.  Its dump - and the model's value - is the tuple
   (f1, ..., f86, (others ascending by id)), each f = (id, len, value).  A field never assigned is
   (0, 0, zero value of T); encode skips every field whose Len is 0.

   [param_fields] is that declaration order with the kind of each id: the type parameter of the field for the
   ids parseParam has a case for, KNone for the three declared fields it has none for (0x018 0x019 0x021: they
   land in OtherContent).  parse walks the wire list `id DWORD, length BYTE, value` and assigns; the count byte is
   decremented per item in uint8 arithmetic and must end at 0.  Repaired behaviour carried here: ids 0x02A/0x02B
   are unknown content (2127bc2); the receiver starts from empty parameters (32080e5). *)
From JT.Base Require Import Prelude Fmt.
From JT.Model Require Import Msg_simple.

Inductive pkind := K32 | K16 | K8 | KStr | KB4 | KB8 | KNone.

Definition param_fields : list (N * pkind) :=
  [
   (0x001, K32); (0x002, K32); (0x003, K32); (0x004, K32); (0x005, K32); (0x006, K32); (0x007, K32); (0x010, KStr);
   (0x011, KStr); (0x012, KStr); (0x013, KStr); (0x014, KStr); (0x015, KStr); (0x016, KStr); (0x017, KStr); (0x018, KNone);
   (0x019, KNone); (0x01a, KStr); (0x01b, K32); (0x01c, K32); (0x01d, KStr); (0x020, K32); (0x021, KNone); (0x022, K32);
   (0x023, KStr); (0x024, KStr); (0x025, KStr); (0x026, KStr); (0x027, K32); (0x028, K32); (0x029, K32); (0x02c, K32);
   (0x02d, K32); (0x02e, K32); (0x02f, K32); (0x030, K32); (0x031, K16); (0x032, KB4); (0x040, KStr); (0x041, KStr);
   (0x042, KStr); (0x043, KStr); (0x044, KStr); (0x045, K32); (0x046, K32); (0x047, K32); (0x048, KStr); (0x049, KStr);
   (0x050, K32); (0x051, K32); (0x052, K32); (0x053, K32); (0x054, K32); (0x055, K32); (0x056, K32); (0x057, K32);
   (0x058, K32); (0x059, K32); (0x05a, K32); (0x05b, K16); (0x05c, K16); (0x05d, K16); (0x05e, K16); (0x064, K32);
   (0x065, K32); (0x070, K32); (0x071, K32); (0x072, K32); (0x073, K32); (0x074, K32); (0x080, K32); (0x081, K16);
   (0x082, K16); (0x083, KStr); (0x084, K8); (0x090, K8); (0x091, K8); (0x092, K8); (0x093, K32); (0x094, K8);
   (0x095, K32); (0x100, K32); (0x101, K16); (0x102, K32); (0x103, K16); (0x110, KB8)].

(* the switch of parseParam: the kind of an id that has a typed case *)
Definition param_kind (id : N) : option pkind :=
  match assoc id param_fields with Some KNone => None | r => r end.

Definition zero_of (k : pkind) : val :=
  match k with
  | KStr => VB []
  | KB4 => VB [0; 0; 0; 0]
  | KB8 => VB [0; 0; 0; 0; 0; 0; 0; 0]
  | _ => VN 0
  end.
Definition unset (k : pkind) : val := VL [VN 0; VN 0; zero_of k].
Definition fresh_fields : list val := map (fun p => unset (snd p)) param_fields.

(* t.<field of id> = v *)
Fixpoint set_field (tbl : list (N * pkind)) (fs : list val) (id : N) (v : val) : list val :=
  match tbl, fs with
  | (id', _) :: tbl', f :: fs' => if id' =? id then v :: fs' else f :: set_field tbl' fs' id v
  | _, _ => fs
  end.

(* t.OtherContent[id] = v, kept in the order the dump prints a map: ascending by key *)
Definition other_id (o : val) : N := match o with VL (VN i :: _) => i | _ => 0 end.
Fixpoint other_put (os : list val) (o : val) : list val :=
  match os with
  | [] => [o]
  | x :: t => if other_id o <? other_id x then o :: os
              else if other_id o =? other_id x then o :: t
              else x :: other_put t o
  end.

Section Gbk.
Variables (u2g g2u : list N -> list N) (gdom : list N -> bool).

(* parseParam: Some value for a typed field, None for unknown content; a wrong length is an error *)
Definition parse_param (id plen : N) (content : list N) : result (option val) :=
  match param_kind id with
  | Some K32 => if plen =? 4 then Ok (Some (VN (be_dec content))) else Err 1
  | Some K16 => if plen =? 2 then Ok (Some (VN (be_dec content))) else Err 1
  | Some K8 => if plen =? 1 then Ok (Some (VN (hd 0 content))) else Err 1
  | Some KStr => Ok (Some (VB (g2u content)))
  | Some KB4 => if plen =? 4 then Ok (Some (VB content)) else Err 1
  | Some KB8 => if plen =? 8 then Ok (Some (VB content)) else Err 1
  | _ => Ok None
  end.

(* the loop of TerminalParamDetails.parse; every round consumes at least five bytes, fuel = len(body) *)
Fixpoint params_loop (fuel : nat) (count : N) (st : list val * list val) (l : list N)
  : result (list val * list val) :=
  match l with
  | [] => if count =? 0 then Ok st else Err 1
  | _ :: _ =>
    match fuel with
    | O => Err 9
    | S fuel' =>
      '(h, r) <- take_e 5 l ;;
      let id := be_dec (firstn 4 h) in
      let plen := nth 4 h 0 in
      '(content, r') <- take_e plen r ;;
      x <- parse_param id plen content ;;
      let st' := match x with
                 | Some v => (set_field param_fields (fst st) id (VL [VN id; VN plen; v]), snd st)
                 | None => (fst st, other_put (snd st) (VL [VN id; VN plen; VB content]))
                 end in
      params_loop fuel' ((count + 255) mod 256) st' r'
    end
  end.

Definition params_parse (count : N) (body : list N) : result val :=
  '(fs, os) <- params_loop (length body) count (fresh_fields, []) body ;; Ok (VL (fs ++ [VL os])).

(* ParamContent[T].encode: nothing for a parameter that was never set (Len 0 and ID 0; repaired 65a48a9: an empty
   value with its ID set is still written), otherwise id, Len, the value by its type *)
Definition enc_value (k : pkind) (x : val) : list N :=
  match k, x with
  | K16, VN n => be_enc 2 n
  | K8, VN n => [n]
  | KStr, VB s => u2g s
  | KB4, VB s => s
  | KB8, VB s => s
  | _, VN n => be_enc 4 n          (* K32 and the uint32 fields without a case *)
  | _, _ => []
  end.
Definition enc_field (k : pkind) (f : val) : list N :=
  match f with
  | VL [VN id; VN plen; x] => if (plen =? 0) && (id =? 0) then [] else be_enc 4 id ++ [plen] ++ enc_value k x
  | _ => []
  end.
Fixpoint enc_fields (tbl : list (N * pkind)) (fs : list val) : list N :=
  match tbl, fs with
  | (_, k) :: tbl', f :: fs' => enc_field k f ++ enc_fields tbl' fs'
  | _, _ => []
  end.
Definition enc_other (o : val) : list N :=
  match o with
  | VL [VN id; VN plen; VB c] => if (plen =? 0) && (id =? 0) then [] else be_enc 4 id ++ [plen] ++ c
  | _ => []
  end.
Definition nfields : nat := length param_fields.
Definition params_encode (v : val) : list N :=
  match v with
  | VL vs => enc_fields param_fields (firstn nfields vs) ++
             match skipn nfields vs with [VL os] => flat_map enc_other os | _ => [] end
  | _ => []
  end.

(* the domain: a typed field is either unset or holds its own id, the length of its type (for text: of its GBK
   form, possibly 0) and a value of that type; the three caseless fields are unset; unknown ids have no
   typed case, a value whose length is Len (not both id 0 and Len 0), and are strictly ascending; count = number of items *)
Definition field_wf (id : N) (k : pkind) (f : val) : bool :=
  val_eqb f (unset k) ||
  match f with
  | VL [VN id'; VN plen; x] =>
      (id' =? id) &&
      match k, x with
      | K32, VN n => (plen =? 4) && (n <? 4294967296)
      | K16, VN n => (plen =? 2) && (n <? 65536)
      | K8, VN n => (plen =? 1) && (n <? 256)
      | KStr, VB s => gdom s && (plen =? len (u2g s)) && (plen <? 256)
      | KB4, VB s => (plen =? 4) && (len s =? 4)
      | KB8, VB s => (plen =? 8) && (len s =? 8)
      | _, _ => false
      end
  | _ => false
  end.
Definition is_set (f : val) : bool :=
  match f with VL [VN id; VN plen; _] => negb ((plen =? 0) && (id =? 0)) | _ => false end.
Fixpoint fields_wf (tbl : list (N * pkind)) (fs : list val) : bool :=
  match tbl, fs with
  | [], [] => true
  | (id, k) :: tbl', f :: fs' => field_wf id k f && fields_wf tbl' fs'
  | _, _ => false
  end.
Fixpoint others_wf (lo : N) (os : list val) : bool :=
  match os with
  | [] => true
  | VL [VN id; VN plen; VB c] :: t =>
      (lo <=? id) && (id <? 4294967296) &&
      match param_kind id with None => true | Some _ => false end &&
      (plen =? len c) && ((0 <? plen) || (0 <? id)) && (plen <? 256) && others_wf (id + 1) t
  | _ => false
  end.
Definition count_set (fs : list val) : N := len (filter is_set fs).
Definition params_wf (count : N) (v : val) : bool :=
  match v with
  | VL vs =>
      match skipn nfields vs with
      | [VL os] =>
          fields_wf param_fields (firstn nfields vs) && others_wf 0 os &&
          (count =? count_set (firstn nfields vs) + len os) && (count <? 256)
      | _ => false
      end
  | _ => false
  end.

(* the parameter list as the tail of a message whose count byte was read before *)
Definition params_tail (count : N) : tail := {|
  tl_enc := fun vs => match vs with [d] => params_encode d | _ => [] end;
  tl_dec := fun l => d <- params_parse count l ;; Ok [d];
  tl_wf := fun vs => match vs with [d] => params_wf count d | _ => false end |}.

(* P0x8103: count BYTE, parameter list *)
Definition m_8103 : msg := mk_msg [F vu8] (fun acc => params_tail (accN acc 0)).
End Gbk.

(* Model of protocol/jt808/packet_codec.go (escape / unescape) and protocol/jt808/jt808.go
   (JTMessage.Decode, Header.decode, BodyProperty.decode/encode, Header.Encode),
   utils.CreateVerifyCode (= xor_all). *)
From JT.Base Require Import Prelude.

(* protocol/error.go *)
Definition E_UNQUALIFIED : N := 1.
Definition E_HEAD_SHORT : N := 2.
Definition E_BODY_SHORT : N := 3.
Definition E_BODY_LEN : N := 4.
Definition E_CHECK : N := 5.

(* ---------- escape / unescape ---------- *)
Definition esc1 (b : N) : list N :=
  if b =? 126 then [125; 2] else if b =? 125 then [125; 1] else [b].
Definition escape (l : list N) : list N := 126 :: flat_map esc1 l ++ [126].

(* interior walk; [w] is data[1:len-1].  A 0x7d that is the last interior byte sees the
   closing delimiter as its partner: the tolerated deviation (unescaped checksum). *)
Fixpoint unesc (w : list N) : result (list N) :=
  match w with
  | [] => Ok []
  | b :: t =>
    if b =? 125 then
      match t with
      | [] => Ok [125]
      | c :: t' =>
        if c =? 1 then r <- unesc t' ;; Ok (125 :: r)
        else if c =? 2 then r <- unesc t' ;; Ok (126 :: r)
        else Err E_UNQUALIFIED
      end
    else r <- unesc t ;; Ok (b :: r)
  end.

Definition unescape (d : list N) : result (list N) :=
  if negb ((2 <? len d) && (hd 0 d =? 126) && (last d 0 =? 126)) then Err E_UNQUALIFIED
  else unesc (removelast (tl d)).

(* ---------- decoded message ---------- *)
Record msg := {
  m_id : N; m_len : N; m_enc : N; m_frag : N; m_ver : N;
  m_bcd : list N;          (* raw BCD phone bytes: 6 (2013) or 10 (2019) *)
  m_serial : N; m_sum : N; m_no : N;
  m_body : list N; m_check : N }.

Definition empty_msg : msg :=
  {| m_id := 0; m_len := 0; m_enc := 0; m_frag := 0; m_ver := 0; m_bcd := []; m_serial := 0;
     m_sum := 0; m_no := 0; m_body := []; m_check := 0 |}.

Definition be16 (hi lo : N) : N := hi * 256 + lo.

(* JTMessage.Decode on a fresh JTMessage *)
Definition decode (d : list N) : result msg :=
  p <- unescape d ;;
  if negb (xor_all p =? 0) then Err E_CHECK else
  if len p <? 4 then Err E_HEAD_SHORT else
  let attr := be16 (at_ p 2) (at_ p 3) in
  let ver := N.land (N.shiftr attr 14) 1 in
  let frag := N.land (N.shiftr attr 13) 1 in
  let enc := N.shiftr (N.land attr 1024) 10 in
  let blen := N.land attr 1023 in
  let start := if ver =? 1 then 5 else 4 in
  let plen := if ver =? 1 then 10 else 6 in
  if len p <? start + plen + 2 then Err E_HEAD_SHORT else
  let ser := be16 (at_ p (start + plen)) (at_ p (start + plen + 1)) in
  if (frag =? 1) && (len p <? start + plen + 6) then Err E_HEAD_SHORT else
  let hend := if frag =? 1 then start + plen + 6 else start + plen + 2 in
  if negb (hend + blen + 1 =? len p) then Err E_BODY_LEN else
  Ok {| m_id := be16 (at_ p 0) (at_ p 1); m_len := blen; m_enc := enc; m_frag := frag; m_ver := ver;
        m_bcd := sub p start (start + plen); m_serial := ser;
        m_sum := if frag =? 1 then be16 (at_ p (start + plen + 2)) (at_ p (start + plen + 3)) else 0;
        m_no  := if frag =? 1 then be16 (at_ p (start + plen + 4)) (at_ p (start + plen + 5)) else 0;
        m_body := sub p hend (hend + blen); m_check := at_ p (hend + blen) |}.

(* Header.Encode(body) with ReplyID = rid and PlatformSerialNumber = ps on the header of [h]:
   id = rid, or the header's own id when rid = 0; the length field is overwritten with the
   body length (uint16, not masked); the fragment bit is always cleared; the version byte is
   written iff the header is 2019; phone = the raw BCD bytes of the source header. *)
Definition prop_word (ver enc blen : N) : N :=
  N.lor (N.lor (N.shiftl ver 14) (N.shiftl enc 10)) (blen mod 65536).

Definition encode_payload (h : msg) (rid ps : N) (body : list N) : list N :=
  let id := if rid =? 0 then m_id h else rid in
  let attr := prop_word (m_ver h) (m_enc h) (len body) in
  [id / 256 mod 256; id mod 256; attr / 256 mod 256; attr mod 256]
    ++ (if m_ver h =? 1 then [1] else []) ++ m_bcd h ++ [ps / 256 mod 256; ps mod 256] ++ body.

Definition encode (h : msg) (rid ps : N) (body : list N) : list N :=
  let p := encode_payload h rid ps body in
  escape (p ++ [xor_all p]).

(* TerminalPhoneNo as the library renders it *)
Definition phone_of (m : msg) : list N := bcd2dec (m_bcd m).

(* ---------- the same decoder written against the checked Go-slice primitives ----------
   Every index / slice expression of Header.decode and JTMessage.Decode is evaluated with
   [idx] / [slice], which yield Panic beyond len (cap = len).  Proofs/Frame_proofs.v shows
   decode_chk = decode, i.e. the guards of the code make every access in range. *)
Definition be16_at (p : list N) (i : N) : result N :=
  s <- slice p i (i + 2) ;; Ok (be_dec s).

Definition decode_chk (d : list N) : result msg :=
  p <- unescape d ;;
  if negb (xor_all p =? 0) then Err E_CHECK else
  if len p <? 4 then Err E_HEAD_SHORT else
  id <- be16_at p 0 ;;
  attr <- be16_at p 2 ;;
  let ver := N.land (N.shiftr attr 14) 1 in
  let frag := N.land (N.shiftr attr 13) 1 in
  let enc := N.shiftr (N.land attr 1024) 10 in
  let blen := N.land attr 1023 in
  let start := if ver =? 1 then 5 else 4 in
  let plen := if ver =? 1 then 10 else 6 in
  if len p <? start + plen + 2 then Err E_HEAD_SHORT else
  bcd <- slice p start (start + plen) ;;
  ser <- be16_at p (start + plen) ;;
  if (frag =? 1) && (len p <? start + plen + 6) then Err E_HEAD_SHORT else
  sum <- (if frag =? 1 then be16_at p (start + plen + 2) else Ok 0) ;;
  no <- (if frag =? 1 then be16_at p (start + plen + 4) else Ok 0) ;;
  let hend := if frag =? 1 then start + plen + 6 else start + plen + 2 in
  if negb (hend + blen + 1 =? len p) then Err E_BODY_LEN else
  body <- slice p hend (hend + blen) ;;
  chk <- idx p (hend + blen) ;;
  Ok {| m_id := id; m_len := blen; m_enc := enc; m_frag := frag; m_ver := ver;
        m_bcd := bcd; m_serial := ser; m_sum := sum; m_no := no;
        m_body := body; m_check := chk |}.

(* C03 — the two frame-level decoders on a REUSED receiver (tree after the fix: commits ea4f312 and
   b666e97 of known_findings.json).  DEFINITIONS ONLY.
     jt808.JTMessage.Decode   every observable member of the message is assigned on success and the
                              sub-package flag / package fields are recomputed for every frame, so
                              the previous receiver is not an input: the model is Frame.decode_chk.
     jt1078.Packet.Decode     decodeHead first clears what the previous packet left behind
                              (customAttributes{}: the videoFrame flag; Timestamp and both intervals)
                              and then decodes as Model/Jt1078.v describes for an arbitrary receiver. *)
From JT.Base Require Import Prelude.
From JT.Model Require Import Frame Jt1078.

Definition frame_decode (r : msg) (d : list N) : result msg := decode_chk d.

(* p.customAttributes = customAttributes{}; p.Timestamp, p.LastIFrameInterval, p.LastFrameInterval = 0, 0, 0 *)
Definition rtp_reset (r : pkt) : pkt :=
  {| k_v := k_v r; k_p := k_p r; k_x := k_x r; k_cc := k_cc r; k_m := k_m r; k_pt := k_pt r;
     k_seq := k_seq r; k_sim := k_sim r; k_chan := k_chan r; k_dt := k_dt r; k_sub := k_sub r;
     k_ts := 0; k_ifi := 0; k_fi := 0; k_blen := k_blen r; k_body := k_body r; k_video := false |}.

Definition rtp_decode (r : pkt) (d : list N) : result (pkt * list N) := decode (rtp_reset r) d.

(* show_<op> for oracle/drv_x_frame.ml: ops decode, encode (definitions only; see Base/Show.v) *)
From Coq Require Import String.
From JT.Base Require Import Prelude Show.
From JT.Model Require Import Frame.

Definition show_msg (m : msg) : text :=
  cat [str "ok id="; show_N (m_id m); str " len="; show_N (m_len m); str " enc="; show_N (m_enc m);
       str " frag="; show_N (m_frag m); str " ver="; show_N (m_ver m); str " phone="; phone_of m;
       str " serial="; show_N (m_serial m); str " sum="; show_N (m_sum m); str " no="; show_N (m_no m);
       str " body="; show_hex_bytes (m_body m); str " check="; show_N (m_check m)].

(* decode <frame-hex> *)
Definition show_decode (frame : list N) : text := show_result show_msg (decode_chk frame).

(* encode <source-frame-hex> <reply-id> <platform-serial> <body-hex> *)
Definition show_encode (src : list N) (rid ps : N) (body : list N) : text :=
  match decode src with
  | Ok m => show_hex_bytes (encode m rid ps body)
  | Err e => str "srcerr " ++ show_N e
  | Panic => str "panic"
  end.

(* show_<op> for oracle/drv_c08.ml: ops p0200, p0704, p0801 (definitions only; see Base/Show.v) *)
From Coq Require Import String.
From JT.Base Require Import Prelude Show.
From JT.Model Require Import Location.

Definition loc_dump (l : loc) : text :=
  cat [str "alarm="; show_N (l_alarm l); str " status="; show_N (l_status l); str " lat="; show_N (l_lat l);
       str " lon="; show_N (l_lon l); str " alt="; show_N (l_alt l); str " speed="; show_N (l_speed l);
       str " dir="; show_N (l_dir l); str " time="; show_hex_bytes (l_time l); str " af="; show_flags (l_aflags l);
       str " sf="; show_flags (l_sflags l); str " cargo="; show_N (l_cargo l)].

(* nz k v: "k=v" unless v = 0 *)
Definition nz (k : text) (v : N) : list text := if v =? 0 then [] else [k ++ str "=" ++ show_N v].
Definition has_flag (l : list bool) : bool := existsb (fun b => b) l.

Definition val_dump (v : aval) : text :=
  join (str ",")
    match v with
    | VNone => []
    | VMile x => nz (str "mile") x
    | VOil x => nz (str "oil") x
    | VSpeed x => nz (str "speed") x
    | VManual x => nz (str "manual") x
    | VTire l =>
      match l with
      | [] => []
      | _ => [str "tire=" ++ join (str "+") (map (fun kx => show_N (fst kx) ++ str "." ++ show_N (snd kx))
                                               (sort_by (fun a b => fst a <=? fst b) l))]
      end
    | VTemp x => nz (str "temp") x
    | VOverSpeed ty a => nz (str "os.ty") ty ++ nz (str "os.area") a
    | VArea ty a d => nz (str "ar.ty") ty ++ nz (str "ar.area") a ++ nz (str "ar.dir") d
    | VDrive i t r => nz (str "dt.id") i ++ nz (str "dt.time") t ++ nz (str "dt.res") r
    | VExt x f => nz (str "ext.value") x ++ (if has_flag f then [str "ext.flags=" ++ show_flags f] else [])
    | VIO x f => nz (str "io.value") x ++ (if has_flag f then [str "io.flags=" ++ show_flags f] else [])
    | VAnalog x => nz (str "analog") x
    | VWifi x => nz (str "wifi") x
    | VGnss x => nz (str "gnss") x
    end.

Definition adds_dump (m : list addition) : text :=
  cat [str "adds=[";
       join (str ";") (map (fun a => cat [show_N (a_id a); str "/"; show_N (a_id a); str ":"; show_N (a_len a); str ":";
                                          show_hex_bytes (a_data a); str ":"; val_dump (a_val a)])
                           (sort_by (fun a b => a_id a <=? a_id b) m));
       str "]"].

Definition adds_render_ok (m : list addition) : bool :=
  forallb (fun a => match aval_render (a_val a) with Panic => false | _ => true end) m.

Definition dump0200 (t : t0200) : text :=
  match t0200_render t with
  | Ok rt => if adds_render_ok (t_adds t)
             then cat [str "ok "; loc_dump (t_loc t); str " "; adds_dump (t_adds t); str " rt="; show_hex_bytes rt]
             else str "panic"
  | _ => str "panic"
  end.

Definition dump0704 (t : t0704) : text :=
  match t0704_render (b_items t) with
  | Ok rts =>
    if forallb (fun i => adds_render_ok (i_adds i)) (b_items t)
    then cat [str "ok num="; show_N (b_num t); str " type="; show_N (b_type t); str " items=[";
              join (str " | ") (map (fun i => cat [str "len="; show_N (i_len i); str " "; loc_dump (i_loc i); str " ";
                                                   adds_dump (i_adds i)]) (b_items t));
              str "] rt="; join (str ",") (map show_hex_bytes rts)]
    else str "panic"
  | _ => str "panic"
  end.

Definition dump0801 (t : t0801) : text :=
  match t0801_render t with
  | Ok (head, rt) =>
    cat [str "ok id="; show_N (m_id t); str " type="; show_N (m_type t); str " fmt="; show_N (m_fmt t);
         str " event="; show_N (m_event t); str " chan="; show_N (m_chan t); str " "; loc_dump (m_loc t);
         str " pkg="; show_hex_bytes (m_pkg t); str " r26="; show_hex_bytes head; str " rt="; show_hex_bytes rt]
  | _ => str "panic"
  end.

(* p0200 <body> [<tail>], p0704 <body>, p0801 <body> : a fresh receiver *)
Definition show_p0200 (body : list N) : text := show_result dump0200 (t0200_parse fresh_0200 body).
Definition show_p0704 (body : list N) : text := show_result dump0704 (t0704_parse fresh_0704 body).
Definition show_p0801 (body : list N) : text := show_result dump0801 (t0801_parse fresh_0801 body).

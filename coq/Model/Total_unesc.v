(* C03, locality of the jt808 frame decoder, first half: protocol/jt808/packet_codec.go unescape
   written against the checked primitives (Model/Frame.v has it as a structural recursion over the
   interior bytes, which says nothing about which indices the code touches), and once more for a
   slice with spare capacity.  DEFINITIONS ONLY.

     if !(len(data) > 2 && data[0] == 0x7e && data[len(data)-1] == 0x7e) { return ErrUnqualifiedData }
     if !bytes.ContainsRune(data, 0x7d) { return data[1 : len(data)-1] }        (fast path)
     index := 1
     for i := 1; i < len(data)-1; i++ {
         if data[i] == 0x7d {
             i++
             switch data[i] {
             case 0x01: buf.Write(data[index : i-1]); buf.WriteByte(0x7d)
             case 0x02: buf.Write(data[index : i-1]); buf.WriteByte(0x7e)
             default:   if i == len(data)-1 { buf.Write(data[index : len(data)-1]); return buf }
                        return ErrUnqualifiedData
             }
             index = i + 1
         }
     }
     if index != len(data)-1 { buf.Write(data[index : len(data)-1]) }
     return buf

   unesc_loop is the loop from a given (i, index, buf); fuel = length of the data (i grows by at
   least one per round; Err 99 is unreachable: Total_unesc_proofs.unescape_chk_eq). *)
From JT.Base Require Import Prelude.
From JT.Model Require Import Frame Total_cap.

Fixpoint unesc_loop (fuel : nat) (d : list N) (i index : N) (buf : list N) : result (list N) :=
  let n := len d in
  if negb (i <? n - 1) then
    (if negb (index =? n - 1) then s <- slice d index (n - 1) ;; Ok (buf ++ s) else Ok buf)
  else
    match fuel with
    | O => Err 99
    | S f =>
      v <- idx d i ;;
      if v =? 125 then
        c <- idx d (i + 1) ;;
        if c =? 1 then s <- slice d index (i + 1 - 1) ;; unesc_loop f d (i + 1 + 1) (i + 1 + 1) (buf ++ s ++ [125])
        else if c =? 2 then s <- slice d index (i + 1 - 1) ;; unesc_loop f d (i + 1 + 1) (i + 1 + 1) (buf ++ s ++ [126])
        else if i + 1 =? n - 1 then s <- slice d index (n - 1) ;; Ok (buf ++ s)
        else Err E_UNQUALIFIED
      else unesc_loop f d (i + 1) index buf
    end.

Definition unescape_chk (d : list N) : result (list N) :=
  if negb (2 <? len d) then Err E_UNQUALIFIED else
  a <- idx d 0 ;;
  b <- idx d (len d - 1) ;;
  if negb ((a =? 126) && (b =? 126)) then Err E_UNQUALIFIED else
  if negb (existsb (N.eqb 125) d) then slice d 1 (len d - 1)
  else unesc_loop (List.length d) d 1 1 [].

(* the same with spare capacity behind the slice: only the slice expressions can reach it *)
Fixpoint unesc_loop_cap (fuel : nat) (d tail : list N) (i index : N) (buf : list N) : result (list N) :=
  let n := len d in
  if negb (i <? n - 1) then
    (if negb (index =? n - 1) then s <- slice_capT d tail index (n - 1) ;; Ok (buf ++ s) else Ok buf)
  else
    match fuel with
    | O => Err 99
    | S f =>
      v <- idx d i ;;
      if v =? 125 then
        c <- idx d (i + 1) ;;
        if c =? 1 then s <- slice_capT d tail index (i + 1 - 1) ;;
                       unesc_loop_cap f d tail (i + 1 + 1) (i + 1 + 1) (buf ++ s ++ [125])
        else if c =? 2 then s <- slice_capT d tail index (i + 1 - 1) ;;
                            unesc_loop_cap f d tail (i + 1 + 1) (i + 1 + 1) (buf ++ s ++ [126])
        else if i + 1 =? n - 1 then s <- slice_capT d tail index (n - 1) ;; Ok (buf ++ s)
        else Err E_UNQUALIFIED
      else unesc_loop_cap f d tail (i + 1) index buf
    end.

Definition unescape_cap (d tail : list N) : result (list N) :=
  if negb (2 <? len d) then Err E_UNQUALIFIED else
  a <- idx d 0 ;;
  b <- idx d (len d - 1) ;;
  if negb ((a =? 126) && (b =? 126)) then Err E_UNQUALIFIED else
  if negb (existsb (N.eqb 125) d) then slice_capT d tail 1 (len d - 1)
  else unesc_loop_cap (List.length d) d tail 1 1 [].

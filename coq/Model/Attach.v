(* Model of the attachment server's per-connection state machine:
     attachment/connection.go          run (read loop, reply, OnEvent, final event)
     attachment/package.go             iter, stageStreamData, parseJT808Message, stageJT808Data, hasJT808Reply
     attachment/stream_data_handle.go  base (62-byte header) and HLJ (length-prefixed name) chunk headers
     attachment/jt808_data_handle.go   Parse, ReplyData, OnPackageProgressEvent (standard handler)
     protocol/model/t_0x1210.go        Parse (item list), t_0x1211.go / t_0x1212.go via Model/Ranges.v
   with the repaired behaviour of the fixes 1c3fea8 (marker must be a prefix), bb8e393 (a resent chunk
   is counted once), 94d2aea (StreamBody rebuilt), 79eb06f (0x1212 sets CurrentPackage), 9c2449c /
   47ab01f (0x1210 item loop guard, list reset).  Definitions only; proofs in Proofs/Attach_proofs.v.

   One step of [iter] is split into [lex] (what the code decides from the buffered bytes alone:
   HasStreamData, HasMinHeadLen, Parse of the chunk header, the length test; len < 10, IndexFunc for the
   closing delimiter) and the state update that follows in the same function. *)
From JT.Base Require Import Prelude.
From JT.Model Require Import Frame Ranges.

(* ---------------- constants ---------------- *)
Definition MARKER : list N := [48; 49; 99; 100].          (* 30 31 63 64 *)
Definition SIGN : N := 126.                               (* 0x7e *)
Definition ST_INIT : N := 1.                              (* ProgressStage... *)
Definition ST_START : N := 2.
Definition ST_STREAM : N := 3.
Definition ST_SUPPL : N := 4.
Definition ST_STREAM_COMPLETE : N := 5.
Definition ST_COMPLETE : N := 6.
Definition ST_SUCCESS_QUIT : N := 7.
Definition ST_FAIL_QUIT : N := 8.
Definition ID_1210 : N := 4624.
Definition ID_1211 : N := 4625.
Definition ID_1212 : N := 4626.
Definition ID_8001 : N := 32769.
Definition ID_9212 : N := 37394.
Definition D_HLJ : N := 2.                                (* consts.ActiveSafetyHLJ *)

(* P9208AlarmSign.getTerminalIDLen / getAlarmSignLen; in T0x1210.Parse HLJ has no terminal id *)
Definition id_len_1210 (d : N) : N :=
  if d =? 2 then 0 else if (d =? 3) || (d =? 5) then 30 else 7.
Definition sign_len (d : N) : N :=
  if d =? 2 then 38 else if d =? 3 then 40 else if d =? 4 then 32 else if d =? 5 then 39 else 16.

(* ---------------- small helpers ---------------- *)
Fixpoint has_prefix (p l : list N) : bool :=
  match p, l with
  | [], _ => true
  | x :: p', y :: l' => (x =? y) && has_prefix p' l'
  | _ :: _, [] => false
  end.

(* bytes.IndexFunc(l, r == b) for a one-byte ASCII b = index of the first byte equal to b *)
Fixpoint index_of (b : N) (l : list N) : option N :=
  match l with
  | [] => None
  | x :: t => if x =? b then Some 0 else match index_of b t with Some i => Some (i + 1) | None => None end
  end.

(* bytes.Trim(s, "\x00") *)
Fixpoint trim0_left (l : list N) : list N :=
  match l with
  | [] => []
  | c :: t => if c =? 0 then trim0_left t else l
  end.
Definition trim0 (l : list N) : list N := rev (trim0_left (rev (trim0_left l))).

(* Go maps as association lists with "set" semantics (first occurrence is the binding) *)
Section Assoc.
  Context {K V : Type} (eqb : K -> K -> bool).
  Fixpoint afind (k : K) (m : list (K * V)) : option V :=
    match m with
    | [] => None
    | (k', v) :: t => if eqb k k' then Some v else afind k t
    end.
  Fixpoint aset (k : K) (v : V) (m : list (K * V)) : list (K * V) :=
    match m with
    | [] => [(k, v)]
    | (k', v') :: t => if eqb k k' then (k, v) :: t else (k', v') :: aset k v t
    end.
End Assoc.

(* sort.Ints(keys) over the keys of a map (pairwise different): insertion sort by key *)
Fixpoint kinsert {A} (r : N * A) (l : list (N * A)) : list (N * A) :=
  match l with
  | [] => [r]
  | x :: t => if fst r <=? fst x then r :: l else x :: kinsert r t
  end.
Definition ksort {A} (l : list (N * A)) : list (N * A) := fold_right kinsert [] l.

(* ---------------- state ---------------- *)
(* Package.  OffsetRecord and OffsetDataRecord are written together under the same key with
   dataLen = len(data) (both come from the header's DataLen), so one map offset -> data models both. *)
Record pkg := {
  p_size : N;                       (* FileSize *)
  p_cur : N;                        (* CurrentSize (uint32) *)
  p_offset : N;                     (* Offset of the most recent chunk *)
  p_data : list (N * list N);       (* OffsetDataRecord; OffsetRecord = lengths of it *)
  p_head : list N;                  (* StreamHead *)
  p_body : list N                   (* StreamBody *)
}.
Definition new_pkg (size : N) : pkg :=
  {| p_size := size; p_cur := 0; p_offset := 0; p_data := []; p_head := []; p_body := [] |}.
Definition p_recs (p : pkg) : list seg := map (fun r => (fst r, len (snd r))) (p_data p).

Definition name := list N.

Record st := {
  s_stage : N;                              (* ProgressStage *)
  s_record : list (name * pkg);             (* Record *)
  s_cur : option name;                      (* ExtensionFields.CurrentPackage (its FileName) *)
  s_hist : list N;                          (* historyData *)
  s_recent : option msg;                    (* RecentTerminalMessage *)
  s_reply : list N;                         (* RecentPlatformData *)
  s_err : bool;                             (* ExtensionFields.Err != nil *)
  (* the data handler (standardJT808DataHandle) *)
  h_head : option msg;                      (* d.head: header of the first message ever parsed *)
  h_seq : N;                                (* d.seq (uint16) *)
  h_cmd : N;                                (* d.Command *)
  h_msg : option msg;                       (* d.jtMsg *)
  h_name1212 : name;                        (* T0x1212.FileName *)
  h_miss : list seg                         (* T0x1212.P0x9212RetransmitPacketList (kept between messages) *)
}.

Definition init_st : st :=
  {| s_stage := ST_INIT; s_record := []; s_cur := None; s_hist := []; s_recent := None; s_reply := [];
     s_err := false; h_head := None; h_seq := 0; h_cmd := 0; h_msg := None; h_name1212 := [];
     h_miss := [] |}.

Definition set_hist (s : st) (h : list N) : st :=
  {| s_stage := s_stage s; s_record := s_record s; s_cur := s_cur s; s_hist := h; s_recent := s_recent s;
     s_reply := s_reply s; s_err := s_err s; h_head := h_head s; h_seq := h_seq s; h_cmd := h_cmd s;
     h_msg := h_msg s; h_name1212 := h_name1212 s; h_miss := h_miss s |}.
Definition set_stage (s : st) (g : N) : st :=
  {| s_stage := g; s_record := s_record s; s_cur := s_cur s; s_hist := s_hist s; s_recent := s_recent s;
     s_reply := s_reply s; s_err := s_err s; h_head := h_head s; h_seq := h_seq s; h_cmd := h_cmd s;
     h_msg := h_msg s; h_name1212 := h_name1212 s; h_miss := h_miss s |}.
Definition set_err (s : st) : st :=
  {| s_stage := s_stage s; s_record := s_record s; s_cur := s_cur s; s_hist := s_hist s; s_recent := s_recent s;
     s_reply := s_reply s; s_err := true; h_head := h_head s; h_seq := h_seq s; h_cmd := h_cmd s;
     h_msg := h_msg s; h_name1212 := h_name1212 s; h_miss := h_miss s |}.

(* ---------------- lexing the buffered bytes ---------------- *)
Inductive lexed :=
| L_more                                                 (* ErrInsufficientDataLen *)
| L_chunk (hl : N) (nm : name) (off dlen : N)            (* a whole chunk: header length, fields *)
| L_frame (index : N).                                   (* historyData[:index] is delimiter..delimiter *)

(* HasMinHeadLen *)
Definition has_min_head (d : N) (b : list N) : bool :=
  if d =? D_HLJ then
    if len b <? 5 then false else 4 + 1 + at_ b 4 + 4 + 4 <=? len b
  else 62 <=? len b.

(* Parse of the chunk header: (headLen, name, offset, length); only called when has_min_head holds *)
Definition parse_head (d : N) (b : list N) : N * name * N * N :=
  if d =? D_HLJ then
    let nl := at_ b 4 in
    (4 + 1 + nl + 4 + 4, trim0 (sub b 5 (5 + nl)), be_dec (sub b (5 + nl) (9 + nl)), be_dec (sub b (9 + nl) (13 + nl)))
  else (62, trim0 (sub b 4 54), be_dec (sub b 54 58), be_dec (sub b 58 62)).

Definition lex (d : N) (b : list N) : lexed :=
  if has_prefix MARKER b then                              (* HasStreamData (prefix) *)
    if negb (has_min_head d b) then L_more else
    let '(hl, nm, off, dlen) := parse_head d b in
    if hl + dlen <=? len b then L_chunk hl nm off dlen else L_more
  else if len b <? 10 then L_more                          (* parseJT808Message *)
  else match index_of SIGN (tl b) with
       | None => L_more
       | Some i => L_frame (i + 2)
       end.

(* ---------------- T0x1210.Parse: the item list ---------------- *)
Fixpoint parse_items (body : list N) (start : N) (count : nat) : result (list (name * N)) :=
  match count with
  | O => Ok []
  | S k =>
    if len body <? start + 1 then Err E_BODY_LEN else
    fnl <- idx body start ;;
    if len body <? start + 1 + fnl + 4 then Err E_BODY_LEN else
    nm <- slice body (start + 1) (start + 1 + fnl) ;;
    sz <- be32_from body (start + 1 + fnl) ;;
    rest <- parse_items body (start + 1 + fnl + 4) k ;;
    Ok ((nm, sz) :: rest)
  end.

Definition parse1210 (d : N) (body : list N) : result (list (name * N)) :=
  let pre := id_len_1210 d + sign_len d + 32 in
  if len body <? pre + 1 + 1 then Err E_BODY_LEN else
  cnt <- idx body (pre + 1) ;;
  let cursor := pre + 2 in
  if len body <? cursor + cnt * 5 then Err E_BODY_LEN else      (* 1 + 4 per item (fix 6ec5093) *)
  parse_items body cursor (N.to_nat cnt).

(* ---------------- the two stage functions ---------------- *)
Definition name_eqb : name -> name -> bool := list_eqb.

Inductive outcome :=
| O_ok (s : st)            (* yield(nil) *)
| O_more                   (* yield(ErrInsufficientDataLen): the consumer breaks, waits for the next read *)
| O_fatal (s : st).        (* any other error: the consumer records it and returns *)

(* stageStreamData after the lexical tests succeeded: the update of the file's Package.
   dlen is the header's DataLen (= len data whenever the chunk is whole), head = historyData[:headLen] *)
Definition pkg_add (pk : pkg) (off dlen : N) (data head : list N) : pkg :=
  let old := match afind N.eqb off (p_data pk) with Some dt => u32 (len dt) | None => 0 end in
  let had := match afind N.eqb off (p_data pk) with Some _ => true | None => false end in
  let cur0 := if had then u32 (p_cur pk + 4294967296 - old) else p_cur pk in     (* a resent offset counts once *)
  let data' := aset N.eqb off data (p_data pk) in
  let cur' := u32 (cur0 + u32 dlen) in
  let complete := cur' =? p_size pk in
  {| p_size := p_size pk; p_cur := cur'; p_offset := off; p_data := data';
     p_head := if complete then head else p_head pk;
     p_body := if complete then flat_map snd (ksort data') else p_body pk |}.

Definition after_chunk (s : st) (nm : name) (pk' : pkg) (rest : list N) : st :=
  {| s_stage := if p_cur pk' =? p_size pk' then ST_STREAM_COMPLETE else ST_STREAM;
     s_record := aset name_eqb nm pk' (s_record s);
     s_cur := Some nm;
     s_hist := rest;
     s_recent := s_recent s; s_reply := s_reply s; s_err := s_err s;
     h_head := h_head s; h_seq := h_seq s; h_cmd := h_cmd s; h_msg := h_msg s;
     h_name1212 := h_name1212 s; h_miss := h_miss s |}.

Definition do_chunk (s : st) (hl : N) (nm : name) (off dlen : N) : outcome :=
  let h := s_hist s in
  match afind name_eqb nm (s_record s) with
  | None => O_fatal (set_stage s ST_STREAM)                 (* ErrDataInconsistency *)
  | Some pk =>
    O_ok (after_chunk s nm (pkg_add pk off dlen (sub h hl (hl + dlen)) (firstn (N.to_nat hl) h))
                      (skipn (N.to_nat (hl + dlen)) h))
  end.

(* standardJT808DataHandle.OnPackageProgressEvent for 0x1210: one fresh Package per item, in list order *)
Definition announce (rec : list (name * pkg)) (items : list (name * N)) : list (name * pkg) :=
  fold_left (fun r it => aset name_eqb (fst it) (new_pkg (snd it)) r) items rec.

Definition has_reply (stage : N) : bool :=
  (stage =? ST_INIT) || (stage =? ST_START) || (stage =? ST_COMPLETE) || (stage =? ST_SUPPL).

(* BaseJT808DataHandler.ReplyData for the message held by the handler *)
Definition reply_data (s : st) : result (list N) :=
  match h_head s, h_msg s with
  | Some hd, Some m =>
    let gen := be_enc 2 (m_serial m) ++ be_enc 2 (m_id m) ++ [0] in          (* P0x8001.Encode *)
    if h_cmd s =? ID_1210 then Ok (encode hd ID_8001 (h_seq s) gen)
    else if h_cmd s =? ID_1211 then Ok (encode hd ID_8001 (h_seq s) gen)
    else if h_cmd s =? ID_1212 then
      match parse1211 (m_body m) with                                         (* T0x1212.ReplyBody *)
      | Ok t => Ok (encode hd ID_9212 (h_seq s) (reply1212 t (h_miss s)))
      | _ => Panic
      end
    else Err 9
  | _, _ => Panic
  end.

(* handle.Parse: the handler remembers the first header ever seen, the command and the message *)
Definition with_msg (s : st) (m : msg) : st :=
  {| s_stage := s_stage s; s_record := s_record s; s_cur := s_cur s; s_hist := s_hist s;
     s_recent := s_recent s; s_reply := s_reply s; s_err := s_err s;
     h_head := match h_head s with Some x => Some x | None => Some m end;
     h_seq := h_seq s; h_cmd := m_id m; h_msg := Some m;
     h_name1212 := h_name1212 s; h_miss := h_miss s |}.

(* what Parse + OnPackageProgressEvent decide for a decoded message: an error, or the new stage, Record,
   CurrentPackage, T0x1212.FileName and retransmit list *)
Inductive fdec :=
| F_fatal
| F_go (stage : N) (rec : list (name * pkg)) (cur : option name) (n1212 : name) (miss : list seg).

Definition frame_decide (d : N) (s : st) (m : msg) : fdec :=
  if m_id m =? ID_1210 then
    match parse1210 d (m_body m) with
    | Ok items => F_go ST_INIT (announce (s_record s) items) (s_cur s) (h_name1212 s) (h_miss s)
    | _ => F_fatal
    end
  else if m_id m =? ID_1211 then
    match parse1211 (m_body m) with
    | Ok _ => F_go ST_START (s_record s) (s_cur s) (h_name1212 s) (h_miss s)
    | _ => F_fatal
    end
  else if m_id m =? ID_1212 then
    match parse1211 (m_body m) with
    | Ok t =>
      match afind name_eqb (f_name t) (s_record s) with
      | Some pk =>
        let miss := miss_segments (p_size pk) (p_cur pk) (p_recs pk) in
        F_go (match miss with [] => ST_COMPLETE | _ => ST_SUPPL end) (s_record s) (Some (f_name t)) (f_name t) miss
      | None => F_go ST_COMPLETE (s_record s) (s_cur s) (f_name t) (h_miss s)
      end
    | _ => F_fatal
    end
  else F_fatal.                                             (* ErrUnknownCommand *)

(* RecentTerminalMessage, OnPackageProgressEvent *)
Definition commit (s : st) (m : msg) (stage : N) (rec : list (name * pkg)) (cur : option name)
    (n1212 : name) (miss : list seg) : st :=
  {| s_stage := stage; s_record := rec; s_cur := cur; s_hist := s_hist s;
     s_recent := Some m; s_reply := s_reply s; s_err := s_err s;
     h_head := h_head s; h_seq := h_seq s; h_cmd := h_cmd s; h_msg := h_msg s;
     h_name1212 := n1212; h_miss := miss |}.

(* connection.run after yield(nil) in a stage with a reply: ReplyData, seq++, RecentPlatformData, Err *)
Definition replied (s : st) (data : list N) : st :=
  {| s_stage := s_stage s; s_record := s_record s; s_cur := s_cur s; s_hist := s_hist s;
     s_recent := s_recent s; s_reply := data; s_err := false;
     h_head := h_head s; h_seq := (h_seq s + 1) mod 65536; h_cmd := h_cmd s; h_msg := h_msg s;
     h_name1212 := h_name1212 s; h_miss := h_miss s |}.

(* stageJT808Data after Decode (+ the reply part of connection.run); s already holds the remaining history *)
Definition frame_core (d : N) (s : st) (m : msg) : outcome :=
  let s2 := with_msg s m in
  match frame_decide d s2 m with
  | F_fatal => O_fatal s2
  | F_go stage rec cur n1212 miss =>
    let s3 := commit s2 m stage rec cur n1212 miss in
    if has_reply stage then
      match reply_data s3 with
      | Ok data => O_ok (replied s3 data)
      | _ => O_fatal s3
      end
    else O_ok s3
  end.

Definition do_frame (d : N) (s : st) (index : N) : outcome :=
  let h := s_hist s in
  match decode (firstn (N.to_nat index) h) with
  | Ok m => frame_core d (set_hist s (skipn (N.to_nat index) h)) m
  | _ => O_fatal s                                           (* Decode error: nothing consumed *)
  end.

Definition step (d : N) (s : st) : outcome :=
  match lex d (s_hist s) with
  | L_more => O_more
  | L_chunk hl nm off dlen => do_chunk s hl nm off dlen
  | L_frame index => do_frame d s index
  end.

(* ---------------- events (FileEventer.OnEvent snapshots) ---------------- *)
Record event := {
  e_stage : N; e_cur : option name; e_hist : N; e_err : bool; e_reply : list N;
  e_files : list (name * pkg) }.

Definition snapshot (s : st) : event :=
  {| e_stage := s_stage s; e_cur := s_cur s; e_hist := len (s_hist s); e_err := s_err s;
     e_reply := if has_reply (s_stage s) then s_reply s else [];
     e_files := s_record s |}.

(* iter + the consumer loop of run for one read: events, bytes written, final state, stopped? *)
Fixpoint iter (fuel : nat) (d : N) (s : st) : list event * list N * st * bool :=
  match s_hist s with
  | [] => ([], [], s, false)
  | _ =>
    match fuel with
    | O => ([], [], s, true)                                 (* never reached from feed: Attach_proofs.iter_fuel *)
    | S f =>
      match step d s with
      | O_more => ([], [], s, false)
      | O_fatal s' => ([], [], set_err s', true)
      | O_ok s' =>
        let '(evs, w, s'', stop) := iter f d s' in
        (snapshot s' :: evs, (if has_reply (s_stage s') then s_reply s' else []) ++ w, s'', stop)
      end
    end
  end.

(* one Read of n > 0 bytes *)
Definition feed (d : N) (s : st) (seg : list N) : list event * list N * st * bool :=
  let s1 := set_hist s (s_hist s ++ seg) in
  iter (S (length (s_hist s1))) d s1.

(* the connection: reads until the peer closes (or a fatal error), then the final event *)
Fixpoint run_from (d : N) (s : st) (segs : list (list N)) : list event * list N * st :=
  match segs with
  | [] => ([snapshot (set_stage s (if s_err s then ST_FAIL_QUIT else ST_SUCCESS_QUIT))], [],
           set_stage s (if s_err s then ST_FAIL_QUIT else ST_SUCCESS_QUIT))
  | seg :: rest =>
    match seg with
    | [] => run_from d s rest                                (* n = 0: nothing happens *)
    | _ =>
      let '(evs, w, s', stop) := feed d s seg in
      if stop then
        (evs ++ [snapshot (set_stage s' ST_FAIL_QUIT)], w, set_stage s' ST_FAIL_QUIT)
      else
        let '(evs2, w2, s'') := run_from d s' rest in (evs ++ evs2, w ++ w2, s'')
    end
  end.

Definition run (d : N) (segs : list (list N)) : list event * list N * st := run_from d init_st segs.

(* ======================= specification side (C15) ======================= *)
From JT.Model Require Import Unpack.

(* What a terminal puts on the wire: control frames and chunks. *)
Inductive item :=
| I_chunk (nm : name) (off : N) (data : list N)
| I_frame (f : list N).

(* chunk header as the standards prescribe it: marker, file name (50 bytes NUL padded; HLJ: length
   byte + name), data offset DWORD, data length DWORD *)
Definition chunk_head (d : N) (nm : name) (off dlen : N) : list N :=
  if d =? D_HLJ then MARKER ++ [len nm] ++ nm ++ be_enc 4 off ++ be_enc 4 dlen
  else MARKER ++ (nm ++ repeat 0 (50 - length nm)) ++ be_enc 4 off ++ be_enc 4 dlen.

Definition wire (d : N) (it : item) : list N :=
  match it with
  | I_chunk nm off data => chunk_head d nm off (len data) ++ data
  | I_frame f => f
  end.

(* a name the chunk header can carry: no NUL at either end (the header is NUL padded and trimmed),
   at most 50 bytes (HLJ: 255) *)
Definition name_ok (d : N) (nm : name) : Prop :=
  trim0 nm = nm /\ (if d =? D_HLJ then len nm < 256 else len nm <= 50).

Definition wf_item (d : N) (it : item) : Prop :=
  match it with
  | I_chunk nm off data => name_ok d nm /\ off < 4294967296 /\ len data < 4294967296
  | I_frame f => vframe f                 (* 7e, non-empty interior without 7e, 7e; accepted by Decode *)
  end.

Definition wf_itemb (d : N) (it : item) : bool :=
  match it with
  | I_chunk nm off data =>
    list_eqb (trim0 nm) nm && (if d =? D_HLJ then len nm <? 256 else len nm <=? 50) &&
    (off <? 4294967296) && (len data <? 4294967296)
  | I_frame f => vframeb f
  end.

(* the connection seen item by item (no buffering): the states after each item, None as soon as an
   item is not accepted *)
Fixpoint irun (d : N) (s : st) (its : list item) : option (list st) :=
  match its with
  | [] => Some []
  | it :: t =>
    match step d (set_hist s (wire d it)) with
    | O_ok s' => match irun d s' t with Some l => Some (s' :: l) | None => None end
    | _ => None
    end
  end.

(* what a state contributes to the socket: the reply of a stage that has one *)
Definition wr (s : st) : list N := if has_reply (s_stage s) then s_reply s else [].

(* an event without the count of bytes still buffered (the only observable that depends on reads) *)
Definition strip (e : event) : event :=
  {| e_stage := e_stage e; e_cur := e_cur e; e_hist := 0; e_err := e_err e; e_reply := e_reply e;
     e_files := e_files e |}.

Definition quit (s : st) : st := set_stage s (if s_err s then ST_FAIL_QUIT else ST_SUCCESS_QUIT).

(* ---- files, splits, arrivals ---- *)
(* the chunks (offset, data) of a file cut into the consecutive pieces ps, first piece at offset off *)
Fixpoint pieces (off : N) (ps : list (list N)) : list (N * list N) :=
  match ps with
  | [] => []
  | p :: t => (off, p) :: pieces (off + len p) t
  end.

(* split nm = the pieces file nm is sent in (every terminal-side choice of chunk sizes); the file's
   content is their concatenation *)
Definition content (split : name -> list (list N)) (nm : name) : list N := concat (split nm).
Definition tiles (split : name -> list (list N)) (nm : name) : list (N * list N) := pieces 0 (split nm).

Definition split_ok (split : name -> list (list N)) : Prop :=
  forall nm, Forall (fun p => p <> []) (split nm) /\ len (content split nm) < 4294967296.

(* the items a 0x1210 frame announces *)
Definition announced (d : N) (f : list N) : list (name * N) :=
  match decode f with
  | Ok m => if m_id m =? ID_1210 then match parse1210 d (m_body m) with Ok l => l | _ => [] end else []
  | _ => []
  end.

(* an upload of the files described by split: every chunk is one of the tiles of its file, every
   announcement states the file's true size *)
Definition item_of (d : N) (split : name -> list (list N)) (it : item) : Prop :=
  match it with
  | I_chunk nm off data => In (off, data) (tiles split nm)
  | I_frame f => Forall (fun a => snd a = len (content split (fst a))) (announced d f)
  end.

(* the chunks of file nm that arrived since nm was last announced, newest first *)
Fixpoint arrived (d : N) (nm : name) (acc : list (N * list N)) (its : list item) : list (N * list N) :=
  match its with
  | [] => acc
  | I_chunk nm' off data :: t => arrived d nm (if name_eqb nm' nm then (off, data) :: acc else acc) t
  | I_frame f :: t =>
    arrived d nm (if existsb (fun a => name_eqb (fst a) nm) (announced d f) then [] else acc) t
  end.

(* the prescribed answer to control message m, the k-th answer on this connection; hd = the first
   message's header: 0x8001 (serial, id, result 0) for 0x1210 / 0x1211; 0x9212 for 0x1212 *)
Definition prescribed (hd m : msg) (k : N) (miss : list seg) : list N :=
  if m_id m =? ID_1212 then
    match parse1211 (m_body m) with
    | Ok t => encode hd ID_9212 k (reply1212 t miss)
    | _ => []
    end
  else encode hd ID_8001 k (be_enc 2 (m_serial m) ++ be_enc 2 (m_id m) ++ [0]).

(* one prescribed answer per control frame, in order, none for a chunk; sts = the states after each
   item; a 0x1212 is answered with the retransmit list computed at that moment (C16: exactly the
   missing ranges) *)
Fixpoint replies_spec (hd : msg) (k : N) (its : list item) (sts : list st) : list (list N) :=
  match its, sts with
  | I_chunk _ _ _ :: t, _ :: ts => replies_spec hd k t ts
  | I_frame f :: t, s' :: ts =>
    match decode f with
    | Ok m => prescribed hd m (k mod 65536) (h_miss s') :: replies_spec hd (k + 1) t ts
    | _ => []
    end
  | _, _ => []
  end.

Definition first_header (its : list item) : msg :=
  match flat_map (fun it => match it with I_frame f => match decode f with Ok m => [m] | _ => [] end
                                     | _ => [] end) its with
  | m :: _ => m
  | [] => empty_msg
  end.

(* a syntactic (decidable) description of an upload the server accepts: control frames 0x1210 / 0x1211 /
   0x1212 whose bodies parse, and chunks only of files announced before them *)
Definition ctrl_okb (d : N) (f : list N) : bool :=
  match decode f with
  | Ok m =>
    if m_id m =? ID_1210 then is_ok (parse1210 d (m_body m))
    else if (m_id m =? ID_1211) || (m_id m =? ID_1212) then is_ok (parse1211 (m_body m))
    else false
  | _ => false
  end.

(* the file a 0x1212 frame reports as finished *)
Definition named_1212 (d : N) (f : list N) : list name :=
  match decode f with
  | Ok m => if m_id m =? ID_1212 then match parse1211 (m_body m) with Ok t => [f_name t] | _ => [] end else []
  | _ => []
  end.

(* chunks and completion reports (0x1212) only of files announced before them (a 0x1212 naming a file the
   connection never announced is answered with whatever retransmit list the handler holds from an earlier
   0x1212: the code's behaviour, modelled, outside what an upload is) *)
Fixpoint upload_ok (d : N) (known : list name) (its : list item) : bool :=
  match its with
  | [] => true
  | I_chunk nm _ _ :: t => existsb (name_eqb nm) known && upload_ok d known t
  | I_frame f :: t =>
    ctrl_okb d f && forallb (fun nm => existsb (name_eqb nm) known) (named_1212 d f) &&
    upload_ok d (map fst (announced d f) ++ known) t
  end.

(* ---------------- the default file handler at the end of the connection (file_event.go) -------- *)
From JT.Model Require Import Paths.
(* fileEvent.OnEvent in stage SuccessQuit: nothing without a terminal message (fix 712482c); otherwise
   MkdirAll(phone) and one os.WriteFile per record whose name passes the filter:
   (directory, list of (path, content)) *)
Definition on_quit_saves (s : st) : option (list N * list (list N * list N)) :=
  if s_stage s =? ST_SUCCESS_QUIT then
    match s_recent s with
    | Some m =>
      Some (phone_of m,
            map (fun r => (save_path (phone_of m) (fst r), p_body (snd r)))
                (filter (fun r => accepted (fst r)) (s_record s)))
    | None => None
    end
  else None.


(* C07 — message bodies with text converted by the external GBK codec.  DEFINITIONS ONLY.

   golang.org/x/text is outside the model: the codec is a pair of functions u2g (utils.UTF82GBK) and g2u
   (utils.GBK2UTF8) over byte strings and a domain predicate gdom ("GBK-encodable text"); the theorems of
   Proofs/Msg_text_proofs.v carry the hypothesis [codec_ok u2g g2u gdom : gdom s = true -> g2u (u2g s) = s],
   which the harness validates against the real library (every two-byte GBK code point, ASCII, random
   concatenations).  The oracle instantiates the pair with what the real codec did on the text of each case. *)
From JT.Base Require Import Prelude Fmt.
From JT.Model Require Import Msg_simple.

Section Gbk.
Variables (u2g g2u : list N -> list N) (gdom : list N -> bool).

(* the remaining bytes are GBK text *)
Definition tl_gbk : tail := tl_conv u2g g2u gdom.

(* T0x0100: province WORD, city WORD, manufacturer / model / terminal id NUL-padded (TrimRight), plate colour,
   plate = the rest as GBK; Version is a field of the Go struct that is not on the wire *)
Definition m_0100_layout (mlen tlen idlen ver : N) : msg :=
  mk_msg [F vu16; F vu16; F (vpad mlen); F (vpad tlen); F (vpad idlen); F vu8] (F (tl_consts 1 tl_gbk [VN ver])).

Definition plate_of (v : val) : list N :=
  match v with VL vs => match nth 6 vs (VN 0) with VB s => s | _ => [] end | _ => [] end.
Definition version_of (v : val) : N :=
  match v with VL vs => match nth 7 vs (VB []) with VN a => a | _ => 0 end | _ => 0 end.

(* header version 3: the 2019 layout (11/30/30).  header version 1 or 2: `len(body) > 36` means the 2013 layout
   (5/20/7), anything shorter the 2011 layout (5/8/7) - so a 2011 registration is only recognisable when its
   plate has at most 11 GBK bytes (by design of the protocol, a domain restriction, not a defect).  Encode
   chooses by the Version field.  Any other header version leaves Version as the receiver had it (0 when
   fresh) and reads the 2011 layout. *)
Definition m_0100_2011 : msg := msg_restrict (fun v => len (u2g (plate_of v)) <=? 11) (m_0100_layout 5 8 7 1).
Definition m_0100 (hver : N) : msg :=
  if hver =? 3 then m_0100_layout 11 30 30 3
  else if (hver =? 1) || (hver =? 2)
       then msg_switch (fun l => 36 <? len l) (fun v => version_of v =? 2) (m_0100_layout 5 20 7 2) m_0100_2011
       else m_0100_layout 5 8 7 0.

Definition msg_text (id ver d : N) : option msg :=
  if id =? 0x0100 then Some (m_0100 ver) else msg_simple id ver d.
End Gbk.

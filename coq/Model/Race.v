(* C18 — the goroutines of one connection, the session manager and the API callers as steps annotated
   with the abstract memory locations they read and write (service/connection.go,
   session_manager.go, message.go, packet_parse.go).  DEFINITIONS ONLY.

   Part 1 (generic): events, vector clocks, happens-before, [races].
     An execution is a list of events:
       EAcc t l w        goroutine t reads (w = false) / writes (w = true) location l
       ESend t k give    t performs the sending half of synchronisation k (a channel send, a close,
                         the `go` of a closure argument ...); [give] is a GHOST annotation (the
                         locations whose ownership travels with k) that [races] ignores
       ERecv t k         t performs the receiving half of k (receive of that value, receive that
                         returned because of that close)
       EFork t u give share   `go`: u starts knowing everything t knew; ghost: [give], [share]
     Vector clocks are advanced exactly by these: the sender's clock is stored with k and the sender
     ticks, the receiver joins the stored clock, a forked goroutine joins its parent's clock and the
     parent ticks.  Every access is stamped with its goroutine's own component (its epoch); an
     earlier access a happens-before the current point of t iff epoch(a) <= clock(t)[goroutine(a)].
     A RACE is a pair of accesses to one location by two goroutines, at least one a write, the
     earlier not happening-before the later.  [races tr] lists all of them.
     (Only the edges Go's memory model gives for sends/receives of a value, close and go are used;
      the extra edge "receive happens-before the completion of the send" of unbuffered channels is
      not: fewer edges, more races, so race freedom here is the stronger statement.)

   Part 2 (generic): the ownership monitor — an executable discipline that implies race freedom
     (Proofs/Race_proofs.v: [mon_sound]): every location is Fresh, owned by one goroutine, in
     transit with one synchronisation token, or Shared read-only among goroutines forked after the
     last write; only the owner accesses, ownership moves with ESend/ERecv/EFork.

   Part 3: the connection.  One connection (reader R, writer W, one timer goroutine per command), the
     manager goroutine M, any number of callers, the accepting goroutine Main.  Channels are
     over-approximated by bags (any queued element may be received next; capacities never block), with
     ONE consequence of FIFO kept because the code relies on it: the first command the manager routed
     to the connection is the first one the writer receives.  Every real execution is a schedule of
     this model; the model has more.  Unbuffered channels (join/leave acknowledgements, replyChan) are
     asynchronous tokens (again: more schedules).

     [variant] switches the three historical defects back on (clear(c.handles) in stop,
     platformSerialNumber logged by the reader, the session sharing the first message's header);
     [repaired] is the code as it is now.

   Code sites (function -> steps):
     service.go Run/newConnection/Start          Boot
     connection.go reader (read, parse, handles) RRead; join                RJoinSend/RJoinAck
                   reader msgChan <- msg, reissuePackChan <- msg (0x8003: the same hand-over of a *Message
                   to the writer, KMsg n)          RPush; stop()              RStop/RStop2
     session_manager.go join/leave/write closures MJoin / MLeave / MWrite
                   SendActiveMessage (write)      CCall / CRet
     connection.go write(): onActiveEvent         WAct; timer goroutine      TFire
                   activeMsgCompleteChan          WCpl; msgChan, reissuePackChan (subPackReplyEvent = the default-reply branch)  WMsg
                   stopChan / onStopEvent         WSeeStop/WStopOut/WStopDrain/WExit *)
From Coq Require Import List Arith Bool.
From JT.Base Require Import Sched.
Import ListNotations.

(* ================================================================ Part 1: events, clocks, races *)

Inductive tid := TMain | TMgr | TReader | TWriter | TCaller (i : nat) | TTimer (i : nat).

Inductive loc :=
| LConn       (* everything immutable after construction: the connection struct's conn, channels, stopOnce, joinFunc,
                 leaveFunc, filter, terminalEvent; the sessionManager's operationFuncChan and keyFunc *)
| LHandles    (* c.handles (the map) *)
| LSerial     (* c.platformSerialNumber *)
| LRecord     (* write()'s record map, and the Handler objects whose ReplyBody re-parses into themselves *)
| LKey        (* c.key *)
| LBuf        (* curData, packageParse: historyData, subcontractingRecord, timeoutRecord *)
| LRegistry   (* sessionManager.run's record map and the session structs *)
| LSessHdr    (* the session's own copy of the first message's header *)
| LMsg (n : nat)    (* the n-th terminal message: *Message, its JTMessage, header, body *)
| LAct (i : nat)    (* the ActiveMessage of call i *)
| LReply (i : nat)  (* replyMsg of onActiveEvent for call i (the timer's overtimeMsg) *)
| LFin (i : nat).   (* the message newly made to end call i: newErrMessage / onStopEvent *)

Inductive tok :=
| KJoin | KJoinAck | KLeave | KLeaveAck   (* operationFuncChan <- closure ; ch <- err / close(ch) *)
| KStop                                   (* close(c.stopChan) *)
| KMsg (n : nat)                          (* c.msgChan <- msg *)
| KWrite (i : nat)                        (* operationFuncChan <- write closure of call i *)
| KAct (i : nat)                          (* v.activeMsgChan <- activeMsg *)
| KCpl (i : nat)                          (* c.activeMsgCompleteChan <- overtimeMsg *)
| KReply (i : nat).                       (* replyChan <- msg *)

Definition tid_eqb (a b : tid) : bool :=
  match a, b with
  | TMain, TMain | TMgr, TMgr | TReader, TReader | TWriter, TWriter => true
  | TCaller i, TCaller j | TTimer i, TTimer j => Nat.eqb i j
  | _, _ => false
  end.

Definition loc_eqb (a b : loc) : bool :=
  match a, b with
  | LConn, LConn | LHandles, LHandles | LSerial, LSerial | LRecord, LRecord
  | LKey, LKey | LBuf, LBuf | LRegistry, LRegistry | LSessHdr, LSessHdr => true
  | LMsg i, LMsg j | LAct i, LAct j | LReply i, LReply j | LFin i, LFin j => Nat.eqb i j
  | _, _ => false
  end.

Definition tok_eqb (a b : tok) : bool :=
  match a, b with
  | KJoin, KJoin | KJoinAck, KJoinAck | KLeave, KLeave | KLeaveAck, KLeaveAck | KStop, KStop => true
  | KMsg i, KMsg j | KWrite i, KWrite j | KAct i, KAct j | KCpl i, KCpl j | KReply i, KReply j => Nat.eqb i j
  | _, _ => false
  end.

Inductive ev :=
| EAcc (t : tid) (l : loc) (w : bool)
| ESend (t : tid) (k : tok) (give : list loc)
| ERecv (t : tid) (k : tok)
| EFork (t u : tid) (give share : list loc).

Definition vc := tid -> nat.

Definition updt {A} (f : tid -> A) (t : tid) (a : A) : tid -> A := fun x => if tid_eqb x t then a else f x.
Definition updk {A} (f : tok -> A) (k : tok) (a : A) : tok -> A := fun x => if tok_eqb x k then a else f x.
Definition updl {A} (f : loc -> A) (l : loc) (a : A) : loc -> A := fun x => if loc_eqb x l then a else f x.

Definition vjoin (a b : vc) : vc := fun x => Nat.max (a x) (b x).
Definition tick (t : tid) (v : vc) : vc := updt v t (S (v t)).

Record access := { a_tid : tid; a_loc : loc; a_w : bool; a_ep : nat }.

Record vcs := {
  clk : tid -> vc;            (* the clock of every goroutine *)
  tkv : tok -> option vc;     (* the clock stored with every synchronisation already sent *)
  hist : list access;         (* every access so far, with its epoch *)
}.

(* every goroutine starts in its own epoch 1 and knows nothing of the others *)
Definition vc0 : vcs :=
  {| clk := fun t x => if tid_eqb x t then 1 else 0; tkv := fun _ => None; hist := [] |}.

Record race := { r_loc : loc; r_first : tid; r_second : tid }.

(* the earlier access [a] and an access (t, l, w) made now, t's clock being c *)
Definition conflict (c : vc) (t : tid) (l : loc) (w : bool) (a : access) : bool :=
  loc_eqb (a_loc a) l && negb (tid_eqb (a_tid a) t) && (w || a_w a) && negb (a_ep a <=? c (a_tid a)).

Definition vc_step (s : vcs) (e : ev) : vcs * list race :=
  match e with
  | EAcc t l w =>
      ({| clk := clk s; tkv := tkv s;
          hist := {| a_tid := t; a_loc := l; a_w := w; a_ep := clk s t t |} :: hist s |},
       map (fun a => {| r_loc := l; r_first := a_tid a; r_second := t |})
           (filter (conflict (clk s t) t l w) (hist s)))
  | ESend t k _ =>
      ({| clk := updt (clk s) t (tick t (clk s t)); tkv := updk (tkv s) k (Some (clk s t)); hist := hist s |}, [])
  | ERecv t k =>
      match tkv s k with
      | Some v => ({| clk := updt (clk s) t (vjoin (clk s t) v); tkv := tkv s; hist := hist s |}, [])
      | None => (s, [])         (* nothing was sent: no edge *)
      end
  | EFork t u _ _ =>
      ({| clk := updt (updt (clk s) u (vjoin (clk s u) (clk s t))) t (tick t (clk s t));
          tkv := tkv s; hist := hist s |}, [])
  end.

Fixpoint vc_run (s : vcs) (tr : list ev) : list race :=
  match tr with
  | [] => []
  | e :: t => let (s', r) := vc_step s e in r ++ vc_run s' t
  end.

Definition races (tr : list ev) : list race := vc_run vc0 tr.

(* ================================================================ Part 2: the ownership monitor *)

Inductive owner := OFresh | OThread (t : tid) | OToken (k : tok) | OShared (ts : list tid).

Record mon := { own : loc -> owner; sent : tok -> bool }.

Definition mon0 : mon := {| own := fun _ => OFresh; sent := fun _ => false |}.

Definition mem_loc (l : loc) (ls : list loc) : bool := existsb (loc_eqb l) ls.
Definition mem_tid (t : tid) (ts : list tid) : bool := existsb (tid_eqb t) ts.

Definition owned_by (m : mon) (t : tid) (l : loc) : bool :=
  match own m l with OThread t' => tid_eqb t' t | _ => false end.

Definition shareable (m : mon) (t : tid) (l : loc) : bool :=
  match own m l with OThread t' => tid_eqb t' t | OShared ts => mem_tid t ts | _ => false end.

Definition mon_step (m : mon) (e : ev) : option mon :=
  match e with
  | EAcc t l w =>
      match own m l with
      | OFresh => Some {| own := updl (own m) l (OThread t); sent := sent m |}
      | OThread t' => if tid_eqb t' t then Some m else None
      | OShared ts => if negb w && mem_tid t ts then Some m else None
      | OToken _ => None
      end
  | ESend t k give =>
      if sent m k then None
      else if forallb (owned_by m t) give
      then Some {| own := fun l => if mem_loc l give then OToken k else own m l; sent := updk (sent m) k true |}
      else None
  | ERecv t k =>
      Some {| own := fun l => match own m l with
                              | OToken k' => if tok_eqb k' k then OThread t else OToken k'
                              | o => o
                              end;
              sent := sent m |}
  | EFork t u give share =>
      if tid_eqb t u then None
      else if forallb (owned_by m t) give && forallb (shareable m t) share
      then Some {| own := fun l =>
                     if mem_loc l give then OThread u
                     else if mem_loc l share
                          then match own m l with
                               | OThread _ => OShared [u; t]
                               | OShared ts => OShared (u :: ts)
                               | o => o
                               end
                          else own m l;
                   sent := sent m |}
      else None
  end.

Fixpoint mon_run (m : mon) (tr : list ev) : option mon :=
  match tr with
  | [] => Some m
  | e :: t => match mon_step m e with Some m' => mon_run m' t | None => None end
  end.

(* ================================================================ Part 3: the connection *)

Record variant := { v_clear_handles : bool; v_log_serial : bool; v_share_header : bool; v_alias_buf : bool;
                    v_share_merged : bool }.
Definition repaired : variant :=
  {| v_clear_handles := false; v_log_serial := false; v_share_header := false; v_alias_buf := false;
     v_share_merged := false |}.

Inductive mstage := MNone | MRead | MQ | MW | MC (i : nat).      (* not parsed | with the reader | in msgChan | with the writer | handed to caller i *)
Inductive cstage := CNone | COpQ | CActQ | COut | CRepl (l : loc) | CDone (l : loc).
                      (* - | closure in operationFuncChan | in activeMsgChan | in the writer's record | answer l in replyChan | returned *)
Inductive tstage := TNone | TW | TRun | TCpl | TBack | TStopped.
                      (* replyMsg: not made | made, no timer | with the sleeping timer | in activeMsgCompleteChan | back with the writer | timer left by stopChan *)
Inductive jstage := JNone | JSent (n : nat) | JMgr (n : nat) | JAcked | JMgrRef (n : nat) | JRefused.
                      (* - | join closure sent | executed: key free, registered | joined | executed: key taken, refused | told so *)
Inductive lstage := LvNone | LvSent | LvMgr | LvStopped.
Inductive sstage := SNone | SJoin | SMgr | SAct (i : nat) | SW.    (* where the session header is *)
Inductive wstage := WRun | WStopping | WDone.

Record st := {
  booted : bool;
  mst : nat -> mstage;
  cst : nat -> cstage;
  tst : nat -> tstage;
  joinst : jstage;
  leavest : lstage;
  registered : bool;      (* the manager's map has the session *)
  sess : sstage;
  wst : wstage;
  hdr : loc;              (* the header the session points to: LSessHdr, or (defect) the first message *)
}.

Definition init : st :=
  {| booted := false; mst := fun _ => MNone; cst := fun _ => CNone; tst := fun _ => TNone;
     joinst := JNone; leavest := LvNone; registered := false; sess := SNone; wst := WRun; hdr := LSessHdr |}.

Definition updn {A} (f : nat -> A) (n : nat) (a : A) : nat -> A := fun x => if Nat.eqb x n then a else f x.

Definition set_booted s := {| booted := true; mst := mst s; cst := cst s; tst := tst s; joinst := joinst s; leavest := leavest s; registered := registered s; sess := sess s; wst := wst s; hdr := hdr s |}.
Definition set_mst s n x := {| booted := booted s; mst := updn (mst s) n x; cst := cst s; tst := tst s; joinst := joinst s; leavest := leavest s; registered := registered s; sess := sess s; wst := wst s; hdr := hdr s |}.
Definition set_cst s i x := {| booted := booted s; mst := mst s; cst := updn (cst s) i x; tst := tst s; joinst := joinst s; leavest := leavest s; registered := registered s; sess := sess s; wst := wst s; hdr := hdr s |}.
Definition set_tst s i x := {| booted := booted s; mst := mst s; cst := cst s; tst := updn (tst s) i x; joinst := joinst s; leavest := leavest s; registered := registered s; sess := sess s; wst := wst s; hdr := hdr s |}.
Definition set_joinst s x := {| booted := booted s; mst := mst s; cst := cst s; tst := tst s; joinst := x; leavest := leavest s; registered := registered s; sess := sess s; wst := wst s; hdr := hdr s |}.
Definition set_leavest s x := {| booted := booted s; mst := mst s; cst := cst s; tst := tst s; joinst := joinst s; leavest := x; registered := registered s; sess := sess s; wst := wst s; hdr := hdr s |}.
Definition set_registered s x := {| booted := booted s; mst := mst s; cst := cst s; tst := tst s; joinst := joinst s; leavest := leavest s; registered := x; sess := sess s; wst := wst s; hdr := hdr s |}.
Definition set_sess s x := {| booted := booted s; mst := mst s; cst := cst s; tst := tst s; joinst := joinst s; leavest := leavest s; registered := registered s; sess := x; wst := wst s; hdr := hdr s |}.
Definition set_wst s x := {| booted := booted s; mst := mst s; cst := cst s; tst := tst s; joinst := joinst s; leavest := leavest s; registered := registered s; sess := sess s; wst := x; hdr := hdr s |}.
Definition set_hdr s x := {| booted := booted s; mst := mst s; cst := cst s; tst := tst s; joinst := joinst s; leavest := leavest s; registered := registered s; sess := sess s; wst := wst s; hdr := x |}.

Inductive choice :=
| Boot
| RRead (n : nat) | RJoinSend (n : nat) | RJoinAck | RPush (n : nat) | RStop | RStop2
| MJoin (ok : bool) | MLeave | MWrite (i : nat)
| CCall (i : nat) | CRet (i : nat)
| WAct (i : nat) (wok timer : bool) | WMsg (n : nat) (resp : option nat) | WCpl (i : nat)
| WSeeStop | WStopOut (i : nat) | WStopDrain (i : nat) | WExit
| TFire (i : nat) (stop : bool).

(* the reader is in its loop: not waiting for the manager, not refused, not stopping *)
Definition reader_free (s : st) : bool :=
  booted s && match leavest s with LvNone => true | _ => false end
           && match joinst s with JSent _ | JMgr _ | JMgrRef _ | JRefused => false | _ => true end.

(* the reader may return: from its loop, or because its join was refused *)
Definition reader_can_stop (s : st) : bool :=
  booted s && match leavest s with LvNone => true | _ => false end
           && match joinst s with JSent _ | JMgr _ | JMgrRef _ => false | _ => true end.

Definition is_mst (s : st) (n : nat) (x : mstage) : bool :=
  match mst s n, x with
  | MNone, MNone | MRead, MRead | MQ, MQ | MW, MW => true
  | _, _ => false
  end.

Definition wrun (s : st) : bool := booted s && match wst s with WRun => true | _ => false end.
Definition wstopping (s : st) : bool := booted s && match wst s with WStopping => true | _ => false end.

(* channel FIFO: the command that carries the session header (the first one routed) is received first *)
Definition sess_ok (s : st) (j : nat) : bool := match sess s with SAct i => Nat.eqb i j | _ => true end.
Definition sess_recv (s : st) (j : nat) : st :=
  match sess s with SAct i => if Nat.eqb i j then set_sess s SW else s | _ => s end.

Definition R := TReader. Definition W := TWriter. Definition M := TMgr.

Definition step (v : variant) (s : st) (c : choice) : option (st * list ev) :=
  match c with
  | Boot =>   (* New(): go manager.run(); Run(): accept, createDefaultHandle, newConnection, go Start -> go reader, go write *)
      if booted s then None else
      Some (set_booted s,
            [EAcc TMain LConn true; EAcc TMain LHandles true; EAcc TMain LSerial true; EAcc TMain LKey true;
             EFork TMain M [] [LConn];
             EFork TMain R [LKey] [LConn; LHandles];
             EFork TMain W [LSerial] [LConn; LHandles];
             (* the prologues: run(): record := make(map); reader(): curData, newPackageParse; write(): record := map *)
             EAcc M LRegistry true; EAcc R LBuf true; EAcc W LRecord true])
  | RRead n =>   (* select stopChan/default; c.conn.Read(curData); pack.parse: new *Message; c.handles[msg.Command]; msg.Handler = ... *)
      if reader_free s && is_mst s n MNone then
        Some (set_mst s n MRead,
              [EAcc R LConn false; EAcc R LBuf true; EAcc R LHandles false; EAcc R (LMsg n) true])
      else None
  | RJoinSend n =>   (* joinFunc: keyFunc(message); header := *message.Header (own copy); operationFuncChan <- closure *)
      if reader_free s && is_mst s n MRead && match joinst s with JNone => true | _ => false end then
        if v_share_header v
        then Some (set_hdr (set_sess (set_joinst s (JSent n)) SJoin) (LMsg n),
                   [EAcc R LConn false; EAcc R (LMsg n) false; ESend R KJoin []])
        else Some (set_sess (set_joinst s (JSent n)) SJoin,
                   [EAcc R LConn false; EAcc R (LMsg n) false; EAcc R LSessHdr true; ESend R KJoin [LSessHdr]])
      else None
  | MJoin ok =>   (* the join closure: key free -> record[key] = &session{header: ...}; ch <- nil.  key taken (by
                     another connection) -> ch <- _errKeyExist, the closure's header copy is dropped *)
      match joinst s with
      | JSent n =>
          if ok then Some (set_registered (set_sess (set_joinst s (JMgr n)) SMgr) true,
                           [ERecv M KJoin; EAcc M LConn false; EAcc M LRegistry true; ESend M KJoinAck []])
          else Some (set_sess (set_joinst s (JMgrRef n)) SMgr,
                     [ERecv M KJoin; EAcc M LConn false; EAcc M LRegistry false; ESend M KJoinAck []])
      | _ => None
      end
  | RJoinAck =>   (* <-ch; joined: c.key = key, c.joined = true; OnJoinEvent(msg, key, err); refused: the reader returns *)
      match joinst s with
      | JMgr n => Some (set_joinst s JAcked,
                        [ERecv R KJoinAck; EAcc R LKey true; EAcc R LConn false; EAcc R (LMsg n) false])
      | JMgrRef n => Some (set_joinst s JRefused,
                           [ERecv R KJoinAck; EAcc R LConn false; EAcc R (LMsg n) false])
      | _ => None
      end
  | RPush n =>   (* onReadExecutionEvent(msg); c.msgChan <- msg *)
      if reader_free s && is_mst s n MRead then
        Some (set_mst s n MQ, [EAcc R LConn false; EAcc R (LMsg n) false; ESend R (KMsg n) [LMsg n]])
      else None
  | RStop =>   (* the reader returns: (defect: slog ... platformSerialNumber); stop(): if c.joined { leaveFunc(c.key) }
                  a connection that never joined (or was refused) does not go through the manager (fix 8f7d690) *)
      if reader_can_stop s then
        match joinst s with
        | JAcked =>
            Some (set_leavest s LvSent,
                  (if v_log_serial v then [EAcc R LSerial false] else []) ++
                  [EAcc R LConn false; EAcc R LKey false; ESend R KLeave []])
        | _ =>
            Some (set_leavest s LvStopped,
                  (if v_log_serial v then [EAcc R LSerial false] else []) ++
                  [EAcc R LConn false; EAcc R LKey false] ++
                  (if v_clear_handles v then [EAcc R LHandles true] else []) ++
                  [EAcc R LConn false; ESend R KStop []; EAcc R LBuf true])
        end
      else None
  | MLeave =>   (* the leave closure: delete(record, key); close(ch) *)
      match leavest s with
      | LvSent => Some (set_registered (set_leavest s LvMgr) false,
                        [ERecv M KLeave; EAcc M LConn false; EAcc M LRegistry true; ESend M KLeaveAck []])
      | _ => None
      end
  | RStop2 =>   (* <-ch; OnLeaveEvent(c.key); (defect: clear(c.handles)); close(stopChan); conn.Close; close(...); clear(curData); pack.clear() *)
      match leavest s with
      | LvMgr => Some (set_leavest s LvStopped,
                       [ERecv R KLeaveAck; EAcc R LKey false] ++
                       (if v_clear_handles v then [EAcc R LHandles true] else []) ++
                       [EAcc R LConn false; ESend R KStop []; EAcc R LBuf true])
      | _ => None
      end
  | CCall i =>   (* a goroutine calls SendActiveMessage: NewActiveMessage; operationFuncChan <- closure *)
      if booted s && match cst s i with CNone => true | _ => false end then
        Some (set_cst s i COpQ,
              [EFork TMain (TCaller i) [] [LConn]; EAcc (TCaller i) LConn false; EAcc (TCaller i) (LAct i) true;
               ESend (TCaller i) (KWrite i) [LAct i]])
      else None
  | MWrite i =>   (* the write closure *)
      match cst s i with
      | COpQ =>
          if registered s then   (* activeMsg.header = v.header; activeMsg.replyChan = ...; v.activeMsgChan <- activeMsg *)
            let give_sess := match sess s with SMgr => negb (v_share_header v) | _ => false end in
            Some ((if give_sess then set_sess (set_cst s i CActQ) (SAct i) else set_cst s i CActQ),
                  [ERecv M (KWrite i); EAcc M LConn false; EAcc M LRegistry false; EAcc M (LAct i) true;
                   ESend M (KAct i) (LAct i :: if give_sess then [hdr s] else [])])
          else                   (* replyChan <- newErrMessage(ErrNotExistKey) *)
            Some (set_cst s i (CRepl (LFin i)),
                  [ERecv M (KWrite i); EAcc M LConn false; EAcc M LRegistry false; EAcc M (LFin i) true;
                   ESend M (KReply i) [LFin i; LAct i]])
      | _ => None
      end
  | WAct i wok timer =>   (* case activeMsg := <-c.activeMsgChan: onActiveEvent *)
      if wrun s && sess_ok s i && match cst s i with CActQ => true | _ => false end then
        let s1 := sess_recv s i in
        let pre := [ERecv W (KAct i); EAcc W LConn false; EAcc W (hdr s) true; EAcc W LSerial true; EAcc W (LAct i) true;
                    EAcc W LRecord true; EAcc W (LReply i) true; EAcc W LHandles false] in
        if wok then
          if timer then Some (set_tst (set_cst s1 i COut) i TRun, pre ++ [EFork W (TTimer i) [LReply i] [LConn]])
          else Some (set_tst (set_cst s1 i COut) i TW, pre)
        else   (* the socket write failed: onActiveCompleteEvent at once *)
          Some (set_tst (set_cst s1 i (CRepl (LReply i))) i TW,
                pre ++ [EAcc W (LReply i) true; EAcc W LRecord true; ESend W (KReply i) [LReply i; LAct i]])
      else None
  | TFire i stop =>   (* the timer goroutine wakes: overtimeMsg...Err = ...; select { <-stopChan | completeChan <- overtimeMsg } *)
      match tst s i with
      | TRun =>
          if stop then
            match leavest s with
            | LvStopped => Some (set_tst s i TStopped,
                                 [EAcc (TTimer i) (LReply i) true; EAcc (TTimer i) LConn false; ERecv (TTimer i) KStop])
            | _ => None
            end
          else Some (set_tst s i TCpl,
                     [EAcc (TTimer i) (LReply i) true; EAcc (TTimer i) LConn false; ESend (TTimer i) (KCpl i) [LReply i]])
      | _ => None
      end
  | WCpl i =>   (* case msg := <-c.activeMsgCompleteChan: onActiveCompleteEvent *)
      if wrun s && match tst s i with TCpl => true | _ => false end then
        match cst s i with
        | COut => Some (set_tst (set_cst s i (CRepl (LReply i))) i TBack,
                        [ERecv W (KCpl i); EAcc W LConn false; EAcc W (LReply i) false; EAcc W LRecord false;
                         EAcc W (LReply i) true; EAcc W LRecord true; ESend W (KReply i) [LReply i; LAct i]])
        | _ => Some (set_tst s i TBack,
                     [ERecv W (KCpl i); EAcc W LConn false; EAcc W (LReply i) false; EAcc W LRecord false])
        end
      else None
  | WMsg n resp =>   (* case msg := <-c.msgChan *)
      if wrun s && is_mst s n MQ then
        (* (defect adede50: the message's bytes are a view into the reader's receive buffer, so reading the
           message is reading the buffer; since that fix parse() hands out copies - C09's theorem) *)
        let pre := [ERecv W (KMsg n); EAcc W LConn false; EAcc W (LMsg n) false] ++
                   (if v_alias_buf v then [EAcc W LBuf false] else []) ++ [EAcc W LRecord false] in
        let reply :=   (* defaultReplyEvent: ReplyBody, header.ReplyID = ..., curSeq, conn.Write, ExtensionFields *)
          Some (set_mst s n MW, pre ++ [EAcc W (LMsg n) true; EAcc W LSerial true; EAcc W LRecord true] ++
                (* (defects a3fb0a0 / 4b6a3bd: two message objects sharing one *JTMessage / header - the message merged
                   from sub-packages and the last sub-packet; the re-request record and the first packet - so that
                   answering message n (Header.Encode) writes the header of message n+1, which the reader holds) *)
                (if v_share_merged v then [EAcc W (LMsg (S n)) true] else [])) in
        match resp with
        | Some i =>   (* onActiveRespondEvent found the waiting command i: onActiveCompleteEvent(record, msg) *)
            match cst s i with
            | COut => Some (set_cst (set_mst s n (MC i)) i (CRepl (LMsg n)),
                            pre ++ [EAcc W (LMsg n) true; EAcc W LRecord true; ESend W (KReply i) [LMsg n; LAct i]])
            | _ => reply
            end
        | None => reply
        end
      else None
  | WSeeStop =>   (* case <-c.stopChan: onStopEvent begins *)
      if wrun s && match leavest s with LvStopped => true | _ => false end then
        Some (set_wst s WStopping, [ERecv W KStop; EAcc W LConn false; EAcc W LRecord false])
      else None
  | WStopOut i =>   (* for seq, v := range record: newActiveMessage(..., err); c.handles[v.Command]; onActiveCompleteEvent *)
      if wstopping s && match cst s i with COut => true | _ => false end then
        Some (set_cst s i (CRepl (LFin i)),
              [EAcc W LRecord false; EAcc W (LFin i) true; EAcc W LHandles false; EAcc W LRecord true;
               ESend W (KReply i) [LFin i; LAct i]])
      else None
  | WStopDrain i =>   (* activeMsg := <-c.activeMsgChan (buffered, after close): activeMsg.replyChan <- newErrMessage(err) *)
      if wstopping s && match cst s i with CActQ => true | _ => false end then
        Some (set_cst (sess_recv s i) i (CRepl (LFin i)),
              [ERecv W (KAct i); EAcc W LConn false; EAcc W (LAct i) false; EAcc W (LFin i) true;
               ESend W (KReply i) [LFin i; LAct i]])
      else None
  | WExit =>
      if wstopping s then Some (set_wst s WDone, []) else None
  | CRet i =>   (* return <-replyChan; the caller looks at the answer and at its ActiveMessage *)
      match cst s i with
      | CRepl l => if booted s then
                     Some (set_cst s i (CDone l),
                           [ERecv (TCaller i) (KReply i); EAcc (TCaller i) l false; EAcc (TCaller i) (LAct i) false])
                   else None
      | _ => None
      end
  end.

(* ---------------- the access-site table (tie (i)): which goroutine runs which function of package
   service, and which abstract location each field of connection / packageParse / sessionManager /
   session / ActiveMessage is.  The harness lists every selector on these types in /repo's source and
   asks, through the oracle, whether (function, type, field, read/write) is covered: the goroutine class
   reaching the function (Part 5), the location class of the field (field_table) and [performs], which is
   membership in [model_acc] - the accesses along [cover_sched]; Props/C18.v: C18_model_acc_exact shows that
   [model_acc] is exactly the set of (class, location, mode) that ANY schedule of the model performs. *)
Inductive gclass := GMain | GMgr | GReader | GWriter | GCaller | GTimer.

Definition class_of (t : tid) : gclass :=
  match t with TMain => GMain | TMgr => GMgr | TReader => GReader | TWriter => GWriter
             | TCaller _ => GCaller | TTimer _ => GTimer end.

Inductive lclass := XConn | XHandles | XSerial | XRecord | XKey | XBuf | XRegistry | XSessHdr | XMsg | XAct | XReply | XFin.

Definition lclass_of (l : loc) : lclass :=
  match l with LConn => XConn | LHandles => XHandles | LSerial => XSerial | LRecord => XRecord | LKey => XKey
             | LBuf => XBuf | LRegistry => XRegistry | LSessHdr => XSessHdr | LMsg _ => XMsg | LAct _ => XAct
             | LReply _ => XReply | LFin _ => XFin end.

(* ================================================================ Part 4: the access-site tables *)
From Coq Require Import String.
Open Scope string_scope.

(* which goroutine runs a function of package service ("T.m" method, "$k" the k-th function literal
   inside it).  Read off the code: reader()/write() are started by Start, run() by New, the timer
   closure by `go func` in onActiveEvent, the manager closures are sent through operationFuncChan,
   the Once closure of stop() runs inside stop(). *)
Definition fun_table : list (string * gclass) :=
  [ ("New", GMain); ("GoJT808.Run", GMain); ("newSessionManager", GMain); ("newConnection", GMain);
    ("connection.Start", GMain);
    ("sessionManager.run", GMgr); ("sessionManager.join$1", GMgr); ("sessionManager.leave$1", GMgr);
    ("sessionManager.write$1", GMgr);
    ("connection.reader", GReader); ("connection.reader$1", GReader); ("connection.stop", GReader);
    ("connection.stop$1", GReader); ("connection.onReadExecutionEvent", GReader);
    ("sessionManager.join", GReader); ("sessionManager.leave", GReader);
    ("newPackageParse", GReader); ("packageParse.clear", GReader); ("packageParse.parse", GReader);
    ("packageParse.unpack", GReader); ("packageParse.completePack", GReader); ("packageParse.add", GReader);
    ("packageParse.remove", GReader); ("packageParse.deleteTimeoutPackage", GReader);
    ("packageParse.supplementarySubPackage", GReader);
    ("connection.write", GWriter); ("connection.defaultReplyEvent", GWriter);
    ("connection.subPackReplyEvent", GWriter); ("connection.onActiveEvent", GWriter);
    ("connection.onStopEvent", GWriter); ("connection.onActiveCompleteEvent", GWriter);
    ("connection.onActiveRespondEvent", GWriter); ("connection.onWriteExecutionEvent", GWriter);
    ("connection.curSeq", GWriter); ("connection.curSeq$1", GWriter);
    ("connection.onActiveEvent$1", GTimer);
    ("GoJT808.SendActiveMessage", GCaller); ("sessionManager.write", GCaller);
    ("defaultTerminalEvent.OnJoinEvent", GReader); ("defaultTerminalEvent.OnLeaveEvent", GReader) ].

(* which abstract location a field of a statically placed struct is *)
Definition field_table : list (string * string * lclass) :=
  [ ("connection", "conn", XConn); ("connection", "stopOnce", XConn); ("connection", "stopChan", XConn);
    ("connection", "msgChan", XConn); ("connection", "activeMsgChan", XConn);
    ("connection", "activeMsgCompleteChan", XConn); ("connection", "reissuePackChan", XConn);
    ("connection", "joinFunc", XConn); ("connection", "leaveFunc", XConn); ("connection", "filter", XConn);
    ("connection", "terminalEvent", XConn);
    ("connection", "handles", XHandles); ("connection", "platformSerialNumber", XSerial); ("connection", "key", XKey);
    ("connection", "joined", XKey); ("defaultTerminalEvent", "createTime", XKey);
    ("packageParse", "historyData", XBuf); ("packageParse", "subcontractingRecord", XBuf);
    ("packageParse", "timeoutRecord", XBuf);
    ("packageComplete", "createTime", XBuf); ("packageComplete", "updateTime", XBuf); ("packageComplete", "initHeader", XBuf);
    ("sessionManager", "operationFuncChan", XConn); ("sessionManager", "keyFunc", XConn);
    ("session", "header", XRegistry); ("session", "joinTime", XRegistry); ("session", "activeMsgChan", XRegistry) ].

(* the declared type of every field above (as go/types prints it, package-qualified by package name, without
   spaces; function types as func/<parameters>/<results>): a field whose NAME the table does not know is
   recognised as a renamed one when exactly one field of its struct and type is unknown in the tree and
   exactly one model field of that struct and type is missing from the tree *)
Definition field_type_table : list (string * string * string) :=
  [ ("connection", "conn", "*net.TCPConn"); ("connection", "handles", "map[consts.JT808CommandType]Handler");
    ("connection", "stopOnce", "sync.Once"); ("connection", "stopChan", "chanstruct{}");
    ("connection", "msgChan", "chan*Message"); ("connection", "activeMsgChan", "chan*ActiveMessage");
    ("connection", "activeMsgCompleteChan", "chan*Message"); ("connection", "reissuePackChan", "chan*Message");
    ("connection", "platformSerialNumber", "uint16"); ("connection", "joinFunc", "func/2/2");
    ("connection", "leaveFunc", "func/1/0"); ("connection", "key", "string"); ("connection", "joined", "bool");
    ("connection", "filter", "bool"); ("connection", "terminalEvent", "TerminalEventer");
    ("defaultTerminalEvent", "createTime", "time.Time");
    ("packageComplete", "createTime", "time.Time"); ("packageComplete", "updateTime", "time.Time");
    ("packageComplete", "initHeader", "*jt808.Header");
    ("packageParse", "historyData", "[]byte"); ("packageParse", "subcontractingRecord", "map[uint16][][]byte");
    ("packageParse", "timeoutRecord", "map[uint16]*packageComplete");
    ("session", "header", "*jt808.Header"); ("session", "joinTime", "time.Time");
    ("session", "activeMsgChan", "chan<-*ActiveMessage");
    ("sessionManager", "operationFuncChan", "chanfunc/1/0"); ("sessionManager", "keyFunc", "func/1/2") ].

(* `go f()` statements: who may start whom *)
Definition spawn_table : list (gclass * gclass) :=
  [ (GMain, GMain); (GMain, GMgr); (GMain, GReader); (GMain, GWriter); (GWriter, GTimer) ].

Definition gclass_eqb (a b : gclass) : bool :=
  match a, b with
  | GMain, GMain | GMgr, GMgr | GReader, GReader | GWriter, GWriter | GCaller, GCaller | GTimer, GTimer => true
  | _, _ => false
  end.

Definition lclass_eqb (a b : lclass) : bool :=
  match a, b with
  | XConn, XConn | XHandles, XHandles | XSerial, XSerial | XRecord, XRecord | XKey, XKey | XBuf, XBuf
  | XRegistry, XRegistry | XSessHdr, XSessHdr | XMsg, XMsg | XAct, XAct | XReply, XReply | XFin, XFin => true
  | _, _ => false
  end.

Section Lookup.
  Variable key : Type.
  Variable keqb : key -> key -> bool.

  Fixpoint lookup_fun (f : key) (t : list (key * gclass)) : option gclass :=
    match t with [] => None | (n, g) :: r => if keqb n f then Some g else lookup_fun f r end.

  Fixpoint lookup_field (ty fld : key) (t : list (key * key * lclass)) : option lclass :=
    match t with
    | [] => None
    | (a, b, x) :: r => if keqb a ty && keqb b fld then Some x else lookup_field ty fld r
    end.
End Lookup.
Arguments lookup_fun {key} keqb f t.
Arguments lookup_field {key} keqb ty fld t.

(* a schedule in which every kind of step of the model fires at least once *)
Definition cover_sched : list choice :=
  [Boot; RRead 0; RJoinSend 0; MJoin true; RJoinAck; RPush 0; CCall 0; MWrite 0; WMsg 0 None; WAct 0 true true;
   RRead 1; RPush 1; CCall 1; MWrite 1; WAct 1 true true; WMsg 1 (Some 0); CRet 0; TFire 0 false; TFire 1 false;
   WCpl 0; WCpl 1; CRet 1; CCall 4; MWrite 4; WAct 4 false false; CRet 4; CCall 5; MWrite 5; WAct 5 true true;
   CCall 6; MWrite 6; WAct 6 true false; CCall 2; MWrite 2; RStop; MLeave; CCall 3; MWrite 3; RStop2; TFire 5 true;
   WSeeStop; WStopOut 6; WStopDrain 2; CRet 2; CRet 3; CRet 6; WExit].

Fixpoint acc_classes (tr : list ev) : list (gclass * lclass * bool) :=
  match tr with
  | [] => []
  | EAcc t l w :: r => (class_of t, lclass_of l, w) :: acc_classes r
  | _ :: r => acc_classes r
  end.

(* every (goroutine class, location class, mode) the model performs *)
(* computed once (a literal list), so that nothing that mentions it has to re-run the model;
   Race_proofs.model_acc_is_cover: it IS acc_classes (trace (step repaired) init cover_sched) *)
Definition model_acc : list (gclass * lclass * bool) :=
  Eval vm_compute in acc_classes (trace (step repaired) init cover_sched).

Definition performs (g : gclass) (x : lclass) (w : bool) : bool :=
  existsb (fun a => match a with (g', x', w') => gclass_eqb g' g && lclass_eqb x' x && (w' || negb w) end) model_acc.

(* the code site "function f touches field ty.fld (w: writes it)" is one the model annotates;
   a static call caller -> callee stays inside one goroutine: both of one class (callees outside the
   table touch no statically placed field and are free); a go statement starts an allowed class *)
Section Sites.
  Variable key : Type.
  Variable keqb : key -> key -> bool.
  Variable ft : list (key * gclass).
  Variable fdt : list (key * key * lclass).

  Definition site_ok_g (f ty fld : key) (w : bool) : bool :=
    match lookup_fun keqb f ft, lookup_field keqb ty fld fdt with
    | Some g, Some x => performs g x w
    | _, _ => false
    end.

  Definition call_ok_g (caller callee : key) : bool :=
    match lookup_fun keqb callee ft with
    | None => true
    | Some b => match lookup_fun keqb caller ft with Some a => gclass_eqb a b | None => false end
    end.

  Definition spawn_ok_g (caller callee : key) : bool :=
    match lookup_fun keqb caller ft, lookup_fun keqb callee ft with
    | Some a, Some b => existsb (fun p => gclass_eqb (fst p) a && gclass_eqb (snd p) b) spawn_table
    | _, _ => false
    end.
End Sites.

Definition site_ok := site_ok_g string String.eqb fun_table field_table.
Definition call_ok := call_ok_g string String.eqb fun_table.
Definition spawn_ok := spawn_ok_g string String.eqb fun_table.

(* the same tables with names as lists of character codes: what the oracle extracts (the extracted
   program must not contain Coq's String module, whose name collides with OCaml's) *)
From Coq Require Import NArith Ascii.
Definition nm (s : string) : list N := map N_of_ascii (list_ascii_of_string s).

Fixpoint codes_eqb (a b : list N) : bool :=
  match a, b with
  | [], [] => true
  | x :: a', y :: b' => N.eqb x y && codes_eqb a' b'
  | _, _ => false
  end.

Definition fun_table_n : list (list N * gclass) :=
  Eval vm_compute in map (fun p => (nm (fst p), snd p)) fun_table.
Definition field_table_n : list (list N * list N * lclass) :=
  Eval vm_compute in map (fun p => (nm (fst (fst p)), nm (snd (fst p)), snd p)) field_table.

Definition site_ok_n := site_ok_g (list N) codes_eqb fun_table_n field_table_n.
Definition call_ok_n := call_ok_g (list N) codes_eqb fun_table_n.
Definition spawn_ok_n := spawn_ok_g (list N) codes_eqb fun_table_n.

(* ================================================================ Part 5: sites by goroutine CLASS
   The per-function table above names every function.  An extract-method refactoring adds a function the
   table does not know, although nothing changed.  The tie therefore classifies a site by the goroutine
   class(es) that can REACH its function: the roots (what a `go` statement starts, the closures sent to the
   manager, the API entry points, the two method values handed to newConnection) have a class by the table
   [root_table]; a static call (also: a deferred or immediately invoked function literal, a function literal
   passed as an argument or stored in a variable) runs in its caller's goroutine.  A site is acceptable iff
   its function is reached by exactly ONE class and the model performs (class, location, role).  Still
   breaking the tie: a function with a site reached by two classes, a `go` statement or a closure sent on a
   channel whose target is not a root or whose classes are not in [spawn_table], a (class, field, role) the
   model does not perform, a variable captured by a closure that runs in another goroutine (a root
   closure) unless [cap_table] allows it. *)
Definition root_table : list (string * gclass) :=
  [ ("New", GMain); ("GoJT808.Run", GMain); ("connection.Start", GMain);
    ("sessionManager.run", GMgr); ("sessionManager.join$1", GMgr); ("sessionManager.leave$1", GMgr);
    ("sessionManager.write$1", GMgr);
    ("connection.reader", GReader); ("sessionManager.join", GReader); ("sessionManager.leave", GReader);
    ("connection.write", GWriter);
    ("connection.onActiveEvent$1", GTimer);
    ("GoJT808.SendActiveMessage", GCaller);
    (* the default TerminalEventer: called through the interface by the reader of ITS connection (one object per
       connection: Gen/TablesOk_race.v race_default_eventer_fresh) *)
    ("defaultTerminalEvent.OnJoinEvent", GReader); ("defaultTerminalEvent.OnLeaveEvent", GReader) ].

(* what a closure that runs in another goroutine (a root closure) may capture from the function that creates
   it.  Variables are classified by what they are, not by their names: a channel is a synchronisation object
   (always fine); a number / string / bool shares nothing but its value (fine when the closure only reads it
   and the creating function does not write it once the closure exists: the value is handed over by the
   `go` / the channel send); through anything else (pointer, map, slice, interface, func, struct) memory is
   shared, and only the hand-overs the model knows are allowed:
   (class of the closure, type of the variable, may the closure write it / take its address) *)
Definition cap_table : list (gclass * string * bool) :=
  [ (GTimer, "*connection", false);        (* the receiver: its fields are judged site by site *)
    (GMgr, "*ActiveMessage", false);       (* write closure: LAct i travels with KWrite i *)
    (GMgr, "jt808.Header", true);          (* join closure: the session's own header copy travels with KJoin *)
    (GMgr, "*jt808.Header", false) ].      (* ... the same copy, made by a helper and captured through its pointer *)

Definition root_table_n : list (list N * gclass) :=
  Eval vm_compute in map (fun p => (nm (fst p), snd p)) root_table.
Definition cap_table_n : list (gclass * list N * bool) :=
  Eval vm_compute in map (fun p => (fst (fst p), nm (snd (fst p)), snd p)) cap_table.

Definition field_type_table_n : list (list N * list N * list N) :=
  Eval vm_compute in map (fun p => (nm (fst (fst p)), nm (snd (fst p)), nm (snd p))) field_type_table.

Inductive ckind := CKChan | CKBasic | CKRef.

Inductive ekind := KCall | KSpawn | KSendLit.
Record gedge := { e_kind : ekind; e_from : list N; e_to : list N }.
Record gsite := { s_fun : list N; s_type : list N; s_field : list N; s_write : bool }.
Record gdecl := { d_struct : list N; d_field : list N; d_type : list N }.
Record gcap := { c_fun : list N; c_kind : ckind; c_type : list N; c_write : bool; c_imm : bool }.

Definition cmap := list (list N * list gclass).

Fixpoint cm_get (f : list N) (m : cmap) : list gclass :=
  match m with [] => [] | (n, cs) :: r => if codes_eqb n f then cs else cm_get f r end.

Definition has_class (g : gclass) (cs : list gclass) : bool := existsb (gclass_eqb g) cs.

Fixpoint cm_add (f : list N) (g : gclass) (m : cmap) : cmap :=
  match m with
  | [] => [(f, [g])]
  | (n, cs) :: r => if codes_eqb n f then (n, if has_class g cs then cs else g :: cs) :: r else (n, cs) :: cm_add f g r
  end.

Definition cm_add_all (f : list N) (gs : list gclass) (m : cmap) : cmap := fold_left (fun acc g => cm_add f g acc) gs m.

(* the class a goroutine started by class g must have, when the model allows exactly one *)
Definition spawn_target (g : gclass) : option gclass :=
  match filter (fun p => gclass_eqb (fst p) g) spawn_table with
  | [(_, b)] => Some b
  | _ => None
  end.

(* one round: every call edge hands the caller's classes to the callee; a `go` whose target is not a root of the
   table (the `go func` moved into a new function) gives the target the one class its starter may start - the
   new goroutine is then judged, site by site and capture by capture, as a goroutine of that class *)
Definition cm_round (es : list gedge) (m : cmap) : cmap :=
  fold_left (fun acc e =>
    match e_kind e with
    | KCall => cm_add_all (e_to e) (cm_get (e_from e) acc) acc
    | KSpawn =>
        match lookup_fun codes_eqb (e_to e) root_table_n, cm_get (e_from e) acc with
        | None, [g] => match spawn_target g with Some b => cm_add (e_to e) b acc | None => acc end
        | _, _ => acc
        end
    | KSendLit => acc
    end) es m.

Fixpoint cm_iter (n : nat) (es : list gedge) (m : cmap) : cmap :=
  match n with O => m | S k => cm_iter k es (cm_round es m) end.

Definition classes_of (es : list gedge) : cmap :=
  cm_iter (S (List.length es)) es (map (fun p => (fst p, [snd p])) root_table_n).

Inductive problem :=
| PSiteNoClass (s : gsite)          (* the function is not reached from any root *)
| PSiteTwoClasses (s : gsite)       (* ... is reached by two goroutine classes *)
| PSiteUnknownField (s : gsite)
| PSiteNotPerformed (s : gsite)     (* the model has no such (class, location, role) access *)
| PSpawn (e : gedge)                (* go / closure sent on a channel: unknown target or classes not allowed *)
| PCapture (c : gcap).              (* a closure running in another goroutine captures a variable the tables do not allow *)

Definition declared (ds : list gdecl) (st fld : list N) : bool :=
  existsb (fun d => codes_eqb (d_struct d) st && codes_eqb (d_field d) fld) ds.

(* the location class of field st.fld of the current tree: by name; or - the name being unknown - as a RENAMED
   model field: the candidates are the model fields of the same struct and declared type that the tree no
   longer declares; there must be at least as many of them as unknown fields of that struct and type (else a
   field is genuinely NEW); among the candidates' location classes the first one under which EVERY site of the
   field (goroutine class of its function, role) is an access the model performs is taken - a usage signature:
   several renamed channels of one type that share a location class are all resolved, two renamed fields of
   different classes are told apart by who reads and writes them, and a field used in a way no candidate
   allows is not resolved *)
Definition site_class_ok (m : cmap) (x : lclass) (s : gsite) : bool :=
  match cm_get (s_fun s) m with [g] => performs g x (s_write s) | _ => false end.

Definition resolve_field (ds : list gdecl) (ss : list gsite) (m : cmap) (st fld : list N) : option lclass :=
  match lookup_field codes_eqb st fld field_table_n with
  | Some x => Some x
  | None =>
      match find (fun d => codes_eqb (d_struct d) st && codes_eqb (d_field d) fld) ds with
      | None => None
      | Some d =>
          let unknown := filter (fun d' => codes_eqb (d_struct d') st && codes_eqb (d_type d') (d_type d) &&
                                           match lookup_field codes_eqb st (d_field d') field_table_n with None => true | Some _ => false end) ds in
          let missing := filter (fun p => match p with (s', f', t') =>
                                           codes_eqb s' st && codes_eqb t' (d_type d) && negb (declared ds s' f') end) field_type_table_n in
          if Nat.leb (List.length unknown) (List.length missing) then
            let mine := filter (fun s => codes_eqb (s_type s) st && codes_eqb (s_field s) fld) ss in
            let cands := flat_map (fun p => match p with (s', f', _) =>
                                      match lookup_field codes_eqb s' f' field_table_n with Some x => [x] | None => [] end end) missing in
            find (fun x => forallb (site_class_ok m x) mine) cands
          else None
      end
  end.

Definition check_site (ds : list gdecl) (ss : list gsite) (m : cmap) (s : gsite) : list problem :=
  match cm_get (s_fun s) m with
  | [] => [PSiteNoClass s]
  | [g] => match resolve_field ds ss m (s_type s) (s_field s) with
           | None => [PSiteUnknownField s]
           | Some x => if performs g x (s_write s) then [] else [PSiteNotPerformed s]
           end
  | _ => [PSiteTwoClasses s]
  end.

Definition check_edge (m : cmap) (e : gedge) : list problem :=
  match e_kind e with
  | KCall => []
  | KSpawn =>
      match cm_get (e_to e) m, cm_get (e_from e) m with
      | [b], (_ :: _) as froms =>
          if forallb (fun a => existsb (fun p => gclass_eqb (fst p) a && gclass_eqb (snd p) b) spawn_table) froms
          then [] else [PSpawn e]
      | _, _ => [PSpawn e]
      end
  | KSendLit =>
      match lookup_fun codes_eqb (e_to e) root_table_n with Some _ => [] | None => [PSpawn e] end
  end.

Definition check_cap (m : cmap) (c : gcap) : list problem :=
  match cm_get (c_fun c) m with
  | [g] =>
      match c_kind c with
      | CKChan => []
      | CKBasic => if negb (c_write c) && c_imm c then [] else [PCapture c]
      | CKRef =>
          if existsb (fun p => match p with (g', t, w) => gclass_eqb g' g && codes_eqb t (c_type c) && (w || negb (c_write c)) end) cap_table_n
          then [] else [PCapture c]
      end
  | _ => [PCapture c]
  end.

Definition graph_problems (ds : list gdecl) (es : list gedge) (ss : list gsite) (cs : list gcap) : list problem :=
  let m := classes_of es in
  flat_map (check_edge m) es ++ flat_map (check_site ds ss m) ss ++ flat_map (check_cap m) cs.

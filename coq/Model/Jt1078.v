(* Model of protocol/jt1078/jt1078.go: Packet.decodeHead / Packet.Decode.
   The receiver is an argument because a Packet may be reused for the next packet of a stream.
   Since fix b666e97 decodeHead clears customAttributes, Timestamp and both interval fields
   before it reads the new header (the pinned tree kept them: videoFrame was only ever set to
   true and the old Timestamp / intervals survived); Body is overwritten by Decode itself. *)
From JT.Base Require Import Prelude.

Definition E1078_SHORT_HEAD : N := 1.
Definition E1078_UNQUALIFIED : N := 2.
Definition E1078_SHORT_BODY : N := 3.

Record pkt := {
  k_v : N; k_p : N; k_x : N; k_cc : N; k_m : N; k_pt : N;
  k_seq : N; k_sim : list N (* the 6 raw BCD bytes; Sim = bcd2dec k_sim *);
  k_chan : N; k_dt : N; k_sub : N;
  k_ts : N; k_ifi : N; k_fi : N; k_blen : N; k_body : list N;
  k_video : bool }.

Definition fresh_pkt : pkt :=
  {| k_v := 0; k_p := 0; k_x := 0; k_cc := 0; k_m := 0; k_pt := 0; k_seq := 0; k_sim := [];
     k_chan := 0; k_dt := 0; k_sub := 0; k_ts := 0; k_ifi := 0; k_fi := 0; k_blen := 0;
     k_body := []; k_video := false |}.

Definition marker : list N := [48; 49; 99; 100].   (* "01cd" *)

Definition DT_PENETRATE : N := 4.
Definition is_video_dt (dt : N) : bool := (dt =? 0) || (dt =? 1) || (dt =? 2).

(* decodeHead: returns the updated receiver and the bytes after the header (data[headEnd:]) *)
Definition decode_head (r : pkt) (d : list N) : result (pkt * list N) :=
  match d with
  | i0 :: i1 :: i2 :: i3 :: attr :: sign :: s0 :: s1 :: m0 :: m1 :: m2 :: m3 :: m4 :: m5 :: ch :: tb :: rest =>
    if negb (list_eqb [i0; i1; i2; i3] marker) then Err E1078_UNQUALIFIED else
    let dt := N.land (N.shiftr tb 4) 15 in
    let sb := N.land tb 15 in
    let video := is_video_dt dt in                            (* customAttributes cleared first *)
    let e := 18 + (if dt =? DT_PENETRATE then 0 else 8) + (if is_video_dt dt then 4 else 0) in
    if len d <? e then Err E1078_SHORT_HEAD else
    '(tsb, r1) <- (if dt =? DT_PENETRATE then Ok ([], rest) else take 8 rest) ;;
    '(iv, r2) <- (if video then take 4 r1 else Ok ([], r1)) ;;
    '(lb, r3) <- take 2 r2 ;;
    Ok ({| k_v := N.land (N.shiftr attr 6) 3; k_p := N.land (N.shiftr attr 5) 1;
           k_x := N.land (N.shiftr attr 4) 1; k_cc := N.land attr 15;
           k_m := N.land (N.shiftr sign 7) 1; k_pt := N.land sign 127;
           k_seq := be_dec [s0; s1]; k_sim := [m0; m1; m2; m3; m4; m5];
           k_chan := ch; k_dt := dt; k_sub := sb;
           k_ts := if dt =? DT_PENETRATE then 0 else be_dec tsb;
           k_ifi := if video then be_dec (firstn 2 iv) else 0;
           k_fi := if video then be_dec (skipn 2 iv) else 0;
           k_blen := be_dec lb; k_body := k_body r; k_video := video |}, r3)
  | _ => Err E1078_SHORT_HEAD
  end.

(* Decode: (packet, remaining bytes) *)
Definition decode (r : pkt) (d : list N) : result (pkt * list N) :=
  '(p, body) <- decode_head r d ;;
  if len body <? k_blen p then Err E1078_SHORT_BODY else
  '(b, rest) <- take (k_blen p) body ;;
  Ok ({| k_v := k_v p; k_p := k_p p; k_x := k_x p; k_cc := k_cc p; k_m := k_m p; k_pt := k_pt p;
         k_seq := k_seq p; k_sim := k_sim p; k_chan := k_chan p; k_dt := k_dt p; k_sub := k_sub p;
         k_ts := k_ts p; k_ifi := k_ifi p; k_fi := k_fi p; k_blen := k_blen p; k_body := b;
         k_video := k_video p |}, rest).

(* repeated decoding from the front of a stream, a fresh Packet per call (the documented use);
   fuel = length of the stream (every successful step consumes >= 18 bytes) *)
Fixpoint decode_all (fuel : nat) (d : list N) : result (list pkt) :=
  match d with
  | [] => Ok []
  | _ =>
    match fuel with
    | O => Err 99
    | S f => '(p, rest) <- decode fresh_pkt d ;; ps <- decode_all f rest ;; Ok (p :: ps)
    end
  end.

(* the same loop with ONE Packet reused for every step (p.Decode(data) in a for loop): the
   receiver of step k+1 is the packet of step k *)
Fixpoint decode_all_reuse (fuel : nat) (r : pkt) (d : list N) : result (list pkt) :=
  match d with
  | [] => Ok []
  | _ =>
    match fuel with
    | O => Err 99
    | S f => '(p, rest) <- decode r d ;; ps <- decode_all_reuse f p rest ;; Ok (p :: ps)
    end
  end.

Definition decode_stream_reuse (r : pkt) (d : list N) : result (list pkt) := decode_all_reuse (length d) r d.

(* ---------------- the standard's layout (JT/T 1078-2016 table 19), written directly -------- *)
Definition std_packet (p : pkt) : list N :=
  marker ++ [k_v p * 64 + k_p p * 32 + k_x p * 16 + k_cc p; k_m p * 128 + k_pt p] ++
  be_enc 2 (k_seq p) ++ k_sim p ++ [k_chan p; k_dt p * 16 + k_sub p] ++
  (if k_dt p =? 4 then [] else be_enc 8 (k_ts p)) ++
  (if k_dt p <? 3 then be_enc 2 (k_ifi p) ++ be_enc 2 (k_fi p) else []) ++
  be_enc 2 (k_blen p) ++ k_body p.

Definition wf_packet (p : pkt) : Prop :=
  k_v p < 4 /\ k_p p < 2 /\ k_x p < 2 /\ k_cc p < 16 /\ k_m p < 2 /\ k_pt p < 128 /\
  k_seq p < 65536 /\ length (k_sim p) = 6%nat /\ bytes (k_sim p) /\ k_chan p < 256 /\
  k_dt p < 16 /\ k_sub p < 16 /\
  (if k_dt p =? 4 then k_ts p = 0 else k_ts p < 2 ^ 64) /\
  (if k_dt p <? 3 then k_ifi p < 65536 /\ k_fi p < 65536 else k_ifi p = 0 /\ k_fi p = 0) /\
  k_blen p = len (k_body p) /\ k_blen p < 65536 /\ bytes (k_body p) /\
  k_video p = (k_dt p <? 3).

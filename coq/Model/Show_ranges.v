(* show_<op> for oracle/drv_c16.ml: ops miss, reply1212, parse9212 (definitions only; see Base/Show.v) *)
From Coq Require Import String.
From JT.Base Require Import Prelude Show.
From JT.Model Require Import Ranges.

(* "o+l,o+l,..." or "-" *)
Definition show_segs (l : list (N * N)) : text :=
  join_or_dash (str ",") (map (fun s => show_N (fst s) ++ str "+" ++ show_N (snd s)) l).

(* miss <size> <current size> <records> *)
Definition show_miss (size cur : N) (recs : list (N * N)) : text :=
  str "ok " ++ show_segs (miss_segments size cur recs).

(* reply1212 <0x1211/0x1212 body> <records> *)
Definition show_reply1212 (body : list N) (recs : list (N * N)) : text :=
  show_result (fun t => str "ok " ++ show_hex_bytes (reply1212 t recs)) (parse1211 body).

(* parse9212 <body> *)
Definition show_parse9212 (body : list N) : text :=
  show_result (fun r => cat [str "ok nl="; show_N (r_namelen r); str " name="; show_hex_bytes (r_name r);
                             str " type="; show_N (r_type r); str " res="; show_N (r_result r);
                             str " cnt="; show_N (r_count r); str " list="; show_segs (r_list r)])
              (parse9212 body).

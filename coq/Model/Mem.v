(* Memory-level model of one JT808 connection's receive path (for C09):
     service/connection.go   reader: ONE curData buffer written by every conn.Read, zeroed by the
                             deferred clear(curData); pack.clear() zeroes what is left of historyData
     service/packet_parse.go unpack (fast path: bytes.Clone of the read, then Decode;
                             buffered path: append to historyData, hand out historyData[:end],
                             advance historyData[end:], historyData = nil when consumed),
                             parse / completePack (stores Body slices, concatenates into a fresh buffer,
                             the completing packet's Body is replaced by the merged data; since fix a3fb0a0 the
                             completed message has its own JTMessage / Header copy and shares only that body slice)
     service/message.go      newTerminalMessage keeps the caller's slice as TerminalData
     protocol/jt808          unescape returns data[1:len-1] when the frame holds no 0x7d, a fresh
                             buffer otherwise; Decode makes Body and the BCD phone sub-slices of that
   on the heap of Base/GoSlice.v.  A delivered message is a record of header VALUES (Go value
   fields and an immutable string) and three SLICES; what a handler sees at a later time is
   [deref] of those slices in the heap of that time.

   The model is parameterised by a [variant] so that the two mechanisms that were repaired in
   /repo (commit "fix: delivered messages no longer alias the reused read buffer or history
   array") can still be expressed and exhibited by computation; [cur] is the current code and
   the only variant the theorems are about.
   Definitions only; proofs in Proofs/Mem_proofs.v, statements in Props/C09.v. *)
From Coq Require Import Arith.
From JT.Base Require Import Prelude GoSlice.
From JT.Model Require Import Frame.

Record variant := { v_clone : bool;   (* fast path: data = bytes.Clone(data) before Decode *)
                    v_nil : bool }.   (* fully consumed: historyData = nil (false: historyData[0:0]) *)
Definition cur : variant := {| v_clone := true; v_nil := true |}.
Definition prefix_fastpath_alias : variant := {| v_clone := false; v_nil := true |}.
Definition prefix_history_reuse : variant := {| v_clone := true; v_nil := false |}.

(* ---------------- delivered messages ---------------- *)
Record dmsg := {
  d_hdr : msg;           (* the value fields of the header as decoded (Frame.decode of the raw frame);
                            its m_body / m_bcd are the byte VALUES at decode time *)
  d_raw : slice;         (* ExtensionFields.TerminalData *)
  d_body : slice;        (* JTMessage.Body *)
  d_bcd : slice;         (* Header.bcdTerminalPhoneNo (what Header.Encode writes into every reply) *)
  d_complete : bool }.   (* ExtensionFields.SubcontractComplete *)

(* what a holder of the message reads in heap h *)
Definition content (h : heap) (m : dmsg) : list N * list N * list N :=
  (deref h (d_raw m), deref h (d_body m), deref h (d_bcd m)).

(* offsets inside the unescaped payload (Header.decode: start / phoneLen / headEnd) *)
Definition hdr_start (m : msg) : nat := if m_ver m =? 1 then 5 else 4.
Definition hdr_plen (m : msg) : nat := if m_ver m =? 1 then 10 else 6.
Definition hdr_end (m : msg) : nat := (hdr_start m + hdr_plen m + (if (m_frag m =? 1)%N then 6 else 2))%nat.

Definition has7d (d : list N) : bool := existsb (N.eqb 125) d.   (* bytes.ContainsRune(data, 0x7d) *)

Definition E_PANIC : N := 99.
Definition err_of {A} (r : result A) : N := match r with Err e => e | _ => E_PANIC end.

(* jtMsg.Decode(raw) + newTerminalMessage(jtMsg, raw) *)
Definition decode_mem (h : heap) (raw : slice) : result (heap * dmsg) :=
  let d := deref h raw in
  match decode d with
  | Ok m =>
    let mk (buf : slice) :=
      {| d_hdr := m; d_raw := raw;
         d_body := sub_slice buf (hdr_end m) (hdr_end m + N.to_nat (m_len m));
         d_bcd := sub_slice buf (hdr_start m) (hdr_start m + hdr_plen m);
         d_complete := false |} in
    if has7d d then
      (* unescape's slow path: bytes.Buffer, a fresh array *)
      match unescape d with
      | Ok p => let '(h', id) := alloc h p in Ok (h', mk (mkS id 0 (length p) (length p)))
      | Err e => Err e
      | Panic => Panic
      end
    else
      (* fast path: escapeData = data[1 : len(data)-1] *)
      Ok (h, mk (sub_slice raw 1 (s_len raw - 1)))
  | Err e => Err e
  | Panic => Panic
  end.

(* ---------------- unpack ---------------- *)
(* index of the k-th 0x7e (k >= 1) counted from position i: k = 2, i = 0 is the fast path's
   bytes.IndexFunc with the counting closure; k = 1 on the tail from 1 is the buffered search *)
Fixpoint nth_delim (l : list N) (k : nat) (i : nat) : option nat :=
  match l with
  | [] => None
  | b :: t =>
    if b =? 126
    then match k with
         | 1%nat => Some i
         | S k' => nth_delim t k' (S i)
         | O => None
         end
    else nth_delim t k (S i)
  end.

Definition fast_cond (hist : slice) (d : list N) : bool :=
  (s_len hist =? 0)%nat && (2 <? length d)%nat && (last d 0 =? 126) &&
  match nth_delim d 2 0 with Some i => (i =? length d - 1)%nat | None => false end.

(* end (exclusive) of the first frame of the history, if there is one *)
Definition frame_end (l : list N) : option nat :=
  if (2 <? length l)%nat && (hd 0 l =? 126)
  then match nth_delim (tl l) 1 1 with Some i => Some (S i) | None => None end
  else None.

Record uout := { u_heap : heap; u_hist : slice; u_msgs : list dmsg; u_err : option N }.

(* the `for { ... }` loop of the buffered path; fuel = 1 + len(historyData), every round
   removes at least two bytes *)
Fixpoint scan (v : variant) (fuel : nat) (h : heap) (hist : slice) (acc : list dmsg) : uout :=
  match fuel with
  | O => {| u_heap := h; u_hist := hist; u_msgs := acc; u_err := None |}
  | S fuel' =>
    match frame_end (deref h hist) with
    | None => {| u_heap := h; u_hist := hist; u_msgs := acc; u_err := None |}
    | Some e =>
      let orig := sub_slice hist 0 e in                         (* historyData[:end] *)
      match decode_mem h orig with
      | Ok (h', m) =>
        if (e =? s_len hist)%nat
        then {| u_heap := h';
                u_hist := if v_nil v then nil_slice else sub_slice hist 0 0;
                u_msgs := acc ++ [m]; u_err := None |}
        else scan v fuel' h' (slice_from hist e) (acc ++ [m])    (* historyData[end:] *)
      | r => {| u_heap := h; u_hist := slice_from hist e; u_msgs := acc; u_err := Some (err_of r) |}
      end
    end
  end.

(* packageParse.unpack(data): [eff] is the slice the reader passes (curData[:n]) *)
Definition unpack (v : variant) (h : heap) (hist : slice) (eff : slice)
                  (force : bool) (newcap : nat) : uout :=
  let d := deref h eff in
  if fast_cond hist d then
    let '(h1, data) := if v_clone v then clone h eff else (h, eff) in
    match decode_mem h1 data with
    | Ok (h2, m) => {| u_heap := h2; u_hist := hist; u_msgs := [m]; u_err := None |}
    | r => {| u_heap := h1; u_hist := hist; u_msgs := []; u_err := Some (err_of r) |}
    end
  else
    let '(h1, hist1) := append h hist d force newcap in
    scan v (S (s_len hist1)) h1 hist1 [].

(* ---------------- completePack ---------------- *)
Definition recs := list (N * list slice).      (* subcontractingRecord: id -> slots of Body slices *)

Fixpoint rec_get (r : recs) (id : N) : option (list slice) :=
  match r with [] => None | (k, v) :: t => if k =? id then Some v else rec_get t id end.
Fixpoint rec_del (r : recs) (id : N) : recs :=
  match r with [] => [] | (k, v) :: t => if k =? id then rec_del t id else (k, v) :: rec_del t id end.
Definition rec_set (r : recs) (id : N) (v : list slice) : recs := (id, v) :: rec_del r id.

Fixpoint set_nth {A} (n : nat) (x : A) (l : list A) : list A :=
  match l, n with
  | [], _ => []
  | _ :: t, O => x :: t
  | y :: t, S n' => y :: set_nth n' x t
  end.

Definition received (slots : list slice) : nat :=
  length (filter (fun s => negb (s_len s =? 0)%nat) slots).

(* returns the heap, the records, the message itself (its Body is replaced by the merged data
   when it completes a transfer: completeMsg.Body = data runs while the *JTMessage is still shared,
   before the completed message gets its own copy) and the completed
   message if there is one *)
Definition complete_pack (h : heap) (r : recs) (m : dmsg) : heap * recs * dmsg * option dmsg :=
  let hd := d_hdr m in
  let sum := N.to_nat (m_sum hd) in
  if (sum =? 0)%nat then (h, r, m, None) else
  let id := m_id hd in
  let seq := N.to_nat (m_no hd) in
  let r1 := if (seq =? 1)%nat then rec_set r id (repeat nil_slice sum) else r in
  let slots := match rec_get r1 id with Some s => s | None => [] end in
  if (seq <? 1)%nat || (length slots <? seq)%nat then (h, r1, m, None) else
  let slots' := set_nth (seq - 1) (d_body m) slots in
  let r2 := rec_set r1 id slots' in
  if (received slots' =? sum)%nat then
    let data := flat_map (deref h) (firstn sum slots') in
    let '(h', did) := alloc h data in
    let ds := mkS did 0 (length data) (length data) in
    let m' := {| d_hdr := hd; d_raw := d_raw m; d_body := ds; d_bcd := d_bcd m; d_complete := false |} in
    let cm := {| d_hdr := hd; d_raw := ds; d_body := ds; d_bcd := d_bcd m; d_complete := true |} in
    (h', rec_del r2 id, m', Some cm)
  else (h, r2, m, None).

(* the loop of packageParse.parse over the unpacked messages *)
Fixpoint parse_loop (h : heap) (r : recs) (msgs : list dmsg) : heap * recs * list dmsg :=
  match msgs with
  | [] => (h, r, [])
  | m :: t =>
    let '(h1, r1, m', cm) := complete_pack h r m in
    let '(h2, r2, out) := parse_loop h1 r1 t in
    (h2, r2, m' :: (match cm with Some c => [c] | None => [] end) ++ out)
  end.

(* ---------------- the connection ---------------- *)
Record pst := { p_heap : heap; p_hist : slice; p_rec : recs }.

(* allocation 0 is curData = make([]byte, bufsz); historyData = make([]byte, 0) *)
Definition rbuf : nat := 0.
Definition init (bufsz : nat) : pst :=
  {| p_heap := [repeat 0 bufsz]; p_hist := nil_slice; p_rec := [] |}.

Inductive ev :=
| Read (data : list N) (force : bool) (newcap : nat)   (* conn.Read returned these bytes; the append oracle *)
| Close.                                               (* the deferred clear(curData); pack.clear() *)

Record sout := { o_st : pst; o_msgs : list dmsg; o_err : option N }.

Definition step (v : variant) (bufsz : nat) (st : pst) (e : ev) : sout :=
  match e with
  | Read data0 force newcap =>
    let data := firstn bufsz data0 in                       (* Read fills at most len(curData) bytes *)
    let h0 := store (p_heap st) rbuf 0 data in
    let eff := mkS rbuf 0 (length data) bufsz in            (* curData[:n] *)
    let u := unpack v h0 (p_hist st) eff force newcap in
    let '(h2, r2, out) := parse_loop (u_heap u) (p_rec st) (u_msgs u) in
    {| o_st := {| p_heap := h2; p_hist := u_hist u; p_rec := r2 |}; o_msgs := out; o_err := u_err u |}
  | Close =>
    let h1 := clear (p_heap st) (mkS rbuf 0 bufsz bufsz) in
    let h2 := clear h1 (p_hist st) in
    {| o_st := {| p_heap := h2; p_hist := p_hist st; p_rec := [] |}; o_msgs := []; o_err := None |}
  end.

Definition run (v : variant) (bufsz : nat) (evs : list ev) : pst :=
  fold_left (fun st e => o_st (step v bufsz st e)) evs (init bufsz).

(* the state after the first j events *)
Definition state_at (v : variant) (bufsz : nat) (evs : list ev) (j : nat) : pst :=
  run v bufsz (firstn j evs).

(* m is handed out by event number k (0-based) *)
Definition delivered_at (v : variant) (bufsz : nat) (evs : list ev) (k : nat) (m : dmsg) : Prop :=
  exists e, nth_error evs k = Some e /\ In m (o_msgs (step v bufsz (state_at v bufsz evs k) e)).

(* every step with what it delivered (for the oracle) *)
Fixpoint trace (v : variant) (bufsz : nat) (st : pst) (evs : list ev) : list sout :=
  match evs with
  | [] => []
  | e :: t => let o := step v bufsz st e in o :: trace v bufsz (o_st o) t
  end.

(* ---------------- value-level reading (specification side) ---------------- *)
(* The reply the writer computes for a delivered message at a later time: Header.Encode reads
   the BCD phone bytes through the slice (Frame.encode with the header's m_bcd replaced by
   what the slice denotes now). *)
Definition with_bcd (m : msg) (bcd : list N) : msg :=
  {| m_id := m_id m; m_len := m_len m; m_enc := m_enc m; m_frag := m_frag m; m_ver := m_ver m;
     m_bcd := bcd; m_serial := m_serial m; m_sum := m_sum m; m_no := m_no m;
     m_body := m_body m; m_check := m_check m |}.
Definition reply_at (h : heap) (m : dmsg) (rid ps : N) (body : list N) : list N :=
  encode (with_bcd (d_hdr m) (deref h (d_bcd m))) rid ps body.

(* ---------------- specification vocabulary ---------------- *)
(* some delivered message shows, at some later point of the history, a content different from
   the one it had when it was handed out *)
Definition changes (v : variant) (bufsz : nat) (evs : list ev) : Prop :=
  exists k m j, delivered_at v bufsz evs k m /\ (S k <= j)%nat /\
    content (p_heap (state_at v bufsz evs j)) m <> content (p_heap (state_at v bufsz evs (S k))) m.

(* ---------------- concrete histories (witnesses of the two repaired mechanisms) ---------------- *)
Definition ex_hdr : msg :=
  {| m_id := 2; m_len := 0; m_enc := 0; m_frag := 0; m_ver := 0; m_bcd := [1; 35; 69; 103; 137; 1];
     m_serial := 0; m_sum := 0; m_no := 0; m_body := []; m_check := 0 |}.
(* three escape-free frames of equal length from the same terminal *)
Definition ex_f1 : list N := encode ex_hdr 512 1 [1; 2; 3].
Definition ex_f2 : list N := encode ex_hdr 512 2 [4; 5; 6].
Definition ex_f3 : list N := encode ex_hdr 512 3 [7; 8; 9].
(* two frames in two reads: without the clone the first message lives in the read buffer *)
Definition ex_alias_evs : list ev := [Read ex_f1 false 0; Read ex_f2 false 0].
(* one frame split over two reads (buffered path, consumed completely), then two frames in one
   read: with historyData[0:0] the append writes them over the first frame *)
Definition ex_reuse_evs : list ev :=
  [Read (firstn 5 ex_f1) false 64; Read (skipn 5 ex_f1) false 64; Read (ex_f2 ++ ex_f3) false 64].
(* the same, and the connection closes *)
Definition ex_close_evs : list ev := [Read ex_f1 false 0; Close].

Definition dmsg0 : dmsg :=
  {| d_hdr := empty_msg; d_raw := nil_slice; d_body := nil_slice; d_bcd := nil_slice; d_complete := false |}.
(* the i-th message handed out by event k *)
Definition delivered_nth (v : variant) (bufsz : nat) (evs : list ev) (k i : nat) : dmsg :=
  match nth_error evs k with
  | Some e => nth i (o_msgs (step v bufsz (state_at v bufsz evs k) e)) dmsg0
  | None => dmsg0
  end.

(* Model of the automatic-reply path of one connection (C06):
     service/service.go     createDefaultHandle            -> default_handles
     protocol/model/*.go    HasReply / ReplyProtocol / ReplyBody of every registered type
                                                           -> hinfo, reply_body
     service/connection.go  reader (handler lookup, read callbacks, msgChan / reissuePackChan),
                            write (single consumer), defaultReplyEvent, subPackReplyEvent,
                            onActiveEvent (the frame it writes), curSeq,
                            onReadExecutionEvent / onWriteExecutionEvent
   The server is in its default configuration (FilterSubcontract = true).
   Definitions only; lemmas are in Proofs/Reply_proofs.v.

   Not modelled (stated as assumptions of C06): a failing conn.Write, the session join (keys are
   unique among live connections, C11), the matching of terminal responses with outstanding platform
   commands (C12; the move MAbsorb stands for "the writer handed this message to a waiting
   SendActiveMessage caller instead of answering it"), stop/teardown (C13). *)
From JT.Base Require Import Prelude.
From JT.Model Require Import Frame.

(* ------------------------------------------------------------------------------------------ *)
(* The handler table                                                                          *)
(* ------------------------------------------------------------------------------------------ *)

(* which ReplyBody method the registered type has *)
Inductive rkind :=
| RGeneral      (* BaseHandle.ReplyBody: 0x8001 with result 0 *)
| RRegister     (* T0x0100.ReplyBody: 0x8100 *)
| RAuth         (* T0x0102.ReplyBody: parse, compare auth code with the phone *)
| RMedia        (* T0x0801.ReplyBody: 0x8800 with the multimedia id *)
| RFile         (* T0x1212.ReplyBody: 0x9212 *)
| REmpty.       (* T0x1003.ReplyBody: nil, nil *)

Record hinfo := { hi_has : bool;      (* HasReply() *)
                  hi_rid : N;         (* ReplyProtocol() *)
                  hi_kind : rkind }.
Definition H (has : bool) (rid : N) (k : rkind) : hinfo := {| hi_has := has; hi_rid := rid; hi_kind := k |}.

(* createDefaultHandle, in the order of the map literal; for each id the three methods of the
   registered model type (HasReply / ReplyProtocol from BaseHandle unless overridden) *)
Definition default_handles : list (N * hinfo) := [
  (0x0001, H false 0x8001 RGeneral);   (* T0x0001: HasReply false *)
  (0x0100, H true  0x8100 RRegister);
  (0x0102, H true  0x8001 RAuth);
  (0x0002, H true  0x8001 RGeneral);
  (0x0200, H true  0x8001 RGeneral);
  (0x0704, H true  0x8001 RGeneral);
  (0x0104, H false 0      RGeneral);   (* T0x0104: ReplyProtocol 0, HasReply false *)
  (0x0805, H false 0x8001 RGeneral);
  (0x0800, H true  0x8001 RGeneral);
  (0x0801, H true  0x8800 RMedia);
  (0x8003, H false 0      RGeneral);
  (0x8103, H false 0x0001 RGeneral);
  (0x8104, H false 0x0104 RGeneral);
  (0x8801, H false 0x0805 RGeneral);
  (0x9003, H false 0x1003 RGeneral);
  (0x1003, H true  0x8001 REmpty);
  (0x1005, H true  0x8001 RGeneral);
  (0x9101, H false 0x0001 RGeneral);
  (0x9102, H false 0x0001 RGeneral);
  (0x9205, H false 0x1205 RGeneral);
  (0x1205, H false 0x8001 RGeneral);
  (0x9206, H false 0x1206 RGeneral);
  (0x1206, H false 0x8001 RGeneral);
  (0x9207, H false 0x0001 RGeneral);
  (0x9208, H false 0x0001 RGeneral);
  (0x1210, H true  0x8001 RGeneral);
  (0x1211, H true  0x8001 RGeneral);
  (0x1212, H true  0x9212 RFile) ].

Fixpoint assoc {A} (id : N) (l : list (N * A)) : option A :=
  match l with
  | [] => None
  | (k, v) :: t => if k =? id then Some v else assoc id t
  end.

(* c.handles[msg.Command] *)
Definition lookup (id : N) : option hinfo := assoc id default_handles.

Definition REISSUE : N := 0x8003.   (* consts.P8003ReissueSubcontractingRequest *)

(* ------------------------------------------------------------------------------------------ *)
(* Reply bodies                                                                               *)
(* ------------------------------------------------------------------------------------------ *)

(* what survives in the per-connection handler instances between two messages and can reach a
   reply: T0x0801.MultimediaID; T0x1212.T0x1211.{FileNameLen, FileName, FileType} *)
Record hstate := { s_mmid : N; s_fnlen : N; s_fname : list N; s_ftype : N }.
Definition hstate0 : hstate := {| s_mmid := 0; s_fnlen := 0; s_fname := []; s_ftype := 0 |}.

(* P0x8001.Encode *)
Definition general_body (serial id result : N) : list N := be_enc 2 serial ++ be_enc 2 id ++ [result].

(* T0x0102.Parse: Some auth-code, or None for "body too short" (2019 layout only) *)
Definition auth_code (m : msg) : option (list N) :=
  let body := m_body m in
  if m_ver m =? 1 then
    if len body <? 36 then None else
    let n := at_ body 0 in
    if len body <? 36 + n then None else Some (sub body 1 (1 + n))
  else Some body.

(* ReplyBody of the registered type, on the handler state [s]: new state, and the body or None
   when ReplyBody returns an error (then nothing is sent) *)
Definition reply_body (k : rkind) (s : hstate) (m : msg) : hstate * option (list N) :=
  let body := m_body m in
  match k with
  | RGeneral => (s, Some (general_body (m_serial m) (m_id m) 0))
  | RRegister => (s, Some (be_enc 2 (m_serial m) ++ [0] ++ phone_of m))
  | RAuth =>
    match auth_code m with
    | None => (s, None)
    | Some code => (s, Some (general_body (m_serial m) (m_id m)
                                           (if list_eqb (phone_of m) code then 0 else 1)))
    end
  | RMedia =>
    (* _ = t.Parse(jtMsg): a body under 36 bytes leaves the previous MultimediaID in place *)
    let s' := if len body <? 36 then s
              else {| s_mmid := be_dec (sub body 0 4); s_fnlen := s_fnlen s;
                      s_fname := s_fname s; s_ftype := s_ftype s |} in
    (s', Some (be_enc 4 (s_mmid s')))
  | RFile =>
    (* _ = t.T0x1211.Parse(jtMsg): FileNameLen is stored before the second length check *)
    let s' := if len body <? 6 then s else
              let l := at_ body 0 in
              if negb (len body =? 6 + l)
              then {| s_mmid := s_mmid s; s_fnlen := l; s_fname := s_fname s; s_ftype := s_ftype s |}
              else {| s_mmid := s_mmid s; s_fnlen := l; s_fname := sub body 1 (1 + l);
                      s_ftype := at_ body (1 + l) |} in
    (s', Some ([s_fnlen s'] ++ s_fname s' ++ [s_ftype s'; 0; 0]))
  | REmpty => (s, Some [])
  end.

(* ------------------------------------------------------------------------------------------ *)
(* Messages as delivered by packageParse.parse, frames as written                              *)
(* ------------------------------------------------------------------------------------------ *)

Record dmsg := { d_m : msg;              (* header of the (last) packet; body = the whole body *)
                 d_complete : bool;      (* ExtensionFields.SubcontractComplete *)
                 d_data : list N }.      (* ExtensionFields.TerminalData *)

(* Message.hasComplete *)
Definition has_complete (d : dmsg) : bool := (m_sum (d_m d) =? 0) || d_complete d.

Inductive wkind := WReply | WRereq | WCmd.

(* one conn.Write: the arguments of Header.Encode (the bytes are [wire_bytes]) and, as a ghost
   field, the delivered message that caused it *)
Record wire := { w_kind : wkind; w_src : option dmsg;
                 w_hdr : msg; w_rid : N; w_ps : N; w_body : list N }.
Definition wire_bytes (w : wire) : list N := encode (w_hdr w) (w_rid w) (w_ps w) (w_body w).

Inductive obs :=
| ONotSupported (d : dmsg)                    (* TerminalEventer.OnNotSupportedEvent *)
| OReadH (d : dmsg)                           (* Handler.OnReadExecutionEvent *)
| OReadE (d : dmsg)                           (* TerminalEventer.OnReadExecutionEvent *)
| OWrite (w : wire)                           (* conn.Write *)
| OWriteH (d : dmsg) (data : list N)          (* Handler.OnWriteExecutionEvent, PlatformData = data *)
| OWriteE (d : dmsg) (data : list N)          (* TerminalEventer.OnWriteExecutionEvent *)
| OAbsorb (d : dmsg).                         (* onActiveRespondEvent returned true: the message went to
                                                 the SendActiveMessage machinery instead of the reply path *)

(* ------------------------------------------------------------------------------------------ *)
(* One connection: reader goroutine, two channels, writer goroutine                           *)
(* ------------------------------------------------------------------------------------------ *)

Record conn := {
  c_pending : list dmsg;       (* delivered by parse, not yet looked at by the reader loop *)
  c_hand : option dmsg;        (* reported by the reader, waiting to be sent on its channel *)
  c_q : list dmsg;             (* msgChan (capacity 10) *)
  c_rq : list dmsg;            (* reissuePackChan (capacity 3) *)
  c_seq : N;                   (* platformSerialNumber *)
  c_h : hstate }.

Definition init (ms : list dmsg) : conn :=
  {| c_pending := ms; c_hand := None; c_q := []; c_rq := []; c_seq := 0; c_h := hstate0 |}.

Definition MSG_CAP : N := 10.
Definition REISSUE_CAP : N := 3.

Definition is_reissue (d : dmsg) : bool := m_id (d_m d) =? REISSUE.

(* every step returns the new state and what it made observable, in order *)

(* reader loop body up to the channel send: lookup, callbacks (onReadExecutionEvent filters
   incomplete packets) *)
Definition reader_look (c : conn) : conn * list obs :=
  match c_hand c, c_pending c with
  | None, d :: rest =>
    match lookup (m_id (d_m d)) with
    | None =>
      ({| c_pending := rest; c_hand := None; c_q := c_q c; c_rq := c_rq c; c_seq := c_seq c; c_h := c_h c |},
       [ONotSupported d])
    | Some _ =>
      ({| c_pending := rest; c_hand := Some d; c_q := c_q c; c_rq := c_rq c; c_seq := c_seq c; c_h := c_h c |},
       if is_reissue d then [] else if has_complete d then [OReadH d; OReadE d] else [])
    end
  | _, _ => (c, [])
  end.

(* the channel send (blocks while the channel is full) *)
Definition reader_send (c : conn) : conn * list obs :=
  match c_hand c with
  | Some d =>
    if is_reissue d then
      if len (c_rq c) <? REISSUE_CAP then
        ({| c_pending := c_pending c; c_hand := None; c_q := c_q c; c_rq := c_rq c ++ [d];
            c_seq := c_seq c; c_h := c_h c |}, [])
      else (c, [])
    else
      if len (c_q c) <? MSG_CAP then
        ({| c_pending := c_pending c; c_hand := None; c_q := c_q c ++ [d]; c_rq := c_rq c;
            c_seq := c_seq c; c_h := c_h c |}, [])
      else (c, [])
  | None => (c, [])
  end.

(* curSeq *)
Definition next_seq (s : N) : N := (s + 1) mod 65536.

(* one write by the writer goroutine: takes the current serial, then the write callbacks *)
Definition emit (c : conn) (q rq : list dmsg) (h : hstate) (w : wire) (cb : list obs) : conn * list obs :=
  ({| c_pending := c_pending c; c_hand := c_hand c; c_q := q; c_rq := rq; c_seq := next_seq (c_seq c);
      c_h := h |}, OWrite w :: cb).

Definition quiet (c : conn) (q rq : list dmsg) (h : hstate) : conn * list obs :=
  ({| c_pending := c_pending c; c_hand := c_hand c; c_q := q; c_rq := rq; c_seq := c_seq c; c_h := h |}, []).

(* case msg := <-c.msgChan with no outstanding command: defaultReplyEvent for complete messages *)
Definition writer_reply (c : conn) : conn * list obs :=
  match c_q c with
  | [] => (c, [])
  | d :: q =>
    if has_complete d then
      match lookup (m_id (d_m d)) with
      | Some hi =>
        if hi_has hi then
          match reply_body (hi_kind hi) (c_h c) (d_m d) with
          | (h', None) => quiet c q (c_rq c) h'
          | (h', Some body) =>
            let w := {| w_kind := WReply; w_src := Some d; w_hdr := d_m d; w_rid := hi_rid hi;
                        w_ps := c_seq c; w_body := body |} in
            emit c q (c_rq c) h' w [OWriteH d (wire_bytes w); OWriteE d (wire_bytes w)]
          end
        else quiet c q (c_rq c) (c_h c)
      | None => quiet c q (c_rq c) (c_h c)
      end
    else quiet c q (c_rq c) (c_h c)
  end.

(* case msg := <-c.msgChan, `len(record) > 0 && msg.hasComplete()` and onActiveRespondEvent returned
   true.  That can only happen for the message ids of its switch (terminal RESPONSES); whether it
   does depends on the outstanding platform commands and on the response's body (the matching rule is
   C12's subject, Model/Writer.v) - here the writer's choice between this move and MReply is left to
   the schedule, but the move is enabled only for a complete message with a response id *)
Definition response_ids : list N := [0x0001; 0x0104; 0x1003; 0x1205; 0x1206; 0x0805].
Definition is_response (d : dmsg) : bool := existsb (N.eqb (m_id (d_m d))) response_ids.

Definition writer_absorb (c : conn) : conn * list obs :=
  match c_q c with
  | [] => (c, [])
  | d :: q =>
    if is_response d && has_complete d
    then ({| c_pending := c_pending c; c_hand := c_hand c; c_q := q; c_rq := c_rq c; c_seq := c_seq c;
             c_h := c_h c |}, [OAbsorb d])
    else (c, [])
  end.

(* case subPackMsg := <-c.reissuePackChan: subPackReplyEvent (onWriteExecutionEvent filters
   incomplete messages) *)
Definition writer_rereq (c : conn) : conn * list obs :=
  match c_rq c with
  | [] => (c, [])
  | d :: rq =>
    let w := {| w_kind := WRereq; w_src := Some d; w_hdr := d_m d; w_rid := REISSUE;
                w_ps := c_seq c; w_body := m_body (d_m d) |} in
    emit c (c_q c) rq (c_h c) w
         (if has_complete d then [OWriteH d (wire_bytes w); OWriteE d (wire_bytes w)] else [])
  end.

(* case activeMsg := <-c.activeMsgChan: onActiveEvent writes the command with the session header
   (its completion callback belongs to C12) *)
Definition writer_cmd (c : conn) (h : msg) (cmd : N) (body : list N) : conn * list obs :=
  let w := {| w_kind := WCmd; w_src := None; w_hdr := h; w_rid := cmd; w_ps := c_seq c; w_body := body |} in
  emit c (c_q c) (c_rq c) (c_h c) w [].

Inductive move :=
| MLook | MSend                                   (* reader goroutine *)
| MReply | MAbsorb | MRereq                       (* writer goroutine, by select case *)
| MCmd (h : msg) (cmd : N) (body : list N).

(* a move that is not enabled leaves the state as it is *)
Definition step (c : conn) (mv : move) : conn * list obs :=
  match mv with
  | MLook => reader_look c
  | MSend => reader_send c
  | MReply => writer_reply c
  | MAbsorb => writer_absorb c
  | MRereq => writer_rereq c
  | MCmd h cmd body => writer_cmd c h cmd body
  end.

(* a history: the schedule [s] run from [c]; final state and everything observable, in order *)
Fixpoint final (c : conn) (s : list move) : conn :=
  match s with [] => c | mv :: t => final (fst (step c mv)) t end.
Fixpoint trace (c : conn) (s : list move) : list obs :=
  match s with
  | [] => []
  | mv :: t => let r := step c mv in snd r ++ trace (fst r) t
  end.

(* nothing left to do *)
Definition drained (c : conn) : bool :=
  match c_pending c, c_hand c, c_q c, c_rq c with [], None, [], [] => true | _, _, _, _ => false end.

(* the schedule in which every message is carried through before the next one is looked at *)
Definition seq_moves (d : dmsg) : list move := [MLook; MSend; if is_reissue d then MRereq else MReply].
Definition seq_sched (ms : list dmsg) : list move := flat_map seq_moves ms.
Definition run (ms : list dmsg) : list obs := trace (init ms) (seq_sched ms).

(* a conversation as the harness plays it: messages in delivery order, platform commands issued
   (in lock step) in between; a command is written with the header of the message that joined the
   session (the first one with a handler that is not a re-request) *)
Inductive item :=
| IMsg (d : dmsg)
| ICmd (cmd : N) (body : list N)            (* a command whose caller has its answer (time-out) before the next item *)
| IAsk (cmd : N) (body : list N) (d : dmsg).  (* a command left OUTSTANDING, then the terminal's response [d] to it:
                                               the writer hands [d] to the waiting caller (MAbsorb) *)
Definition joins (d : dmsg) : bool :=
  match lookup (m_id (d_m d)) with Some _ => negb (is_reissue d) | None => false end.
Fixpoint items_moves (h : option msg) (its : list item) : list move :=
  match its with
  | [] => []
  | IMsg d :: t =>
    seq_moves d ++ items_moves (match h with Some _ => h | None => if joins d then Some (d_m d) else None end) t
  | ICmd cmd body :: t =>
    (match h with Some hh => [MCmd hh cmd body] | None => [] end) ++ items_moves h t
  | IAsk cmd body d :: t =>
    (* without a session SendActiveMessage fails at once and [d] is an ordinary message *)
    (match h with Some hh => [MCmd hh cmd body; MLook; MSend; MAbsorb] | None => seq_moves d end)
    ++ items_moves (match h with Some _ => h | None => if joins d then Some (d_m d) else None end) t
  end.
Definition items_msgs (its : list item) : list dmsg :=
  flat_map (fun it => match it with IMsg d => [d] | ICmd _ _ => [] | IAsk _ _ d => [d] end) its.
Definition run_items (its : list item) : list obs :=
  trace (init (items_msgs its)) (items_moves None its).

(* ------------------------------------------------------------------------------------------ *)
(* Projections of a trace                                                                     *)
(* ------------------------------------------------------------------------------------------ *)
Definition writes (t : list obs) : list wire :=
  flat_map (fun o => match o with OWrite w => [w] | _ => [] end) t.
Definition is_reply_wire (w : wire) : bool := match w_kind w with WReply => true | _ => false end.
Definition replies (t : list obs) : list wire := filter is_reply_wire (writes t).
Definition srcs (ws : list wire) : list dmsg :=
  flat_map (fun w => match w_src w with Some d => [d] | None => [] end) ws.
(* what the reader goroutine reports, what the writer goroutine does *)
Definition reader_obs (t : list obs) : list obs :=
  filter (fun o => match o with ONotSupported _ | OReadH _ | OReadE _ => true | _ => false end) t.
Definition writer_obs (t : list obs) : list obs :=
  filter (fun o => match o with OWrite _ | OWriteH _ _ | OWriteE _ _ => true | _ => false end) t.
Definition read_srcs (t : list obs) : list dmsg :=
  flat_map (fun o => match o with OReadE d => [d] | _ => [] end) t.

(* ------------------------------------------------------------------------------------------ *)
(* Specification side (DESIGN appendix B.6, written from the standard and the property text)   *)
(* ------------------------------------------------------------------------------------------ *)
Definition mem (x : N) (l : list N) : bool := existsb (N.eqb x) l.

(* the reply type defined for a terminal message id; None: no automatic reply *)
Definition std_reply_id (id : N) : option N :=
  if mem id [0x0002; 0x0200; 0x0704; 0x0800; 0x1005; 0x1210; 0x1211; 0x0102; 0x1003] then Some 0x8001
  else if id =? 0x0100 then Some 0x8100
  else if id =? 0x0801 then Some 0x8800
  else if id =? 0x1212 then Some 0x9212
  else None.

(* ids with a default handler *)
Definition std_registered (id : N) : bool :=
  mem id [0x0001; 0x0002; 0x0100; 0x0102; 0x0104; 0x0200; 0x0704; 0x0800; 0x0801; 0x0805;
          0x1003; 0x1005; 0x1205; 0x1206; 0x1210; 0x1211; 0x1212;
          0x8003; 0x8103; 0x8104; 0x8801; 0x9003; 0x9101; 0x9102; 0x9205; 0x9206; 0x9207; 0x9208].

(* a 2019-layout 0x0102 too short for its fixed fields is logged and not answered *)
Definition auth_too_short (m : msg) : bool :=
  (m_id m =? 0x0102) && (m_ver m =? 1) &&
  ((len (m_body m) <? 36) || (len (m_body m) <? 36 + at_ (m_body m) 0)).

(* the delivered message gets an automatic reply *)
Definition answered (d : dmsg) : bool :=
  has_complete d &&
  match std_reply_id (m_id (d_m d)) with Some _ => negb (auth_too_short (d_m d)) | None => false end.

(* the delivered message is reported to the read callbacks *)
Definition handled (d : dmsg) : bool :=
  std_registered (m_id (d_m d)) && negb (is_reissue d) && has_complete d.

(* the body is well formed for its type as far as the reply needs it *)
Definition body_wf (m : msg) : bool :=
  if m_id m =? 0x0801 then 36 <=? len (m_body m)
  else if m_id m =? 0x1212 then (6 <=? len (m_body m)) && (len (m_body m) =? 6 + at_ (m_body m) 0)
  else true.

(* the reply body the property prescribes *)
Definition std_body (m : msg) : list N :=
  let id := m_id m in let body := m_body m in
  if id =? 0x0100 then be_enc 2 (m_serial m) ++ [0] ++ phone_of m                       (* serial, success, auth code *)
  else if id =? 0x0801 then sub body 0 4                                                  (* multimedia id *)
  else if id =? 0x1212 then sub body 0 (2 + at_ body 0) ++ [0; 0]                         (* name, type, complete, 0 ranges *)
  else if id =? 0x1003 then []
  else if id =? 0x0102 then
    let code := if m_ver m =? 1 then sub body 1 (1 + at_ body 0) else body in
    be_enc 2 (m_serial m) ++ be_enc 2 id ++ [if list_eqb (phone_of m) code then 0 else 1]
  else be_enc 2 (m_serial m) ++ be_enc 2 id ++ [0].

(* the frame written for [d] is the reply the property prescribes *)
Definition reply_ok (w : wire) : Prop :=
  match w_src w with
  | Some d =>
    w_hdr w = d_m d /\ Some (w_rid w) = std_reply_id (m_id (d_m d)) /\
    (body_wf (d_m d) = true -> bytes (m_body (d_m d)) -> w_body w = std_body (d_m d))
  | None => False
  end.

(* the k-th platform serial *)
Definition serial_no (k : nat) : N := N.of_nat k mod 65536.

(* what the reader goroutine has to report for a delivered message *)
Definition read_report (d : dmsg) : list obs :=
  if negb (std_registered (m_id (d_m d))) then [ONotSupported d]
  else if handled d then [OReadH d; OReadE d] else [].

(* a write and the write callbacks that have to follow it: both, with the bytes actually sent, for
   a frame caused by a complete terminal message; none for a platform command (C12) *)
Definition wire_report (w : wire) : list obs :=
  OWrite w ::
  match w_kind w, w_src w with
  | WCmd, _ => []
  | _, None => []
  | _, Some d => if has_complete d then [OWriteH d (wire_bytes w); OWriteE d (wire_bytes w)] else []
  end.

(* schedules in which the writer never hands a message to a waiting SendActiveMessage caller (C12) *)
Definition no_absorb (s : list move) : bool :=
  forallb (fun mv => match mv with MAbsorb => false | _ => true end) s.

(* the reader has nothing left to report *)
Definition reader_done (c : conn) : bool :=
  match c_pending c, c_hand c with [], None => true | _, _ => false end.

(* messages the writer handed to the SendActiveMessage machinery *)
Definition absorbed (t : list obs) : list dmsg :=
  flat_map (fun o => match o with OAbsorb d => [d] | _ => [] end) t.

(* in the order the writer dealt with them: the answered messages that got their automatic reply or
   were absorbed *)
Definition outcomes (t : list obs) : list dmsg :=
  flat_map (fun o => match o with
                     | OWrite w => if is_reply_wire w then srcs [w] else []
                     | OAbsorb d => if answered d then [d] else []
                     | _ => []
                     end) t.

Definition not_1003 (d : dmsg) : Prop := m_id (d_m d) <> 0x1003.

(* conversations whose outstanding commands are answered by something the writer can absorb *)
Definition asks_ok (its : list item) : bool :=
  forallb (fun it => match it with IAsk _ _ d => is_response d && has_complete d | _ => true end) its.
Definition no_asks (its : list item) : bool :=
  forallb (fun it => match it with IAsk _ _ _ => false | _ => true end) its.

(* ------------------------------------------------------------------------------------------ *)
(* Any number of connections                                                                  *)
(* ------------------------------------------------------------------------------------------ *)
(* service.go Run: every accepted connection gets its own handler map from createDefaultHandle() and
   its own `connection` (channels, platformSerialNumber): the state of the server's reply path is the
   list of the connections' states, a global move is a move of ONE connection, and that connection's
   [step] sees and changes its own component only. *)
Fixpoint upd {A} (l : list A) (i : nat) (x : A) : list A :=
  match l, i with
  | [], _ => []
  | _ :: t, O => x :: t
  | y :: t, S j => y :: upd t j x
  end.

Definition gstep (cs : list conn) (g : nat * move) : list conn * list (nat * obs) :=
  match nth_error cs (fst g) with
  | Some c => let r := step c (snd g) in (upd cs (fst g) (fst r), map (fun o => (fst g, o)) (snd r))
  | None => (cs, [])
  end.
Fixpoint gfinal (cs : list conn) (s : list (nat * move)) : list conn :=
  match s with [] => cs | g :: t => gfinal (fst (gstep cs g)) t end.
Fixpoint gtrace (cs : list conn) (s : list (nat * move)) : list (nat * obs) :=
  match s with
  | [] => []
  | g :: t => let r := gstep cs g in snd r ++ gtrace (fst r) t
  end.
(* what connection [i] did in a global history, what was observed on connection [i] *)
Definition proj_moves (i : nat) (s : list (nat * move)) : list move :=
  flat_map (fun g => if Nat.eqb (fst g) i then [snd g] else []) s.
Definition proj_obs (i : nat) (t : list (nat * obs)) : list obs :=
  flat_map (fun g => if Nat.eqb (fst g) i then [snd g] else []) t.

(* C03 — common parts of the message-body decoder models (protocol/model/*.go outside the location
   family): the value universe the decoders produce, fixed-layout field readers, record loops.
   DEFINITIONS ONLY.  Everything reads the body through the checked primitives of Base/Prelude.v
   (idx / slice / slice_from / be_at: Panic beyond len, i.e. Go with cap = len).

   A parsed message is a `val`: the exported members of the Go struct in declaration order
   (numbers, strings/byte slices, nested structs and lists), which is what the harness dumps by
   reflection.  A returned Go error is Err E_LEN (every error of these decoders is
   protocol.ErrBodyLengthInconsistency). *)
From JT.Base Require Import Prelude.
From JT.Model Require Import Location LocationExt.

Inductive val :=
| VN (n : N)                 (* byte / uint16 / uint32 / uint64 / enumeration *)
| VS (s : list N)            (* string / []byte / [n]byte *)
| VL (l : list val).         (* struct (members in declaration order) / slice of values *)

(* ---- one member read from the body at a constant offset relative to `base` ---- *)
Inductive fkind :=
| KByte        (* body[o]                                      -> number *)
| KNum         (* binary.BigEndian.UintNN(body[o:o+w])          -> number *)
| KNumFrom     (* binary.BigEndian.UintNN(body[o:]) (w bytes)   -> number *)
| KTime        (* utils.BCD2Time(body[o:o+w])                   -> text *)
| KRaw         (* string(body[o:o+w]) / body[o:o+w]             -> text *)
| KRawFrom.    (* string(body[o:]) / body[o:]  (w = 0)          -> text *)

Record field := { f_off : N; f_w : N; f_kind : fkind }.
Definition fbyte (o : N) : field := {| f_off := o; f_w := 1; f_kind := KByte |}.
Definition fnum (o w : N) : field := {| f_off := o; f_w := w; f_kind := KNum |}.
Definition fnumfrom (o w : N) : field := {| f_off := o; f_w := w; f_kind := KNumFrom |}.
Definition ftime (o : N) : field := {| f_off := o; f_w := 6; f_kind := KTime |}.
Definition fraw (o w : N) : field := {| f_off := o; f_w := w; f_kind := KRaw |}.
Definition frawfrom (o : N) : field := {| f_off := o; f_w := 0; f_kind := KRawFrom |}.

(* binary.BigEndian.UintNN(b): `_ = b[w-1]` panics on a short slice, a longer one is read at its
   first w bytes *)
Definition uint_of (w : N) (b : list N) : result N :=
  if len b <? w then Panic else Ok (be_dec (firstn (N.to_nat w) b)).

Definition read_field (base : N) (body : list N) (f : field) : result val :=
  let o := base + f_off f in
  match f_kind f with
  | KByte => b <- idx body o ;; Ok (VN b)
  | KNum => s <- slice body o (o + f_w f) ;; Ok (VN (be_dec s))
  | KNumFrom => s <- slice_from body o ;; v <- uint_of (f_w f) s ;; Ok (VN v)
  | KTime => s <- slice body o (o + f_w f) ;; Ok (VS (bcd2time s))
  | KRaw => s <- slice body o (o + f_w f) ;; Ok (VS s)
  | KRawFrom => s <- slice_from body o ;; Ok (VS s)
  end.

Fixpoint read_fields (base : N) (body : list N) (fs : list field) : result (list val) :=
  match fs with
  | [] => Ok []
  | f :: r => v <- read_field base body f ;; vs <- read_fields base body r ;; Ok (v :: vs)
  end.

(* ---- the one length guard of a fixed-layout Parse ---- *)
Inductive guard := GEq (n : N) (* len(body) != n -> error *) | GGe (n : N) (* len(body) < n -> error *).
Definition guard_ok (g : guard) (l : N) : bool := match g with GEq n => l =? n | GGe n => n <=? l end.
Definition guard_n (g : guard) : N := match g with GEq n => n | GGe n => n end.

(* a straight-line Parse: one guard, then every member from a constant offset *)
Definition fixed_parse (g : guard) (fs : list field) (body : list N) : result val :=
  if guard_ok g (len body) then vs <- read_fields 0 body fs ;; Ok (VL vs) else Err E_LEN.

(* the static check: every member lies inside the guarded length *)
Definition field_ok (n : N) (f : field) : bool :=
  match f_kind f with
  | KByte => f_off f <? n
  | _ => f_off f + f_w f <=? n
  end.
Definition layout_ok (g : guard) (fs : list field) : bool := forallb (field_ok (guard_n g)) fs.

(* ---- count-driven loop over records of `stride` bytes starting at `start`:
        for i := 0; i < n; i++ { read the members at start + stride*i } ---- *)
Fixpoint rec_loop (n : nat) (i : N) (body : list N) (start stride : N) (fs : list field)
  : result (list (list val)) :=
  match n with
  | O => Ok []
  | S n' =>
    v <- read_fields (start + stride * i) body fs ;;
    r <- rec_loop n' (i + 1) body start stride fs ;;
    Ok (v :: r)
  end.

Definition flat (l : list (list val)) : list val := map (fun r => hd (VN 0) r) l.   (* []uint16 / []uint32 *)
Definition structs (l : list (list val)) : list val := map VL l.                      (* []struct *)

(* ---- text helpers ---- *)
(* bytes.TrimRight(s, "\x00") *)
Definition trim_right0 (l : list N) : list N := rev (strip_zeros (rev l)).

(* bytes.IndexByte(data, 0): data[:index] when found, data otherwise *)
Fixpoint until_zero (l : list N) : list N :=
  match l with
  | [] => []
  | b :: t => if b =? 0 then [] else b :: until_zero t
  end.

(* utils.String2FillingBytes(text, size) *)
Definition fill_bytes (s : list N) (size : N) : list N :=
  if len s <? size then s ++ repeat 0 (N.to_nat (size - len s))
  else firstn (N.to_nat size) s.

(* members of a val used as the previous receiver *)
Definition vnth (i : nat) (v : val) : val := match v with VL l => nth i l (VL []) | _ => VL [] end.
Definition vnum (v : val) : N := match v with VN n => n | _ => 0 end.
Definition vstr (v : val) : list N := match v with VS s => s | _ => [] end.

(* What the handlers of a connection in its default configuration see of sub-packaged messages:
   the messages delivered by packageParse.parse (Model/Subpkg.v) handed to the reader loop of
   Model/Reply.v (builder "reply", C06), whose onReadExecutionEvent filters incomplete packets.
   Definitions only; Proofs/Subpkg_handlers.v, Props/C05.v. *)
From JT.Base Require Import Prelude.
From JT.Model Require Import Frame Unpack Subpkg.
From JT.Model Require Reply.

(* a message delivered by parse as the reader loop receives it *)
Definition dmsg_of (p : pmsg) : Reply.dmsg :=
  {| Reply.d_m := p_msg p; Reply.d_complete := p_complete p; Reply.d_data := p_raw p |}.

(* the bodies shown to TerminalEventer.OnReadExecutionEvent for sub-packaged messages of id X *)
Definition handler_bodies (X : N) (obs : list Reply.obs) : list (list N) :=
  flat_map (fun o => match o with
                     | Reply.OReadE d =>
                       if (m_id (Reply.d_m d) =? X) && negb (m_sum (Reply.d_m d) =? 0)
                       then [m_body (Reply.d_m d)] else []
                     | _ => []
                     end) obs.

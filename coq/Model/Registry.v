(* C11 — the session registry (service/session_manager.go, the join/leave part of
   service/connection.go).  DEFINITIONS ONLY.

   One goroutine (sessionManager.run) applies closures to the map key -> session one
   at a time, in channel order; join/leave/write each block their caller until the
   closure has run.  The model therefore has ONE atomic step per manager operation
   (that is the design of the code, see DESIGN.md section 3); a schedule is the order
   in which the operations of all connections and callers reach the manager, and
   [Sched.run] skips operations that the program order of a connection does not allow
   (a connection joins at most once, leaves exactly once, ...).  Quantifying over all
   [list choice] is quantifying over every interleaving of every number of
   connections and callers.

   Mechanism mirrored:
     join   session_manager.go:44-65   key exists -> _errKeyExist, else record[key] = session
     leave  session_manager.go:67-77   delete(record, key), synchronously
     write  session_manager.go:79-94   record[key] -> that connection's activeMsgChan, else ErrNotExistKey
     reader connection.go:111-124      join on the first handled message while !join; c.key only on success;
                                       OnJoinEvent(msg, key, err); return (-> stop) on _errKeyExist
     stop   connection.go              if c.joined { leaveFunc(c.key) }; OnLeaveEvent(c.key)   (c.key = "" if never joined)
                                       (fix 8f7d690; before it leaveFunc(c.key) was unconditional: [step_before_fix])

   Keys are numbers; 0 stands for the empty string "" (the zero value of c.key). *)
From Coq Require Import List NArith Bool.
From JT.Base Require Import Sched.
Import ListNotations.
Open Scope N_scope.

Definition key := N.
Definition conn := nat.            (* index in accept order *)

Inductive cstate :=
| CNew                (* accepted, join = false, c.key = "" *)
| CJoined (k : key)   (* join = true, c.key = k *)
| CRefused            (* join returned _errKeyExist: the reader is returning, c.key = "" *)
| CDone.              (* stop() has run *)

Record st := {
  reg : list (key * conn);     (* record map[string]*session: at most one entry per key (insert only when absent) *)
  conns : list cstate;         (* every connection accepted so far *)
  ncall : N;                   (* number of SendActiveMessage calls so far (names the callers) *)
}.

Definition init : st := {| reg := []; conns := []; ncall := 0 |}.

Inductive choice :=
| Connect                       (* AcceptTCP: a new connection *)
| FirstMsg (c : conn) (k : key) (* a handled message on a connection with join = false, KeyFunc = (k, true) *)
| BadKeyMsg (c : conn)          (* ... KeyFunc = (_, false): _errKeyInvalid, join stays false *)
| Msg (c : conn)                (* any later message on a joined connection: no manager operation *)
| Stop (c : conn)               (* the reader returns for whatever reason: stop() *)
| Send (k : key).               (* GoJT808.SendActiveMessage with Key = k *)

Inductive obs :=
| OJoin (c : conn) (k : key) (e : N)   (* OnJoinEvent(msg, k, err): e = 0 nil | 1 _errKeyExist | 2 _errKeyInvalid *)
| OLeave (c : conn) (k : key)          (* OnLeaveEvent(k) *)
| ORouted (caller : N) (c : conn)      (* the command was handed to connection c (its activeMsgChan) *)
| ONotExist (caller : N).              (* the call returned ErrNotExistKey *)

Fixpoint lookup (k : key) (r : list (key * conn)) : option conn :=
  match r with
  | [] => None
  | (k', c) :: t => if k' =? k then Some c else lookup k t
  end.

Definition del (k : key) (r : list (key * conn)) : list (key * conn) :=
  filter (fun p => negb (fst p =? k)) r.

Fixpoint set_nth {A} (n : nat) (x : A) (l : list A) : list A :=
  match n, l with
  | _, [] => []
  | O, _ :: t => x :: t
  | S n', a :: t => a :: set_nth n' x t
  end.

(* the key a connection leaves with: c.key *)
Definition ckey (s : cstate) : key := match s with CJoined k => k | _ => 0 end.

(* what the end of a connection in state cs does to the map.  guarded = the code as it is (a connection
   that never joined does not call leave); not guarded = the code before fix 8f7d690, where every ending
   connection called leave(c.key), a never-joined or refused one therefore leave("") *)
Definition leave_reg (guarded : bool) (cs : cstate) (r : list (key * conn)) : list (key * conn) :=
  match cs with
  | CJoined k => del k r
  | _ => if guarded then r else del 0 r
  end.

Definition step_v (guarded : bool) (s : st) (ch : choice) : option (st * list obs) :=
  match ch with
  | Connect =>
      Some ({| reg := reg s; conns := conns s ++ [CNew]; ncall := ncall s |}, [])
  | FirstMsg c k =>
      match nth_error (conns s) c with
      | Some CNew =>
          match lookup k (reg s) with
          | Some _ =>   (* refused; the first owner is not touched *)
              Some ({| reg := reg s; conns := set_nth c CRefused (conns s); ncall := ncall s |},
                    [OJoin c k 1])
          | None =>
              Some ({| reg := (k, c) :: reg s; conns := set_nth c (CJoined k) (conns s); ncall := ncall s |},
                    [OJoin c k 0])
          end
      | _ => None
      end
  | BadKeyMsg c =>
      match nth_error (conns s) c with
      | Some CNew => Some (s, [OJoin c 0 2])
      | _ => None
      end
  | Msg c =>
      match nth_error (conns s) c with
      | Some (CJoined _) => Some (s, [])
      | _ => None
      end
  | Stop c =>
      match nth_error (conns s) c with
      | Some CDone | None => None
      | Some cs =>
          Some ({| reg := leave_reg guarded cs (reg s); conns := set_nth c CDone (conns s); ncall := ncall s |},
                [OLeave c (ckey cs)])
      end
  | Send k =>
      let i := ncall s in
      let s' := {| reg := reg s; conns := conns s; ncall := i + 1 |} in
      match lookup k (reg s) with
      | Some c => Some (s', [ORouted i c])
      | None => Some (s', [ONotExist i])
      end
  end.

Definition step := step_v true.
Definition step_before_fix := step_v false.

Definition run_reg := run step.

(* ---------------- what the property talks about ---------------- *)

(* connection c is live and joined with key k *)
Definition owner (s : st) (c : conn) (k : key) : Prop := nth_error (conns s) c = Some (CJoined k).

(* the callbacks one connection sees, in order *)
Inductive cb := CbJoin (k : key) (e : N) | CbLeave (k : key).
Fixpoint callbacks (c : conn) (tr : list obs) : list cb :=
  match tr with
  | [] => []
  | OJoin c' k e :: t => if Nat.eqb c' c then CbJoin k e :: callbacks c t else callbacks c t
  | OLeave c' k :: t => if Nat.eqb c' c then CbLeave k :: callbacks c t else callbacks c t
  | _ :: t => callbacks c t
  end.

(* the life of a connection as its callbacks must show it: any number of invalid-key
   notices, then either join(k, nil) and finally leave(k), or join(k, exist) and
   leave(""), or (never joined) leave(""); nothing after the leave *)
Fixpoint cb_run (s : cstate) (l : list cb) : option cstate :=
  match l with
  | [] => Some s
  | CbJoin k e :: t =>
      match s with
      | CNew => if e =? 0 then cb_run (CJoined k) t
                else if e =? 1 then cb_run CRefused t
                else if (e =? 2) && (k =? 0) then cb_run CNew t else None
      | _ => None
      end
  | CbLeave k :: t =>
      match s with
      | CDone => None
      | _ => if k =? ckey s then cb_run CDone t else None
      end
  end.

(* ---------------- linearisation search for trace validation (used by the oracle driver) ----------------
   [explains ops expected]: running exactly the operations [ops] (all must be enabled) from [s]
   yields exactly the observations [expected]. *)
Fixpoint explains (s : st) (ops : list choice) : option (list obs) :=
  match ops with
  | [] => Some []
  | c :: t =>
      match step s c with
      | None => None
      | Some (s', o) => match explains s' t with Some o' => Some (o ++ o') | None => None end
      end
  end.

(* Model of the vendor (active-safety) extension items of a location report:
     t_0x0200_addition_extensions.go  T0x0200AdditionExtension0x64/65/66/67/70.Parse,
                                      T0x0200ExtensionSBBase.parse, T0x0200ExtensionTable18.parse
     p_0x9208.go                      P9208AlarmSign.parse / getTerminalIDLen / getAlarmSignLen
   (tree after the fix: commits of known_findings.json).  DEFINITIONS ONLY.
   The handlers are exported and take (id, content); the receiver is an input because the dialect
   (ActiveSafetyType) lives in it and is never written by Parse.  `Err 0` = the handler declines
   (returns ok = false).
   0x66 is modelled with the bytes that lie behind the content slice (`tail`: the spare capacity),
   because the code reads the last list entry one byte beyond len(content) (pinned by
   TestT0x0200AdditionExtension/苏标_0x66, known finding C03/ext66-overread): with tail = []
   (cap = len) that read is a panic, otherwise its value depends on the tail. *)
From JT.Base Require Import Prelude.
From JT.Model Require Import Location.
From Coq Require Import String.

Definition E_DECLINE : N := 0.

(* consts.ActiveSafetyType: 1 JS, 2 HLJ, 3 GD, 4 HN, 5 SC, 6 BJ; anything else takes the default *)
Definition dialect_widths : list (N * (N * N)) :=   (* type -> (terminal id length, alarm sign length) *)
  [(1, (7, 16)); (2, (30, 38)); (3, (30, 40)); (4, (7, 32)); (5, (30, 39))].
Definition tid_len (d : N) : N := match lookup d dialect_widths with Some p => fst p | None => 7 end.
Definition sign_len (d : N) : N := match lookup d dialect_widths with Some p => snd p | None => 16 end.

(* bytes.Trim(s, "\x00") *)
Fixpoint strip_zeros (l : list N) : list N :=
  match l with
  | [] => []
  | b :: t => if b =? 0 then strip_zeros t else l
  end.
Definition trim0 (l : list N) : list N := rev (strip_zeros (rev (strip_zeros l))).

Record asign := { s_dialect : N; s_tid : list N; s_time : list N; s_serial : N; s_attach : N;
                  s_reserve : list N }.
Definition fresh_asign (d : N) : asign :=
  {| s_dialect := d; s_tid := []; s_time := []; s_serial := 0; s_attach := 0; s_reserve := [] |}.

(* P9208AlarmSign.parse *)
Definition asign_parse (r : asign) (data : list N) : result asign :=
  let n := tid_len (s_dialect r) in
  if len data <? n + 8 then Ok (fresh_asign (s_dialect r)) else
  tid <- slice data 0 n ;;
  tm <- slice data n (n + 6) ;;
  ser <- idx data (n + 6) ;;
  att <- idx data (n + 7) ;;
  res <- (if n + 8 <=? len data then slice_from data (n + 8) else Ok (s_reserve r)) ;;
  Ok {| s_dialect := s_dialect r; s_tid := trim0 tid; s_time := bcd2time tm; s_serial := ser;
        s_attach := att; s_reserve := res |}.

Definition table18_fields : list string :=
  ["OriginalValue" (* uint16, slot 0 unused *); "ACC"; "LeftTurn"; "RightTurn"; "Wipers"; "Brake";
   "Card"; "Location"]%string.
(* T0x0200ExtensionTable18.parse (16-character string) *)
Definition table18_table : list (N * N) := [(15,1); (14,2); (13,3); (12,4); (11,5); (10,6); (5,7)].

Record sbbase := { sb_speed : N; sb_alt : N; sb_lat : N; sb_lon : N; sb_time : list N;
                   sb_status : N; sb_flags : list bool; sb_sign : asign; sb_ok : bool }.
Definition fresh_sbbase (d : N) : sbbase :=
  {| sb_speed := 0; sb_alt := 0; sb_lat := 0; sb_lon := 0; sb_time := []; sb_status := 0;
     sb_flags := repeat false 8; sb_sign := fresh_asign d; sb_ok := false |}.

(* T0x0200ExtensionSBBase.parse *)
Definition sbbase_parse (r : sbbase) (data : list N) : result sbbase :=
  sp <- idx data 0 ;;
  alt <- be_at data 1 2 ;;
  lat <- be_at data 3 4 ;;
  lon <- be_at data 7 4 ;;
  tm <- slice data 11 17 ;;
  st <- be_at data 17 2 ;;
  fl <- flags_parse table18_table (bin_str 16 st) (repeat false 8) ;;
  sg <- slice data 19 35 ;;
  sign <- asign_parse (sb_sign r) sg ;;
  Ok {| sb_speed := sp; sb_alt := alt; sb_lat := lat; sb_lon := lon; sb_time := bcd2time tm;
        sb_status := st; sb_flags := fl; sb_sign := sign; sb_ok := true |}.

(* one record for the five handlers: the type-specific scalar members in declaration order are
   e_fields; e_cnt / e_list are 0x66's AlarmOrEventCount / AlarmOrEventList (each entry
   [location; type; pressure; temperature; battery]) *)
Record ext := { e_aid : N; e_flag : N; e_fields : list N; e_base : sbbase; e_cnt : N;
                e_list : list (list N) }.
Definition fresh_ext (d : N) : ext :=
  {| e_aid := 0; e_flag := 0; e_fields := []; e_base := fresh_sbbase d; e_cnt := 0; e_list := [] |}.
Definition ext_dialect (r : ext) : N := s_dialect (sb_sign (e_base r)).

Definition ext64_parse (r : ext) (id : N) (c : list N) : result ext :=
  if (id =? 100) && (len c =? 47) then
    aid <- be_at c 0 4 ;; fl <- idx c 4 ;; ty <- idx c 5 ;; lv <- idx c 6 ;; ps <- idx c 7 ;;
    pd <- idx c 8 ;; dv <- idx c 9 ;; rt <- idx c 10 ;; rd <- idx c 11 ;;
    sb <- slice c 12 47 ;;
    base <- sbbase_parse (e_base r) sb ;;
    Ok {| e_aid := aid; e_flag := fl; e_fields := [ty; lv; ps; pd; dv; rt; rd]; e_base := base;
          e_cnt := 0; e_list := [] |}
  else Err E_DECLINE.

Definition ext65_parse (r : ext) (id : N) (c : list N) : result ext :=
  if (id =? 101) && (len c =? 47) then
    aid <- be_at c 0 4 ;; fl <- idx c 4 ;; ty <- idx c 5 ;; lv <- idx c 6 ;; fa <- idx c 7 ;;
    rs <- slice c 8 12 ;;
    sb <- slice c 12 47 ;;
    base <- sbbase_parse (e_base r) sb ;;
    Ok {| e_aid := aid; e_flag := fl; e_fields := [ty; lv; fa] ++ rs; e_base := base;
          e_cnt := 0; e_list := [] |}
  else Err E_DECLINE.

(* binary.BigEndian.Uint16(content[i:i+2]) where the slice may reach into the spare capacity *)
Definition be16_cap (c tail : list N) (i : N) : result N :=
  s <- slice (c ++ tail) i (i + 2) ;; Ok (be_dec s).

Fixpoint ext66_items (n : nat) (c tail : list N) (start : N) : result (list (list N)) :=
  match n with
  | O => Ok []
  | S n' =>
    lo <- idx c start ;;
    ty <- be16_cap c tail (start + 1) ;;
    pr <- be16_cap c tail (start + 3) ;;
    te <- be16_cap c tail (start + 5) ;;
    ba <- be16_cap c tail (start + 7) ;;
    rest <- ext66_items n' c tail (start + 9) ;;
    Ok ([lo; ty; pr; te; ba] :: rest)
  end.

Definition ext66_parse (r : ext) (id : N) (c tail : list N) : result ext :=
  if (id =? 102) && (40 <? len c) then
    aid <- be_at c 0 4 ;; fl <- idx c 4 ;;
    sb <- slice c 5 40 ;;
    base <- sbbase_parse (e_base r) sb ;;
    cnt <- idx c 40 ;;
    if len c =? 40 + cnt * 9 then
      lst <- ext66_items (N.to_nat cnt) c tail 41 ;;     (* the list is reset before the loop *)
      Ok {| e_aid := aid; e_flag := fl; e_fields := []; e_base := base; e_cnt := cnt; e_list := lst |}
    else Err E_DECLINE
  else Err E_DECLINE.

Definition ext67_parse (r : ext) (id : N) (c : list N) : result ext :=
  if (id =? 103) && (len c =? 41) then
    aid <- be_at c 0 4 ;; fl <- idx c 4 ;; ty <- idx c 5 ;;
    sb <- slice c 6 41 ;;
    base <- sbbase_parse (e_base r) sb ;;
    Ok {| e_aid := aid; e_flag := fl; e_fields := [ty]; e_base := base; e_cnt := 0; e_list := [] |}
  else Err E_DECLINE.

Definition ext70_parse (r : ext) (id : N) (c : list N) : result ext :=
  if (id =? 112) && (len c =? 47) then
    aid <- be_at c 0 4 ;; fl <- idx c 4 ;; ty <- idx c 5 ;;
    tt <- be_at c 6 2 ;; t1 <- be_at c 8 2 ;; t2 <- be_at c 10 2 ;;
    sb <- slice c 12 47 ;;
    base <- sbbase_parse (e_base r) sb ;;
    Ok {| e_aid := aid; e_flag := fl; e_fields := [ty; tt; t1; t2]; e_base := base;
          e_cnt := 0; e_list := [] |}
  else Err E_DECLINE.

(* dispatch used by the oracle driver and the theorems: kind = 0x64 0x65 0x66 0x67 0x70 *)
Definition ext_parse (kind : N) (r : ext) (id : N) (c tail : list N) : result ext :=
  if kind =? 100 then ext64_parse r id c
  else if kind =? 101 then ext65_parse r id c
  else if kind =? 102 then ext66_parse r id c tail
  else if kind =? 103 then ext67_parse r id c
  else ext70_parse r id c.

(* P9208AlarmSign.String: `[%012x]` of Time2BCD(p.Time) — no re-slicing; the renderers of the
   extension values are total because they only format numbers.  The one computed part: *)
Definition asign_render (s : asign) : list N := time2bcd (s_time s).

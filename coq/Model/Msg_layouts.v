(* C07 — the fixed layouts as TABLES (field, offset, width, kind), next to the formats of Model/Msg_simple.v and
   Model/Msg_location.v that they describe.  DEFINITIONS ONLY.

   A table is what the translator reads off the straight-line Parse / Encode of a fixed-layout type
   (coq/Gen/Tables_gen.v, gen_layout_<T>_parse / _encode); [layout_fields] turns a table back into the field list of a
   format, so Gen/TablesOk_layouts.v can state, per type: regenerated Parse table = regenerated Encode table = this
   table, the table is contiguous from offset 0, its total width is the guard constant and the encoded length, its names
   are the struct's fields in declaration order (= the order of the value tuple), and the model's format IS the
   format of this table.  kind 0 = big-endian unsigned of that width, 1 = BCD time (six bytes). *)
From JT.Base Require Import Prelude Fmt.
From JT.Model Require Import Msg_simple Msg_location.
From Coq Require Import String.

Definition layout := list (string * N * N * N).
Definition e_name (e : string * N * N * N) : string := match e with (n, _, _, _) => n end.
Definition e_width (e : string * N * N * N) : N := match e with (_, _, w, _) => w end.

Definition entry_fmt (e : string * N * N * N) : fmt val :=
  match e with (_, _, w, k) => if k =? 1 then vtime else vN (ube (N.to_nat w)) end.
Definition layout_fields (l : layout) : list field := map (fun e => fun _ : list val => entry_fmt e) l.
Definition layout_width (l : layout) : N := nsum (map e_width l).
(* offsets are the running sum of the widths, a time entry is six bytes wide *)
Fixpoint layout_contig (off : N) (l : layout) : bool :=
  match l with
  | [] => true
  | (_, o, w, k) :: t => (o =? off) && (if k =? 1 then w =? 6 else true) && layout_contig (off + w) t
  end.

Definition lay_0001 : layout := [("SerialNumber", 0, 2, 0); ("ID", 2, 2, 0); ("Result", 4, 1, 0)]%string.
Definition lay_8001 : layout := [("RespondSerialNumber", 0, 2, 0); ("RespondID", 2, 2, 0); ("Result", 4, 1, 0)]%string.
Definition lay_0800 : layout :=
  [("MultimediaID", 0, 4, 0); ("MultimediaType", 4, 1, 0); ("MultimediaFormatEncode", 5, 1, 0);
   ("EventItemEncode", 6, 1, 0); ("ChannelID", 7, 1, 0)]%string.
Definition lay_1003 : layout :=
  [("EnterAudioEncoding", 0, 1, 0); ("EnterAudioChannelsNumber", 1, 1, 0); ("EnterAudioSampleRate", 2, 1, 0);
   ("EnterAudioSampleDigits", 3, 1, 0); ("AudioFrameLength", 4, 2, 0); ("HasSupportedAudioOutput", 6, 1, 0);
   ("VideoEncoding", 7, 1, 0); ("TerminalSupportedMaxNumberOfAudioPhysicalChannels", 8, 1, 0);
   ("TerminalSupportedMaxNumberOfVideoPhysicalChannels", 9, 1, 0)]%string.
Definition lay_1005 : layout :=
  [("StartTime", 0, 6, 1); ("EndTime", 6, 6, 1); ("BoardNumber", 12, 2, 0); ("AlightNumber", 14, 2, 0)]%string.
Definition lay_1206 : layout := [("RespondSerialNumber", 0, 2, 0); ("Result", 2, 1, 0)]%string.
Definition lay_8801 : layout :=
  [("ChannelID", 0, 1, 0); ("ShootCommand", 1, 2, 0); ("PhotoIntervalOrVideoTime", 3, 2, 0); ("SaveFlag", 5, 1, 0);
   ("Resolution", 6, 1, 0); ("VideoQuality", 7, 1, 0); ("Intensity", 8, 1, 0); ("Contrast", 9, 1, 0);
   ("Saturation", 10, 1, 0); ("Chroma", 11, 1, 0)]%string.
Definition lay_9102 : layout :=
  [("ChannelNo", 0, 1, 0); ("ControlCmd", 1, 1, 0); ("CloseAudioVideoData", 2, 1, 0); ("StreamType", 3, 1, 0)]%string.
Definition lay_9105 : layout := [("ChannelNo", 0, 1, 0); ("PackageLossRate", 1, 1, 0)]%string.
Definition lay_9202 : layout :=
  [("ChannelNo", 0, 1, 0); ("PlayControl", 1, 1, 0); ("PlaySpeed", 2, 1, 0); ("DateTime", 3, 6, 1)]%string.
Definition lay_9205 : layout :=
  [("ChannelNo", 0, 1, 0); ("StartTime", 1, 6, 1); ("EndTime", 7, 6, 1); ("AlarmFlag", 13, 8, 0);
   ("MediaType", 21, 1, 0); ("StreamType", 22, 1, 0); ("StorageType", 23, 1, 0)]%string.
Definition lay_9207 : layout := [("RespondSerialNumber", 0, 2, 0); ("UploadControl", 2, 1, 0)]%string.
(* the 28-byte location block; the two details structs that follow in the Go struct are not on the wire *)
Definition lay_loc : layout :=
  [("AlarmSign", 0, 4, 0); ("StatusSign", 4, 4, 0); ("Latitude", 8, 4, 0); ("Longitude", 12, 4, 0);
   ("Altitude", 16, 2, 0); ("Speed", 18, 2, 0); ("Direction", 20, 2, 0); ("DateTime", 22, 6, 1)]%string.
Definition loc_derived : list string := ["AlarmSignDetails"; "StatusSignDetails"]%string.

(* C03 — models of the Parse methods of protocol/model outside the location family (tree after the
   fix: commits of known_findings.json), one definition per Go method, same guards, same index
   expressions, same order.  DEFINITIONS ONLY.

     fixed layout      T0x0001 T0x0002 T0x0800 T0x1003 T0x1005 T0x1206 P0x8001 P0x8100 P0x8104
                       P0x8801 P0x9003 P0x9102 P0x9105 P0x9202 P0x9205 P0x9207
     length-prefixed   T0x1211 (= T0x1212) P0x9101 P0x9201 P0x9206 T0x0102 T0x0100 P0x9208
     count-driven      T0x0805 T0x1205 T0x1210 P0x8003 P0x8800 P0x9212
     TLV walk          TerminalParamDetails.parse (T0x0104, P0x8103)

   Every Parse takes the previous receiver `r` (a val, VL [] for a fresh one): the members a Parse
   does not assign keep their old value.  `ver` is Header.ProtocolVersion (1 = 2011, 2 = 2013,
   3 = 2019), `d` the receiver's ActiveSafetyType (never written by Parse), `gbk` the external
   GBK -> UTF-8 conversion (utils.GBK2UTF8, golang.org/x/text). *)
From JT.Base Require Import Prelude.
From JT.Model Require Import Location LocationExt Total_base.

(* ------------------------------------------------------------------------------------------ *)
(* straight-line types: (guard, members in declaration order) *)
Definition lay_0001 := (GEq 5, [fnum 0 2; fnum 2 2; fbyte 4]).
Definition lay_0002 := (GGe 0, @nil field).                    (* BaseHandle.Parse: return nil *)
Definition lay_0800 := (GEq 8, [fnum 0 4; fbyte 4; fbyte 5; fbyte 6; fbyte 7]).
Definition lay_1003 := (GEq 10, [fbyte 0; fbyte 1; fbyte 2; fbyte 3; fnum 4 2; fbyte 6; fbyte 7; fbyte 8; fbyte 9]).
Definition lay_1005 := (GEq 16, [ftime 0; ftime 6; fnum 12 2; fnum 14 2]).
Definition lay_1206 := (GEq 3, [fnum 0 2; fbyte 2]).
Definition lay_8001 := (GEq 5, [fnum 0 2; fnum 2 2; fbyte 4]).
Definition lay_8100 := (GGe 3, [fnum 0 2; fbyte 2; frawfrom 3]).
Definition lay_8104 := (GGe 0, @nil field).
Definition lay_8801 := (GEq 12, [fbyte 0; fnum 1 2; fnum 3 2; fbyte 5; fbyte 6; fbyte 7; fbyte 8; fbyte 9; fbyte 10; fbyte 11]).
Definition lay_9003 := (GGe 0, @nil field).
Definition lay_9102 := (GEq 4, [fbyte 0; fbyte 1; fbyte 2; fbyte 3]).
Definition lay_9105 := (GEq 2, [fbyte 0; fbyte 1]).
Definition lay_9202 := (GEq 9, [fbyte 0; fbyte 1; fbyte 2; ftime 3]).
Definition lay_9205 := (GEq 24, [fbyte 0; ftime 1; ftime 7; fnum 13 8; fbyte 21; fbyte 22; fbyte 23]).
Definition lay_9207 := (GEq 3, [fnum 0 2; fbyte 2]).

(* message id -> layout *)
Definition fixed_layouts : list (N * (guard * list field)) :=
  [(1, lay_0001); (2, lay_0002); (2048, lay_0800); (4099, lay_1003); (4101, lay_1005); (4614, lay_1206);
   (32769, lay_8001); (33024, lay_8100); (33028, lay_8104); (34817, lay_8801); (36867, lay_9003);
   (37122, lay_9102); (37125, lay_9105); (37378, lay_9202); (37381, lay_9205); (37383, lay_9207)].

(* ------------------------------------------------------------------------------------------ *)
(* one length prefix *)

(* T0x1211.Parse (T0x1212 embeds T0x1211 and has no Parse of its own) *)
Definition t1211_parse (body : list N) : result val :=
  if len body <? 6 then Err E_LEN else
  l <- idx body 0 ;;
  if negb (len body =? 6 + l) then Err E_LEN else
  name <- slice body 1 (1 + l) ;;
  rest <- read_fields (1 + l) body [fbyte 0; fnumfrom 1 4] ;;
  Ok (VL (VN l :: VS name :: rest)).

(* T0x1212: the retransmit list member is not touched by Parse *)
Definition t1212_parse (r : val) (body : list N) : result val :=
  v <- t1211_parse body ;; Ok (VL [v; vnth 1 r]).

(* P0x9101.Parse *)
Definition p9101_parse (body : list N) : result val :=
  if len body <? 1 then Err E_LEN else
  n <- idx body 0 ;;
  if negb (len body =? 1 + n + 7) then Err E_LEN else
  ip <- slice body 1 (n + 1) ;;
  rest <- read_fields (n + 1) body [fnumfrom 0 2; fnumfrom 2 2; fbyte 4; fbyte 5; fbyte 6] ;;
  Ok (VL (VN n :: VS ip :: rest)).

(* P0x9201.Parse *)
Definition p9201_parse (body : list N) : result val :=
  if len body <? 1 then Err E_LEN else
  n <- idx body 0 ;;
  if negb (len body =? 1 + n + 22) then Err E_LEN else
  ip <- slice body 1 (n + 1) ;;
  rest <- read_fields (n + 1) body
            [fnumfrom 0 2; fnumfrom 2 2; fbyte 4; fbyte 5; fbyte 6; fbyte 7; fbyte 8; fbyte 9; ftime 10; ftime 16] ;;
  Ok (VL (VN n :: VS ip :: rest)).

(* P0x9206.Parse: four length-prefixed texts, each guarded before it is sliced *)
Definition p9206_parse (body : list N) : result val :=
  if len body <? 1 then Err E_LEN else
  a <- idx body 0 ;;
  let e1 := 1 + a in
  if len body <? e1 + 2 + 1 then Err E_LEN else
  addr <- slice body 1 e1 ;;
  port <- be_at body e1 2 ;;
  ul <- idx body (e1 + 2) ;;
  let s2 := e1 + 2 + 1 in
  let e2 := s2 + ul in
  if len body <? e2 + 1 then Err E_LEN else
  user <- slice body s2 e2 ;;
  pl <- idx body e2 ;;
  let s3 := e2 + 1 in
  let e3 := s3 + pl in
  if len body <? e3 + 1 then Err E_LEN else
  pass <- slice body s3 e3 ;;
  fl <- idx body e3 ;;
  let s4 := e3 + 1 in
  let e4 := s4 + fl in
  if negb (len body =? e4 + 25) then Err E_LEN else
  path <- slice body s4 e4 ;;
  rest <- read_fields e4 body [fbyte 0; ftime 1; ftime 7; fnum 13 8; fbyte 21; fbyte 22; fbyte 23; fbyte 24] ;;
  Ok (VL ([VN a; VS addr; VN port; VN ul; VS user; VN pl; VS pass; VN fl; VS path] ++ rest)).

(* T0x0102.Parse *)
Definition t0102_parse (ver : N) (body : list N) : result val :=
  if ver =? 3 then
    if len body <? 1 + 15 + 20 then Err E_LEN else
    n <- idx body 0 ;;
    if len body <? 1 + n + 15 + 20 then Err E_LEN else
    auth <- slice body 1 (1 + n) ;;
    imei <- slice body (1 + n) (1 + n + 15) ;;
    sv <- slice body (1 + n + 15) (1 + n + 15 + 20) ;;
    Ok (VL [VN n; VS auth; VS imei; VS (until_zero sv); VN 3])
  else Ok (VL [VN 0; VS body; VS []; VS []; VN 2]).

(* T0x0100.Parse.  t.Version is assigned only for the three known header versions; any other
   header version leaves the previous value in place (member 7 of the receiver). *)
Definition t0100_widths (ver l : N) : N * N * N :=
  if ver =? 3 then (11, 30, 30)
  else if ((ver =? 2) || (ver =? 1)) && (36 <? l) then (5, 20, 7)
  else (5, 8, 7).
Definition t0100_version (ver l : N) (r : val) : N :=
  if ver =? 3 then 3
  else if (ver =? 2) || (ver =? 1) then (if 36 <? l then 2 else 1)
  else vnum (vnth 7 r).

Definition t0100_parse (gbk : list N -> list N) (ver : N) (r : val) (body : list N) : result val :=
  let l := len body in
  let '(m, t, i) := t0100_widths ver l in
  let version := t0100_version ver l r in
  if ((version =? 1) && (l <? 25)) || ((version =? 3) && (l <? 76)) then Err E_LEN else
  prov <- be_at body 0 2 ;;
  city <- be_at body 2 2 ;;
  mf <- slice body 4 (4 + m) ;;
  tm <- slice body (4 + m) (4 + m + t) ;;
  ti <- slice body (4 + m + t) (4 + m + t + i) ;;
  pc <- idx body (4 + m + t + i) ;;
  pl <- slice_from body (4 + m + t + i + 1) ;;
  Ok (VL [VN prov; VN city; VS (trim_right0 mf); VS (trim_right0 tm); VS (trim_right0 ti); VN pc;
          VS (gbk pl); VN version]).

(* P9208AlarmSign as a value: TerminalID, Time, SerialNumber, AttachNumber, AlarmReserve, ActiveSafetyType *)
Definition asign_val (s : asign) : val :=
  VL [VS (s_tid s); VS (s_time s); VN (s_serial s); VN (s_attach s); VS (s_reserve s); VN (s_dialect s)].

(* P0x9208.Parse.  The alarm sign is parsed by P9208AlarmSign.parse (LocationExt.asign_parse); only
   the dialect of the receiver's sign is an input of it (LocationExt_proofs.asign_parse_history). *)
Definition p9208_parse (d : N) (body : list N) : result val :=
  let sign := 1 + 2 + 2 + sign_len d + 32 in
  if len body <? sign then Err E_LEN else
  k <- idx body 0 ;;
  if len body <? sign + k then Err E_LEN else
  addr <- slice body 1 (1 + k) ;;
  tcp <- be_at body (1 + k) 2 ;;
  udp <- be_at body (3 + k) 2 ;;
  sg <- slice body (5 + k) (sign + k - 32) ;;
  s <- asign_parse (fresh_asign d) sg ;;
  aid <- slice body (sign + k - 32) (sign + k) ;;
  res <- slice_from body (sign + k) ;;
  Ok (VL [VN k; VS addr; VN tcp; VN udp; asign_val s; VS (trim_right0 aid); VS res]).

(* ------------------------------------------------------------------------------------------ *)
(* count-driven loops *)

(* T0x0805.Parse *)
Definition t0805_parse (body : list N) : result val :=
  if len body <? 5 then Err E_LEN else
  sn <- be_at body 0 2 ;;
  res <- idx body 2 ;;
  num <- be_at body 3 2 ;;
  if negb (len body =? 5 + num * 4) then Err E_LEN else
  ids <- rec_loop (N.to_nat num) 0 body 5 4 [fnum 0 4] ;;            (* list = nil before the loop *)
  Ok (VL [VN sn; VN res; VN num; VL (flat ids)]).

(* T0x1205.Parse *)
Definition t1205_parse (body : list N) : result val :=
  if len body <? 6 then Err E_LEN else
  sn <- be_at body 0 2 ;;
  total <- be_at body 2 4 ;;
  if negb (len body =? 6 + total * 28) then Err E_LEN else
  rs <- rec_loop (N.to_nat total) 0 body 6 28
          [fbyte 0; ftime 1; ftime 7; fnum 13 8; fbyte 21; fbyte 22; fbyte 23; fnum 24 4] ;;
  Ok (VL [VN sn; VN total; VL (structs rs)]).

(* P0x8003.Parse *)
Definition p8003_parse (body : list N) : result val :=
  if len body <? 3 then Err E_LEN else
  sn <- be_at body 0 2 ;;
  cnt <- idx body 2 ;;
  if negb (len body =? 3 + 2 * cnt) then Err E_LEN else
  ids <- rec_loop (N.to_nat cnt) 0 body 3 2 [fnum 0 2] ;;
  Ok (VL [VN sn; VN cnt; VL (flat ids)]).

(* P0x8800.Parse *)
Definition p8800_parse (body : list N) : result val :=
  if len body =? 4 then id <- be_at body 0 4 ;; Ok (VL [VN id; VN 0; VL []]) else
  if len body <? 5 then Err E_LEN else
  id <- be_at body 0 4 ;;
  cnt <- idx body 4 ;;
  if negb (len body =? 5 + 2 * cnt) then Err E_LEN else
  ids <- rec_loop (N.to_nat cnt) 0 body 5 2 [fnum 0 2] ;;
  Ok (VL [VN id; VN cnt; VL (flat ids)]).

(* P0x9212.Parse *)
Definition p9212_parse (body : list N) : result val :=
  if len body <? 4 then Err E_LEN else
  l <- idx body 0 ;;
  if len body <? 4 + l then Err E_LEN else
  name <- slice body 1 (1 + l) ;;
  ft <- idx body (1 + l) ;;
  ur <- idx body (2 + l) ;;
  cnt <- idx body (3 + l) ;;
  if negb (len body =? 4 + l + 8 * cnt) then Err E_LEN else
  ps <- rec_loop (N.to_nat cnt) 0 body (4 + l) 8 [fnumfrom 0 4; fnumfrom 4 4] ;;
  Ok (VL [VN l; VS name; VN ft; VN ur; VN cnt; VL (structs ps)]).

(* T0x1210.Parse: the attachment loop, every item guarded twice before it is read *)
Fixpoint t1210_items (n : nat) (body : list N) (start : N) : result (list val) :=
  match n with
  | O => Ok []
  | S n' =>
    if len body <? start + 1 then Err E_LEN else
    fl <- idx body start ;;
    if len body <? start + 1 + fl + 4 then Err E_LEN else
    name <- slice body (start + 1) (start + 1 + fl) ;;
    rest <- slice_from body (start + 1 + fl) ;;
    size <- uint_of 4 rest ;;
    r <- t1210_items n' body (start + 1 + fl + 4) ;;
    Ok (VL [VN fl; VS name; VN size] :: r)
  end.

Definition t1210_parse (d : N) (r : val) (body : list N) : result val :=
  let idl := if d =? 2 then 0 else tid_len d in       (* HLJ: no leading terminal id *)
  let sl := sign_len d in
  if len body <? idl + sl + 32 + 1 + 1 then Err E_LEN else
  tid <- (if 0 <? idl then s <- slice body 0 idl ;; Ok (trim_right0 s)
          else Ok (vstr (vnth 0 r))) ;;                (* member not assigned when idLen = 0 *)
  sg <- slice body idl (idl + sl) ;;
  s <- asign_parse (fresh_asign d) sg ;;
  aid <- slice body (idl + sl) (idl + sl + 32) ;;
  info <- idx body (idl + sl + 32) ;;
  cnt <- idx body (idl + sl + 32 + 1) ;;
  let cursor := idl + sl + 32 + 2 in
  if len body <? cursor + cnt * (1 + 4) then Err E_LEN else
  items <- t1210_items (N.to_nat cnt) body cursor ;;  (* list = nil before the loop *)
  Ok (VL [VS tid; asign_val s; VS (trim_right0 aid); VN info; VN cnt; VL items]).

(* ------------------------------------------------------------------------------------------ *)
(* TerminalParamDetails.parse *)
Definition param_dword : list N :=
  [1; 2; 3; 4; 5; 6; 7; 27; 28; 32; 34; 39; 40; 41; 44; 45; 46; 47; 48; 69; 70; 71; 80; 81; 82; 83; 84; 85;
   86; 87; 88; 89; 90; 100; 101; 112; 113; 114; 115; 116; 128; 147; 149; 256; 258].
Definition param_word : list N := [49; 91; 92; 93; 94; 129; 130; 257; 259].
Definition param_text : list N :=
  [16; 17; 18; 19; 20; 21; 22; 23; 26; 29; 35; 36; 37; 38; 64; 65; 66; 67; 68; 72; 73; 131].
Definition param_byte : list N := [132; 144; 145; 146; 148].

Definition mem (x : N) (l : list N) : bool := existsb (N.eqb x) l.

(* the typed members and OtherContent: id -> (id, len, value), kept in ascending id order (the
   declaration order of the typed members is ascending id; the map is dumped by ascending key);
   a later parameter with the same id replaces the earlier one *)
Fixpoint pm_set (m : list (N * val)) (id : N) (v : val) : list (N * val) :=
  match m with
  | [] => [(id, v)]
  | p :: t => if id <? fst p then (id, v) :: m
              else if id =? fst p then (id, v) :: t
              else p :: pm_set t id v
  end.

(* [4]byte(content): panics when the slice is shorter *)
Definition array_of (w : N) (c : list N) : result (list N) :=
  if len c <? w then Panic else Ok (firstn (N.to_nat w) c).

(* parseParam: Ok (known', other') or the length error *)
Definition param_store (gbk : list N -> list N) (id plen : N) (c : list N)
                       (known other : list (N * val)) : result (list (N * val) * list (N * val)) :=
  let entry v := VL [VN id; VN plen; v] in
  if mem id param_dword then
    if negb (plen =? 4) then Err E_LEN else v <- uint_of 4 c ;; Ok (pm_set known id (entry (VN v)), other)
  else if mem id param_word then
    if negb (plen =? 2) then Err E_LEN else v <- uint_of 2 c ;; Ok (pm_set known id (entry (VN v)), other)
  else if mem id param_text then Ok (pm_set known id (entry (VS (gbk c))), other)
  else if id =? 50 then
    if negb (plen =? 4) then Err E_LEN else a <- array_of 4 c ;; Ok (pm_set known id (entry (VS a)), other)
  else if mem id param_byte then
    if negb (plen =? 1) then Err E_LEN else b <- idx c 0 ;; Ok (pm_set known id (entry (VN b)), other)
  else if id =? 272 then
    if negb (plen =? 8) then Err E_LEN else a <- array_of 8 c ;; Ok (pm_set known id (entry (VS a)), other)
  else Ok (known, pm_set other id (entry (VS c))).

(* the loop `for index < len(body)`, cursor style (body = body[index:]); count is the uint8 that is
   decremented (wrapping) once per parameter.  fuel = length of the body: every round consumes at
   least five bytes; Err 99 (out of fuel) is unreachable (Total_msgs_proofs.params_walk_fuel). *)
Fixpoint params_walk (fuel : nat) (gbk : list N -> list N) (count : N)
                     (known other : list (N * val)) (body : list N)
  : result (N * (list (N * val) * list (N * val))) :=
  match body with
  | [] => Ok (count, (known, other))
  | _ =>
    match fuel with
    | O => Err 99
    | S f =>
      if len body <? 5 then Err E_LEN else
      id <- be_at body 0 4 ;;
      plen <- idx body 4 ;;
      if len body <? 5 + plen then Err E_LEN else
      c <- slice body 5 (5 + plen) ;;
      ko <- param_store gbk id plen c known other ;;
      rest <- slice_from body (5 + plen) ;;
      params_walk f gbk ((count + 255) mod 256) (fst ko) (snd ko) rest
    end
  end.

(* *t = TerminalParamDetails{...}: both tables start empty on every parse *)
Definition params_parse (gbk : list N -> list N) (count : N) (body : list N) : result val :=
  r <- params_walk (List.length body) gbk count [] [] body ;;
  if negb (fst r =? 0) then Err E_LEN else
  Ok (VL [VL (map snd (fst (snd r))); VL (map snd (snd (snd r)))]).

(* T0x0104.Parse *)
Definition t0104_parse (gbk : list N -> list N) (body : list N) : result val :=
  if len body <? 3 then Err E_LEN else
  sn <- be_at body 0 2 ;;
  cnt <- idx body 2 ;;
  rest <- slice_from body 3 ;;
  p <- params_parse gbk cnt rest ;;
  Ok (VL [VN sn; VN cnt; p]).

(* P0x8103.Parse *)
Definition p8103_parse (gbk : list N -> list N) (body : list N) : result val :=
  if len body <? 1 then Err E_LEN else
  cnt <- idx body 0 ;;
  rest <- slice_from body 1 ;;
  p <- params_parse gbk cnt rest ;;
  Ok (VL [VN cnt; p]).

(* ------------------------------------------------------------------------------------------ *)
(* dispatch by message id (used by the oracle driver and the collected theorems) *)
Definition parse_msg (id : N) (gbk : list N -> list N) (ver d : N) (r : val) (body : list N) : result val :=
  match lookup id fixed_layouts with
  | Some lay => fixed_parse (fst lay) (snd lay) body
  | None =>
    if id =? 256 then t0100_parse gbk ver r body             (* 0x0100 *)
    else if id =? 258 then t0102_parse ver body              (* 0x0102 *)
    else if id =? 260 then t0104_parse gbk body              (* 0x0104 *)
    else if id =? 2053 then t0805_parse body                 (* 0x0805 *)
    else if id =? 4613 then t1205_parse body                 (* 0x1205 *)
    else if id =? 4624 then t1210_parse d r body             (* 0x1210 *)
    else if id =? 4625 then t1211_parse body                 (* 0x1211 *)
    else if id =? 4626 then t1212_parse r body               (* 0x1212 *)
    else if id =? 32771 then p8003_parse body                (* 0x8003 *)
    else if id =? 33027 then p8103_parse gbk body            (* 0x8103 *)
    else if id =? 34816 then p8800_parse body                (* 0x8800 *)
    else if id =? 37121 then p9101_parse body                (* 0x9101 *)
    else if id =? 37377 then p9201_parse body                (* 0x9201 *)
    else if id =? 37382 then p9206_parse body                (* 0x9206 *)
    else if id =? 37384 then p9208_parse d body              (* 0x9208 *)
    else if id =? 37394 then p9212_parse body                (* 0x9212 *)
    else Err 98
  end.

Definition modelled_ids : list N :=
  map fst fixed_layouts ++
  [256; 258; 260; 2053; 4613; 4624; 4625; 4626; 32771; 33027; 34816; 37121; 37377; 37382; 37384; 37394].

(* the members of the receiver that Parse never writes (everything else is overwritten) *)
Definition config_of (id d : N) (r : val) : val :=
  if (id =? 4624) && (d =? 2) then VL [VS (vstr (vnth 0 r))]      (* 0x1210 under HLJ: TerminalID *)
  else if id =? 4626 then VL [VL []; vnth 1 r]                    (* 0x1212: the retransmit list *)
  else VL [].

(* ------------------------------------------------------------------------------------------ *)
(* String(): the three methods that re-slice their own Encode() output *)

(* P0x8100.String: body[3:] of Encode() *)
Definition p8100_render (v : val) : result (list N) :=
  let body := be_enc 2 (vnum (vnth 0 v)) ++ [vnum (vnth 1 v)] ++ vstr (vnth 2 v) in
  slice_from body 3.

(* T0x0102.String: body[1+t.AuthCodeLen+15:] of Encode(), the index computed in uint8 *)
Definition t0102_render (v : val) : result (list N) :=
  if vnum (vnth 4 v) =? 3 then
    let n := vnum (vnth 0 v) in
    let body := [n] ++ vstr (vnth 1 v) ++ vstr (vnth 2 v) ++ fill_bytes (vstr (vnth 3 v)) 20 in
    slice_from body ((1 + n + 15) mod 256)
  else Ok [].

(* T0x0100.String: data[4+mLen+tLen+tIDLen+1:] of Encode() with protocolDiff() widths *)
Definition t0100_render (gbk_enc : list N -> list N) (v : val) : result (list N) :=
  let ver := vnum (vnth 7 v) in
  let '(m, t, i) := if ver =? 2 then (5, 20, 7) else if ver =? 3 then (11, 30, 30) else (5, 8, 7) in
  let data := be_enc 2 (vnum (vnth 0 v)) ++ be_enc 2 (vnum (vnth 1 v)) ++
              fill_bytes (vstr (vnth 2 v)) m ++ fill_bytes (vstr (vnth 3 v)) t ++
              fill_bytes (vstr (vnth 4 v)) i ++ [vnum (vnth 5 v)] ++ gbk_enc (vstr (vnth 6 v)) in
  slice_from data (4 + m + t + i + 1).

Definition render_msg (id : N) (gbk_enc : list N -> list N) (v : val) : result (list N) :=
  if id =? 33024 then p8100_render v
  else if id =? 258 then t0102_render v
  else if id =? 256 then t0100_render gbk_enc v
  else Ok [].

(* ------------------------------------------------------------------------------------------ *)
(* sequences of calls on one receiver (the per-connection handler objects of the README pattern).
   A receiver is reachable when it is fresh, or the value a successful Parse of a reachable
   receiver produced, or whatever a FAILING Parse left behind: a failing Parse may have assigned
   any of the members Parse assigns, but never the never-written ones (config_of). *)
Definition ver_ok (ver : N) : Prop := ver = 1 \/ ver = 2 \/ ver = 3.

Inductive reach (id : N) (gbk : list N -> list N) (d : N) : val -> Prop :=
| reach_fresh : reach id gbk d (VL [])
| reach_ok : forall r ver body v, reach id gbk d r -> ver_ok ver ->
    parse_msg id gbk ver d r body = Ok v -> reach id gbk d v
| reach_fail : forall r r', reach id gbk d r -> config_of id d r' = config_of id d r -> reach id gbk d r'.


(* Extraction of the executable models to OCaml (the correspondence oracle).
   ExtrOcamlBasic only: bool, option, list, prod, unit, sumbool, sumor are mapped to
   OCaml's; N / positive / nat stay the extracted inductive types. *)
From JT.Base Require Import Prelude.
From JT.Model Require Import Jt1078.
Require Extraction.
Require Import ExtrOcamlBasic.
Separate Extraction
  Prelude.bcd2dec Prelude.be_enc Prelude.be_dec Prelude.xor_all
  Jt1078.decode Jt1078.decode_all Jt1078.fresh_pkt Jt1078.std_packet.

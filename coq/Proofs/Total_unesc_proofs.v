(* Proofs about Model/Total_unesc.v: the index-level unescape is the unescape of Model/Frame.v
   (so it never panics: every index and slice expression of the loop is in range), and with spare
   capacity behind the slice it returns the same for every tail. *)
From JT.Base Require Import Prelude PreludeP.
From JT.Model Require Import Frame Total_base Total_cap Total_unesc.
From JT.Proofs Require Import LocationStd Location_proofs Frame_proofs Total_cap_proofs.
From Coq Require Import ZArith ZifyN ZifyNat ZifyBool.
Ltac Zify.zify_post_hook ::= Z.div_mod_to_equations.
Local Open Scope N_scope.

(* ---------------- sub-lists by index ---------------- *)
Lemma skipn_add {A} (l : list A) a b : skipn (a + b) l = skipn b (skipn a l).
Proof. revert l. induction a as [|a IH]; intros l; cbn [Nat.add skipn]. reflexivity. destruct l. now destruct b. apply IH. Qed.

Lemma firstn_add {A} (l : list A) a b : firstn (a + b) l = firstn a l ++ firstn b (skipn a l).
Proof. revert l. induction a as [|a IH]; intros l; cbn [Nat.add firstn skipn app]. reflexivity.
  destruct l; cbn [firstn skipn app]. now destruct b. f_equal. apply IH. Qed.

Lemma sub_app' (d : list N) a b c : a <= b -> b <= c -> sub d a c = sub d a b ++ sub d b c.
Proof.
  intros H1 H2. unfold sub.
  replace (N.to_nat (c - a)) with (N.to_nat (b - a) + N.to_nat (c - b))%nat by lia.
  rewrite firstn_add. f_equal. rewrite <- skipn_add. f_equal. f_equal. lia.
Qed.

Lemma sub_nil (d : list N) i : sub d i i = [].
Proof. unfold sub. now rewrite N.sub_diag. Qed.

Lemma sub_one (d : list N) i : i < len d -> sub d i (i + 1) = [at_ d i].
Proof.
  intros H. unfold sub, at_. replace (N.to_nat (i + 1 - i)) with 1%nat by lia.
  assert (L : (N.to_nat i < List.length d)%nat) by (unfold len in H; lia).
  revert L. generalize (N.to_nat i). clear. induction d as [|x d IH]; intros n L; cbn [List.length] in L. lia.
  destruct n; cbn [skipn nth firstn]. reflexivity. apply IH. lia.
Qed.

Lemma sub_cons (d : list N) i j : i < j -> i < len d -> sub d i j = at_ d i :: sub d (i + 1) j.
Proof. intros H1 H2. rewrite (sub_app' d i (i + 1) j) by lia. now rewrite sub_one. Qed.

Lemma sub_snoc (d : list N) a i : a <= i -> i < len d -> sub d a (i + 1) = sub d a i ++ [at_ d i].
Proof. intros H1 H2. rewrite (sub_app' d a i (i + 1)) by lia. now rewrite sub_one. Qed.

Lemma unesc_never_panic w : unesc w <> Panic.
Proof.
  assert (G : forall n w, (List.length w <= n)%nat -> unesc w <> Panic).
  { induction n as [|n IH]; intros [|b t] L; cbn [List.length] in L; try lia; cbn [unesc]; try discriminate.
    destruct (b =? 125).
    - destruct t as [|c t']. discriminate. cbn [List.length] in L.
      destruct (c =? 1); [|destruct (c =? 2); [|discriminate]];
        (assert (H : unesc t' <> Panic) by (apply IH; lia); destruct (unesc t'); cbn [bind]; congruence).
    - assert (H : unesc t <> Panic) by (apply IH; lia). destruct (unesc t); cbn [bind]; congruence. }
  now apply (G (List.length w)).
Qed.

Lemma bind_assoc_ok {A} (r : result (list A)) (pre1 pre2 : list A) :
  (x <- r ;; Ok (pre1 ++ pre2 ++ x)) = (y <- (x <- r ;; Ok (pre2 ++ x)) ;; Ok (pre1 ++ y)).
Proof. destruct r; reflexivity. Qed.

(* ---------------- the loop is the structural unescape of the remaining interior ---------------- *)
Lemma unesc_loop_spec fuel : forall d i index buf,
  2 < len d -> at_ d (len d - 1) = 126 -> 1 <= index -> index <= i -> i <= len d - 1 ->
  (N.to_nat (len d - 1 - i) <= fuel)%nat ->
  unesc_loop fuel d i index buf = (r <- unesc (sub d i (len d - 1)) ;; Ok (buf ++ sub d index i ++ r)).
Proof.
  induction fuel as [|f IH]; intros d i index buf Hn Hlast Hi1 Hi2 Hi3 Hf.
  - assert (i = len d - 1) by lia. subst i. cbn [unesc_loop].
    replace (len d - 1 <? len d - 1) with false by lia. cbn [negb]. rewrite sub_nil. cbn [unesc bind].
    rewrite app_nil_r. destruct (index =? len d - 1) eqn:E; cbn [negb].
    + assert (index = len d - 1) by lia. subst index. now rewrite sub_nil, app_nil_r.
    + rewrite slice_ok by lia. reflexivity.
  - cbn [unesc_loop]. destruct (i <? len d - 1) eqn:Ei; cbn [negb].
    2:{ assert (i = len d - 1) by lia. subst i. rewrite sub_nil. cbn [unesc bind]. rewrite app_nil_r.
        destruct (index =? len d - 1) eqn:E; cbn [negb].
        - assert (index = len d - 1) by lia. subst index. now rewrite sub_nil, app_nil_r.
        - rewrite slice_ok by lia. reflexivity. }
    rewrite idx_ok by lia. cbn [bind].
    rewrite (sub_cons d i (len d - 1)) by lia. cbn [unesc].
    destruct (at_ d i =? 125) eqn:E125.
    + rewrite idx_ok by lia. cbn [bind].
      destruct (i + 1 =? len d - 1) eqn:Eend.
      * (* the 0x7d is the last interior byte: its partner is the closing delimiter *)
        assert (Hc : at_ d (i + 1) = 126) by (replace (i + 1) with (len d - 1) by lia; exact Hlast).
        rewrite Hc. change (126 =? 1) with false. change (126 =? 2) with false. cbv iota.
        replace (sub d (i + 1) (len d - 1)) with (@nil N) by (replace (i + 1) with (len d - 1) by lia; now rewrite sub_nil).
        cbn [bind]. rewrite slice_ok by lia. cbn [bind].
        replace (len d - 1) with (i + 1) by lia. rewrite sub_snoc by lia.
        assert (at_ d i = 125) by lia. congruence.
      * rewrite (sub_cons d (i + 1) (len d - 1)) by lia.
        replace (i + 1 - 1) with i by lia.
        destruct (at_ d (i + 1) =? 1) eqn:E1; [|destruct (at_ d (i + 1) =? 2) eqn:E2].
        -- rewrite slice_ok by lia. cbn [bind]. rewrite IH by lia. rewrite sub_nil. cbn [app].
           destruct (unesc (sub d (i + 1 + 1) (len d - 1))); cbn [bind]; try reflexivity.
           now rewrite <- !app_assoc.
        -- rewrite slice_ok by lia. cbn [bind]. rewrite IH by lia. rewrite sub_nil. cbn [app].
           destruct (unesc (sub d (i + 1 + 1) (len d - 1))); cbn [bind]; try reflexivity.
           now rewrite <- !app_assoc.
        -- reflexivity.
    + rewrite IH by lia. rewrite sub_snoc by lia.
      destruct (unesc (sub d (i + 1) (len d - 1))); cbn [bind]; try reflexivity.
      now rewrite <- !app_assoc.
Qed.

(* head / last / interior of Model/Frame.v's unescape in index form *)
Lemma hd_at (d : list N) : hd 0 d = at_ d 0.
Proof. destruct d; reflexivity. Qed.

Lemma last_nth (d : list N) : last d 0 = nth (List.length d - 1) d 0.
Proof.
  induction d as [|x d IH]. reflexivity. destruct d as [|y d]. reflexivity.
  change (last (x :: y :: d) 0) with (last (y :: d) 0). rewrite IH. cbn [List.length].
  replace (S (S (List.length d)) - 1)%nat with (S (S (List.length d) - 1))%nat by lia. reflexivity.
Qed.

Lemma last_at (d : list N) : d <> [] -> last d 0 = at_ d (len d - 1).
Proof.
  intros _. rewrite last_nth. unfold at_, len. f_equal. lia.
Qed.

Lemma removelast_firstn (l : list N) : removelast l = firstn (List.length l - 1) l.
Proof.
  induction l as [|x l IH]. reflexivity. destruct l as [|y l]. reflexivity.
  cbn [removelast] in *. rewrite IH. cbn [List.length]. replace (S (S (List.length l)) - 1)%nat with (S (S (List.length l) - 1))%nat by lia.
  reflexivity.
Qed.

Lemma interior_sub (d : list N) : 2 <= len d -> removelast (tl d) = sub d 1 (len d - 1).
Proof.
  intros H. destruct d as [|x d]. rewrite len_nil in H. lia. cbn [tl].
  rewrite removelast_firstn. unfold sub. change (N.to_nat 1) with 1%nat. cbn [skipn].
  f_equal. rewrite len_cons. unfold len. lia.
Qed.

Lemma unesc_no_escape w : existsb (N.eqb 125) w = false -> unesc w = Ok w.
Proof.
  induction w as [|b t IH]; cbn [existsb unesc]. reflexivity.
  intros H. apply orb_false_iff in H. destruct H as [H1 H2].
  replace (b =? 125) with false by lia. rewrite IH by exact H2. reflexivity.
Qed.

Lemma In_firstn' {A} (x : A) n : forall l, In x (firstn n l) -> In x l.
Proof. induction n as [|n IH]; intros [|y l]; cbn [firstn In]; try tauto. intros [H|H]; [now left|right; now apply IH]. Qed.
Lemma In_skipn' {A} (x : A) n : forall l, In x (skipn n l) -> In x l.
Proof. induction n as [|n IH]; intros [|y l]; cbn [skipn In]; try tauto. intros H. right. now apply IH. Qed.

Lemma existsb_sub (d : list N) i j : existsb (N.eqb 125) d = false -> existsb (N.eqb 125) (sub d i j) = false.
Proof.
  intros H. destruct (existsb (N.eqb 125) (sub d i j)) eqn:E; [|reflexivity].
  apply existsb_exists in E. destruct E as (x & Hin & Hx). unfold sub in Hin.
  apply In_firstn', In_skipn' in Hin.
  assert (existsb (N.eqb 125) d = true) by (apply existsb_exists; eauto). congruence.
Qed.

(* ---------------- the index-level unescape is Frame.unescape ---------------- *)
Theorem unescape_chk_eq d : unescape_chk d = unescape d.
Proof.
  unfold unescape_chk, unescape. destruct (2 <? len d) eqn:L; cbn [negb andb]; [|reflexivity].
  rewrite !idx_ok by lia. cbn [bind].
  assert (Hne : d <> []) by (intros ->; rewrite len_nil in L; lia).
  rewrite hd_at, (last_at d Hne).
  destruct ((at_ d 0 =? 126) && (at_ d (len d - 1) =? 126)) eqn:G; cbn [negb]; [|reflexivity].
  apply andb_true_iff in G. destruct G as [_ G2].
  rewrite interior_sub by lia.
  destruct (existsb (N.eqb 125) d) eqn:E; cbn [negb].
  - rewrite unesc_loop_spec; try lia.
    + rewrite sub_nil. cbn [app]. destruct (unesc (sub d 1 (len d - 1))); reflexivity.
    + unfold len. lia.
  - rewrite slice_ok by lia. symmetry. apply unesc_no_escape. now apply existsb_sub.
Qed.

Theorem unescape_chk_total d : unescape_chk d <> Panic.
Proof.
  rewrite unescape_chk_eq. unfold unescape. destruct (negb _). discriminate. apply unesc_never_panic.
Qed.

(* ---------------- spare capacity ---------------- *)
Lemma refines_unesc_loop fuel : forall d tail i index buf,
  refines (unesc_loop fuel d i index buf) (unesc_loop_cap fuel d tail i index buf).
Proof.
  induction fuel as [|f IH]; intros; cbn [unesc_loop unesc_loop_cap].
  - destruct (negb (i <? len d - 1)); [|apply refines_refl].
    destruct (negb (index =? len d - 1)); [|apply refines_refl].
    apply refines_bind. apply refines_slice. intros; apply refines_refl.
  - destruct (negb (i <? len d - 1)).
    { destruct (negb (index =? len d - 1)); [|apply refines_refl].
      apply refines_bind. apply refines_slice. intros; apply refines_refl. }
    apply refines_bind. apply refines_refl. intros v. destruct (v =? 125); [|apply IH].
    apply refines_bind. apply refines_refl. intros c.
    destruct (c =? 1). { apply refines_bind. apply refines_slice. intros; apply IH. }
    destruct (c =? 2). { apply refines_bind. apply refines_slice. intros; apply IH. }
    destruct (i + 1 =? len d - 1); [|apply refines_refl].
    apply refines_bind. apply refines_slice. intros; apply refines_refl.
Qed.

Lemma refines_unescape d tail : refines (unescape_chk d) (unescape_cap d tail).
Proof.
  unfold unescape_chk, unescape_cap. destruct (negb (2 <? len d)). apply refines_refl.
  apply refines_bind. apply refines_refl. intros a. apply refines_bind. apply refines_refl. intros b.
  destruct (negb ((a =? 126) && (b =? 126))). apply refines_refl.
  destruct (negb (existsb (N.eqb 125) d)). apply refines_slice. apply refines_unesc_loop.
Qed.

Theorem unescape_local d tail : unescape_cap d tail = unescape d.
Proof. rewrite <- unescape_chk_eq. apply refines_eq. apply refines_unescape. apply unescape_chk_total. Qed.

(* JTMessage.Decode with the unescape walk at index level is decode_chk *)
Theorem frame_decode_chk_eq d : frame_decode_chk d = decode_chk d.
Proof.
  unfold frame_decode_chk. rewrite unescape_chk_eq. unfold decode_chk.
  destruct (unescape d); reflexivity.
Qed.

(* Proofs about Model/Unpack.v: the stream splitter is independent of read boundaries (C04). *)
From JT.Base Require Import Prelude PreludeP.
From JT.Model Require Import Frame Unpack.
From Coq Require Import ZArith ZifyN ZifyNat ZifyBool.
Ltac Zify.zify_post_hook ::= Z.div_mod_to_equations.

(* ---------------- nth_delim ---------------- *)
Lemma nth_delim_none t k i : ~ In 126 t -> nth_delim t k i = None.
Proof.
  revert i. induction t as [|b t IH]; intros i Hn; cbn [nth_delim]; auto.
  destruct (N.eqb_spec b 126) as [->|Hb].
  - exfalso. apply Hn. now left.
  - apply IH. intros Hin. apply Hn. now right.
Qed.

Lemma nth_delim_first mid rest i : ~ In 126 mid ->
  nth_delim (mid ++ 126 :: rest) 1 i = Some (i + len mid).
Proof.
  revert i. induction mid as [|b mid IH]; intros i Hn.
  - cbn [app nth_delim]. rewrite N.eqb_refl. rewrite len_nil. f_equal. lia.
  - cbn [app nth_delim]. destruct (N.eqb_spec b 126) as [->|Hb].
    + exfalso. apply Hn. now left.
    + rewrite IH. f_equal. rewrite len_cons. lia. intros Hin. apply Hn. now right.
Qed.

Lemma nth_delim_second mid rest : ~ In 126 mid ->
  nth_delim (126 :: mid ++ 126 :: rest) 2 0 = Some (1 + len mid).
Proof.
  intros Hn. cbn [nth_delim]. rewrite N.eqb_refl. rewrite nth_delim_first by exact Hn.
  f_equal.
Qed.

Lemma partial_no_second r : partial r -> nth_delim r 2 0 = None.
Proof.
  intros [->|[t [-> Hn]]]. reflexivity.
  cbn [nth_delim]. rewrite N.eqb_refl. apply nth_delim_none, Hn.
Qed.

(* ---------------- fuel ---------------- *)
Lemma nth_delim_ge t k i j : nth_delim t k i = Some j -> i <= j.
Proof.
  revert k i. induction t as [|b t IH]; intros k i H; cbn [nth_delim] in H. discriminate.
  destruct (b =? 126).
  - destruct k as [|[|k]]. discriminate. injection H as <-. lia.
    apply IH in H. lia.
  - apply IH in H. lia.
Qed.

(* the loop never stops because the fuel ran out: any fuel >= the history length gives the
   same result as exactly the history length *)
Lemma scan_fuel_any f1 : forall f2 h acc, (length h <= f1)%nat -> (length h <= f2)%nat ->
  scan f1 h acc = scan f2 h acc.
Proof.
  induction f1 as [|f1 IH]; intros f2 h acc H1 H2.
  - destruct h as [|b h]; [|cbn [length] in H1; lia]. destruct f2; reflexivity.
  - destruct f2 as [|f2].
    + destruct h as [|b h]; [|cbn [length] in H2; lia]. reflexivity.
    + cbn [scan].
      destruct ((2 <? len h) && (hd 0 h =? 126)); [|reflexivity].
      destruct (nth_delim (tl h) 1 1) as [i|] eqn:Hd; [|reflexivity].
      apply nth_delim_ge in Hd.
      destruct (decode (firstn (N.to_nat (i + 1)) h)); try reflexivity.
      destruct (skipn (N.to_nat (i + 1)) h) as [|c rest] eqn:Hs; [reflexivity|].
      assert (Hlen : (length (c :: rest) + 2 <= length h)%nat).
      { rewrite <- Hs, skipn_length.
        assert (length (c :: rest) > 0)%nat by (cbn [length]; lia).
        rewrite <- Hs, skipn_length in H. lia. }
      apply IH; lia.
Qed.

Lemma scan_fuel_enough fuel h acc : (length h <= fuel)%nat -> scan fuel h acc = scan (length h) h acc.
Proof. intros H. apply scan_fuel_any; lia. Qed.

(* ---------------- valid frames ---------------- *)
Lemma vframe_nonempty f : vframe f -> (3 <= length f)%nat.
Proof.
  intros (mid & m & -> & Hne & _ & _). destruct mid as [|x mid]. congruence.
  cbn [length app]. rewrite app_length. cbn [length]. lia.
Qed.

Lemma frames_length fs : Forall vframe fs -> (length fs <= length (concat fs))%nat.
Proof.
  induction 1 as [|f fs Hf _ IH]; cbn [concat length]. lia.
  rewrite app_length. apply vframe_nonempty in Hf. lia.
Qed.

Lemma decode_ok_vframe f m : decode f = Ok m -> decode_ok f = (f, m).
Proof. unfold decode_ok. now intros ->. Qed.

(* one round of the loop on a history that starts with a valid frame *)
Lemma scan_step fuel f rest acc : vframe f ->
  scan (S fuel) (f ++ rest) acc =
  match rest with
  | [] => {| u_hist := []; u_msgs := acc ++ [decode_ok f]; u_err := None |}
  | _ => scan fuel rest (acc ++ [decode_ok f])
  end.
Proof.
  intros (mid & m & Hf & Hne & Hn & Hd).
  assert (Hlen : len f = 2 + len mid).
  { subst f. rewrite len_cons, len_app, len_cons, len_nil. lia. }
  assert (Hmid : 1 <= len mid).
  { destruct mid. congruence. rewrite len_cons. lia. }
  cbn [scan].
  replace (2 <? len (f ++ rest)) with true by (rewrite len_app; lia).
  replace (hd 0 (f ++ rest)) with 126 by (subst f; reflexivity).
  rewrite N.eqb_refl. cbn [andb].
  replace (tl (f ++ rest)) with (mid ++ 126 :: rest)
    by (subst f; cbn [app tl]; now rewrite <- app_assoc).
  rewrite nth_delim_first by exact Hn.
  replace (N.to_nat (1 + len mid + 1)) with (length f + 0)%nat by (unfold len in *; lia).
  rewrite firstn_app_2, skipn_app. cbn [firstn]. rewrite app_nil_r.
  rewrite Nat.add_0_r, skipn_all, Nat.sub_diag. cbn [app skipn].
  rewrite Hd, (decode_ok_vframe _ _ Hd). reflexivity.
Qed.

Lemma scan_partial fuel r acc : partial r ->
  scan fuel r acc = {| u_hist := r; u_msgs := acc; u_err := None |}.
Proof.
  intros Hp. destruct fuel as [|fuel]; [reflexivity|]. cbn [scan].
  destruct Hp as [->|[t [-> Hn]]]. reflexivity.
  cbn [tl]. rewrite (nth_delim_none t 1 1 Hn).
  destruct ((2 <? len (126 :: t)) && (hd 0 (126 :: t) =? 126)); reflexivity.
Qed.

Lemma concat_app_nil (fs : list (list N)) r :
  Forall vframe fs -> concat fs ++ r = [] -> fs = [] /\ r = [].
Proof.
  intros Hfs H. apply app_eq_nil in H. destruct H as [H ->]. split; [|reflexivity].
  destruct fs as [|f fs]; [reflexivity|]. apply Forall_cons_iff in Hfs; destruct Hfs as [Hf _].
  apply vframe_nonempty in Hf. cbn [concat] in H. apply (f_equal (@length N)) in H.
  rewrite app_length in H. cbn [length] in H. lia.
Qed.

(* the loop on a history made of valid frames followed by a partial frame *)
Lemma scan_frames fs : forall r acc fuel, Forall vframe fs -> partial r -> (length fs <= fuel)%nat ->
  scan fuel (concat fs ++ r) acc = {| u_hist := r; u_msgs := acc ++ map decode_ok fs; u_err := None |}.
Proof.
  induction fs as [|f fs IH]; intros r acc fuel Hfs Hr Hfuel.
  - cbn [concat app map]. rewrite app_nil_r. apply scan_partial, Hr.
  - apply Forall_cons_iff in Hfs; destruct Hfs as [Hf Hfs'].
    destruct fuel as [|fuel]. cbn [length] in Hfuel; lia.
    cbn [concat]. rewrite <- app_assoc. rewrite scan_step by exact Hf.
    destruct (concat fs ++ r) as [|c rest] eqn:Hrest.
    + apply concat_app_nil in Hrest; [|exact Hfs']. destruct Hrest as [-> ->]. reflexivity.
    + rewrite <- Hrest. rewrite IH; auto. cbn [map]. now rewrite <- app_assoc.
      cbn [length] in Hfuel. lia.
Qed.

(* one unpack call: what matters is only history ++ read *)
Lemma unpack_frames h d fs r : Forall vframe fs -> partial r -> h ++ d = concat fs ++ r ->
  unpack h d = {| u_hist := r; u_msgs := map decode_ok fs; u_err := None |}.
Proof.
  intros Hfs Hr Heq. unfold unpack.
  destruct ((len h =? 0) && (2 <? len d) && (last d 0 =? 126) &&
            match nth_delim d 2 0 with Some i => i =? len d - 1 | None => false end) eqn:Hfast.
  - (* fast path: then the read is exactly one frame *)
    apply andb_true_iff in Hfast. destruct Hfast as [Hfast H2].
    apply andb_true_iff in Hfast. destruct Hfast as [Hfast _].
    apply andb_true_iff in Hfast. destruct Hfast as [Hh _].
    assert (h = []) as -> by (destruct h; [reflexivity|rewrite len_cons in Hh; lia]).
    cbn [app] in Heq.
    destruct fs as [|f fs].
    + cbn [concat app] in Heq. subst d. rewrite partial_no_second in H2 by exact Hr. discriminate.
    + apply Forall_cons_iff in Hfs; destruct Hfs as [Hf Hfs'].
      destruct Hf as (mid & m & Hf & Hne & Hn & Hd).
      cbn [concat] in Heq. rewrite <- app_assoc in Heq.
      assert (Hd' : d = 126 :: mid ++ 126 :: (concat fs ++ r)).
      { rewrite Heq, Hf. cbn [app]. now rewrite <- app_assoc. }
      rewrite Hd' in H2 at 1. rewrite nth_delim_second in H2 by exact Hn.
      assert (Hl : len d = 2 + len mid + len (concat fs ++ r)).
      { rewrite Hd'. rewrite len_cons, len_app, len_cons. lia. }
      assert (Hz : concat fs ++ r = []).
      { destruct (concat fs ++ r). reflexivity. rewrite len_cons in Hl. lia. }
      apply concat_app_nil in Hz; [|exact Hfs']. destruct Hz as [-> ->].
      cbn [concat] in Heq. rewrite !app_nil_r in Heq. subst d.
      rewrite Hd. cbn [map]. now rewrite (decode_ok_vframe _ _ Hd).
  - rewrite Heq. rewrite scan_frames; auto. apply frames_length in Hfs.
    rewrite app_length. lia.
Qed.

(* ---------------- cutting a framed stream in two ---------------- *)
Lemma partial_prefix p q : partial (p ++ q) -> partial p.
Proof.
  intros [H|[t [H Hn]]].
  - apply app_eq_nil in H. left. tauto.
  - destruct p as [|x p]. now left. right. cbn [app] in H. injection H as -> <-.
    exists p. split. reflexivity. intros Hin. apply Hn, in_or_app. now left.
Qed.

Lemma frame_proper_prefix_partial f p q : vframe f -> p ++ q = f -> q <> [] -> partial p.
Proof.
  intros (mid & m & -> & _ & Hn & _) H Hq.
  destruct p as [|x p]. now left. right. cbn [app] in H. injection H as -> H.
  exists p. split. reflexivity.
  (* p ++ q = mid ++ [126], q non-empty: p is a prefix of mid *)
  assert (Hlen : (length p <= length mid)%nat).
  { apply (f_equal (@length N)) in H. rewrite !app_length in H. cbn [length] in H.
    destruct q. congruence. cbn [length] in H. lia. }
  assert (Hp : p = firstn (length p) mid).
  { apply (f_equal (firstn (length p))) in H. rewrite firstn_app, Nat.sub_diag, firstn_all in H.
    cbn [firstn] in H. rewrite app_nil_r in H. rewrite firstn_app in H.
    replace (length p - length mid)%nat with 0%nat in H by lia. cbn [firstn] in H.
    now rewrite app_nil_r in H. }
  intros Hin. apply Hn. rewrite <- (firstn_skipn (length p) mid). apply in_or_app. left.
  now rewrite <- Hp.
Qed.

Lemma app_eq_app_len {A} (a b c d : list A) : a ++ b = c ++ d -> (length c <= length a)%nat ->
  exists a', a = c ++ a' /\ d = a' ++ b.
Proof.
  revert a. induction c as [|x c IH]; intros a H Hl.
  - exists a. split; auto.
  - destruct a as [|y a]. cbn [length] in Hl; lia.
    cbn [app] in H. injection H as -> H. cbn [length] in Hl.
    destruct (IH a H ltac:(lia)) as (a' & -> & ->). exists a'. split; reflexivity.
Qed.

Lemma app_eq_app_len2 {A} (a b c d : list A) : a ++ b = c ++ d -> (length a < length c)%nat ->
  exists c', c = a ++ c' /\ b = c' ++ d /\ c' <> [].
Proof.
  intros H Hl. symmetry in H. destruct (app_eq_app_len c d a b H ltac:(lia)) as (c' & -> & ->).
  exists c'. repeat split. intros ->. rewrite app_nil_r in Hl. lia.
Qed.

(* any cut point of (frames ++ partial) splits it into (frames ++ partial) and a remainder that
   continues it *)
Lemma split_stream fs : forall p q r, Forall vframe fs -> partial r -> p ++ q = concat fs ++ r ->
  exists fs1 fs2 r1, fs = fs1 ++ fs2 /\ p = concat fs1 ++ r1 /\ partial r1 /\
                     r1 ++ q = concat fs2 ++ r /\
                     (forall f fs2', fs2 = f :: fs2' -> (length r1 < length f)%nat).
Proof.
  induction fs as [|f fs IH]; intros p q r Hfs Hr H.
  - exists [], [], p. cbn [concat app] in *. repeat split; auto.
    + rewrite <- H in Hr. eapply partial_prefix; eauto.
    + intros; discriminate.
  - apply Forall_cons_iff in Hfs; destruct Hfs as [Hf Hfs']. cbn [concat] in H. rewrite <- app_assoc in H.
    destruct (Nat.lt_ge_cases (length p) (length f)) as [Hlt|Hge].
    + destruct (app_eq_app_len2 _ _ _ _ H Hlt) as (c' & Hc & Hq & Hne).
      exists [], (f :: fs), p. cbn [concat app]. repeat split; auto.
      * eapply frame_proper_prefix_partial; eauto.
      * rewrite <- app_assoc. exact H.
      * intros ? ? [= <- <-]. exact Hlt.
    + destruct (app_eq_app_len _ _ _ _ H Hge) as (p' & -> & Hq).
      symmetry in Hq. destruct (IH p' q r Hfs' Hr Hq) as (fs1 & fs2 & r1 & -> & -> & Hr1 & Hq' & Hlt).
      exists (f :: fs1), fs2, r1. cbn [concat app]. rewrite <- app_assoc. repeat split; auto.
Qed.

Lemma partial_frames_nil fs r : Forall vframe fs -> partial (concat fs ++ r) -> fs = [].
Proof.
  intros Hfs Hp. destruct fs as [|f fs]; [reflexivity|]. exfalso.
  apply Forall_cons_iff in Hfs; destruct Hfs as [Hf _]. destruct Hf as (mid & m & -> & _ & _ & _).
  destruct Hp as [H|[t [H Hn]]]. discriminate.
  cbn [concat app] in H. injection H as H. apply Hn. rewrite <- H.
  rewrite <- !app_assoc. apply in_or_app. right. now left.
Qed.

(* ---------------- the reader loop ---------------- *)
Lemma run_unpack_frames chunks : forall h acc fs r,
  Forall vframe fs -> partial h -> partial r -> h ++ concat chunks = concat fs ++ r ->
  run_unpack h chunks acc = {| u_hist := r; u_msgs := acc ++ map decode_ok fs; u_err := None |}.
Proof.
  induction chunks as [|c cs IH]; intros h acc fs r Hfs Hh Hr H.
  - cbn [concat] in H. rewrite app_nil_r in H. cbn [run_unpack].
    assert (fs = []) as -> by (eapply partial_frames_nil; eauto; now rewrite <- H).
    cbn [concat app map] in *. subst h. now rewrite app_nil_r.
  - cbn [concat] in H. rewrite app_assoc in H.
    destruct (split_stream fs (h ++ c) (concat cs) r Hfs Hr H) as (fs1 & fs2 & r1 & -> & Hp & Hr1 & Hq & _).
    apply Forall_app in Hfs. destruct Hfs as [Hfs1 Hfs2].
    cbn [run_unpack]. rewrite (unpack_frames h c fs1 r1 Hfs1 Hr1 Hp). cbn [u_err u_hist u_msgs].
    rewrite (IH r1 (acc ++ map decode_ok fs1) fs2 r Hfs2 Hr1 Hr Hq).
    now rewrite map_app, app_assoc.
Qed.

Lemma partial_nil : partial []. Proof. now left. Qed.

(* C04: any partition of the concatenation of valid frames *)
Theorem segmentation : forall fs chunks, Forall vframe fs -> concat chunks = concat fs ->
  run_unpack [] chunks [] = {| u_hist := []; u_msgs := map decode_ok fs; u_err := None |}.
Proof.
  intros fs chunks Hfs H.
  apply (run_unpack_frames chunks [] [] fs [] Hfs partial_nil partial_nil).
  cbn [app]. now rewrite app_nil_r.
Qed.

Corollary any_two : forall fs cs1 cs2, Forall vframe fs -> concat cs1 = concat fs -> concat cs2 = concat fs ->
  run_unpack [] cs1 [] = run_unpack [] cs2 [].
Proof. intros fs cs1 cs2 Hfs H1 H2. now rewrite (segmentation fs cs1), (segmentation fs cs2). Qed.

(* frames_within *)
Lemma frames_within_app fs1 fs2 k :
  frames_within (fs1 ++ fs2) (length (concat fs1) + k) = fs1 ++ frames_within fs2 k.
Proof.
  induction fs1 as [|f fs1 IH]; cbn [app concat length frames_within]. reflexivity.
  rewrite app_length. replace (Nat.leb (length f) (length f + length (concat fs1) + k)) with true
    by (symmetry; apply Nat.leb_le; lia).
  replace (length f + length (concat fs1) + k - length f)%nat with (length (concat fs1) + k)%nat by lia.
  now rewrite IH.
Qed.

Lemma frames_within_short fs k : (forall f fs', fs = f :: fs' -> (k < length f)%nat) ->
  frames_within fs k = [].
Proof.
  destruct fs as [|f fs]; intros H; cbn [frames_within]. reflexivity.
  specialize (H f fs eq_refl). replace (Nat.leb (length f) k) with false. reflexivity.
  symmetry. apply Nat.leb_gt. lia.
Qed.

(* C04 promptness: after any prefix of the reads, exactly the frames whose closing delimiter has
   been fed have been delivered, the rest of the fed bytes is the history, no error *)
Theorem prompt : forall fs chunks rest, Forall vframe fs -> concat chunks ++ rest = concat fs ->
  let done := frames_within fs (length (concat chunks)) in
  run_unpack [] chunks [] =
    {| u_hist := skipn (length (concat done)) (concat chunks); u_msgs := map decode_ok done; u_err := None |}.
Proof.
  intros fs chunks rest Hfs H.
  assert (H' : concat chunks ++ rest = concat fs ++ []) by now rewrite app_nil_r.
  destruct (split_stream fs (concat chunks) rest [] Hfs partial_nil H')
    as (fs1 & fs2 & r1 & -> & Hp & Hr1 & Hq & Hlt).
  apply Forall_app in Hfs. destruct Hfs as [Hfs1 Hfs2].
  assert (Hdone : frames_within (fs1 ++ fs2) (length (concat chunks)) = fs1).
  { rewrite Hp, app_length, frames_within_app, frames_within_short by exact Hlt. apply app_nil_r. }
  cbn zeta. rewrite Hdone.
  rewrite (run_unpack_frames chunks [] [] fs1 r1 Hfs1 partial_nil Hr1 Hp).
  cbn [app]. rewrite Hp, skipn_app, skipn_all, Nat.sub_diag. reflexivity.
Qed.

(* the per-read trace agrees with the reader loop on error-free runs *)
Lemma last_cons_default {A} (x : A) l d d' : last (x :: l) d = last (x :: l) d'.
Proof. revert x. induction l as [|y l IH]; intros x. reflexivity.
  change (last (y :: l) d = last (y :: l) d'). apply IH. Qed.

Lemma trace_run chunks : forall h acc,
  Forall (fun o => u_err o = None) (trace_unpack h chunks) ->
  run_unpack h chunks acc =
    {| u_hist := last (map u_hist (trace_unpack h chunks)) h;
       u_msgs := acc ++ concat (map u_msgs (trace_unpack h chunks)); u_err := None |}.
Proof.
  induction chunks as [|c cs IH]; intros h acc Hall.
  - cbn [trace_unpack run_unpack map concat last]. now rewrite app_nil_r.
  - cbn [trace_unpack run_unpack] in *. apply Forall_cons_iff in Hall. destruct Hall as [He Hall'].
    rewrite He. rewrite IH by exact Hall'. cbn [map concat]. rewrite app_assoc. f_equal.
    destruct (trace_unpack (u_hist (unpack h c)) cs) as [|u l]. reflexivity.
    cbn [map]. change (last (u_hist u :: map u_hist l) (u_hist (unpack h c)) =
                       last (u_hist u :: map u_hist l) h). apply last_cons_default.
Qed.

(* ---------------- the decidable form of vframe ---------------- *)
Lemma decode_shape f m : decode f = Ok m ->
  exists mid, f = 126 :: mid ++ [126] /\ mid <> [].
Proof.
  unfold decode, unescape. intros H.
  destruct ((2 <? len f) && (hd 0 f =? 126) && (last f 0 =? 126)) eqn:Hg; cbn [negb bind] in H; [|discriminate].
  apply andb_true_iff in Hg. destruct Hg as [Hg Hl]. apply andb_true_iff in Hg. destruct Hg as [H2 Hh].
  destruct f as [|a t]. rewrite len_nil in H2; lia.
  cbn [hd] in Hh. assert (a = 126) as -> by lia.
  destruct t as [|b t] using rev_ind. rewrite len_cons, len_nil in H2; lia.
  clear IHt. change (126 :: t ++ [b]) with ((126 :: t) ++ [b]) in Hl. rewrite last_last in Hl.
  exists t. split.
  - f_equal. f_equal. f_equal. lia.
  - intros ->. cbv in H2. discriminate.
Qed.

Lemma existsb_126 l : existsb (N.eqb 126) l = false <-> ~ In 126 l.
Proof.
  split.
  - intros H Hin. assert (existsb (N.eqb 126) l = true); [|congruence].
    apply existsb_exists. exists 126. split. exact Hin. apply N.eqb_refl.
  - intros Hn. destruct (existsb (N.eqb 126) l) eqn:He; [|reflexivity].
    apply existsb_exists in He. destruct He as (x & Hin & Hx). apply N.eqb_eq in Hx. subst x. tauto.
Qed.

Lemma vframeb_spec f : vframeb f = true <-> vframe f.
Proof.
  unfold vframeb. split.
  - intros H. apply andb_true_iff in H. destruct H as [Hok Hn].
    destruct (decode f) as [m| |] eqn:Hd; try discriminate.
    destruct (decode_shape f m Hd) as (mid & Hf & Hne).
    exists mid, m. repeat split; auto.
    rewrite Hf in Hn. cbn [tl] in Hn. rewrite removelast_last in Hn.
    apply existsb_126. now destruct (existsb (N.eqb 126) mid).
  - intros (mid & m & Hf & Hne & Hn & Hd). rewrite Hd. cbn [is_ok andb].
    rewrite Hf. cbn [tl]. rewrite removelast_last. apply existsb_126 in Hn. now rewrite Hn.
Qed.

(* what Frame.escape produces always has the delimiter shape (so every frame built by
   Frame.encode that the decoder accepts is a vframe) *)
Lemma esc1_no_delim b : ~ In 126 (esc1 b).
Proof.
  unfold esc1. destruct (N.eqb_spec b 126) as [->|H1]. { cbn. intuition lia. }
  destruct (N.eqb_spec b 125) as [->|H2]; cbn; intuition lia.
Qed.

Lemma escape_no_delim l : ~ In 126 (flat_map esc1 l).
Proof.
  induction l as [|b l IH]; cbn [flat_map]. tauto.
  intros H. apply in_app_or in H. destruct H as [H|H]. now apply esc1_no_delim in H. tauto.
Qed.

Lemma encode_vframe h rid ps body m : decode (encode h rid ps body) = Ok m -> vframe (encode h rid ps body).
Proof.
  intros Hd. unfold encode, escape in *.
  set (p := encode_payload h rid ps body ++ [xor_all (encode_payload h rid ps body)]) in *.
  clearbody p.
  exists (flat_map esc1 p), m. repeat split; auto.
  - intros H. destruct (decode_shape _ _ Hd) as (mid & Hf & Hne). injection Hf as Hf.
    apply app_inj_tail in Hf. destruct Hf as [Hf _]. congruence.
  - apply escape_no_delim.
Qed.

(* ---------------- the reader's dispatch loop ---------------- *)
Lemma reader_run_ok reg : forall chunks h acc racc,
  u_err (run_unpack h chunks acc) = None ->
  exists X, u_msgs (run_unpack h chunks acc) = acc ++ X /\
            reader_run reg h chunks racc = (racc ++ map (dispatch1 reg) X, None).
Proof.
  induction chunks as [|c cs IH]; intros h acc racc He.
  - exists []. cbn [run_unpack u_msgs reader_run map]. now rewrite !app_nil_r.
  - cbn [run_unpack reader_run] in *.
    destruct (u_err (unpack h c)) as [e|] eqn:E.
    + cbn [u_err] in He. discriminate.
    + destruct (IH (u_hist (unpack h c)) (acc ++ u_msgs (unpack h c))
                   (racc ++ map (dispatch1 reg) (u_msgs (unpack h c))) He) as (X & HX & HR).
      exists (u_msgs (unpack h c) ++ X). split.
      * rewrite HX. now rewrite app_assoc.
      * rewrite HR, map_app. now rewrite app_assoc.
Qed.

Theorem reader_events : forall reg fs chunks, Forall vframe fs -> concat chunks = concat fs ->
  reader_run reg [] chunks [] = (map (dispatch1 reg) (map decode_ok fs), None).
Proof.
  intros reg fs chunks Hfs H.
  pose proof (segmentation fs chunks Hfs H) as S.
  destruct (reader_run_ok reg chunks [] [] []) as (X & HX & HR).
  - now rewrite S.
  - rewrite S in HX. cbn [u_msgs app] in HX. subst X. exact HR.
Qed.

(* promptness at the dispatch level: after any prefix of the reads exactly the frames whose closing
   delimiter has been fed have been dispatched *)
Theorem reader_events_prompt : forall reg fs chunks rest, Forall vframe fs ->
  concat chunks ++ rest = concat fs ->
  reader_run reg [] chunks [] =
    (map (dispatch1 reg) (map decode_ok (frames_within fs (length (concat chunks)))), None).
Proof.
  intros reg fs chunks rest Hfs H.
  pose proof (prompt fs chunks rest Hfs H) as S. cbv zeta in S.
  destruct (reader_run_ok reg chunks [] [] []) as (X & HX & HR).
  - now rewrite S.
  - rewrite S in HX. cbn [u_msgs app] in HX. subst X. exact HR.
Qed.

(* an unsupported id never ends the loop: whatever stands before or after it is dispatched *)
Lemma dispatch_all reg ms : length (map (dispatch1 reg) ms) = length ms.
Proof. apply map_length. Qed.

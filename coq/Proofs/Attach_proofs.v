(* Proofs about Model/Attach.v (C15): lexing of the buffered bytes, independence of the read
   segmentation, byte-exact reassembly, one prescribed reply per control frame. *)
From JT.Base Require Import Prelude PreludeP.
From JT.Model Require Import Frame Ranges Unpack Attach.
From JT.Proofs Require Import Frame_proofs FrameSpec Unpack_proofs Ranges_proofs.
From Coq Require Import ZArith ZifyN ZifyNat ZifyBool Permutation.
Ltac Zify.zify_post_hook ::= Z.div_mod_to_equations.

Local Notation W := 4294967296.
Local Notation wire := Attach.wire.
Local Notation iter := Attach.iter.

(* ====================== 0. small list facts ====================== *)
Lemma has_prefix_app p x : has_prefix p (p ++ x) = true.
Proof. induction p as [|a p IH]; cbn [has_prefix app]. reflexivity. rewrite N.eqb_refl. exact IH. Qed.

Lemma has_prefix_short p : forall l, (length l < length p)%nat -> has_prefix p l = false.
Proof.
  induction p as [|a p IH]; intros [|b l] H; cbn [length] in H; try lia; cbn [has_prefix]. reflexivity.
  rewrite IH by lia. apply andb_false_r.
Qed.

Lemma app_prefix_split {A} (p : list A) : forall l q x, l ++ q = p ++ x -> (length p <= length l)%nat ->
  exists y, l = p ++ y.
Proof.
  induction p as [|a p IH]; intros l q x H Hl. exists l. reflexivity.
  destruct l as [|b l]; cbn [length] in Hl. lia.
  cbn [app] in H. injection H as -> H. destruct (IH l q x H) as [y ->]. lia. exists y. reflexivity.
Qed.

Lemma len_le_length {A B} (a : list A) (b : list B) : len a <= len b -> (length a <= length b)%nat.
Proof. unfold len. lia. Qed.

Lemma len_repeat {A} (x : A) n : len (repeat x n) = N.of_nat n.
Proof. unfold len. now rewrite repeat_length. Qed.

Lemma sub_mid a b c i j : len a = i -> i + len b = j -> sub (a ++ b ++ c) i j = b.
Proof.
  intros <- <-. unfold sub. replace (len a + len b - len a) with (len b) by lia.
  unfold len. rewrite !Nat2N.id. rewrite skipn_app, skipn_all, Nat.sub_diag. cbn [app skipn].
  rewrite firstn_app, Nat.sub_diag, firstn_all. cbn [firstn]. apply app_nil_r.
Qed.

Lemma at_mid a x b i : len a = i -> at_ (a ++ x :: b) i = x.
Proof. intros <-. unfold at_, len. rewrite Nat2N.id, app_nth2, Nat.sub_diag by lia. reflexivity. Qed.

Lemma firstn_len_app2 (a b : list N) n : n = len a -> firstn (N.to_nat n) (a ++ b) = a.
Proof. intros ->. unfold len. rewrite Nat2N.id. apply firstn_len_app. Qed.

Lemma skipn_len_app2 (a b : list N) n : n = len a -> skipn (N.to_nat n) (a ++ b) = b.
Proof. intros ->. apply skipn_len_app. Qed.

(* ---------- bytes.Trim(s, "\x00") ---------- *)
Lemma trim0_left_length l : (length (trim0_left l) <= length l)%nat.
Proof. induction l as [|c t IH]; cbn [trim0_left length]. lia. destruct (c =? 0); cbn [length]; lia. Qed.

Lemma trim0_left_zeros k l : trim0_left (repeat 0 k ++ l) = trim0_left l.
Proof. induction k as [|k IH]; cbn [repeat app trim0_left]. reflexivity. exact IH. Qed.

Lemma trim0_length l : (length (trim0 l) <= length l)%nat.
Proof.
  unfold trim0. rewrite rev_length. etransitivity. apply trim0_left_length. rewrite rev_length.
  apply trim0_left_length.
Qed.

Lemma rev_repeat {A} (x : A) k : rev (repeat x k) = repeat x k.
Proof.
  induction k as [|k IH]; cbn [repeat rev]. reflexivity. rewrite IH.
  change [x] with (repeat x 1). rewrite <- repeat_app. replace (k + 1)%nat with (S k) by lia. reflexivity.
Qed.

Lemma trim0_padded nm k : trim0 nm = nm -> trim0 (nm ++ repeat 0 k) = nm.
Proof.
  intros H. destruct nm as [|c t].
  - cbn [app]. unfold trim0. replace (repeat 0 k) with (repeat 0 k ++ []) by apply app_nil_r.
    rewrite trim0_left_zeros. reflexivity.
  - assert (Hc : (c =? 0) = false).
    { destruct (c =? 0) eqn:E; [|reflexivity]. exfalso.
      pose proof (trim0_left_length t) as H1.
      assert (length (trim0 (c :: t)) <= length t)%nat as H2.
      { unfold trim0. cbn [trim0_left]. rewrite E. rewrite rev_length.
        etransitivity. apply trim0_left_length. rewrite rev_length. exact H1. }
      rewrite H in H2. cbn [length] in H2. lia. }
    unfold trim0 in *. cbn [trim0_left app] in *. rewrite Hc in *.
    change (c :: t ++ repeat 0 k) with ((c :: t) ++ repeat 0 k).
    rewrite rev_app_distr, rev_repeat, trim0_left_zeros. exact H.
Qed.

(* ---------- big-endian DWORD ---------- *)
Lemma be4 x : x < W -> be_dec (be_enc 4 x) = x.
Proof. intros H. apply be_dec_enc. cbn. exact H. Qed.
Lemma be4_len x : len (be_enc 4 x) = 4.
Proof. apply be_enc_len. Qed.

(* ====================== 1. lexing ====================== *)
Lemma marker_len : len MARKER = 4. Proof. reflexivity. Qed.

Ltac lens := repeat (progress rewrite ?len_app, ?be4_len, ?marker_len, ?len_repeat, ?len_cons, ?len_nil).

Lemma chunk_head_len d nm off dl : name_ok d nm ->
  len (chunk_head d nm off dl) = if d =? D_HLJ then 13 + len nm else 62.
Proof.
  intros [_ Hn]. unfold chunk_head. destruct (d =? D_HLJ).
  - rewrite !len_app, !be4_len, marker_len. change (len [len nm]) with 1. lia.
  - rewrite !len_app, !be4_len, marker_len, len_repeat. unfold len in *. lia.
Qed.

Lemma chunk_head_marker d nm off dl : exists y, chunk_head d nm off dl = MARKER ++ y.
Proof. unfold chunk_head. destruct (d =? D_HLJ); eexists; reflexivity. Qed.

Lemma min_head_ok d nm off dl x : name_ok d nm -> has_min_head d (chunk_head d nm off dl ++ x) = true.
Proof.
  intros Hn. pose proof (chunk_head_len d nm off dl Hn) as HL. unfold has_min_head.
  destruct (d =? D_HLJ) eqn:E.
  - assert (at_ (chunk_head d nm off dl ++ x) 4 = len nm) as ->.
    { unfold chunk_head. rewrite E. rewrite <- !app_assoc. cbn [app]. apply (at_mid MARKER). reflexivity. }
    rewrite len_app, HL. destruct (13 + len nm + len x <? 5) eqn:E5; lia.
  - rewrite len_app, HL. lia.
Qed.

Lemma parse_head_ok d nm off dl x : name_ok d nm -> off < W -> dl < W ->
  parse_head d (chunk_head d nm off dl ++ x) = (len (chunk_head d nm off dl), nm, off, dl).
Proof.
  intros Hn Ho Hd. pose proof (chunk_head_len d nm off dl Hn) as HL. rewrite HL.
  destruct Hn as [Ht Hn]. unfold parse_head, chunk_head. destruct (d =? D_HLJ) eqn:E.
  - rewrite <- !app_assoc.
    assert (at_ (MARKER ++ [len nm] ++ nm ++ be_enc 4 off ++ be_enc 4 dl ++ x) 4 = len nm) as ->.
    { cbn [app]. apply (at_mid MARKER). reflexivity. }
    f_equal; [f_equal; [f_equal|]|].
    + lia.
    + rewrite (app_assoc MARKER [len nm]). rewrite sub_mid; [exact Ht| |lia]. rewrite len_app. reflexivity.
    + rewrite (app_assoc MARKER [len nm]), (app_assoc _ nm).
      rewrite sub_mid; [apply be4; exact Ho| |rewrite be4_len; lia].
      lens. lia.
    + rewrite (app_assoc MARKER [len nm]), (app_assoc _ nm), (app_assoc _ (be_enc 4 off)).
      rewrite sub_mid; [apply be4; exact Hd| |rewrite be4_len; lia].
      lens. lia.
  - rewrite <- !app_assoc.
    f_equal; [f_equal; [f_equal|]|].
    + rewrite (app_assoc nm). rewrite sub_mid; [apply trim0_padded; exact Ht|reflexivity|].
      rewrite len_app, len_repeat. unfold len in *. lia.
    + rewrite (app_assoc nm), (app_assoc MARKER).
      rewrite sub_mid; [apply be4; exact Ho| |rewrite be4_len; lia].
      rewrite !len_app, len_repeat, marker_len. unfold len in *. lia.
    + rewrite (app_assoc nm), (app_assoc MARKER), (app_assoc _ (be_enc 4 off)).
      rewrite sub_mid; [apply be4; exact Hd| |rewrite be4_len; lia].
      rewrite !len_app, len_repeat, marker_len, be4_len. unfold len in *. lia.
Qed.

(* a whole chunk at the head of the buffer is recognised as that chunk *)
Lemma lex_chunk d nm off data rest : wf_item d (I_chunk nm off data) ->
  lex d (wire d (I_chunk nm off data) ++ rest) =
  L_chunk (len (chunk_head d nm off (len data))) nm off (len data).
Proof.
  intros (Hn & Ho & Hd). cbn [wire]. unfold lex. rewrite <- app_assoc.
  destruct (chunk_head_marker d nm off (len data)) as [y Hy].
  assert (has_prefix MARKER (chunk_head d nm off (len data) ++ data ++ rest) = true) as ->.
  { rewrite Hy, <- app_assoc. apply has_prefix_app. }
  rewrite min_head_ok by exact Hn. cbn [negb]. rewrite parse_head_ok by assumption.
  rewrite !len_app.
  replace (len (chunk_head d nm off (len data)) + len data <=?
           len (chunk_head d nm off (len data)) + (len data + len rest)) with true by lia.
  reflexivity.
Qed.

(* a proper prefix of a chunk: wait for more data *)
Lemma lex_chunk_prefix d nm off data r q : wf_item d (I_chunk nm off data) ->
  r ++ q = wire d (I_chunk nm off data) -> q <> [] -> lex d r = L_more.
Proof.
  intros (Hn & Ho & Hd) H Hq. cbn [wire] in H. unfold lex.
  assert (Hlen : len r < len (chunk_head d nm off (len data)) + len data).
  { apply (f_equal len) in H. rewrite !len_app in H. destruct q. congruence. rewrite len_cons in H. lia. }
  destruct (chunk_head_marker d nm off (len data)) as [y Hy].
  destruct (Nat.lt_ge_cases (length r) 4) as [H4|H4].
  - rewrite has_prefix_short by exact H4. replace (len r <? 10) with true by (unfold len; lia). reflexivity.
  - assert (has_prefix MARKER r = true) as ->.
    { rewrite Hy, <- app_assoc in H. destruct (app_prefix_split MARKER r q _ H H4) as [z ->].
      apply has_prefix_app. }
    pose proof (chunk_head_len d nm off (len data) Hn) as HL.
    destruct (N.lt_ge_cases (len r) (len (chunk_head d nm off (len data)))) as [Hs|Hs].
    + (* the header is not complete *)
      assert (has_min_head d r = false) as ->; [|reflexivity].
      unfold has_min_head. destruct (d =? D_HLJ) eqn:E; [|lia].
      destruct (len r <? 5) eqn:E5. reflexivity.
      assert (at_ r 4 = len nm) as ->; [|lia].
      assert (exists z, r = (MARKER ++ [len nm]) ++ z) as [z ->].
      { apply (app_prefix_split _ r q (nm ++ be_enc 4 off ++ be_enc 4 (len data) ++ data)).
        rewrite H. unfold chunk_head. rewrite E. rewrite <- !app_assoc. reflexivity.
        cbn [length app MARKER]. unfold len in E5. lia. }
      rewrite <- app_assoc. cbn [app]. apply (at_mid MARKER). reflexivity.
    + destruct (app_prefix_split (chunk_head d nm off (len data)) r q data H) as [z ->].
      apply len_le_length, Hs.
      rewrite min_head_ok by exact Hn. cbn [negb]. rewrite parse_head_ok by assumption.
      replace (len (chunk_head d nm off (len data)) + len data <=?
               len (chunk_head d nm off (len data) ++ z)) with false by lia.
      reflexivity.
Qed.

(* bytes.IndexFunc for the closing delimiter *)
Lemma index_of_mid mid rest : ~ In 126 mid -> index_of SIGN (mid ++ 126 :: rest) = Some (len mid).
Proof.
  unfold SIGN. induction mid as [|a t IH]; intros Hn; cbn [app index_of].
  - reflexivity.
  - assert (a <> 126) by (intros ->; apply Hn; now left).
    replace (a =? 126) with false by lia. rewrite IH. f_equal. rewrite len_cons. lia.
    intros Hi. apply Hn. now right.
Qed.

Lemma index_of_none t : ~ In 126 t -> index_of SIGN t = None.
Proof.
  unfold SIGN. induction t as [|a t IH]; intros Hn; cbn [index_of]. reflexivity.
  assert (a <> 126) by (intros ->; apply Hn; now left).
  replace (a =? 126) with false by lia. rewrite IH. reflexivity. intros Hi. apply Hn. now right.
Qed.

(* a frame Decode accepts has at least 15 bytes: the unescaped payload is at most as long as the
   interior and holds id, attributes, phone, serial, check code *)
Lemma unesc_len_n n : forall w p, (length w <= n)%nat -> unesc w = Ok p -> len p <= len w.
Proof.
  induction n as [|n IH]; intros w p Hn H.
  - destruct w; cbn [length] in Hn; [|lia]. cbn in H. injection H as <-. lia.
  - destruct w as [|b t]. cbn in H. injection H as <-. lia.
    cbn [unesc] in H. cbn [length] in Hn. destruct (b =? 125).
    + destruct t as [|c t']. injection H as <-. rewrite !len_cons. lia.
      cbn [length] in Hn.
      destruct (c =? 1); [|destruct (c =? 2); [|discriminate]];
        (destruct (unesc t') as [r| |] eqn:E; cbn [bind] in H; try discriminate; injection H as <-;
         apply IH in E; [|lia]; rewrite !len_cons; lia).
    + destruct (unesc t) as [r| |] eqn:E; cbn [bind] in H; try discriminate. injection H as <-.
      apply IH in E; [|lia]. rewrite !len_cons. lia.
Qed.

Lemma vframe_len f : vframe f -> 15 <= len f.
Proof.
  intros (mid & m & -> & Hne & Hno & Hd).
  rewrite decode_unfold in Hd. rewrite unescape_delimited in Hd by exact Hne.
  destruct (unesc mid) as [p| |] eqn:E; cbn [bind] in Hd; try discriminate.
  apply (unesc_len_n (length mid)) in E; [|lia].
  assert (13 <= len p); [|rewrite len_cons, len_app, len_cons, len_nil; lia].
  unfold parse_payload in Hd.
  destruct (xor_all p =? 0); cbn [negb] in Hd; [|discriminate].
  destruct (len p <? 4) eqn:E4; [discriminate|].
  cbv zeta in Hd.
  set (ver := N.land (N.shiftr (be16 (at_ p 2) (at_ p 3)) 14) 1) in *.
  destruct (ver =? 1);
    match type of Hd with (if ?c then _ else _) = _ => destruct c eqn:Ec; [discriminate|] end;
    match type of Hd with (if ?c then _ else _) = _ => destruct c eqn:Ec2; [discriminate|] end;
    match type of Hd with (if negb ?c then _ else _) = _ => destruct c eqn:Ec3; cbn [negb] in Hd; [|discriminate] end;
    match type of Ec3 with context [if ?c then _ else _] => destruct c end; lia.
Qed.

(* a whole control frame at the head of the buffer is cut out at its closing delimiter *)
Lemma lex_frame d f rest : vframe f -> lex d (f ++ rest) = L_frame (len f).
Proof.
  intros Hv. pose proof (vframe_len f Hv) as HL. destruct Hv as (mid & m & -> & Hne & Hno & Hd).
  unfold lex. cbn [app has_prefix MARKER]. replace (48 =? 126) with false by reflexivity. cbn [andb].
  replace (len (126 :: (mid ++ [126]) ++ rest) <? 10) with false.
  2:{ revert HL. lens. lia. }
  cbn [tl]. rewrite <- app_assoc. cbn [app]. rewrite index_of_mid by exact Hno.
  f_equal. lens. lia.
Qed.

(* an opening delimiter followed by no further delimiter: wait for more data *)
Lemma lex_open d t : ~ In 126 t -> lex d (126 :: t) = L_more.
Proof.
  intros Hn. unfold lex. cbn [has_prefix MARKER]. replace (48 =? 126) with false by reflexivity. cbn [andb].
  destruct (len (126 :: t) <? 10). reflexivity. cbn [tl]. rewrite index_of_none by exact Hn. reflexivity.
Qed.

(* ====================== 2. one item at the head of the buffer ====================== *)
Definition omap (f : st -> st) (o : outcome) : outcome :=
  match o with O_ok s => O_ok (f s) | O_fatal s => O_fatal (f s) | O_more => O_more end.

Lemma set_hist_twice s a b : set_hist (set_hist s a) b = set_hist s b.
Proof. reflexivity. Qed.
Lemma set_hist_same s : set_hist s (s_hist s) = s.
Proof. destruct s; reflexivity. Qed.
Lemma s_hist_set s a : s_hist (set_hist s a) = a.
Proof. reflexivity. Qed.

(* the state update of a control message only copies the buffered bytes *)
Lemma frame_core_hist d s m r : frame_core d (set_hist s r) m = omap (fun x => set_hist x r) (frame_core d s m).
Proof.
  unfold frame_core.
  change (with_msg (set_hist s r) m) with (set_hist (with_msg s m) r).
  change (frame_decide d (set_hist (with_msg s m) r) m) with (frame_decide d (with_msg s m) m).
  destruct (frame_decide d (with_msg s m) m) as [|stage rec cur n1212 miss]; cbn [omap]. reflexivity.
  change (commit (set_hist (with_msg s m) r) m stage rec cur n1212 miss)
    with (set_hist (commit (with_msg s m) m stage rec cur n1212 miss) r).
  set (s3 := commit (with_msg s m) m stage rec cur n1212 miss).
  change (reply_data (set_hist s3 r)) with (reply_data s3).
  destruct (has_reply stage); [|reflexivity].
  destruct (reply_data s3) as [data|e|]; reflexivity.
Qed.

Lemma frame_core_keeps_hist d s m s' : frame_core d s m = O_ok s' -> s_hist s' = s_hist s.
Proof.
  unfold frame_core. destruct (frame_decide d (with_msg s m) m) as [|stage rec cur n1212 miss]. discriminate.
  destruct (has_reply stage).
  - destruct (reply_data _) as [data|e|]; try discriminate. intros H. injection H as <-. reflexivity.
  - intros H. injection H as <-. reflexivity.
Qed.

(* a whole control frame at the head: Decode, then the message's state update on the remaining bytes *)
Lemma step_frame d s f rest m : vframe f -> decode f = Ok m ->
  Attach.step d (set_hist s (f ++ rest)) = frame_core d (set_hist s rest) m.
Proof.
  intros Hv Hd. unfold Attach.step. rewrite s_hist_set, lex_frame by exact Hv.
  unfold do_frame. rewrite s_hist_set. rewrite firstn_len_app2, skipn_len_app2 by reflexivity.
  rewrite Hd. reflexivity.
Qed.

(* a whole chunk at the head *)
Lemma step_chunk d s nm off data rest : wf_item d (I_chunk nm off data) ->
  Attach.step d (set_hist s (wire d (I_chunk nm off data) ++ rest)) =
  match afind name_eqb nm (s_record s) with
  | None => O_fatal (set_stage (set_hist s (wire d (I_chunk nm off data) ++ rest)) ST_STREAM)
  | Some pk => O_ok (after_chunk s nm (pkg_add pk off (len data) data (chunk_head d nm off (len data))) rest)
  end.
Proof.
  intros Hw. unfold Attach.step. rewrite s_hist_set, lex_chunk by exact Hw.
  unfold do_chunk. rewrite s_hist_set. change (s_record (set_hist s _)) with (s_record s).
  destruct (afind name_eqb nm (s_record s)) as [pk|]; [|reflexivity].
  cbn [wire]. rewrite <- app_assoc.
  rewrite (sub_mid (chunk_head d nm off (len data)) data rest) by reflexivity.
  rewrite firstn_len_app2 by reflexivity.
  rewrite app_assoc. rewrite skipn_len_app2 by (rewrite len_app; reflexivity).
  reflexivity.
Qed.

(* an accepted item consumes exactly its own bytes; whatever follows it in the buffer stays *)
Lemma step_item d s it rest s' : wf_item d it ->
  Attach.step d (set_hist s (wire d it)) = O_ok s' ->
  Attach.step d (set_hist s (wire d it ++ rest)) = O_ok (set_hist s' rest) /\ s_hist s' = [].
Proof.
  intros Hw H. destruct it as [nm off data|f].
  - rewrite <- (app_nil_r (wire d (I_chunk nm off data))) in H.
    rewrite step_chunk in H by exact Hw. rewrite step_chunk by exact Hw.
    destruct (afind name_eqb nm (s_record s)) as [pk|]; [|discriminate].
    injection H as <-. split; reflexivity.
  - cbn [wire wf_item] in *. pose proof Hw as (mid & m & _ & _ & _ & Hd).
    rewrite <- (app_nil_r f) in H. rewrite (step_frame d s f [] m Hw Hd) in H.
    rewrite (step_frame d s f rest m Hw Hd).
    rewrite <- (set_hist_twice s [] rest), frame_core_hist, H. cbn [omap].
    split. reflexivity. apply frame_core_keeps_hist in H. exact H.
Qed.

(* ====================== 3. any segmentation into reads ====================== *)
(* what may be left in the buffer between two reads: nothing, an opening delimiter with no closing
   one yet, or a proper prefix of a chunk *)
Definition ppart (d : N) (r : list N) : Prop :=
  partial r \/
  exists nm off data q, wf_item d (I_chunk nm off data) /\ r ++ q = wire d (I_chunk nm off data) /\ q <> [].

Lemma ppart_nil d : ppart d []. Proof. left. now left. Qed.

Lemma lex_ppart d r : ppart d r -> r <> [] -> lex d r = L_more.
Proof.
  intros [[->|(t & -> & Hn)]|(nm & off & data & q & Hw & H & Hq)] Hr.
  - congruence.
  - apply lex_open, Hn.
  - eapply lex_chunk_prefix; eassumption.
Qed.

Lemma ppart_prefix d p q : ppart d (p ++ q) -> ppart d p.
Proof.
  intros [H|(nm & off & data & q' & Hw & H & Hq)].
  - left. eapply partial_prefix, H.
  - right. exists nm, off, data, (q ++ q'). split. exact Hw. split. rewrite app_assoc. exact H.
    intros E. apply app_eq_nil in E. tauto.
Qed.

Lemma proper_prefix_ppart d it p x : wf_item d it -> p ++ x = wire d it -> x <> [] -> ppart d p.
Proof.
  intros Hw H Hx. destruct it as [nm off data|f].
  - right. exists nm, off, data, x. auto.
  - left. eapply frame_proper_prefix_partial; eassumption.
Qed.

Lemma wire_nonempty d it : wf_item d it -> wire d it <> [].
Proof.
  intros Hw E. destruct it as [nm off data|f]; cbn [wire wf_item] in *.
  - destruct (chunk_head_marker d nm off (len data)) as [y Hy]. rewrite Hy in E. discriminate.
  - apply vframe_len in Hw. rewrite E in Hw. cbv in Hw. congruence.
Qed.

Lemma lex_item d it rest : wf_item d it -> lex d (wire d it ++ rest) <> L_more.
Proof.
  intros Hw. destruct it as [nm off data|f].
  - rewrite lex_chunk by exact Hw. discriminate.
  - cbn [wire]. rewrite lex_frame by exact Hw. discriminate.
Qed.

(* any cut point of (items ++ partial item) splits it the same way *)
Lemma split_items d its : forall p q r, Forall (wf_item d) its -> ppart d r ->
  p ++ q = concat (map (wire d) its) ++ r ->
  exists its1 its2 r1, its = its1 ++ its2 /\ p = concat (map (wire d) its1) ++ r1 /\ ppart d r1 /\
                       r1 ++ q = concat (map (wire d) its2) ++ r.
Proof.
  induction its as [|it its IH]; intros p q r Hall Hr H.
  - exists [], [], p. cbn [map concat app] in *. repeat split; auto.
    eapply ppart_prefix. rewrite H. exact Hr.
  - apply Forall_cons_iff in Hall. destruct Hall as [Hw Hall]. cbn [map concat] in H.
    rewrite <- app_assoc in H.
    destruct (Nat.le_gt_cases (length (wire d it)) (length p)) as [Hl|Hl].
    + destruct (app_eq_app_len p q _ _ H Hl) as (p' & -> & H').
      symmetry in H'. destruct (IH p' q r Hall Hr H') as (its1 & its2 & r1 & -> & -> & Hr1 & H2).
      exists (it :: its1), its2, r1. cbn [map concat app]. rewrite <- app_assoc. repeat split; auto.
    + destruct (app_eq_app_len2 p q _ _ H Hl) as (x & Hx & -> & Hne).
      exists [], (it :: its), p. cbn [map concat app]. repeat split; auto.
      * eapply proper_prefix_ppart; eauto.
      * rewrite Hx. rewrite <- !app_assoc. reflexivity.
Qed.

Lemma last_cons_st (x : st) l s : last (x :: l) s = last l x.
Proof.
  revert x s. induction l as [|y l IH]; intros x s. reflexivity.
  transitivity (last l y). exact (IH y s). symmetry. exact (IH y x).
Qed.

Lemma irun_app d : forall its1 its2 s sts, irun d s (its1 ++ its2) = Some sts ->
  exists sts1 sts2, irun d s its1 = Some sts1 /\ irun d (last sts1 s) its2 = Some sts2 /\ sts = sts1 ++ sts2.
Proof.
  induction its1 as [|it its1 IH]; intros its2 s sts H.
  - exists [], sts. cbn [app irun last] in *. auto.
  - cbn [app irun] in *. destruct (Attach.step d (set_hist s (wire d it))) as [s'| |]; try discriminate.
    destruct (irun d s' (its1 ++ its2)) as [l|] eqn:E; [|discriminate]. injection H as <-.
    destruct (IH its2 s' l E) as (sts1 & sts2 & H1 & H2 & ->). rewrite H1.
    exists (s' :: sts1), sts2. repeat split. rewrite last_cons_st. exact H2.
Qed.

Lemma irun_hist d : forall its s sts, Forall (wf_item d) its -> irun d s its = Some sts ->
  Forall (fun x => s_hist x = []) sts.
Proof.
  induction its as [|it its IH]; intros s sts Hall H; cbn [irun] in H.
  - injection H as <-. constructor.
  - apply Forall_cons_iff in Hall. destruct Hall as [Hw Hall].
    destruct (Attach.step d (set_hist s (wire d it))) as [s'| |] eqn:E; try discriminate.
    destruct (irun d s' its) as [l|] eqn:E2; [|discriminate]. injection H as <-.
    constructor. eapply (step_item d s it []); eassumption. eapply IH; eassumption.
Qed.

Lemma irun_set_hist d its s h : irun d (set_hist s h) its = irun d s its.
Proof. destruct its as [|it its]; reflexivity. Qed.

Lemma iter_step fuel d s : s_hist s <> [] ->
  iter (S fuel) d s =
  match Attach.step d s with
  | O_more => ([], [], s, false)
  | O_fatal s' => ([], [], set_err s', true)
  | O_ok s' => let '(evs, w, s'', stop) := iter fuel d s' in
               (snapshot s' :: evs, (if has_reply (s_stage s') then s_reply s' else []) ++ w, s'', stop)
  end.
Proof. intros H. cbn [iter]. destruct (s_hist s). congruence. reflexivity. Qed.

(* the loop of one read over a buffer holding whole accepted items and the beginning of the next *)
Lemma iter_items d : forall its s sts r fuel, Forall (wf_item d) its -> irun d s its = Some sts ->
  ppart d r -> (length its < fuel)%nat ->
  exists evs, iter fuel d (set_hist s (concat (map (wire d) its) ++ r)) =
              (evs, concat (map wr sts), set_hist (last sts s) r, false) /\
              map strip evs = map (fun x => strip (snapshot x)) sts.
Proof.
  induction its as [|it its IH]; intros s sts r fuel Hall H Hr Hf.
  - cbn [irun] in H. injection H as <-. cbn [map concat app last]. exists [].
    split; [|reflexivity]. destruct r as [|b r].
    + destruct fuel; reflexivity.
    + destruct fuel as [|fuel]. lia. rewrite iter_step by (rewrite s_hist_set; discriminate).
      unfold Attach.step. rewrite s_hist_set, lex_ppart by (auto; discriminate). reflexivity.
  - apply Forall_cons_iff in Hall. destruct Hall as [Hw Hall]. cbn [irun] in H.
    destruct (Attach.step d (set_hist s (wire d it))) as [s'| |] eqn:E; try discriminate.
    destruct (irun d s' its) as [l|] eqn:E2; [|discriminate]. injection H as <-.
    cbn [map concat]. rewrite <- app_assoc. cbn [length] in Hf. destruct fuel as [|fuel]. lia.
    rewrite iter_step.
    2:{ rewrite s_hist_set. intros E0. apply app_eq_nil in E0. eapply wire_nonempty; [exact Hw|tauto]. }
    destruct (step_item d s it (concat (map (wire d) its) ++ r) s' Hw E) as [E3 Hh]. rewrite E3.
    destruct (IH s' l r fuel Hall E2 Hr ltac:(lia)) as (evs & Hi & He).
    rewrite Hi. exists (snapshot (set_hist s' (concat (map (wire d) its) ++ r)) :: evs).
    split.
    + rewrite last_cons_st. reflexivity.
    + cbn [map]. rewrite He. reflexivity.
Qed.

Lemma items_length d its : Forall (wf_item d) its -> (length its <= length (concat (map (wire d) its)))%nat.
Proof.
  induction 1 as [|it its Hw _ IH]; cbn [map concat length]. lia.
  rewrite app_length. pose proof (wire_nonempty d it Hw). destruct (wire d it). congruence. cbn [length]. lia.
Qed.

(* a buffer that is whole items only and is still waiting for data holds no item *)
Lemma ppart_items_nil d its : Forall (wf_item d) its -> ppart d (concat (map (wire d) its)) -> its = [].
Proof.
  intros Hall Hp. destruct its as [|it its]. reflexivity. exfalso.
  apply Forall_cons_iff in Hall. destruct Hall as [Hw _]. cbn [map concat] in Hp.
  apply (lex_item d it (concat (map (wire d) its)) Hw). apply lex_ppart. exact Hp.
  intros E. apply app_eq_nil in E. eapply wire_nonempty; [exact Hw|tauto].
Qed.

Lemma last_app_st (a b : list st) s : last (a ++ b) s = last b (last a s).
Proof.
  revert s. induction a as [|x a IH]; intros s. reflexivity.
  change ((x :: a) ++ b) with (x :: (a ++ b)). rewrite !last_cons_st. apply IH.
Qed.

(* the connection: every way of cutting the stream into reads *)
Lemma run_items d : forall cuts s its sts, Forall (wf_item d) its -> irun d s its = Some sts ->
  ppart d (s_hist s) -> s_err s = false -> Forall (fun x => s_err x = false) sts ->
  s_hist s ++ concat cuts = concat (map (wire d) its) ->
  exists evs, run_from d s cuts = (evs, concat (map wr sts), quit (set_hist (last sts s) [])) /\
              map strip evs = map (fun x => strip (snapshot x)) sts ++
                              [strip (snapshot (quit (set_hist (last sts s) [])))].
Proof.
  induction cuts as [|c cuts IH]; intros s its sts Hall H Hp He Hes Hs.
  - cbn [concat] in Hs. rewrite app_nil_r in Hs. rewrite Hs in Hp.
    apply ppart_items_nil in Hp; [|exact Hall]. subst its. cbn [irun] in H. injection H as <-.
    cbn [map concat] in Hs. cbn [run_from map concat last app].
    rewrite <- Hs, set_hist_same. unfold quit. rewrite He. eexists. split; reflexivity.
  - cbn [run_from]. destruct c as [|b c].
    + apply IH with (its := its); auto.
    + cbn [concat] in Hs. rewrite app_assoc in Hs.
      destruct (split_items d its (s_hist s ++ b :: c) (concat cuts) [] Hall (ppart_nil d))
        as (its1 & its2 & r1 & -> & Hb & Hr1 & Hrest).
      { rewrite app_nil_r. exact Hs. }
      rewrite app_nil_r in Hrest.
      apply Forall_app in Hall. destruct Hall as [Hall1 Hall2].
      destruct (irun_app d its1 its2 s sts H) as (sts1 & sts2 & H1 & H2 & ->).
      apply Forall_app in Hes. destruct Hes as [Hes1 Hes2].
      unfold feed. rewrite Hb.
      destruct (iter_items d its1 s sts1 r1 (S (length (s_hist (set_hist s (concat (map (wire d) its1) ++ r1)))))
                  Hall1 H1 Hr1) as (evs1 & Hi & Hev1).
      { rewrite s_hist_set, app_length. pose proof (items_length d its1 Hall1). lia. }
      rewrite Hi.
      assert (Herr : s_err (set_hist (last sts1 s) r1) = false).
      { change (s_err (last sts1 s) = false). destruct sts1 as [|x l] using rev_ind. exact He.
        rewrite last_last. apply Forall_app in Hes1. destruct Hes1 as [_ Hx].
        apply Forall_cons_iff in Hx. tauto. }
      destruct (IH (set_hist (last sts1 s) r1) its2 sts2 Hall2) as (evs2 & Hrun & Hev2); auto.
      { rewrite irun_set_hist. exact H2. }
      rewrite Hrun. exists (evs1 ++ evs2). split.
      * rewrite map_app, concat_app. f_equal.
        rewrite last_app_st.
        assert (forall (l : list st) x h, last l (set_hist x h) = last l x \/ l = []) as Hl.
        { intros l x h. destruct l as [|y l]. now right. left.
          revert y. induction l as [|z l IHl]; intros y. reflexivity. apply (IHl z). }
        destruct (Hl sts2 (last sts1 s) r1) as [->| ->]; reflexivity.
      * rewrite map_app, Hev1, Hev2, map_app, <- app_assoc. f_equal. f_equal.
        rewrite last_app_st.
        assert (forall (l : list st) x h, last l (set_hist x h) = last l x \/ l = []) as Hl.
        { intros l x h. destruct l as [|y l]. now right. left.
          revert y. induction l as [|z l IHl]; intros y. reflexivity. apply (IHl z). }
        destruct (Hl sts2 (last sts1 s) r1) as [->| ->]; reflexivity.
Qed.

(* accepted items never set the error field *)
Lemma step_err d s w s' : Attach.step d (set_hist s w) = O_ok s' -> s_err s = false -> s_err s' = false.
Proof.
  unfold Attach.step. intros H He. destruct (lex d (s_hist (set_hist s w))) as [|hl nm off dlen|index]. discriminate.
  - unfold do_chunk in H. destruct (afind name_eqb nm (s_record (set_hist s w))); [|discriminate].
    injection H as <-. exact He.
  - unfold do_frame in H. destruct (decode _) as [m| |]; try discriminate.
    unfold frame_core in H. destruct (frame_decide _ _ _) as [|stage rec cur n1212 miss]. discriminate.
    destruct (has_reply stage).
    + destruct (reply_data _); try discriminate. injection H as <-. reflexivity.
    + injection H as <-. exact He.
Qed.

Lemma irun_err d : forall its s sts, irun d s its = Some sts -> s_err s = false ->
  Forall (fun x => s_err x = false) sts.
Proof.
  induction its as [|it its IH]; intros s sts H He; cbn [irun] in H.
  - injection H as <-. constructor.
  - destruct (Attach.step d (set_hist s (wire d it))) as [s'| |] eqn:E; try discriminate.
    destruct (irun d s' its) as [l|] eqn:E2; [|discriminate]. injection H as <-.
    pose proof (step_err d s _ s' E He). constructor; eauto.
Qed.

(* THE SEGMENTATION THEOREM: however the byte stream of an accepted item sequence is cut into reads,
   the connection produces the events of the item-by-item run (up to the count of bytes still
   buffered), the same bytes on the socket and the same final state *)
Theorem segmentation d its sts cuts : Forall (wf_item d) its -> irun d init_st its = Some sts ->
  concat cuts = concat (map (wire d) its) ->
  exists evs, run d cuts = (evs, concat (map wr sts), quit (last sts init_st)) /\
              map strip evs = map (fun x => strip (snapshot x)) sts ++ [strip (snapshot (quit (last sts init_st)))].
Proof.
  intros Hall H Hc. unfold run.
  destruct (run_items d cuts init_st its sts Hall H (ppart_nil d) eq_refl (irun_err d its init_st sts H eq_refl) Hc)
    as (evs & Hr & He).
  assert (set_hist (last sts init_st) [] = last sts init_st) as Hl.
  { pose proof (irun_hist d its init_st sts Hall H) as Hh.
    destruct sts as [|x l] using rev_ind. reflexivity.
    rewrite last_last. apply Forall_app in Hh. destruct Hh as [_ Hx]. apply Forall_cons_iff in Hx.
    destruct Hx as [Hx _]. rewrite <- Hx. apply set_hist_same. }
  rewrite Hl in *. exists evs. split; assumption.
Qed.

Corollary segmentation_independent d its sts cuts1 cuts2 : Forall (wf_item d) its ->
  irun d init_st its = Some sts ->
  concat cuts1 = concat (map (wire d) its) -> concat cuts2 = concat (map (wire d) its) ->
  let '(e1, w1, s1) := run d cuts1 in let '(e2, w2, s2) := run d cuts2 in
  map strip e1 = map strip e2 /\ w1 = w2 /\ s1 = s2.
Proof.
  intros Hall H H1 H2.
  destruct (segmentation d its sts cuts1 Hall H H1) as (e1 & -> & He1).
  destruct (segmentation d its sts cuts2 Hall H H2) as (e2 & -> & He2).
  rewrite He1, He2. auto.
Qed.

(* ====================== 4. byte-exact reassembly ====================== *)
(* ---------- Go maps as association lists ---------- *)
Section AssocFacts.
  Context {K V : Type} (eqb : K -> K -> bool).
  Hypothesis eqb_spec : forall a b, eqb a b = true <-> a = b.

  Lemma eqb_refl_ k : eqb k k = true. Proof. now apply eqb_spec. Qed.
  Lemma eqb_neq k k' : k <> k' -> eqb k k' = false.
  Proof. intros H. destruct (eqb k k') eqn:E; [|reflexivity]. apply eqb_spec in E. contradiction. Qed.

  Lemma afind_aset_same k (v : V) m : afind eqb k (aset eqb k v m) = Some v.
  Proof.
    induction m as [|[k' v'] t IH]; cbn [aset afind]. now rewrite eqb_refl_.
    destruct (eqb k k') eqn:E; cbn [afind]. now rewrite eqb_refl_. now rewrite E.
  Qed.

  Lemma afind_aset_other k k' (v : V) m : k' <> k -> afind eqb k' (aset eqb k v m) = afind eqb k' m.
  Proof.
    intros Hn. induction m as [|[k2 v2] t IH]; cbn [aset afind].
    - now rewrite (eqb_neq k' k Hn).
    - destruct (eqb k k2) eqn:E; cbn [afind].
      + apply eqb_spec in E. subst k2. now rewrite (eqb_neq k' k Hn).
      + destruct (eqb k' k2); auto.
  Qed.

  Lemma afind_In k (v : V) m : afind eqb k m = Some v -> In (k, v) m.
  Proof.
    induction m as [|[k' v'] t IH]; cbn [afind]; intros H. discriminate.
    destruct (eqb k k') eqn:E. apply eqb_spec in E. injection H as ->. subst. now left. right. auto.
  Qed.

  Lemma afind_none_keys k (m : list (K * V)) : afind eqb k m = None -> ~ In k (map fst m).
  Proof.
    induction m as [|[k' v'] t IH]; cbn [afind map fst]; intros H Hin. contradiction.
    destruct (eqb k k') eqn:E. discriminate. destruct Hin as [->|Hin]. rewrite eqb_refl_ in E. discriminate.
    now apply IH.
  Qed.

  Lemma In_afind k (v : V) m : NoDup (map fst m) -> In (k, v) m -> afind eqb k m = Some v.
  Proof.
    induction m as [|[k' v'] t IH]; cbn [afind map fst]; intros Hnd Hin. contradiction.
    apply NoDup_cons_iff in Hnd. destruct Hnd as [Hk Hnd]. destruct Hin as [E|Hin].
    - injection E as -> ->. now rewrite eqb_refl_.
    - destruct (eqb k k') eqn:E. apply eqb_spec in E. subst k'. exfalso. apply Hk.
      apply in_map_iff. exists (k, v). auto. auto.
  Qed.

  Lemma aset_same k (v : V) m : afind eqb k m = Some v -> aset eqb k v m = m.
  Proof.
    induction m as [|[k' v'] t IH]; cbn [afind aset]; intros H. discriminate.
    destruct (eqb k k') eqn:E. apply eqb_spec in E. injection H as ->. now subst. f_equal. auto.
  Qed.

  Lemma aset_new k (v : V) m : afind eqb k m = None -> aset eqb k v m = m ++ [(k, v)].
  Proof.
    induction m as [|[k' v'] t IH]; cbn [afind aset app]; intros H. reflexivity.
    destruct (eqb k k'). discriminate. f_equal. auto.
  Qed.
End AssocFacts.

Lemma name_eqb_spec a b : name_eqb a b = true <-> a = b.
Proof. apply list_eqb_spec. Qed.
Lemma Neqb_spec a b : (a =? b) = true <-> a = b.
Proof. apply N.eqb_eq. Qed.

(* ---------- sorting by offset ---------- *)
Notation chunkl := (list (N * list N)).

Fixpoint ksorted (l : chunkl) : Prop :=
  match l with [] => True | x :: t => Forall (fun y => fst x <= fst y) t /\ ksorted t end.
Fixpoint kstrict (l : chunkl) : Prop :=
  match l with [] => True | x :: t => Forall (fun y => fst x < fst y) t /\ kstrict t end.

Lemma kinsert_perm (r : N * list N) l : Permutation (kinsert r l) (r :: l).
Proof.
  induction l as [|x t IH]; cbn [kinsert]. reflexivity.
  destruct (fst r <=? fst x). reflexivity. rewrite IH. apply perm_swap.
Qed.

Lemma ksort_perm (l : chunkl) : Permutation (ksort l) l.
Proof.
  induction l as [|x t IH]; cbn [ksort fold_right]. reflexivity.
  fold (ksort t). rewrite kinsert_perm. now constructor.
Qed.

Lemma kinsert_sorted (r : N * list N) l : ksorted l -> ksorted (kinsert r l).
Proof.
  induction l as [|x t IH]; intros Hs; cbn [kinsert].
  - cbn. auto.
  - destruct Hs as [Hx Ht]. destruct (fst r <=? fst x) eqn:E.
    + cbn [ksorted]. split; [|split; auto].
      constructor. lia. eapply Forall_impl; [|exact Hx]. cbn. intros a Ha. lia.
    + cbn [ksorted]. split; [|auto].
      eapply Permutation_Forall. symmetry. apply kinsert_perm.
      constructor. lia. exact Hx.
Qed.

Lemma ksort_sorted (l : chunkl) : ksorted (ksort l).
Proof.
  induction l as [|x t IH]; cbn [ksort fold_right]. exact I.
  apply kinsert_sorted. exact IH.
Qed.

(* a sorted list that is a permutation of a strictly sorted one is that list *)
Lemma sorted_perm_unique (T : chunkl) : forall l, kstrict T -> ksorted l -> Permutation l T -> l = T.
Proof.
  induction T as [|x T IH]; intros l Hst Hs Hp.
  - apply Permutation_nil. now symmetry.
  - destruct l as [|y l]. apply Permutation_nil in Hp. discriminate.
    destruct Hst as [Hx Hst]. destruct Hs as [Hy Hs].
    assert (y = x) as ->.
    { assert (In y (x :: T)) as Hin by (eapply Permutation_in; [exact Hp|now left]).
      destruct Hin as [E|Hin]. now symmetry.
      assert (In x (y :: l)) as Hin2 by (eapply Permutation_in; [symmetry; exact Hp|now left]).
      destruct Hin2 as [E|Hin2]. exact E.
      rewrite Forall_forall in Hx, Hy. specialize (Hx y Hin). specialize (Hy x Hin2). lia. }
    f_equal. apply IH; auto. eapply Permutation_cons_inv, Hp.
Qed.

(* ---------- the tiles of a split ---------- *)
Definition dsum (m : chunkl) : N := fold_right (fun r a => len (snd r) + a) 0 m.

Lemma dsum_app a b : dsum (a ++ b) = dsum a + dsum b.
Proof. induction a as [|x a IH]; cbn [dsum fold_right app]. reflexivity. fold (dsum (a ++ b)) (dsum a). lia. Qed.

Lemma dsum_perm a b : Permutation a b -> dsum a = dsum b.
Proof.
  induction 1 as [|x a b _ IH|x y a|a b c _ IH1 _ IH2]; cbn [dsum fold_right]; try reflexivity.
  - fold (dsum a) (dsum b). lia.
  - fold (dsum a). lia.
  - congruence.
Qed.

Lemma dsum_in x m : In x m -> len (snd x) <= dsum m.
Proof.
  induction m as [|y m IH]; intros H. contradiction. cbn [dsum fold_right]. fold (dsum m).
  destruct H as [->|H]. lia. specialize (IH H). lia.
Qed.

Lemma pieces_lb ps : forall off x, In x (pieces off ps) -> off <= fst x.
Proof.
  induction ps as [|p ps IH]; intros off x H; cbn [pieces] in H. contradiction.
  destruct H as [<-|H]. cbn. lia. specialize (IH _ _ H). lia.
Qed.

Lemma pieces_strict ps : forall off, Forall (fun p => p <> []) ps -> kstrict (pieces off ps).
Proof.
  induction ps as [|p ps IH]; intros off Hne; cbn [pieces kstrict]. exact I.
  apply Forall_cons_iff in Hne. destruct Hne as [Hp Hne]. split; [|auto].
  apply Forall_forall. intros x Hx. apply pieces_lb in Hx. cbn [fst].
  destruct p. congruence. rewrite len_cons in Hx. lia.
Qed.

Lemma kstrict_nodup T : kstrict T -> NoDup (map fst T).
Proof.
  induction T as [|x T IH]; intros H; cbn [map]. constructor.
  destruct H as [Hx H]. constructor; [|auto].
  intros Hin. apply in_map_iff in Hin. destruct Hin as (y & E & Hy).
  rewrite Forall_forall in Hx. specialize (Hx y Hy). lia.
Qed.

Lemma pieces_flat ps : forall off, flat_map snd (pieces off ps) = concat ps.
Proof. induction ps as [|p ps IH]; intros off; cbn [pieces flat_map concat snd]. reflexivity. now rewrite IH. Qed.

Lemma pieces_dsum ps : forall off, dsum (pieces off ps) = len (concat ps).
Proof.
  induction ps as [|p ps IH]; intros off; cbn [pieces dsum fold_right concat snd]. reflexivity.
  fold (dsum (pieces (off + len p) ps)). rewrite IH, len_app. reflexivity.
Qed.

Lemma pieces_pos ps off : Forall (fun p => p <> []) ps -> Forall (fun x => 0 < len (snd x)) (pieces off ps).
Proof.
  revert off. induction ps as [|p ps IH]; intros off Hne; cbn [pieces]. constructor.
  apply Forall_cons_iff in Hne. destruct Hne as [Hp Hne]. constructor; [|auto].
  cbn [snd]. destruct p. congruence. rewrite len_cons. lia.
Qed.

(* a duplicate-free part of a list is that list up to a remainder *)
Lemma incl_perm {A} (m : list A) : forall T, NoDup m -> incl m T -> exists rest, Permutation T (m ++ rest).
Proof.
  induction m as [|x m IH]; intros T Hnd Hi. exists T. reflexivity.
  apply NoDup_cons_iff in Hnd. destruct Hnd as [Hx Hnd].
  assert (In x T) as Hin by (apply Hi; now left).
  apply in_split in Hin. destruct Hin as (T1 & T2 & ->).
  destruct (IH (T1 ++ T2) Hnd) as (rest & Hp).
  { intros y Hy. assert (In y (T1 ++ x :: T2)) as H by (apply Hi; now right).
    apply in_app_or in H. apply in_or_app. destruct H as [H|[H|H]]; auto. subst y. contradiction. }
  exists rest. cbn [app]. rewrite <- Hp. symmetry. apply Permutation_middle.
Qed.

Lemma nodup_fst {A B} (m : list (A * B)) : NoDup (map fst m) -> NoDup m.
Proof.
  induction m as [|x m IH]; cbn [map]; intros H. constructor.
  apply NoDup_cons_iff in H. destruct H as [Hx H]. constructor; [|auto].
  intros Hin. apply Hx. apply in_map. exact Hin.
Qed.

Lemma dsum_zero m : Forall (fun x => 0 < len (snd x)) m -> dsum m = 0 -> m = [].
Proof.
  destruct m as [|x m]; intros H E. reflexivity. apply Forall_cons_iff in H. destruct H as [Hx _].
  cbn [dsum fold_right] in E. lia.
Qed.

(* received chunks m of a file with tiles T: duplicate-free offsets, all of them tiles *)
Lemma part_sum (T m : chunkl) : kstrict T -> NoDup (map fst m) -> incl m T -> dsum m <= dsum T.
Proof.
  intros Hst Hnd Hi. destruct (incl_perm m T (nodup_fst m Hnd) Hi) as (rest & Hp).
  rewrite (dsum_perm _ _ Hp), dsum_app. lia.
Qed.

Lemma part_full (T m : chunkl) : kstrict T -> Forall (fun x => 0 < len (snd x)) T ->
  NoDup (map fst m) -> incl m T -> dsum m = dsum T -> Permutation m T.
Proof.
  intros Hst Hpos Hnd Hi E. destruct (incl_perm m T (nodup_fst m Hnd) Hi) as (rest & Hp).
  rewrite (dsum_perm _ _ Hp), dsum_app in E.
  assert (rest = []) as ->.
  { apply dsum_zero; [|lia]. eapply Permutation_Forall in Hpos; [|exact Hp]. apply Forall_app in Hpos. tauto. }
  rewrite app_nil_r in Hp. now symmetry.
Qed.

Lemma tile_unique (T : chunkl) o a b : kstrict T -> In (o, a) T -> In (o, b) T -> a = b.
Proof.
  intros Hst Ha Hb. pose proof (kstrict_nodup T Hst) as Hnd.
  apply (In_afind N.eqb Neqb_spec) in Ha, Hb; auto. congruence.
Qed.

(* ---------- the invariant of one file's Package ---------- *)
Definition pinv (ps : list (list N)) (pk : pkg) : Prop :=
  p_size pk = len (concat ps) /\ NoDup (map fst (p_data pk)) /\ incl (p_data pk) (pieces 0 ps) /\
  p_cur pk = dsum (p_data pk) /\ (p_cur pk = p_size pk -> p_body pk = concat ps).

Definition ps_ok (ps : list (list N)) : Prop := Forall (fun p => p <> []) ps /\ len (concat ps) < W.

Lemma u32_small x : x < W -> u32 x = x.
Proof. intros H. unfold u32. apply N.mod_small, H. Qed.

Lemma pkg_add_inv ps pk off data head : ps_ok ps -> pinv ps pk -> In (off, data) (pieces 0 ps) ->
  pinv ps (pkg_add pk off (len data) data head) /\
  (forall x, In x (p_data (pkg_add pk off (len data) data head)) <-> x = (off, data) \/ In x (p_data pk)).
Proof.
  intros [Hne Hsz] (Hs & Hnd & Hi & Hc & Hb) Hin.
  pose proof (pieces_strict ps 0 Hne) as Hst.
  pose proof (pieces_dsum ps 0) as HT.
  pose proof (part_sum _ _ Hst Hnd Hi) as Hle.
  pose proof (dsum_in _ _ Hin) as Hdl. cbn [snd] in Hdl.
  assert (Hfin : forall pk', p_size pk' = len (concat ps) -> NoDup (map fst (p_data pk')) ->
            incl (p_data pk') (pieces 0 ps) -> p_cur pk' = dsum (p_data pk') ->
            p_body pk' = (if p_cur pk' =? p_size pk' then flat_map snd (ksort (p_data pk')) else p_body pk) ->
            pinv ps pk').
  { intros pk' H1 H2 H3 H4 H5. repeat split; auto. intros E. rewrite H5.
    destruct (p_cur pk' =? p_size pk') eqn:E2; [|lia].
    assert (Permutation (p_data pk') (pieces 0 ps)) as Hp.
    { apply part_full; auto. apply pieces_pos, Hne. lia. }
    rewrite (sorted_perm_unique (pieces 0 ps) (ksort (p_data pk'))); auto.
    apply pieces_flat. apply ksort_sorted. rewrite ksort_perm. exact Hp. }
  unfold pkg_add. destruct (afind N.eqb off (p_data pk)) as [dt|] eqn:Ef.
  - (* a resent offset: the same tile *)
    pose proof (afind_In N.eqb Neqb_spec _ _ _ Ef) as Hdt.
    assert (dt = data) as -> by (eapply tile_unique; eauto).
    pose proof (dsum_in _ _ Hdt) as Hd2. cbn [snd] in Hd2.
    rewrite (aset_same N.eqb Neqb_spec _ _ _ Ef).
    assert (Hcur : u32 (u32 (p_cur pk + W - u32 (len data)) + u32 (len data)) = p_cur pk).
    { rewrite (u32_small (len data)) by lia.
      replace (u32 (p_cur pk + W - len data)) with (p_cur pk - len data).
      rewrite u32_small; lia.
      unfold u32. apply N.mod_unique with 1; lia. }
    split.
    + apply Hfin; cbn [p_size p_cur p_data p_body]; auto; rewrite ?Hcur; auto.
    + cbn [p_data]. intros x. split; [auto|]. intros [->|H]; auto.
  - (* a new offset *)
    rewrite (aset_new N.eqb _ _ _ Ef).
    assert (Hnd' : NoDup (map fst (p_data pk ++ [(off, data)]))).
    { rewrite map_app. cbn [map fst]. eapply Permutation_NoDup. apply Permutation_cons_append.
      constructor; [|exact Hnd]. apply (afind_none_keys N.eqb Neqb_spec). exact Ef. }
    assert (Hi' : incl (p_data pk ++ [(off, data)]) (pieces 0 ps)).
    { intros x Hx. apply in_app_or in Hx. destruct Hx as [Hx|[<-|[]]]; auto. }
    pose proof (part_sum _ _ Hst Hnd' Hi') as Hle'. rewrite dsum_app in Hle'.
    cbn [dsum fold_right snd] in Hle'.
    assert (Hcur : u32 (p_cur pk + u32 (len data)) = p_cur pk + len data).
    { rewrite (u32_small (len data)) by lia. rewrite u32_small; lia. }
    split.
    + apply Hfin; cbn [p_size p_cur p_data p_body]; auto; rewrite ?Hcur; auto.
      rewrite dsum_app. cbn [dsum fold_right snd]. lia.
    + cbn [p_data]. intros x. rewrite in_app_iff. cbn [In]. intuition congruence.
Qed.

(* ---------- the invariant of the whole Record ---------- *)
Definition rinv (split : name -> list (list N)) (rec : list (name * pkg)) : Prop :=
  forall nm pk, afind name_eqb nm rec = Some pk -> pinv (split nm) pk.

Lemma split_ok_ps split nm : split_ok split -> ps_ok (split nm).
Proof. intros H. exact (H nm). Qed.

Lemma len_zero_nil {A} (l : list A) : len l = 0 -> l = [].
Proof. destruct l. reflexivity. rewrite len_cons. lia. Qed.

Lemma new_pkg_inv ps sz : sz = len (concat ps) -> pinv ps (new_pkg sz).
Proof.
  intros ->. unfold pinv, new_pkg. cbn [p_size p_data p_cur p_body map]. repeat split.
  constructor. intros x []. intros E. symmetry. apply len_zero_nil. now symmetry.
Qed.

Lemma announce_inv split : forall items rec, rinv split rec ->
  Forall (fun a => snd a = len (content split (fst a))) items -> rinv split (announce rec items).
Proof.
  unfold announce. induction items as [|it items IH]; intros rec Hr Hall; cbn [fold_left]. exact Hr.
  apply Forall_cons_iff in Hall. destruct Hall as [Hit Hall]. apply IH; [|exact Hall].
  intros nm pk Hf. destruct (list_eq_dec N.eq_dec nm (fst it)) as [->|Hne].
  - rewrite (afind_aset_same name_eqb name_eqb_spec) in Hf. injection Hf as <-.
    apply new_pkg_inv. exact Hit.
  - rewrite (afind_aset_other name_eqb name_eqb_spec) in Hf by exact Hne. apply Hr, Hf.
Qed.

Lemma announce_find : forall items rec nm,
  (existsb (fun a => name_eqb (fst a) nm) items = true ->
     exists sz, afind name_eqb nm (announce rec items) = Some (new_pkg sz)) /\
  (existsb (fun a => name_eqb (fst a) nm) items = false ->
     afind name_eqb nm (announce rec items) = afind name_eqb nm rec).
Proof.
  unfold announce. induction items as [|it items IH]; intros rec nm; cbn [fold_left existsb].
  - split. discriminate. reflexivity.
  - destruct (IH (aset name_eqb (fst it) (new_pkg (snd it)) rec) nm) as [IH1 IH2].
    destruct (existsb (fun a => name_eqb (fst a) nm) items) eqn:E.
    + rewrite orb_true_r. split; [|discriminate]. intros _. apply IH1. reflexivity.
    + rewrite orb_false_r. specialize (IH2 eq_refl). rewrite IH2. split; intros Hn.
      * apply name_eqb_spec in Hn. subst nm. exists (snd it).
        apply (afind_aset_same name_eqb name_eqb_spec).
      * apply (afind_aset_other name_eqb name_eqb_spec). intros ->.
        rewrite (proj2 (name_eqb_spec _ _) eq_refl) in Hn. discriminate.
Qed.

(* ---------- what an accepted control message does to the state ---------- *)
Lemma frame_decide_reply d s m stage rec cur n miss :
  frame_decide d s m = F_go stage rec cur n miss -> has_reply stage = true.
Proof.
  unfold frame_decide. intros H.
  destruct (m_id m =? ID_1210). { destruct (parse1210 d (m_body m)); try discriminate. now injection H as <-. }
  destruct (m_id m =? ID_1211). { destruct (parse1211 (m_body m)); try discriminate. now injection H as <-. }
  destruct (m_id m =? ID_1212); [|discriminate].
  destruct (parse1211 (m_body m)) as [t| |]; try discriminate.
  destruct (afind name_eqb (f_name t) (s_record s)) as [pk|].
  - injection H as <-. destruct (miss_segments _ _ _); reflexivity.
  - now injection H as <-.
Qed.

Lemma frame_core_ok d s m s' : frame_core d s m = O_ok s' ->
  exists stage rec cur n miss data,
    frame_decide d (with_msg s m) m = F_go stage rec cur n miss /\
    reply_data (commit (with_msg s m) m stage rec cur n miss) = Ok data /\
    s' = replied (commit (with_msg s m) m stage rec cur n miss) data.
Proof.
  unfold frame_core. destruct (frame_decide d (with_msg s m) m) as [|stage rec cur n miss] eqn:E. discriminate.
  rewrite (frame_decide_reply _ _ _ _ _ _ _ _ E).
  destruct (reply_data _) as [data|e|] eqn:Er; try discriminate. intros H. injection H as <-.
  exists stage, rec, cur, n, miss, data. auto.
Qed.

Lemma frame_decide_record d s m stage rec cur n miss f : decode f = Ok m ->
  frame_decide d s m = F_go stage rec cur n miss -> rec = announce (s_record s) (announced d f).
Proof.
  intros Hd. unfold frame_decide, announced. rewrite Hd. intros H.
  destruct (m_id m =? ID_1210). { destruct (parse1210 d (m_body m)); try discriminate. now injection H as _ <-. }
  destruct (m_id m =? ID_1211). { destruct (parse1211 (m_body m)); try discriminate. now injection H as _ <-. }
  destruct (m_id m =? ID_1212); [|discriminate].
  destruct (parse1211 (m_body m)) as [t| |]; try discriminate.
  destruct (afind name_eqb (f_name t) (s_record s)) as [pk|]; now injection H as _ <-.
Qed.

Lemma step_frame_ok d s f s' : vframe f -> Attach.step d (set_hist s f) = O_ok s' ->
  exists m stage rec cur n miss data, decode f = Ok m /\
    frame_decide d (with_msg (set_hist s []) m) m = F_go stage rec cur n miss /\
    reply_data (commit (with_msg (set_hist s []) m) m stage rec cur n miss) = Ok data /\
    s' = replied (commit (with_msg (set_hist s []) m) m stage rec cur n miss) data.
Proof.
  intros Hv H. pose proof Hv as (mid & m & _ & _ & _ & Hd).
  rewrite <- (app_nil_r f) in H. rewrite (step_frame d s f [] m Hv Hd) in H.
  apply frame_core_ok in H. destruct H as (stage & rec & cur & n & miss & data & H1 & H2 & H3).
  exists m, stage, rec, cur, n, miss, data. auto.
Qed.

Lemma step_record d s it s' : wf_item d it -> Attach.step d (set_hist s (wire d it)) = O_ok s' ->
  match it with
  | I_chunk nm off data =>
    exists pk, afind name_eqb nm (s_record s) = Some pk /\
      s_record s' = aset name_eqb nm (pkg_add pk off (len data) data (chunk_head d nm off (len data))) (s_record s)
  | I_frame f => s_record s' = announce (s_record s) (announced d f)
  end.
Proof.
  intros Hw H. destruct it as [nm off data|f].
  - rewrite <- (app_nil_r (wire d (I_chunk nm off data))) in H. rewrite step_chunk in H by exact Hw.
    destruct (afind name_eqb nm (s_record s)) as [pk|]; [|discriminate]. injection H as <-.
    exists pk. split; reflexivity.
  - cbn [wire wf_item] in *.
    destruct (step_frame_ok d s f s' Hw H) as (m & stage & rec & cur & n & miss & data & Hd & H1 & H2 & ->).
    cbn [replied commit s_record]. eapply frame_decide_record in H1; [|exact Hd]. exact H1.
Qed.

Lemma step_inv d split s it s' : split_ok split -> wf_item d it -> item_of d split it ->
  rinv split (s_record s) -> Attach.step d (set_hist s (wire d it)) = O_ok s' -> rinv split (s_record s').
Proof.
  intros Hsp Hw Hof Hr H. pose proof (step_record d s it s' Hw H) as Hrec. destruct it as [nm off data|f].
  - destruct Hrec as (pk & Hf & ->). cbn [item_of] in Hof. unfold tiles in Hof.
    intros nm' pk' Hf'. destruct (list_eq_dec N.eq_dec nm' nm) as [->|Hne].
    + rewrite (afind_aset_same name_eqb name_eqb_spec) in Hf'. injection Hf' as <-.
      apply pkg_add_inv; auto. apply Hsp.
    + rewrite (afind_aset_other name_eqb name_eqb_spec) in Hf' by exact Hne. apply Hr, Hf'.
  - rewrite Hrec. apply announce_inv; assumption.
Qed.

Lemma irun_inv d split : forall its s sts, split_ok split -> Forall (wf_item d) its ->
  Forall (item_of d split) its -> rinv split (s_record s) -> irun d s its = Some sts ->
  Forall (fun x => rinv split (s_record x)) sts.
Proof.
  induction its as [|it its IH]; intros s sts Hsp Hall Hof Hr H; cbn [irun] in H.
  - injection H as <-. constructor.
  - apply Forall_cons_iff in Hall. destruct Hall as [Hw Hall].
    apply Forall_cons_iff in Hof. destruct Hof as [Ho Hof].
    destruct (Attach.step d (set_hist s (wire d it))) as [s'| |] eqn:E; try discriminate.
    destruct (irun d s' its) as [l|] eqn:E2; [|discriminate]. injection H as <-.
    pose proof (step_inv d split s it s' Hsp Hw Ho Hr E) as Hr'.
    constructor. exact Hr'. eapply IH; eassumption.
Qed.

Lemma rinv_init split : rinv split (s_record init_st).
Proof. intros nm pk H. discriminate. Qed.

(* every event of the connection shows the Record of a state reached item by item *)
Lemma event_state d its sts cuts evs w sf e : Forall (wf_item d) its -> irun d init_st its = Some sts ->
  concat cuts = concat (map (wire d) its) -> run d cuts = (evs, w, sf) -> In e evs ->
  exists x, (In x sts \/ x = last sts init_st) /\ e_files e = s_record x.
Proof.
  intros Hall H Hc Hr Hin. destruct (segmentation d its sts cuts Hall H Hc) as (evs' & Hr' & He).
  rewrite Hr in Hr'. injection Hr' as <- _ _.
  apply (in_map strip) in Hin. rewrite He in Hin. apply in_app_or in Hin. destruct Hin as [Hin|[Hin|[]]].
  - apply in_map_iff in Hin. destruct Hin as (x & Hx & Hxin). exists x. split. now left.
    apply (f_equal e_files) in Hx. exact (eq_sym Hx).
  - exists (last sts init_st). split. now right. apply (f_equal e_files) in Hin. exact (eq_sym Hin).
Qed.

Lemma last_in_or (l : list st) s : In (last l s) l \/ last l s = s.
Proof.
  destruct l as [|x l] using rev_ind. now right. left. rewrite last_last. apply in_or_app. right. now left.
Qed.

(* BYTES EXACT: whenever any event shows a file with CurrentSize = FileSize, its StreamBody is the
   original content *)
Theorem bytes_exact d split its sts cuts evs w sf : split_ok split -> Forall (wf_item d) its ->
  Forall (item_of d split) its -> irun d init_st its = Some sts ->
  concat cuts = concat (map (wire d) its) -> run d cuts = (evs, w, sf) ->
  forall e nm pk, In e evs -> afind name_eqb nm (e_files e) = Some pk ->
    p_size pk = len (content split nm) /\
    (p_cur pk = p_size pk -> p_body pk = content split nm).
Proof.
  intros Hsp Hall Hof H Hc Hr e nm pk Hin Hf.
  destruct (event_state d its sts cuts evs w sf e Hall H Hc Hr Hin) as (x & Hx & Hfiles).
  pose proof (irun_inv d split its init_st sts Hsp Hall Hof (rinv_init split) H) as Hinv.
  rewrite Forall_forall in Hinv.
  assert (rinv split (s_record x)) as Hrx.
  { destruct Hx as [Hx| ->]. auto. destruct (last_in_or sts init_st) as [Hl| ->]. auto. apply rinv_init. }
  rewrite Hfiles in Hf. destruct (Hrx nm pk Hf) as (H1 & _ & _ & _ & H5). split; assumption.
Qed.

(* ---------- "complete" exactly when every tile has arrived ---------- *)
Lemma pinv_complete_iff ps pk : ps_ok ps -> pinv ps pk ->
  (p_cur pk = p_size pk <-> forall t, In t (pieces 0 ps) -> In t (p_data pk)).
Proof.
  intros [Hne Hsz] (Hs & Hnd & Hi & Hc & Hb).
  pose proof (pieces_strict ps 0 Hne) as Hst. pose proof (pieces_dsum ps 0) as HT. split.
  - intros E t Ht. assert (Permutation (p_data pk) (pieces 0 ps)) as Hp.
    { apply part_full; auto. apply pieces_pos, Hne. lia. }
    eapply Permutation_in. symmetry. exact Hp. exact Ht.
  - intros Hall. destruct (incl_perm (p_data pk) (pieces 0 ps) (nodup_fst _ Hnd) Hi) as (rest & Hp).
    assert (rest = []) as ->.
    { destruct rest as [|x r]. reflexivity. exfalso.
      assert (NoDup (p_data pk ++ x :: r)) as Hn.
      { eapply Permutation_NoDup. exact Hp. apply nodup_fst, kstrict_nodup, Hst. }
      apply NoDup_remove_2 in Hn. apply Hn, in_or_app. left. apply Hall.
      eapply Permutation_in. symmetry. exact Hp. apply in_or_app. right. now left. }
    rewrite app_nil_r in Hp. rewrite Hc, Hs, <- HT. symmetry. apply dsum_perm, Hp.
Qed.

Lemma irun_arrived d split : forall its s sts acc nm, split_ok split -> Forall (wf_item d) its ->
  Forall (item_of d split) its -> rinv split (s_record s) ->
  (forall pk, afind name_eqb nm (s_record s) = Some pk -> forall x, In x (p_data pk) <-> In x acc) ->
  irun d s its = Some sts ->
  forall pk, afind name_eqb nm (s_record (last sts s)) = Some pk ->
  forall x, In x (p_data pk) <-> In x (arrived d nm acc its).
Proof.
  induction its as [|it its IH]; intros s sts acc nm Hsp Hall Hof Hr Hacc H; cbn [irun] in H.
  - injection H as <-. cbn [last arrived]. exact Hacc.
  - apply Forall_cons_iff in Hall. destruct Hall as [Hw Hall].
    apply Forall_cons_iff in Hof. destruct Hof as [Ho Hof].
    destruct (Attach.step d (set_hist s (wire d it))) as [s'| |] eqn:E; try discriminate.
    destruct (irun d s' its) as [l|] eqn:E2; [|discriminate]. injection H as <-.
    rewrite last_cons_st.
    pose proof (step_inv d split s it s' Hsp Hw Ho Hr E) as Hr'.
    pose proof (step_record d s it s' Hw E) as Hrec.
    destruct it as [nm' off data|f]; cbn [arrived].
    + destruct Hrec as (pk0 & Hf0 & Hrec). eapply IH; eauto. intros pk Hf x. rewrite Hrec in Hf.
      destruct (name_eqb nm' nm) eqn:En.
      * apply name_eqb_spec in En. subst nm'.
        rewrite (afind_aset_same name_eqb name_eqb_spec) in Hf. injection Hf as <-.
        cbn [item_of] in Ho. unfold tiles in Ho.
        destruct (pkg_add_inv (split nm) pk0 off data (chunk_head d nm off (len data)) (Hsp nm) (Hr nm pk0 Hf0) Ho)
          as [_ Hd]. rewrite Hd. cbn [In]. rewrite (Hacc pk0 Hf0 x). intuition congruence.
      * rewrite (afind_aset_other name_eqb name_eqb_spec) in Hf. apply Hacc, Hf.
        intros ->. rewrite (proj2 (name_eqb_spec _ _) eq_refl) in En. discriminate.
    + eapply IH; eauto. intros pk Hf x. rewrite Hrec in Hf.
      destruct (announce_find (announced d f) (s_record s) nm) as [A1 A2].
      destruct (existsb (fun a => name_eqb (fst a) nm) (announced d f)).
      * destruct (A1 eq_refl) as (sz & Hsz). rewrite Hsz in Hf. injection Hf as <-. cbn. tauto.
      * rewrite (A2 eq_refl) in Hf. apply Hacc, Hf.
Qed.

(* COMPLETE IFF ALL BYTES: in the state reached by an accepted item sequence, a file's CurrentSize
   equals its FileSize exactly when every tile of the file has arrived since it was last announced *)
Theorem complete_iff_state d split its sts : split_ok split -> Forall (wf_item d) its ->
  Forall (item_of d split) its -> irun d init_st its = Some sts ->
  forall nm pk, afind name_eqb nm (s_record (last sts init_st)) = Some pk ->
  (p_cur pk = p_size pk <-> forall t, In t (tiles split nm) -> In t (arrived d nm [] its)).
Proof.
  intros Hsp Hall Hof H nm pk Hf.
  assert (rinv split (s_record (last sts init_st))) as Hr.
  { pose proof (irun_inv d split its init_st sts Hsp Hall Hof (rinv_init split) H) as Hinv.
    rewrite Forall_forall in Hinv. destruct (last_in_or sts init_st) as [Hl| ->]. auto. apply rinv_init. }
  rewrite (pinv_complete_iff (split nm) pk (Hsp nm) (Hr nm pk Hf)). unfold tiles.
  assert (forall x, In x (p_data pk) <-> In x (arrived d nm [] its)) as Hd.
  { apply (irun_arrived d split its init_st sts [] nm Hsp Hall Hof (rinv_init split)); [|exact H|exact Hf].
    intros pk0 Hf0. discriminate. }
  split; intros Ht t Hin.
  - apply (proj1 (Hd t)), Ht, Hin.
  - apply (proj2 (Hd t)), Ht, Hin.
Qed.

Theorem complete_iff d split its sts cuts evs w sf : split_ok split -> Forall (wf_item d) its ->
  Forall (item_of d split) its -> irun d init_st its = Some sts ->
  concat cuts = concat (map (wire d) its) -> run d cuts = (evs, w, sf) ->
  forall nm pk, afind name_eqb nm (s_record sf) = Some pk ->
  (p_cur pk = p_size pk <-> forall t, In t (tiles split nm) -> In t (arrived d nm [] its)).
Proof.
  intros Hsp Hall Hof H Hc Hr nm pk Hf.
  destruct (segmentation d its sts cuts Hall H Hc) as (evs' & Hr' & _).
  rewrite Hr in Hr'. injection Hr' as _ _ ->. eapply complete_iff_state; eauto.
Qed.

(* every event is the state of a prefix of the items: the theorems about final states speak about
   every moment of the connection *)
Lemma irun_firstn d k : forall its s sts, irun d s its = Some sts ->
  irun d s (firstn k its) = Some (firstn k sts).
Proof.
  induction k as [|k IH]; intros its s sts H. reflexivity.
  destruct its as [|it its]; cbn [irun firstn] in *. injection H as <-. reflexivity.
  destruct (Attach.step d (set_hist s (wire d it))) as [s'| |]; try discriminate.
  destruct (irun d s' its) as [l|] eqn:E; [|discriminate]. injection H as <-.
  rewrite (IH its s' l E). reflexivity.
Qed.

(* ====================== 5. one prescribed reply per control frame ====================== *)
Lemma chunk_no_reply d s nm off data s' : wf_item d (I_chunk nm off data) ->
  Attach.step d (set_hist s (wire d (I_chunk nm off data))) = O_ok s' ->
  wr s' = [] /\ h_seq s' = h_seq s /\ h_head s' = h_head s.
Proof.
  intros Hw H. rewrite <- (app_nil_r (wire d (I_chunk nm off data))) in H. rewrite step_chunk in H by exact Hw.
  destruct (afind name_eqb nm (s_record s)) as [pk|]; [|discriminate]. injection H as <-.
  unfold wr, after_chunk. cbn [s_stage h_seq h_head]. split; [|split; reflexivity].
  destruct (p_cur _ =? p_size _); reflexivity.
Qed.

Lemma frame_reply d s f s' : vframe f -> Attach.step d (set_hist s f) = O_ok s' ->
  exists m, decode f = Ok m /\
    wr s' = prescribed (match h_head s with Some x => x | None => m end) m (h_seq s) (h_miss s') /\
    h_seq s' = (h_seq s + 1) mod 65536 /\
    h_head s' = Some (match h_head s with Some x => x | None => m end).
Proof.
  intros Hv H.
  destruct (step_frame_ok d s f s' Hv H) as (m & stage & rec & cur & n & miss & data & Hd & H1 & H2 & ->).
  exists m. split. exact Hd.
  unfold wr. cbn [replied commit with_msg set_hist s_stage s_reply h_seq h_head h_miss].
  rewrite (frame_decide_reply _ _ _ _ _ _ _ _ H1). split; [|split; [reflexivity|destruct (h_head s); reflexivity]].
  unfold reply_data in H2. cbn [replied commit with_msg set_hist h_head h_msg h_cmd h_seq h_miss] in H2.
  unfold prescribed.
  destruct (m_id m =? ID_1210) eqn:E0.
  { assert ((m_id m =? ID_1212) = false) as -> by (unfold ID_1210, ID_1212 in *; lia).
    destruct (h_head s); injection H2 as <-; reflexivity. }
  destruct (m_id m =? ID_1211) eqn:E1.
  { assert ((m_id m =? ID_1212) = false) as -> by (unfold ID_1211, ID_1212 in *; lia).
    destruct (h_head s); injection H2 as <-; reflexivity. }
  destruct (m_id m =? ID_1212) eqn:E2.
  - destruct (h_head s); destruct (parse1211 (m_body m)); try discriminate; injection H2 as <-; reflexivity.
  - destruct (h_head s); discriminate.
Qed.

Lemma irun_replies d : forall its s sts hd k, Forall (wf_item d) its -> irun d s its = Some sts ->
  h_seq s = k mod 65536 ->
  match h_head s with Some x => x = hd | None => first_header its = hd end ->
  concat (map wr sts) = concat (replies_spec hd k its sts).
Proof.
  induction its as [|it its IH]; intros s sts hd k Hall H Hk Hh; cbn [irun] in H.
  - injection H as <-. reflexivity.
  - apply Forall_cons_iff in Hall. destruct Hall as [Hw Hall].
    destruct (Attach.step d (set_hist s (wire d it))) as [s'| |] eqn:E; try discriminate.
    destruct (irun d s' its) as [l|] eqn:E2; [|discriminate]. injection H as <-.
    destruct it as [nm off data|f].
    + destruct (chunk_no_reply d s nm off data s' Hw E) as (Hwr & Hs & Hhd).
      cbn [map concat replies_spec]. rewrite Hwr. cbn [app].
      apply (IH s' l hd k Hall E2). congruence. rewrite Hhd. exact Hh.
    + cbn [wire wf_item] in *. destruct (frame_reply d s f s' Hw E) as (m & Hd & Hwr & Hs & Hhd).
      cbn [map concat replies_spec]. rewrite Hd. cbn [concat]. rewrite Hwr.
      assert ((match h_head s with Some x => x | None => m end) = hd) as Hm.
      { destruct (h_head s). exact Hh. unfold first_header in Hh. cbn [flat_map] in Hh. rewrite Hd in Hh.
        exact Hh. }
      rewrite Hm, Hk. f_equal.
      apply (IH s' l hd (k + 1) Hall E2).
      * rewrite Hs, Hk. rewrite N.add_mod_idemp_l by discriminate. reflexivity.
      * rewrite Hhd. exact Hm.
Qed.

(* CONTROL REPLIED ONCE: the bytes written to the socket are exactly one prescribed answer per control
   frame, in order, with consecutive serials from 0 and the first message's header; nothing for a chunk *)
Theorem control_replied_once d its sts cuts evs w sf : Forall (wf_item d) its ->
  irun d init_st its = Some sts -> concat cuts = concat (map (wire d) its) -> run d cuts = (evs, w, sf) ->
  w = concat (replies_spec (first_header its) 0 its sts).
Proof.
  intros Hall H Hc Hr. destruct (segmentation d its sts cuts Hall H Hc) as (evs' & Hr' & _).
  rewrite Hr in Hr'. injection Hr' as _ -> _.
  apply (irun_replies d its init_st sts (first_header its) 0 Hall H); reflexivity.
Qed.

Lemma replies_spec_length d : forall its s sts hd k, Forall (wf_item d) its -> irun d s its = Some sts ->
  length (replies_spec hd k its sts) =
  length (filter (fun it => match it with I_frame _ => true | _ => false end) its).
Proof.
  induction its as [|it its IH]; intros s sts hd k Hall H; cbn [irun] in H.
  - injection H as <-. reflexivity.
  - apply Forall_cons_iff in Hall. destruct Hall as [Hw Hall].
    destruct (Attach.step d (set_hist s (wire d it))) as [s'| |] eqn:E; try discriminate.
    destruct (irun d s' its) as [l|] eqn:E2; [|discriminate]. injection H as <-.
    destruct it as [nm off data|f]; cbn [replies_spec filter].
    + eapply IH; eauto.
    + cbn [wf_item] in Hw. destruct Hw as (mid & m & _ & _ & _ & Hd). rewrite Hd. cbn [length]. f_equal.
      eapply IH; eauto.
Qed.

(* ====================== 6. uploads are accepted ====================== *)
Lemma frame_accept d s f : vframe f -> ctrl_okb d f = true -> exists s', Attach.step d (set_hist s f) = O_ok s'.
Proof.
  intros Hv Hc. pose proof Hv as (mid & m & _ & _ & _ & Hd).
  rewrite <- (app_nil_r f). rewrite (step_frame d s f [] m Hv Hd).
  unfold ctrl_okb in Hc. rewrite Hd in Hc.
  unfold frame_core, frame_decide.
  destruct (m_id m =? ID_1210) eqn:E0.
  { destruct (parse1210 d (m_body m)) as [items| |]; try discriminate.
    cbn [has_reply ST_INIT N.eqb orb]. unfold reply_data.
    cbn [commit with_msg set_hist h_head h_msg h_cmd]. rewrite E0.
    destruct (h_head s); eexists; reflexivity. }
  destruct (m_id m =? ID_1211) eqn:E1.
  { destruct (parse1211 (m_body m)) as [t| |]; try discriminate.
    unfold reply_data. cbn [commit with_msg set_hist h_head h_msg h_cmd]. rewrite E0, E1.
    destruct (h_head s); eexists; reflexivity. }
  destruct (m_id m =? ID_1212) eqn:E2; [|discriminate].
  destruct (parse1211 (m_body m)) as [t| |] eqn:Ep; try discriminate.
  cbn [with_msg set_hist s_record].
  destruct (afind name_eqb (f_name t) (s_record s)) as [pk|].
  - assert (has_reply (match miss_segments (p_size pk) (p_cur pk) (p_recs pk) with [] => ST_COMPLETE | _ :: _ => ST_SUPPL end) = true) as ->
      by (destruct (miss_segments _ _ _); reflexivity).
    unfold reply_data. cbn [commit with_msg set_hist h_head h_msg h_cmd]. rewrite E0, E1, E2, Ep.
    destruct (h_head s); eexists; reflexivity.
  - unfold reply_data. cbn [commit with_msg set_hist h_head h_msg h_cmd has_reply]. rewrite E0, E1, E2, Ep.
    destruct (h_head s); eexists; reflexivity.
Qed.

Lemma announce_keeps items rec nm : afind name_eqb nm rec <> None -> afind name_eqb nm (announce rec items) <> None.
Proof.
  intros H. destruct (announce_find items rec nm) as [A1 A2].
  destruct (existsb (fun a => name_eqb (fst a) nm) items).
  - destruct (A1 eq_refl) as (sz & ->). discriminate.
  - rewrite (A2 eq_refl). exact H.
Qed.

Lemma announce_adds items rec nm : In nm (map fst items) -> afind name_eqb nm (announce rec items) <> None.
Proof.
  intros H. destruct (announce_find items rec nm) as [A1 _].
  assert (existsb (fun a => name_eqb (fst a) nm) items = true) as E.
  { apply existsb_exists. apply in_map_iff in H. destruct H as (a & <- & Ha). exists a. split. exact Ha.
    now apply name_eqb_spec. }
  destruct (A1 E) as (sz & ->). discriminate.
Qed.

(* UPLOADS ARE ACCEPTED: the item-by-item run of a syntactically valid upload never stops *)
Theorem upload_accepted d : forall its s known, Forall (wf_item d) its -> upload_ok d known its = true ->
  (forall nm, In nm known -> afind name_eqb nm (s_record s) <> None) ->
  exists sts, irun d s its = Some sts.
Proof.
  induction its as [|it its IH]; intros s known Hall Hu Hk. exists []. reflexivity.
  apply Forall_cons_iff in Hall. destruct Hall as [Hw Hall]. cbn [irun]. destruct it as [nm off data|f].
  - cbn [upload_ok] in Hu. apply andb_true_iff in Hu. destruct Hu as [Hn Hu].
    apply existsb_exists in Hn. destruct Hn as (nm' & Hin & En). apply name_eqb_spec in En. subst nm'.
    rewrite <- (app_nil_r (wire d (I_chunk nm off data))). rewrite step_chunk by exact Hw.
    destruct (afind name_eqb nm (s_record s)) as [pk|] eqn:Ef. 2:{ exfalso. exact (Hk nm Hin Ef). }
    destruct (IH (after_chunk s nm (pkg_add pk off (len data) data (chunk_head d nm off (len data))) []) known Hall Hu)
      as (sts & ->).
    { intros nm' Hin'. cbn [after_chunk s_record].
      destruct (list_eq_dec N.eq_dec nm' nm) as [->|Hne].
      rewrite (afind_aset_same name_eqb name_eqb_spec). discriminate.
      rewrite (afind_aset_other name_eqb name_eqb_spec) by exact Hne. auto. }
    eexists. reflexivity.
  - cbn [upload_ok wire wf_item] in *. apply andb_true_iff in Hu. destruct Hu as [Hc Hu].
    apply andb_true_iff in Hc. destruct Hc as [Hc _].
    destruct (frame_accept d s f Hw Hc) as (s' & E). rewrite E.
    pose proof (step_record d s (I_frame f) s' Hw E) as Hrec. cbn in Hrec.
    destruct (IH s' (map fst (announced d f) ++ known) Hall Hu) as (sts & ->).
    { intros nm Hin. rewrite Hrec. apply in_app_or in Hin. destruct Hin as [Hin|Hin].
      apply announce_adds, Hin. apply announce_keeps, Hk, Hin. }
    eexists. reflexivity.
Qed.

(* ====================== 7. the statements of Props/C15.v ====================== *)
Lemma wf_itemb_spec d it : wf_itemb d it = true -> wf_item d it.
Proof.
  destruct it as [nm off data|f]; cbn [wf_itemb wf_item]; intros H.
  - apply andb_true_iff in H. destruct H as [H H4]. apply andb_true_iff in H. destruct H as [H H3].
    apply andb_true_iff in H. destruct H as [H1 H2]. apply list_eqb_spec in H1.
    split; [split|split]; try lia. exact H1. destruct (d =? D_HLJ); lia.
  - apply vframeb_spec, H.
Qed.

(* observables of a connection that do not depend on how the stream was cut into reads *)
Definition obs (r : list event * list N * st) : list event * list N * st :=
  let '(evs, w, sf) := r in (map strip evs, w, sf).

Theorem segmentation_upload d its cuts1 cuts2 : Forall (wf_item d) its -> upload_ok d [] its = true ->
  concat cuts1 = concat (map (wire d) its) -> concat cuts2 = concat (map (wire d) its) ->
  obs (run d cuts1) = obs (run d cuts2).
Proof.
  intros Hall Hu H1 H2.
  destruct (upload_accepted d its init_st [] Hall Hu) as (sts & H). intros nm [].
  destruct (segmentation d its sts cuts1 Hall H H1) as (e1 & -> & He1).
  destruct (segmentation d its sts cuts2 Hall H H2) as (e2 & -> & He2).
  unfold obs. rewrite He1, He2. reflexivity.
Qed.

Theorem bytes_exact_upload d split its cuts evs w sf : split_ok split -> Forall (wf_item d) its ->
  Forall (item_of d split) its -> upload_ok d [] its = true ->
  concat cuts = concat (map (wire d) its) -> run d cuts = (evs, w, sf) ->
  forall e nm pk, In e evs -> afind name_eqb nm (e_files e) = Some pk ->
    p_size pk = len (content split nm) /\ (p_cur pk = p_size pk -> p_body pk = content split nm).
Proof.
  intros Hsp Hall Hof Hu Hc Hr.
  destruct (upload_accepted d its init_st [] Hall Hu) as (sts & H). intros nm [].
  eapply bytes_exact; eauto.
Qed.

Theorem complete_iff_upload d split its cuts evs w sf : split_ok split -> Forall (wf_item d) its ->
  Forall (item_of d split) its -> upload_ok d [] its = true ->
  concat cuts = concat (map (wire d) its) -> run d cuts = (evs, w, sf) ->
  forall nm pk, afind name_eqb nm (s_record sf) = Some pk ->
  (p_cur pk = p_size pk <-> forall t, In t (tiles split nm) -> In t (arrived d nm [] its)).
Proof.
  intros Hsp Hall Hof Hu Hc Hr.
  destruct (upload_accepted d its init_st [] Hall Hu) as (sts & H). intros nm [].
  eapply complete_iff; eauto.
Qed.

Theorem replied_once_upload d its cuts evs w sf : Forall (wf_item d) its -> upload_ok d [] its = true ->
  concat cuts = concat (map (wire d) its) -> run d cuts = (evs, w, sf) ->
  exists sts, irun d init_st its = Some sts /\
    w = concat (replies_spec (first_header its) 0 its sts) /\
    length (replies_spec (first_header its) 0 its sts) =
    length (filter (fun it => match it with I_frame _ => true | _ => false end) its).
Proof.
  intros Hall Hu Hc Hr.
  destruct (upload_accepted d its init_st [] Hall Hu) as (sts & H). intros nm [].
  exists sts. split. exact H. split.
  - eapply control_replied_once; eauto.
  - eapply replies_spec_length; eauto.
Qed.

(* the retransmit list a 0x1212 is answered with is the one computed from the named file's Package at
   that moment (Props/C16: exactly the missing ranges; empty iff CurrentSize = FileSize) *)
Lemma frame_miss d s f s' : vframe f -> Attach.step d (set_hist s f) = O_ok s' ->
  forall m t pk, decode f = Ok m -> m_id m = ID_1212 -> parse1211 (m_body m) = Ok t ->
  afind name_eqb (f_name t) (s_record s) = Some pk ->
  h_miss s' = miss_segments (p_size pk) (p_cur pk) (p_recs pk) /\ s_record s' = s_record s.
Proof.
  intros Hv H m t pk Hd Hid Hp Hf.
  destruct (step_frame_ok d s f s' Hv H) as (m' & stage & rec & cur & n & miss & data & Hd' & H1 & _ & ->).
  rewrite Hd in Hd'. injection Hd' as <-.
  unfold frame_decide in H1. rewrite Hid in H1. cbn [ID_1212 ID_1210 ID_1211 N.eqb Pos.eqb] in H1.
  rewrite Hp in H1. cbn [with_msg set_hist s_record] in H1. rewrite Hf in H1.
  injection H1 as _ <- _ _ <-. split; reflexivity.
Qed.

(* ====================== 8. fuel, prefixes, the link to C16, every event ====================== *)
(* ---------- the loop's fuel is never what stops it ---------- *)
Lemma lex_chunk_size d b hl nm off dlen : lex d b = L_chunk hl nm off dlen -> 0 < hl /\ hl + dlen <= len b.
Proof.
  unfold lex. destruct (has_prefix MARKER b).
  - destruct (negb (has_min_head d b)). discriminate.
    unfold parse_head. destruct (d =? D_HLJ).
    + set (h0 := 4 + 1 + at_ b 4 + 4 + 4). assert (0 < h0) as Hh by (unfold h0; lia). clearbody h0.
      destruct (_ <=? len b) eqn:E; [|discriminate]. intros H. injection H as <- _ _ <-.
      split. exact Hh. apply N.leb_le, E.
    + set (h0 := 62). assert (0 < h0) as Hh by (unfold h0; lia). clearbody h0.
      destruct (_ <=? len b) eqn:E; [|discriminate]. intros H. injection H as <- _ _ <-.
      split. exact Hh. apply N.leb_le, E.
  - destruct (len b <? 10). discriminate. destruct (index_of SIGN (tl b)); discriminate.
Qed.

Lemma index_of_lt b : forall l i, index_of b l = Some i -> i < len l.
Proof.
  induction l as [|x t IH]; intros i H; cbn [index_of] in H. discriminate.
  rewrite len_cons. destruct (x =? b). injection H as <-. lia.
  destruct (index_of b t) as [j|]; [|discriminate]. injection H as <-. specialize (IH j eq_refl). lia.
Qed.

Lemma lex_frame_size d b index : lex d b = L_frame index -> 2 <= index /\ index <= len b.
Proof.
  unfold lex. destruct (has_prefix MARKER b).
  - destruct (negb (has_min_head d b)). discriminate.
    destruct (parse_head d b) as [[[hl' nm'] off'] dlen']. destruct (hl' + dlen' <=? len b); discriminate.
  - destruct (len b <? 10) eqn:E. discriminate.
    destruct (index_of SIGN (tl b)) as [i|] eqn:Ei; [|discriminate]. intros H. injection H as <-.
    apply index_of_lt in Ei. destruct b. cbv in E. discriminate. cbn [tl] in Ei. rewrite len_cons. lia.
Qed.

Lemma step_consumes d s s' : Attach.step d s = O_ok s' -> (length (s_hist s') < length (s_hist s))%nat.
Proof.
  unfold Attach.step. destruct (lex d (s_hist s)) as [|hl nm off dlen|index] eqn:El. discriminate.
  - apply lex_chunk_size in El. unfold do_chunk. destruct (afind name_eqb nm (s_record s)); [|discriminate].
    intros H. injection H as <-. cbn [after_chunk s_hist]. rewrite skipn_length. unfold len in El. lia.
  - apply lex_frame_size in El. unfold do_frame. destruct (decode _) as [m| |]; try discriminate.
    intros H. apply frame_core_keeps_hist in H. rewrite H, s_hist_set, skipn_length. unfold len in El. lia.
Qed.

Theorem iter_fuel d : forall f1 f2 s, (length (s_hist s) < f1)%nat -> (length (s_hist s) < f2)%nat ->
  iter f1 d s = iter f2 d s.
Proof.
  induction f1 as [|f1 IH]; intros f2 s H1 H2. lia.
  destruct f2 as [|f2]. lia.
  cbn [Attach.iter]. destruct (s_hist s) eqn:Eh. reflexivity. rewrite <- Eh in *.
  destruct (Attach.step d s) as [s'| |s'] eqn:E; try reflexivity.
  apply step_consumes in E. rewrite (IH f2 s') by lia. reflexivity.
Qed.

(* ---------- a proper prefix of an item waits for more data, it is never a fatal error ---------- *)
Theorem prefix_waits d it p x : wf_item d it -> p ++ x = wire d it -> x <> [] -> p <> [] -> lex d p = L_more.
Proof. intros Hw H Hx Hp. apply lex_ppart; [|exact Hp]. eapply proper_prefix_ppart; eauto. Qed.

(* ---------- the recorded chunks are what C16 assumes ---------- *)
Lemma pieces_range ps : forall off o p, In (o, p) (pieces off ps) -> off <= o /\ o + len p <= off + len (concat ps).
Proof.
  induction ps as [|q ps IH]; intros off o p H; cbn [pieces] in H. contradiction.
  cbn [concat]. rewrite len_app. destruct H as [E|H]. injection E as <- <-. lia.
  apply IH in H. lia.
Qed.

Lemma pieces_sep ps : forall off o1 p1 o2 p2, In (o1, p1) (pieces off ps) -> In (o2, p2) (pieces off ps) ->
  o1 < o2 -> o1 + len p1 <= o2.
Proof.
  induction ps as [|q ps IH]; intros off o1 p1 o2 p2 H1 H2 Hlt; cbn [pieces] in *. contradiction.
  destruct H1 as [E1|H1]; destruct H2 as [E2|H2].
  - injection E1 as <- <-. injection E2 as <- <-. lia.
  - injection E1 as <- <-. apply pieces_range in H2. lia.
  - injection E2 as <- <-. apply pieces_range in H1. lia.
  - eapply IH; eauto.
Qed.

Lemma recs_sum (m : chunkl) : sum_len (map (fun r => (fst r, len (snd r))) m) = dsum m.
Proof. induction m as [|x m IH]; cbn [map sum_len dsum fold_right snd]. reflexivity. fold (dsum m). f_equal. exact IH. Qed.

Lemma recs_chunks_ok ps (m : chunkl) : ps_ok ps -> NoDup (map fst m) -> incl m (pieces 0 ps) ->
  chunks_ok (len (concat ps)) (map (fun r => (fst r, len (snd r))) m).
Proof.
  intros [Hne Hsz] Hnd Hi. split.
  - induction m as [|[o dt] m IH]; cbn [map disjoint fst snd]. exact I.
    cbn [map fst] in Hnd. apply NoDup_cons_iff in Hnd. destruct Hnd as [Ho Hnd].
    split; [|apply IH; auto; intros y Hy; apply Hi; now right].
    intros x Hx (o' & n' & Hin & Hx'). apply in_map_iff in Hin. destruct Hin as ([o2 dt2] & E & Hin2).
    cbn [fst snd] in E. injection E as <- <-.
    assert (In (o, dt) (pieces 0 ps)) as H1 by (apply Hi; now left).
    assert (In (o2, dt2) (pieces 0 ps)) as H2 by (apply Hi; now right).
    assert (o2 <> o) as Hne2. { intros ->. apply Ho. apply in_map_iff. exists (o, dt2). auto. }
    destruct (N.lt_ge_cases o o2) as [Hl|Hl].
    + pose proof (pieces_sep ps 0 o dt o2 dt2 H1 H2 Hl). lia.
    + assert (o2 < o) as Hl2 by lia. pose proof (pieces_sep ps 0 o2 dt2 o dt H2 H1 Hl2). lia.
  - apply Forall_forall. intros r Hr. apply in_map_iff in Hr. destruct Hr as ([o dt] & <- & Hin). cbn [fst snd].
    apply Hi in Hin. pose proof (pieces_pos ps 0 Hne) as Hp. rewrite Forall_forall in Hp.
    specialize (Hp _ Hin). cbn [snd] in Hp. apply pieces_range in Hin. lia.
Qed.

Lemma pinv_c16 ps pk : ps_ok ps -> pinv ps pk ->
  chunks_ok (p_size pk) (p_recs pk) /\ p_cur pk = sum_len (p_recs pk) /\ p_size pk < W.
Proof.
  intros Hok (Hs & Hnd & Hi & Hc & _). unfold p_recs. rewrite Hs, recs_sum. split; [|split].
  - apply recs_chunks_ok; auto.
  - exact Hc.
  - apply Hok.
Qed.

(* THE C16 INVARIANT: in every event of every run of an upload, for every announced file: the recorded
   (offset, length) pairs are pairwise disjoint, non-empty, inside the file, and CurrentSize is their total *)
Theorem recorded_chunks_ok d split its sts cuts evs w sf : split_ok split -> Forall (wf_item d) its ->
  Forall (item_of d split) its -> irun d init_st its = Some sts ->
  concat cuts = concat (map (wire d) its) -> run d cuts = (evs, w, sf) ->
  forall e nm pk, In e evs -> afind name_eqb nm (e_files e) = Some pk ->
    chunks_ok (p_size pk) (p_recs pk) /\ p_cur pk = sum_len (p_recs pk) /\ p_size pk < W.
Proof.
  intros Hsp Hall Hof H Hc Hr e nm pk Hin Hf.
  destruct (event_state d its sts cuts evs w sf e Hall H Hc Hr Hin) as (x & Hx & Hfiles).
  pose proof (irun_inv d split its init_st sts Hsp Hall Hof (rinv_init split) H) as Hinv.
  rewrite Forall_forall in Hinv.
  assert (rinv split (s_record x)) as Hrx.
  { destruct Hx as [Hx| ->]. auto. destruct (last_in_or sts init_st) as [Hl| ->]. auto. apply rinv_init. }
  rewrite Hfiles in Hf. apply (pinv_c16 (split nm)). apply Hsp. apply Hrx, Hf.
Qed.

(* ---------- the state before and after the i-th item ---------- *)
Definition before (s : st) (sts : list st) (i : nat) : st := match i with O => s | S j => nth j sts s end.

Lemma irun_nth d : forall its s sts i it s', irun d s its = Some sts ->
  nth_error its i = Some it -> nth_error sts i = Some s' ->
  Attach.step d (set_hist (before s sts i) (wire d it)) = O_ok s'.
Proof.
  induction its as [|it0 its IH]; intros s sts i it s' H Hi Hs. destruct i; discriminate.
  cbn [irun] in H. destruct (Attach.step d (set_hist s (wire d it0))) as [s0| |] eqn:E; try discriminate.
  destruct (irun d s0 its) as [l|] eqn:E2; [|discriminate]. injection H as <-.
  destruct i as [|i]; cbn [nth_error] in Hi, Hs.
  - injection Hi as <-. injection Hs as <-. exact E.
  - pose proof (IH s0 l i it s' E2 Hi Hs) as Hst.
    destruct i as [|j]; cbn [before nth] in *. exact Hst.
    replace (nth j l s) with (nth j l s0). exact Hst.
    apply nth_indep. assert (nth_error l (S j) <> None) as Hn by congruence. apply nth_error_Some in Hn. lia.
Qed.

Lemma irun_length d : forall its s sts, irun d s its = Some sts -> length sts = length its.
Proof.
  induction its as [|it its IH]; intros s sts H; cbn [irun] in H. injection H as <-. reflexivity.
  destruct (Attach.step d (set_hist s (wire d it))) as [s'| |]; try discriminate.
  destruct (irun d s' its) as [l|] eqn:E; [|discriminate]. injection H as <-. cbn [length]. f_equal. eauto.
Qed.

Lemma irun_nth_inv d split its sts i s' : split_ok split -> Forall (wf_item d) its -> Forall (item_of d split) its ->
  irun d init_st its = Some sts -> nth_error sts i = Some s' -> rinv split (s_record s').
Proof.
  intros Hsp Hall Hof H Hs. pose proof (irun_inv d split its init_st sts Hsp Hall Hof (rinv_init split) H) as Hinv.
  rewrite Forall_forall in Hinv. apply Hinv. eapply nth_error_In, Hs.
Qed.

(* THE 0x9212 LIST IS EXACT: the state reached by a 0x1212 for an announced file holds, as the list the answer
   carries (replies_spec uses h_miss of that state), StatisticalMissSegments of the file's recorded chunks, which
   satisfy what C16 assumes - so the list is what C16_exact says: ascending, maximal, inside the file, covering
   exactly the bytes not yet received *)
Theorem reply_1212_exact d split its sts i f m t s' pk : split_ok split -> Forall (wf_item d) its ->
  Forall (item_of d split) its -> irun d init_st its = Some sts ->
  nth_error its i = Some (I_frame f) -> decode f = Ok m -> m_id m = ID_1212 -> parse1211 (m_body m) = Ok t ->
  nth_error sts i = Some s' -> afind name_eqb (f_name t) (s_record s') = Some pk ->
  let size := p_size pk in let recs := p_recs pk in
  let g := miss_segments size (sum_len recs) recs in
  h_miss s' = g /\ size = len (content split (f_name t)) /\ chunks_ok size recs /\
  sorted_maximal g /\ (forall x, covered g x -> x < size) /\
  (forall x, x < size -> (covered g x <-> ~ covered recs x)) /\ sum_len g + sum_len recs = size.
Proof.
  intros Hsp Hall Hof H Hi Hd Hid Hp Hs Hf. cbv zeta.
  pose proof (irun_nth d its init_st sts i (I_frame f) s' H Hi Hs) as Hst. cbn [wire] in Hst.
  assert (vframe f) as Hv. { rewrite Forall_forall in Hall. apply (Hall (I_frame f)). eapply nth_error_In, Hi. }
  pose proof (step_record d (before init_st sts i) (I_frame f) s' Hv Hst) as Hrec. cbn in Hrec.
  assert (announced d f = []) as Ha.
  { unfold announced. rewrite Hd, Hid. reflexivity. }
  rewrite Ha in Hrec. cbn [announce fold_left] in Hrec.
  rewrite Hrec in Hf.
  destruct (frame_miss d (before init_st sts i) f s' Hv Hst m t pk Hd Hid Hp Hf) as [Hm _].
  pose proof (irun_nth_inv d split its sts i s' Hsp Hall Hof H Hs) as Hr.
  rewrite <- Hrec in Hf.
  destruct (pinv_c16 (split (f_name t)) pk (Hsp _) (Hr _ _ Hf)) as (Hok & Hcur & Hsz).
  rewrite Hcur in Hm. split. exact Hm. split. { destruct (Hr _ _ Hf) as (Hs1 & _). exact Hs1. }
  split. exact Hok. exact (miss_exact (p_size pk) (p_recs pk) Hsz Hok).
Qed.

(* ---------- "complete iff all tiles arrived", at every event ---------- *)
Lemma last_firstn_nth (sts : list st) : forall k s' d0, nth_error sts k = Some s' -> last (firstn (S k) sts) d0 = s'.
Proof.
  induction sts as [|x sts IH]; intros k s' d0 H. destruct k; discriminate.
  destruct k as [|k]; cbn [nth_error] in H.
  - injection H as <-. reflexivity.
  - change (firstn (S (S k)) (x :: sts)) with (x :: firstn (S k) sts). rewrite last_cons_st. eapply IH, H.
Qed.

Lemma in_firstn {A} (x : A) : forall n l, In x (firstn n l) -> In x l.
Proof.
  induction n as [|n IH]; intros l H. contradiction. destruct l as [|y l]. contradiction.
  cbn [firstn] in H. destruct H as [->|H]. now left. right. apply IH, H.
Qed.

Theorem complete_iff_every_state d split its sts k s' : split_ok split -> Forall (wf_item d) its ->
  Forall (item_of d split) its -> irun d init_st its = Some sts -> nth_error sts k = Some s' ->
  forall nm pk, afind name_eqb nm (s_record s') = Some pk ->
  (p_cur pk = p_size pk <-> forall t, In t (tiles split nm) -> In t (arrived d nm [] (firstn (S k) its))).
Proof.
  intros Hsp Hall Hof H Hs nm pk Hf.
  pose proof (irun_firstn d (S k) its init_st sts H) as Hk.
  apply (complete_iff_state d split (firstn (S k) its) (firstn (S k) sts) Hsp).
  - apply Forall_forall. intros x Hx. rewrite Forall_forall in Hall. apply Hall. eapply in_firstn, Hx.
  - apply Forall_forall. intros x Hx. rewrite Forall_forall in Hof. apply Hof. eapply in_firstn, Hx.
  - exact Hk.
  - rewrite (last_firstn_nth sts k s' init_st Hs). exact Hf.
Qed.

Theorem complete_iff_every_event d split its sts cuts evs w sf k e : split_ok split -> Forall (wf_item d) its ->
  Forall (item_of d split) its -> irun d init_st its = Some sts ->
  concat cuts = concat (map (wire d) its) -> run d cuts = (evs, w, sf) ->
  nth_error evs k = Some e -> (k < length its)%nat ->
  forall nm pk, afind name_eqb nm (e_files e) = Some pk ->
  (p_cur pk = p_size pk <-> forall t, In t (tiles split nm) -> In t (arrived d nm [] (firstn (S k) its))).
Proof.
  intros Hsp Hall Hof H Hc Hr He Hk nm pk Hf.
  destruct (segmentation d its sts cuts Hall H Hc) as (evs' & Hr' & Hev).
  rewrite Hr in Hr'. injection Hr' as <- _ _.
  pose proof (irun_length d its init_st sts H) as Hlen.
  destruct (nth_error sts k) as [s'|] eqn:Es. 2:{ apply nth_error_None in Es. lia. }
  assert (e_files e = s_record s') as Hfiles.
  { apply (f_equal (fun l => nth_error l k)) in Hev. rewrite nth_error_map, He in Hev. cbn [option_map] in Hev.
    rewrite nth_error_app1 in Hev by (rewrite map_length; lia). rewrite nth_error_map, Es in Hev.
    cbn [option_map] in Hev.
    apply (f_equal (fun o => match o with Some x => e_files x | None => [] end)) in Hev. exact Hev. }
  rewrite Hfiles in Hf. eapply complete_iff_every_state; eauto.
Qed.

(* in an upload the file a 0x1212 names is in the Record when the frame arrives *)
Lemma upload_1212_known d : forall its s known sts i f m t s', Forall (wf_item d) its ->
  upload_ok d known its = true -> (forall nm, In nm known -> afind name_eqb nm (s_record s) <> None) ->
  irun d s its = Some sts -> nth_error its i = Some (I_frame f) -> decode f = Ok m -> m_id m = ID_1212 ->
  parse1211 (m_body m) = Ok t -> nth_error sts i = Some s' -> afind name_eqb (f_name t) (s_record s') <> None.
Proof.
  induction its as [|it its IH]; intros s known sts i f m t s' Hall Hu Hk H Hi Hd Hid Hp Hs. destruct i; discriminate.
  apply Forall_cons_iff in Hall. destruct Hall as [Hw Hall]. cbn [irun] in H.
  destruct (Attach.step d (set_hist s (wire d it))) as [s0| |] eqn:E; try discriminate.
  destruct (irun d s0 its) as [l|] eqn:E2; [|discriminate]. injection H as <-.
  pose proof (step_record d s it s0 Hw E) as Hrec.
  destruct i as [|i]; cbn [nth_error] in Hi, Hs.
  - injection Hi as ->. injection Hs as <-. cbn [upload_ok] in Hu.
    apply andb_true_iff in Hu. destruct Hu as [Hu _]. apply andb_true_iff in Hu. destruct Hu as [_ Hn].
    unfold named_1212 in Hn. rewrite Hd, Hid in Hn. cbn [ID_1212 N.eqb Pos.eqb] in Hn. rewrite Hp in Hn.
    cbn [forallb] in Hn. rewrite andb_true_r in Hn. apply existsb_exists in Hn. destruct Hn as (nm & Hin & En).
    apply name_eqb_spec in En. subst nm. cbn in Hrec. rewrite Hrec.
    assert (announced d f = []) as -> by (unfold announced; rewrite Hd, Hid; reflexivity).
    cbn [announce fold_left]. apply Hk, Hin.
  - destruct it as [nm off data|f0]; cbn [upload_ok] in Hu.
    + apply andb_true_iff in Hu. destruct Hu as [_ Hu]. destruct Hrec as (pk & Hf & Hrec).
      eapply (IH s0 known); eauto. intros nm' Hin'. rewrite Hrec.
      destruct (list_eq_dec N.eq_dec nm' nm) as [->|Hne].
      rewrite (afind_aset_same name_eqb name_eqb_spec). discriminate.
      rewrite (afind_aset_other name_eqb name_eqb_spec) by exact Hne. auto.
    + apply andb_true_iff in Hu. destruct Hu as [_ Hu].
      eapply (IH s0 (map fst (announced d f0) ++ known)); eauto. intros nm Hin. cbn in Hrec. rewrite Hrec.
      apply in_app_or in Hin. destruct Hin as [Hin|Hin]. apply announce_adds, Hin. apply announce_keeps, Hk, Hin.
Qed.

(* the statements of Props/C15.v with the syntactic hypothesis upload_ok *)
Theorem recorded_chunks_ok_upload d split its cuts evs w sf : split_ok split -> Forall (wf_item d) its ->
  Forall (item_of d split) its -> upload_ok d [] its = true ->
  concat cuts = concat (map (wire d) its) -> run d cuts = (evs, w, sf) ->
  forall e nm pk, In e evs -> afind name_eqb nm (e_files e) = Some pk ->
    chunks_ok (p_size pk) (p_recs pk) /\ p_cur pk = sum_len (p_recs pk) /\ p_size pk < W.
Proof.
  intros Hsp Hall Hof Hu Hc Hr. destruct (upload_accepted d its init_st [] Hall Hu) as (sts & H). intros nm [].
  eapply recorded_chunks_ok; eauto.
Qed.

Theorem complete_iff_every_event_upload d split its cuts evs w sf k e : split_ok split -> Forall (wf_item d) its ->
  Forall (item_of d split) its -> upload_ok d [] its = true ->
  concat cuts = concat (map (wire d) its) -> run d cuts = (evs, w, sf) ->
  nth_error evs k = Some e -> (k < length its)%nat ->
  forall nm pk, afind name_eqb nm (e_files e) = Some pk ->
  (p_cur pk = p_size pk <-> forall t, In t (tiles split nm) -> In t (arrived d nm [] (firstn (S k) its))).
Proof.
  intros Hsp Hall Hof Hu Hc Hr. destruct (upload_accepted d its init_st [] Hall Hu) as (sts & H). intros nm [].
  eapply complete_iff_every_event; eauto.
Qed.

Theorem reply_1212_exact_upload d split its sts i f m t s' : split_ok split -> Forall (wf_item d) its ->
  Forall (item_of d split) its -> upload_ok d [] its = true -> irun d init_st its = Some sts ->
  nth_error its i = Some (I_frame f) -> decode f = Ok m -> m_id m = ID_1212 -> parse1211 (m_body m) = Ok t ->
  nth_error sts i = Some s' ->
  exists pk, afind name_eqb (f_name t) (s_record s') = Some pk /\
  let size := p_size pk in let recs := p_recs pk in
  let g := miss_segments size (sum_len recs) recs in
  h_miss s' = g /\ size = len (content split (f_name t)) /\ chunks_ok size recs /\
  sorted_maximal g /\ (forall x, covered g x -> x < size) /\
  (forall x, x < size -> (covered g x <-> ~ covered recs x)) /\ sum_len g + sum_len recs = size.
Proof.
  intros Hsp Hall Hof Hu H Hi Hd Hid Hp Hs.
  assert (afind name_eqb (f_name t) (s_record s') <> None) as Hn.
  { eapply (upload_1212_known d its init_st [] sts i f m t s'); eauto. }
  destruct (afind name_eqb (f_name t) (s_record s')) as [pk|] eqn:Ef; [|congruence].
  exists pk. split. reflexivity. eapply reply_1212_exact; eauto.
Qed.

(* ====================== 9. the most recent terminal message is a decoded one (for C19) ====================== *)
Definition recent_ok (s : st) : Prop :=
  bytes (s_hist s) /\ forall m, s_recent s = Some m -> decoded_header m.

Lemma step_recent_ok d s : recent_ok s ->
  match Attach.step d s with O_ok s' => recent_ok s' | O_fatal s' => recent_ok s' | O_more => True end.
Proof.
  intros [Hb Hr]. unfold Attach.step. destruct (lex d (s_hist s)) as [|hl nm off dlen|index]. exact I.
  - unfold do_chunk. destruct (afind name_eqb nm (s_record s)).
    + split. cbn [after_chunk s_hist]. apply bytes_skipn, Hb. exact Hr.
    + split; assumption.
  - unfold do_frame. destruct (decode (firstn (N.to_nat index) (s_hist s))) as [m| |] eqn:Ed; try (split; assumption).
    assert (decoded_header m) as Hm by (eapply decode_gives_decoded_header; [apply bytes_firstn, Hb|exact Ed]).
    assert (bytes (skipn (N.to_nat index) (s_hist s))) as Hb' by (apply bytes_skipn, Hb).
    unfold frame_core. destruct (frame_decide d _ m) as [|stage rec cur n miss].
    + split. exact Hb'. exact Hr.
    + assert (recent_ok (commit (with_msg (set_hist s (skipn (N.to_nat index) (s_hist s))) m) m stage rec cur n miss)) as Hc.
      { split. exact Hb'. cbn [commit s_recent]. intros m0 E. injection E as <-. exact Hm. }
      destruct (has_reply stage); [|exact Hc].
      destruct (reply_data _); exact Hc.
Qed.

Lemma recent_ok_set_err s : recent_ok s -> recent_ok (set_err s).
Proof. intros H. exact H. Qed.
Lemma recent_ok_set_stage s g : recent_ok s -> recent_ok (set_stage s g).
Proof. intros H. exact H. Qed.

Lemma iter_recent_ok d : forall fuel s, recent_ok s -> recent_ok (snd (fst (iter fuel d s))).
Proof.
  induction fuel as [|fuel IH]; intros s H; cbn [Attach.iter].
  - destruct (s_hist s); exact H.
  - destruct (s_hist s) eqn:Eh. exact H.
    pose proof (step_recent_ok d s H) as Hs.
    destruct (Attach.step d s) as [s'| |s']; cbn [fst snd]; try exact H.
    + specialize (IH s' Hs). destruct (iter fuel d s') as [[[evs w] s''] stop]. exact IH.
    + apply recent_ok_set_err, Hs.
Qed.

Lemma run_from_recent_ok d : forall segs s, Forall bytes segs -> recent_ok s ->
  recent_ok (snd (run_from d s segs)).
Proof.
  induction segs as [|seg segs IH]; intros s Hall H; cbn [run_from].
  - cbn [snd]. apply recent_ok_set_stage, H.
  - apply Forall_cons_iff in Hall. destruct Hall as [Hseg Hall]. destruct seg as [|b seg]. apply IH; assumption.
    unfold feed.
    assert (recent_ok (set_hist s (s_hist s ++ b :: seg))) as H1.
    { destruct H as [Hb Hr]. split. cbn [set_hist s_hist]. apply bytes_app. split; assumption. exact Hr. }
    pose proof (iter_recent_ok d (S (length (s_hist (set_hist s (s_hist s ++ b :: seg))))) _ H1) as Hi.
    destruct (iter _ d (set_hist s (s_hist s ++ b :: seg))) as [[[evs w] s'] stop]. cbn [fst snd] in Hi.
    destruct stop. cbn [snd]. apply recent_ok_set_stage, Hi.
    specialize (IH s' Hall Hi). destruct (run_from d s' segs) as [[evs2 w2] s'']. exact IH.
Qed.

(* THE RECENT MESSAGE OF EVERY RUN IS A DECODED ONE: whatever bytes arrive in whatever reads, RecentTerminalMessage
   at the end of the connection (the message whose phone number names the directory the files go to) was produced
   by Frame.decode from bytes, hence has a BCD phone field of 6 or 10 bytes *)
Theorem run_recent_decoded d reads m : Forall bytes reads ->
  s_recent (snd (run d reads)) = Some m -> decoded_header m.
Proof.
  intros Hall H. unfold run in H.
  assert (recent_ok init_st) as H0. { split. constructor. intros m0 E. discriminate. }
  exact (proj2 (run_from_recent_ok d reads init_st Hall H0) m H).
Qed.

Corollary run_recent_phone d reads m : Forall bytes reads ->
  s_recent (snd (run d reads)) = Some m -> bytes (m_bcd m) /\ m_bcd m <> [].
Proof.
  intros Hall H. destruct (run_recent_decoded d reads m Hall H) as (_ & _ & _ & Hb & Hl). split. exact Hb.
  intros E. rewrite E in Hl. destruct (m_ver m =? 1); discriminate.
Qed.

(* ====================== 10. the Record is the set of arrived tiles; the 0x9212 frame ====================== *)
Theorem record_is_arrived d split its sts k s' : split_ok split -> Forall (wf_item d) its ->
  Forall (item_of d split) its -> irun d init_st its = Some sts -> nth_error sts k = Some s' ->
  forall nm pk, afind name_eqb nm (s_record s') = Some pk ->
  forall x, In x (p_data pk) <-> In x (arrived d nm [] (firstn (S k) its)).
Proof.
  intros Hsp Hall Hof H Hs nm pk Hf.
  pose proof (irun_firstn d (S k) its init_st sts H) as Hk.
  apply (irun_arrived d split (firstn (S k) its) init_st (firstn (S k) sts) [] nm Hsp).
  - apply Forall_forall. intros y Hy. rewrite Forall_forall in Hall. apply Hall. eapply in_firstn, Hy.
  - apply Forall_forall. intros y Hy. rewrite Forall_forall in Hof. apply Hof. eapply in_firstn, Hy.
  - apply rinv_init.
  - intros pk0 Hf0. discriminate.
  - exact Hk.
  - rewrite (last_firstn_nth sts k s' init_st Hs). exact Hf.
Qed.

(* a byte is covered by the recorded ranges exactly when it lies in a tile that has arrived *)
Theorem recorded_covers_arrived d split its sts k s' : split_ok split -> Forall (wf_item d) its ->
  Forall (item_of d split) its -> irun d init_st its = Some sts -> nth_error sts k = Some s' ->
  forall nm pk, afind name_eqb nm (s_record s') = Some pk ->
  forall x, covered (p_recs pk) x <->
            exists off data, In (off, data) (arrived d nm [] (firstn (S k) its)) /\ off <= x < off + len data.
Proof.
  intros Hsp Hall Hof H Hs nm pk Hf x.
  pose proof (record_is_arrived d split its sts k s' Hsp Hall Hof H Hs nm pk Hf) as Hd.
  unfold covered, p_recs. split.
  - intros (o & n & Hin & Hx). apply in_map_iff in Hin. destruct Hin as ([o2 dt] & E & Hin). cbn [fst snd] in E.
    injection E as <- <-. exists o2, dt. split. apply Hd, Hin. exact Hx.
  - intros (o & dt & Hin & Hx). exists o, (len dt). split; [|exact Hx].
    apply in_map_iff. exists (o, dt). split. reflexivity. apply Hd, Hin.
Qed.

(* the bytes of the answer to a 0x1212: Header.Encode of the first message's header with id 0x9212, the platform
   serial and T0x1212.ReplyBody of the retransmit list (AS THE CODE ENCODES IT: the body length is not masked, so a
   list of 127 or more ranges - a body over 1023 bytes - spills into the flag bits of the property word) *)
Lemma prescribed_1212 hd m k miss t : m_id m = ID_1212 -> parse1211 (m_body m) = Ok t ->
  prescribed hd m k miss = encode hd ID_9212 k (reply1212 t miss).
Proof. intros Hid Hp. unfold prescribed. rewrite Hid. cbn [ID_1212 N.eqb Pos.eqb]. rewrite Hp. reflexivity. Qed.

(* the bytes the model WRITES in answer to the i-th item when it is a 0x1212 of an upload: Header.Encode of the header
   the handler keeps (the first message's), id 0x9212, the serial the handler had reached, and ReplyBody of the exact list *)
Theorem written_1212 d split its sts i f m t s' : split_ok split -> Forall (wf_item d) its ->
  Forall (item_of d split) its -> upload_ok d [] its = true -> irun d init_st its = Some sts ->
  nth_error its i = Some (I_frame f) -> decode f = Ok m -> m_id m = ID_1212 -> parse1211 (m_body m) = Ok t ->
  nth_error sts i = Some s' ->
  exists pk, afind name_eqb (f_name t) (s_record s') = Some pk /\
  let prev := before init_st sts i in
  wr s' = encode (match h_head prev with Some x => x | None => m end) ID_9212 (h_seq prev)
                 (reply1212 t (miss_segments (p_size pk) (sum_len (p_recs pk)) (p_recs pk))).
Proof.
  intros Hsp Hall Hof Hu H Hi Hd Hid Hp Hs.
  destruct (reply_1212_exact_upload d split its sts i f m t s' Hsp Hall Hof Hu H Hi Hd Hid Hp Hs) as (pk & Hf & Hm & _).
  exists pk. split. exact Hf. cbv zeta.
  pose proof (irun_nth d its init_st sts i (I_frame f) s' H Hi Hs) as Hst. cbn [wire] in Hst.
  assert (vframe f) as Hv. { rewrite Forall_forall in Hall. apply (Hall (I_frame f)). eapply nth_error_In, Hi. }
  destruct (frame_reply d (before init_st sts i) f s' Hv Hst) as (m' & Hd' & Hwr & _).
  rewrite Hd in Hd'. injection Hd' as <-. rewrite Hwr, (prescribed_1212 _ m _ _ t Hid Hp). cbv zeta in Hm. rewrite Hm. reflexivity.
Qed.

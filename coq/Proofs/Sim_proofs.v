(* Lemmas about Model/Sim.v (C20). *)
From JT.Base Require Import Prelude PreludeP.
From JT.Model Require Import Frame Reply Sim.
From JT.Proofs Require Import Frame_proofs Reply_proofs.
From Coq Require Import ZArith ZifyN ZifyNat ZifyBool.
Ltac Zify.zify_post_hook ::= Z.div_mod_to_equations.

(* ------------------------------------------------------------------------------------------ *)
(* Padding and packing of digit strings                                                       *)
(* ------------------------------------------------------------------------------------------ *)
Lemma pad_left_length n l : length (pad_left n l) = Nat.max n (length l).
Proof. unfold pad_left. rewrite app_length, repeat_length. lia. Qed.

Lemma digits_repeat0 k : digits (repeat 0 k).
Proof. induction k; cbn [repeat]; constructor; auto. lia. Qed.

Lemma pad_left_digits n l : digits l -> digits (pad_left n l).
Proof. intros H. unfold pad_left, digits. apply Forall_app. split; auto. apply digits_repeat0. Qed.

(* induction two elements at a time *)
Lemma pair_ind (P : list N -> Prop) :
  P [] -> (forall a, P [a]) -> (forall a b t, P t -> P (a :: b :: t)) -> forall l, P l.
Proof.
  intros H0 H1 H2. fix IH 1. intros [|a [|b t]]; [exact H0|exact (H1 a)|exact (H2 a b t (IH t))].
Qed.

Lemma bcd_pack_length l : (2 * length (bcd_pack l) <= length l)%nat /\
  (Nat.even (length l) = true -> (2 * length (bcd_pack l) = length l)%nat).
Proof.
  induction l as [| a | a b t [IH1 IH2]] using pair_ind; cbn [bcd_pack length]; try (split; [lia|]; intros H; try lia; discriminate).
Qed.

Definition okbyte (b : N) : Prop := b < 154 /\ b <> 125 /\ b <> 126.

Lemma bcd_pack_ok l : digits l -> Forall okbyte (bcd_pack l).
Proof.
  induction l as [| a | a b t IH] using pair_ind; cbn [bcd_pack]; intros H; try constructor.
  - inversion H as [|? ? Ha H']; subst. inversion H' as [|? ? Hb H'']; subst. unfold okbyte. lia.
  - inversion H as [|? ? Ha H']; subst. inversion H' as [|? ? Hb H'']; subst. auto.
Qed.

Lemma okbytes_bytes l : Forall okbyte l -> bytes l.
Proof. unfold bytes. apply Forall_impl. unfold okbyte. intros; lia. Qed.

Lemma okbytes_noesc l : Forall okbyte l -> flat_map esc1 l = l.
Proof.
  induction 1 as [|b l [_ [H1 H2]] _ IH]. reflexivity.
  change (flat_map esc1 (b :: l)) with (esc1 b ++ flat_map esc1 l). rewrite IH.
  unfold esc1. replace (b =? 126) with false by lia. replace (b =? 125) with false by lia.
  reflexivity.
Qed.

(* rendering: Bcd2Dec of the packed digits is the digit string *)
Lemma bcd_convert_pack l : digits l -> Nat.even (length l) = true ->
  bcd_convert (bcd_pack l) = map dchar l.
Proof.
  unfold bcd_convert.
  induction l as [| a | a b t IH] using pair_ind; cbn [bcd_pack flat_map map length]; intros H E.
  - reflexivity.
  - discriminate.
  - inversion H as [|? ? Ha H']; subst. inversion H' as [|? ? Hb H'']; subst.
    cbn [Nat.even] in E. rewrite (IH H'' E). cbn [app]. unfold nibble_char, dchar.
    replace ((a * 16 + b) / 16) with a by lia. replace ((a * 16 + b) mod 16) with b by lia.
    replace (a <=? 9) with true by lia. replace (b <=? 9) with true by lia. reflexivity.
Qed.

Lemma strip0_zeros k l : strip0 (map dchar (repeat 0 k ++ l)) = strip0 (map dchar l).
Proof. induction k as [|k IH]; cbn [repeat app map strip0]. reflexivity. exact IH. Qed.

Lemma strip0_idem l : strip0 (strip0 l) = strip0 l.
Proof.
  induction l as [|c t IH]; cbn [strip0]. reflexivity.
  destruct (c =? 48) eqn:E; auto. cbn [strip0]. now rewrite E.
Qed.

Lemma strip0_bcd2dec l : strip0 (bcd2dec l) = strip0 (bcd_convert l).
Proof.
  unfold bcd2dec. destruct (strip0 (bcd_convert l)) eqn:E. exact E. rewrite <- E. apply strip0_idem.
Qed.

Definition padded (ver : N) (phone : list N) : list N :=
  if ver =? V2019 then pad_left 20 (pad_left 12 phone) else pad_left 12 phone.

Lemma padded_length ver phone : (length phone <= maxlen ver)%nat ->
  length (padded ver phone) = (if ver =? V2019 then 20%nat else 12%nat).
Proof.
  unfold padded, maxlen. destruct (ver =? V2019); intros H; rewrite !pad_left_length; lia.
Qed.

Lemma padded_digits ver phone : digits phone -> digits (padded ver phone).
Proof. intros H. unfold padded. destruct (ver =? V2019); auto using pad_left_digits. Qed.

Lemma padded_strip0 ver phone : strip0 (map dchar (padded ver phone)) = strip0 (map dchar phone).
Proof.
  unfold padded, pad_left. destruct (ver =? V2019); now rewrite ?strip0_zeros.
Qed.

Lemma phone_bcd_length ver phone : (length phone <= maxlen ver)%nat ->
  length (phone_bcd ver phone) = (if ver =? V2019 then 10%nat else 6%nat).
Proof.
  intros H. unfold phone_bcd. fold (padded ver phone).
  pose proof (padded_length ver phone H) as L.
  destruct (bcd_pack_length (padded ver phone)) as [_ E].
  destruct (ver =? V2019); rewrite L in E; specialize (E eq_refl); lia.
Qed.

Lemma phone_bcd_ok ver phone : digits phone -> Forall okbyte (phone_bcd ver phone).
Proof. intros H. unfold phone_bcd. fold (padded ver phone). apply bcd_pack_ok, padded_digits, H. Qed.

(* ------------------------------------------------------------------------------------------ *)
(* WithHeader                                                                                 *)
(* ------------------------------------------------------------------------------------------ *)
Definition sim_hdr (ver : N) (phone : list N) : msg :=
  {| m_id := 2; m_len := 0; m_enc := 0; m_frag := 0; m_ver := if ver =? V2019 then 1 else 0;
     m_bcd := phone_bcd ver phone; m_serial := 0; m_sum := 0; m_no := 0; m_body := []; m_check := 0 |}.

Definition sim0 (ver : N) (phone : list N) : sim :=
  {| t_hdr := sim_hdr ver phone; t_pv := ver; t_ps := 0; t_h := sim_hstate0 |}.

Lemma template_is_escape ver phone : digits phone ->
  template ver phone = escape (template_payload ver phone ++ [xor_all (template_payload ver phone)]).
Proof.
  intros H. unfold template, escape. f_equal. rewrite flat_map_app. cbn [flat_map]. rewrite app_nil_r.
  rewrite <- app_assoc. f_equal.
  { symmetry. apply okbytes_noesc. unfold template_payload.
    assert (K : forall x, x < 100 -> okbyte x) by (unfold okbyte; intros; lia).
    fold (padded ver phone). unfold phone_bcd.
    destruct (ver =? V2019) eqn:E.
    + repeat (apply Forall_cons; [apply K; lia|]). apply Forall_app. split.
      * pose proof (phone_bcd_ok ver phone H) as P. unfold phone_bcd in P. rewrite E in P. exact P.
      * repeat (apply Forall_cons; [apply K; lia|]). constructor.
    + repeat (apply Forall_cons; [apply K; lia|]). apply Forall_app. split.
      * pose proof (phone_bcd_ok ver phone H) as P. unfold phone_bcd in P. rewrite E in P. exact P.
      * repeat (apply Forall_cons; [apply K; lia|]). constructor. }
Qed.

Lemma with_header_ok ver phone : digits phone -> (length phone <= maxlen ver)%nat ->
  with_header ver phone = Ok (sim0 ver phone).
Proof.
  intros Hd Hl. unfold with_header. rewrite (template_is_escape ver phone Hd).
  rewrite unescape_escape by (unfold template_payload; destruct (ver =? V2019); discriminate).
  cbn [bind]. rewrite xor_all_self. change (negb (0 =? 0)) with false. cbv iota.
  pose proof (phone_bcd_length ver phone Hl) as L.
  unfold sim0, sim_hdr, template_payload. unfold phone_bcd in *.
  set (code := xor_all _). clearbody code.
  destruct (ver =? V2019).
  - destruct (bcd_pack (pad_left 20 (pad_left 12 phone))) as [|b0 [|b1 [|b2 [|b3 [|b4 [|b5 [|b6 [|b7 [|b8 [|b9 [|? ?]]]]]]]]]]];
      try discriminate L.
    reflexivity.
  - destruct (bcd_pack (pad_left 12 phone)) as [|b0 [|b1 [|b2 [|b3 [|b4 [|b5 [|? ?]]]]]]]; try discriminate L.
    reflexivity.
Qed.

Lemma sim_hdr_decoded ver phone : digits phone -> (length phone <= maxlen ver)%nat ->
  decoded_header (sim_hdr ver phone).
Proof.
  intros Hd Hl. unfold decoded_header, sim_hdr. cbn [m_ver m_enc m_id m_bcd].
  repeat split; try (destruct (ver =? V2019); lia).
  - apply okbytes_bytes, phone_bcd_ok, Hd.
  - rewrite (phone_bcd_length ver phone Hl). destruct (ver =? V2019); reflexivity.
Qed.

(* Header.Encode of the simulator's header object = the codec's encode *)
Lemma encode_pv_eq pv h rid ps body : (pv =? V2019) = (m_ver h =? 1) ->
  encode_pv pv h rid ps body = encode h rid ps body.
Proof. intros E. unfold encode_pv, encode, encode_payload. now rewrite E. Qed.

Lemma sim_hdr_pv ver phone : (ver =? V2019) = (m_ver (sim_hdr ver phone) =? 1).
Proof. unfold sim_hdr. cbn [m_ver]. destruct (ver =? V2019); reflexivity. Qed.

(* ------------------------------------------------------------------------------------------ *)
(* Sequences of generated frames                                                              *)
(* ------------------------------------------------------------------------------------------ *)
Lemma create_all_nth cs : forall t k cmd body, nth_error cs k = Some (cmd, body) ->
  nth_error (create_all t cs) k =
  Some (encode_pv (t_pv t) (t_hdr t) cmd ((t_ps t + N.of_nat (S k)) mod 65536) body).
Proof.
  induction cs as [|[c0 b0] cs IH]; intros t k cmd body H.
  - destruct k; discriminate.
  - destruct k as [|k]; cbn [nth_error create_all] in *.
    + inversion H; subst. unfold create_command. cbn [snd]. reflexivity.
    + rewrite (IH _ _ _ _ H). unfold create_command. cbn [fst t_pv t_hdr t_ps]. do 2 f_equal.
      rewrite !Nat2N.inj_succ. lia.
Qed.

Lemma create_all_length cs : forall t, length (create_all t cs) = length cs.
Proof. induction cs as [|[c0 b0] cs IH]; intros t; cbn [create_all length]; auto. Qed.

(* every frame the simulator generates is accepted by the decoder with that command, phone,
   layout, body, and the next serial *)
Theorem frames_decode ver phone cs k cmd body :
  digits phone -> (length phone <= maxlen ver)%nat ->
  nth_error cs k = Some (cmd, body) -> cmd < 65536 -> (length body <= 1023)%nat ->
  exists t f m,
    with_header ver phone = Ok t /\ nth_error (create_all t cs) k = Some f /\
    decode f = Ok m /\
    m_id m = (if cmd =? 0 then 2 else cmd) /\
    m_bcd m = phone_bcd ver phone /\ strip0 (phone_of m) = strip0 (map dchar phone) /\
    m_ver m = (if ver =? V2019 then 1 else 0) /\ m_frag m = 0 /\ m_enc m = 0 /\
    m_serial m = N.of_nat (S k) mod 65536 /\ m_body m = body /\ m_len m = len body /\ m_sum m = 0.
Proof.
  intros Hd Hl Hn Hc Hb.
  exists (sim0 ver phone). eexists. eexists.
  split. now apply with_header_ok.
  split. rewrite (create_all_nth cs _ _ _ _ Hn). reflexivity.
  cbn [sim0 t_pv t_hdr t_ps]. rewrite encode_pv_eq by apply sim_hdr_pv.
  split. apply decode_encode; auto using sim_hdr_decoded. lia.
  unfold encoded_msg. cbn [m_id m_bcd m_ver m_frag m_enc m_serial m_body m_len m_sum sim_hdr].
  repeat split; auto.
  - unfold phone_of. cbn [m_bcd]. rewrite strip0_bcd2dec. unfold phone_bcd. fold (padded ver phone).
    rewrite bcd_convert_pack.
    + apply padded_strip0.
    + now apply padded_digits.
    + rewrite (padded_length ver phone Hl). destruct (ver =? V2019); reflexivity.
Qed.

(* any sequence of calls, calls that return nil included: the frames actually produced are those of
   the calls that produce one, generated as if the others had never been made (a call without
   handler leaves the Terminal as it was: no serial is consumed) *)
Lemma create_pv t cmd body : t_pv (fst (create_command t cmd body)) = t_pv t.
Proof. reflexivity. Qed.

Lemma somes_cons {A} (o : option A) l :
  somes (o :: l) = (match o with Some x => [x] | None => [] end) ++ somes l.
Proof. reflexivity. Qed.

Lemma effective_cons ver c cs :
  effective ver (c :: cs) =
  (match c with
   | CDefault cmd => match default_body ver cmd with Some b => [(cmd, b)] | None => [] end
   | CCustom cmd body => [(cmd, body)]
   end) ++ effective ver cs.
Proof. reflexivity. Qed.

Theorem calls_frames cs : forall t,
  somes (run_calls t cs) = create_all t (effective (t_pv t) cs).
Proof.
  induction cs as [|c cs IH]; intros t. reflexivity.
  cbn [run_calls]. rewrite somes_cons, effective_cons, IH.
  destruct c as [cmd|cmd body]; cbn [do_call].
  - unfold create_default. destruct (default_body (t_pv t) cmd) as [b|]; cbn [fst snd app create_all]; reflexivity.
  - cbn [fst snd app create_all]. reflexivity.
Qed.

Theorem calls_frames_decode ver phone cs k cmd body :
  digits phone -> (length phone <= maxlen ver)%nat ->
  nth_error (effective ver cs) k = Some (cmd, body) -> cmd < 65536 -> (length body <= 1023)%nat ->
  exists t f m,
    with_header ver phone = Ok t /\ nth_error (somes (run_calls t cs)) k = Some f /\
    decode f = Ok m /\
    m_id m = (if cmd =? 0 then 2 else cmd) /\
    m_bcd m = phone_bcd ver phone /\ strip0 (phone_of m) = strip0 (map dchar phone) /\
    m_ver m = (if ver =? V2019 then 1 else 0) /\ m_frag m = 0 /\ m_enc m = 0 /\
    m_serial m = N.of_nat (S k) mod 65536 /\ m_body m = body /\ m_len m = len body /\ m_sum m = 0.
Proof.
  intros Hd Hl Hn Hc Hb.
  destruct (frames_decode ver phone (effective ver cs) k cmd body Hd Hl Hn Hc Hb) as (t & f & m & W & N1 & R).
  exists t, f, m. split; auto. split; auto.
  rewrite calls_frames. rewrite (with_header_ok ver phone Hd Hl) in W. inversion W; subst t.
  exact N1.
Qed.

(* every default body fits a frame *)
Lemma default_bodies_short :
  forallb (fun e => (length (snd e) <=? 1023)%nat) default_bodies = true.
Proof. vm_compute. reflexivity. Qed.

(* the serial of a frame is one greater than that of the previous frame, wrapping after 65535 *)
Theorem serial_progression k : N.of_nat (S (S k)) mod 65536 = (N.of_nat (S k) mod 65536 + 1) mod 65536.
Proof. rewrite (Nat2N.inj_succ (S k)). lia. Qed.

(* ------------------------------------------------------------------------------------------ *)
(* ExpectedReply against the server's reply (Model/Reply.v)                                   *)
(* ------------------------------------------------------------------------------------------ *)
Definition tables_agree (id : N) : bool :=
  match sim_lookup id, lookup id with
  | Some (rid, k), Some hi =>
    (rid =? hi_rid hi) && rkind_eqb k (hi_kind hi) && hi_has hi && rkind_eqb k (kind_of_id id) &&
    negb (rkind_eqb k RMedia)
  | _, _ => false
  end.

Lemma sim_tables_agree : forallb tables_agree sim_reply_ids = true.
Proof. vm_compute. reflexivity. Qed.

Lemma kind_file id : kind_of_id id = RFile -> id = 0x1212.
Proof.
  unfold kind_of_id.
  destruct (N.eqb_spec id 256); [discriminate|]. destruct (N.eqb_spec id 2049); [discriminate|].
  destruct (N.eqb_spec id 4626); [auto|]. destruct (N.eqb_spec id 4099); [discriminate|].
  destruct (N.eqb_spec id 258); discriminate.
Qed.

(* on a body that is well formed for its type the reply body does not depend on what the handler
   instance parsed before (the server's fresh instance, the simulator's preset one) *)
Lemma reply_body_state_indep s1 s2 m :
  kind_of_id (m_id m) <> RMedia -> body_wf m = true ->
  snd (reply_body (kind_of_id (m_id m)) s1 m) = snd (reply_body (kind_of_id (m_id m)) s2 m).
Proof.
  intros Hk Hw. destruct (kind_of_id (m_id m)) eqn:K; try reflexivity.
  - cbn [reply_body]. destruct (auth_code m); reflexivity.
  - congruence.
  - apply kind_file in K. unfold body_wf in Hw. rewrite K in Hw.
    change (4626 =? 2049) with false in Hw. change (4626 =? 4626) with true in Hw. cbv iota in Hw.
    apply andb_true_iff in Hw. destruct Hw as [W1 W2].
    rewrite !file_body by lia. reflexivity.
Qed.

Theorem expected_reply_is_server_reply t c d q f :
  decode f = Ok (d_m d) -> c_q c = d :: q ->
  In (m_id (d_m d)) sim_reply_ids -> has_complete d = true ->
  auth_too_short (d_m d) = false -> body_wf (d_m d) = true ->
  exists w, writes (snd (step c MReply)) = [w] /\ w_kind w = WReply /\ w_src w = Some d /\
            w_ps w = c_seq c /\
            snd (expected_reply t (c_seq c) f) = Some (wire_bytes w).
Proof.
  intros Hdec Hq Hin Hc Hs Hw.
  pose proof sim_tables_agree as T. rewrite forallb_forall in T. specialize (T _ Hin).
  unfold tables_agree in T.
  destruct (sim_lookup (m_id (d_m d))) as [[rid k]|] eqn:SL; [|discriminate].
  destruct (lookup (m_id (d_m d))) as [hi|] eqn:L; [|discriminate].
  apply andb_true_iff in T. destruct T as [T T5].
  apply andb_true_iff in T. destruct T as [T T4].
  apply andb_true_iff in T. destruct T as [T T3].
  apply andb_true_iff in T. destruct T as [T1 T2].
  apply N.eqb_eq in T1. apply rkind_eqb_eq in T2. apply rkind_eqb_eq in T4.
  destruct (lookup_answer _ _ L T3) as (Hr & Hk & Hrid).
  assert (A : answered d = true).
  { unfold answered. rewrite Hc, Hr, Hs. reflexivity. }
  pose proof (writer_reply_spec c d q Hq) as S. rewrite A in S.
  destruct S as (rid' & body & h' & Hr' & _ & Hb & Hwr).
  assert (rid' = rid) by congruence. subst rid'.
  exists (reply_wire c d rid body). cbn [step]. rewrite Hwr. unfold emit. cbn [snd].
  rewrite writes_cb2. repeat split.
  unfold expected_reply. rewrite Hdec, SL. cbn [snd]. rewrite T4.
  assert (NM : kind_of_id (m_id (d_m d)) <> RMedia).
  { intros E. rewrite T4, E in T5. discriminate. }
  rewrite (reply_body_state_indep (t_h t) (c_h c) (d_m d) NM Hw), Hb. cbn [snd].
  reflexivity.
Qed.

(* a 2019 authentication too short for its fixed fields: nothing predicted, nothing sent *)
Theorem expected_no_reply_too_short t c d q f seq :
  decode f = Ok (d_m d) -> c_q c = d :: q -> m_id (d_m d) = 0x0102 ->
  auth_too_short (d_m d) = true ->
  writes (snd (step c MReply)) = [] /\ snd (expected_reply t seq f) = None.
Proof.
  intros Hdec Hq Hid Hs. split.
  - pose proof (writer_reply_spec c d q Hq) as S.
    assert (A : answered d = false).
    { unfold answered. rewrite Hs. destruct (std_reply_id (m_id (d_m d))); now rewrite andb_false_r. }
    rewrite A in S. destruct S as (h' & Hw & _). cbn [step]. rewrite Hw. reflexivity.
  - unfold expected_reply. rewrite Hdec, Hid. change (sim_lookup 258) with (Some (0x8001, RAuth)).
    cbn [snd]. pose proof (reply_body_none 258 (t_h t) (d_m d) Hid) as [_ N].
    change (kind_of_id 258) with RAuth in N. now rewrite (N Hs).
Qed.

(* NOT repaired (known finding C20/expected-reply-malformed-1212): T0x1212.ReplyBody ignores the
   error of its Parse and answers from what the handler instance parsed before - the simulator's
   instance is preset with "123_aaa.jpg", a server connection's is empty: on a 0x1212 whose body is
   not a well-formed file record the prediction differs from what a fresh connection sends *)
Definition ex_bad_1212 : list N := encode (sim_hdr V2013 [1]) 0x1212 1 [1; 2].

Lemma refuted_expected_reply_malformed_1212 :
  exists m, decode ex_bad_1212 = Ok m /\ m_id m = 0x1212 /\ body_wf m = false /\
    let d := {| d_m := m; d_complete := false; d_data := ex_bad_1212 |} in
    exists w, writes (snd (step (final (init [d]) [MLook; MSend]) MReply)) = [w] /\
      snd (expected_reply (sim0 V2013 [1]) 0 ex_bad_1212) <> Some (wire_bytes w).
Proof.
  eexists. split. vm_compute. reflexivity. split. reflexivity. split. reflexivity.
  eexists. split. vm_compute. reflexivity. vm_compute. discriminate.
Qed.

(* non-vacuity: phones whose template checksum needs escaping exist, and a generated frame *)
Lemma example_template_escapes :
  xor_all (template_payload V2013 [7; 5; 0; 9]) = 126 /\ xor_all (template_payload V2013 [7; 8; 0; 7]) = 125.
Proof. split; vm_compute; reflexivity. Qed.

(* ------------------------------------------------------------------------------------------ *)
(* Serial progression over the frames actually produced                                       *)
(* ------------------------------------------------------------------------------------------ *)
Theorem calls_serial_progression ver phone cs k c1 b1 c2 b2 :
  digits phone -> (length phone <= maxlen ver)%nat ->
  nth_error (effective ver cs) k = Some (c1, b1) -> nth_error (effective ver cs) (S k) = Some (c2, b2) ->
  c1 < 65536 -> c2 < 65536 -> (length b1 <= 1023)%nat -> (length b2 <= 1023)%nat ->
  exists t f1 f2 m1 m2,
    with_header ver phone = Ok t /\
    nth_error (somes (run_calls t cs)) k = Some f1 /\ nth_error (somes (run_calls t cs)) (S k) = Some f2 /\
    decode f1 = Ok m1 /\ decode f2 = Ok m2 /\
    m_serial m2 = (m_serial m1 + 1) mod 65536.
Proof.
  intros Hd Hl N1 N2 C1 C2 B1 B2.
  destruct (calls_frames_decode ver phone cs k c1 b1 Hd Hl N1 C1 B1) as (t & f1 & m1 & W & F1 & D1 & _ & _ & _ & _ & _ & _ & S1 & _).
  destruct (calls_frames_decode ver phone cs (S k) c2 b2 Hd Hl N2 C2 B2) as (t' & f2 & m2 & W' & F2 & D2 & _ & _ & _ & _ & _ & _ & S2 & _).
  assert (t' = t) by congruence. subst t'.
  exists t, f1, f2, m1, m2. repeat split; auto. rewrite S1, S2. apply serial_progression.
Qed.

(* the first produced frame carries serial 1 *)
Theorem calls_first_serial ver phone cs c b :
  digits phone -> (length phone <= maxlen ver)%nat ->
  nth_error (effective ver cs) 0 = Some (c, b) -> c < 65536 -> (length b <= 1023)%nat ->
  exists t f m, with_header ver phone = Ok t /\ nth_error (somes (run_calls t cs)) 0 = Some f /\
    decode f = Ok m /\ m_serial m = 1.
Proof.
  intros Hd Hl N1 C1 B1.
  destruct (calls_frames_decode ver phone cs 0 c b Hd Hl N1 C1 B1) as (t & f & m & W & F & D & _ & _ & _ & _ & _ & _ & S & _).
  exists t, f, m. repeat split; auto.
Qed.

(* ------------------------------------------------------------------------------------------ *)
(* C20_expected_reply applies to every default frame of a reply-bearing command               *)
(* ------------------------------------------------------------------------------------------ *)
Lemma body_wf_ext m m' : m_id m = m_id m' -> m_body m = m_body m' -> body_wf m = body_wf m'.
Proof. intros E1 E2. unfold body_wf. now rewrite E1, E2. Qed.
Lemma auth_too_short_ext m m' : m_id m = m_id m' -> m_ver m = m_ver m' -> m_body m = m_body m' ->
  auth_too_short m = auth_too_short m'.
Proof. intros E1 E2 E3. unfold auth_too_short. now rewrite E1, E2, E3. Qed.

Definition probe_msg (ver cmd : N) (b : list N) : msg :=
  {| m_id := cmd; m_len := 0; m_enc := 0; m_frag := 0; m_ver := if ver =? V2019 then 1 else 0; m_bcd := [];
     m_serial := 0; m_sum := 0; m_no := 0; m_body := b; m_check := 0 |}.

Lemma default_frames_wf_all :
  forallb (fun ver => forallb (fun cmd =>
    match default_body ver cmd with
    | Some b => body_wf (probe_msg ver cmd b) && negb (auth_too_short (probe_msg ver cmd b)) && (length b <=? 1023)%nat
    | None => false
    end) sim_reply_ids) [V2011; V2013; V2019] = true.
Proof. vm_compute. reflexivity. Qed.

Theorem default_frames_reply_wf ver cmd b m :
  In ver [V2011; V2013; V2019] -> In cmd sim_reply_ids -> default_body ver cmd = Some b ->
  m_id m = cmd -> m_ver m = (if ver =? V2019 then 1 else 0) -> m_body m = b ->
  body_wf m = true /\ auth_too_short m = false /\ (length b <= 1023)%nat.
Proof.
  intros Hv Hc Hb E1 E2 E3.
  pose proof default_frames_wf_all as A. rewrite forallb_forall in A. specialize (A _ Hv).
  rewrite forallb_forall in A. specialize (A _ Hc). rewrite Hb in A.
  apply andb_true_iff in A. destruct A as [A A3]. apply andb_true_iff in A. destruct A as [A1 A2].
  rewrite (body_wf_ext m (probe_msg ver cmd b)), (auth_too_short_ext m (probe_msg ver cmd b)) by (cbn; auto).
  repeat split; auto.
  - destruct (auth_too_short (probe_msg ver cmd b)); [discriminate|reflexivity].
  - apply Nat.leb_le. exact A3.
Qed.

(* concrete witnesses: a generated frame and its decoding; the prediction for it and the frame the
   server model writes for it (platform serial 0), byte for byte *)
Lemma example_generated_frame :
  exists f m, nth_error (somes (run_calls (sim0 V2013 [7; 5; 0; 9]) [CDefault 0x0104; CDefault 0x0002])) 0 = Some f /\
    f = [126; 0; 2; 0; 0; 0; 0; 0; 0; 117; 9; 0; 1; 127; 126] /\
    decode f = Ok m /\ m_id m = 2 /\ m_serial m = 1 /\ phone_of m = [55; 53; 48; 57].
Proof. eexists. eexists. repeat split; vm_compute; reflexivity. Qed.

Lemma example_expected_reply :
  let f := [126; 0; 2; 0; 0; 0; 0; 0; 0; 117; 9; 0; 1; 127; 126] in
  exists r, map wire_bytes (writes (run (dm f))) = [r] /\
            snd (expected_reply (sim0 V2013 [7; 5; 0; 9]) 0 f) = Some r.
Proof. eexists. split; vm_compute; reflexivity. Qed.

(* a generated frame is never a fragment: as a delivered message it is complete (the hypothesis
   has_complete of expected_reply_is_server_reply) *)
Lemma unfragmented_complete d : m_sum (d_m d) = 0 -> has_complete d = true.
Proof. intros H. unfold has_complete. rewrite H. reflexivity. Qed.

(* all 72 default bodies fit a frame *)
Theorem default_bodies_fit ver cmd b : default_body ver cmd = Some b -> (length b <= 1023)%nat.
Proof.
  intros H. unfold default_body in H.
  assert (I : In ((ver, cmd), b) default_bodies).
  { revert H. generalize default_bodies. induction l as [|[[v c] x] l IH]; cbn [assoc2]; intros H. discriminate.
    destruct ((v =? ver) && (c =? cmd)) eqn:E.
    - apply andb_true_iff in E. destruct E as [E1 E2]. apply N.eqb_eq in E1. apply N.eqb_eq in E2.
      inversion H; subst. now left.
    - right. auto. }
  pose proof default_bodies_short as A. rewrite forallb_forall in A. specialize (A _ I). cbn [snd] in A.
  now apply Nat.leb_le.
Qed.

(* NOT repaired (known finding C20/body-over-1023): CreateCommandData does not refuse a body that does
   not fit the 10-bit length field; Header.Encode ORs the unmasked length into the attribute word, so a
   1024-byte body sets the encryption bit and announces length 0: the frame is rejected by the decoder *)
Lemma refuted_body_over_1023 :
  length (repeat (0 : N) 1024) = 1024%nat /\
  decode (snd (create_command (sim0 V2013 [1]) 0x0900 (repeat 0 1024))) = Err E_BODY_LEN /\
  decode (snd (create_command (sim0 V2019 [1; 3; 8]) 0x0200 (repeat 255 1024))) = Err E_BODY_LEN.
Proof. repeat split; vm_compute; reflexivity. Qed.

(* a 2019 authentication too short for its fixed fields, generated by the simulator itself: no reply
   predicted, none written (instance of expected_no_reply_too_short) *)
Definition ex_short_0102 : list N := snd (create_command (sim0 V2019 [1]) 0x0102 [1; 2]).
Lemma example_expected_no_reply :
  match dm ex_short_0102 with
  | [d] => m_id (d_m d) = 0x0102 /\ auth_too_short (d_m d) = true /\
           snd (expected_reply (sim0 V2019 [1]) 7 ex_short_0102) = None /\ writes (run [d]) = []
  | _ => False
  end.
Proof. vm_compute. repeat split; reflexivity. Qed.

(* ------------------------------------------------------------------------------------------ *)
(* Bodies over 1023 bytes: the universal fact                                                 *)
(* ------------------------------------------------------------------------------------------ *)
(* whatever frame the decoder accepts, the body it delivers has at most 1023 bytes (the length field
   has ten bits and the body is cut to it) *)
Lemma land1023_le a : N.land a 1023 <= 1023.
Proof.
  change (N.land a 1023) with (N.land a (N.ones 10)). rewrite N.land_ones. change (2 ^ 10) with 1024. lia.
Qed.

Lemma parse_payload_body_short p m : parse_payload p = Ok m -> (length (m_body m) <= 1023)%nat.
Proof.
  unfold parse_payload.
  destruct (negb (xor_all p =? 0)); [discriminate|].
  destruct (len p <? 4); [discriminate|].
  destruct (len p <? _); [discriminate|].
  destruct (_ && _); [discriminate|].
  destruct (negb _); [discriminate|].
  intros H. apply (f_equal (fun r => match r with Ok x => x | _ => m end)) in H. cbv beta iota in H.
  rewrite <- H. clear H. cbn [m_body].
  match goal with |- (length (sub _ ?a (?a + ?b)) <= _)%nat =>
    pose proof (sub_length_le p a (a + b)) as L;
    assert (B : b <= 1023) by apply land1023_le
  end.
  lia.
Qed.

Theorem decode_body_short f m : decode f = Ok m -> (length (m_body m) <= 1023)%nat.
Proof.
  rewrite decode_unfold. destruct (unescape f) as [p| |]; cbn [bind]; try discriminate.
  apply parse_payload_body_short.
Qed.

(* hence NO frame - in particular none that CreateCommandData produces, for any Terminal, command and
   serial - decodes to a body of 1024 bytes or more: a custom body that does not fit the length field
   is never delivered as it was passed *)
Theorem body_over_1023_never_delivered t cmd body m :
  (1024 <= length body)%nat -> decode (snd (create_command t cmd body)) = Ok m -> m_body m <> body.
Proof.
  intros L D E. apply decode_body_short in D. rewrite E in D. lia.
Qed.

(* ------------------------------------------------------------------------------------------ *)
(* A frame with the fragment bit handed to ExpectedReply                                      *)
(* ------------------------------------------------------------------------------------------ *)
(* NOT repaired (known finding C20/expected-reply-fragment): the simulator never generates such a frame
   (m_sum = 0 in frames_decode), but ExpectedReply takes any hex string.  For packet 1 of 2 of a 0x0200
   it predicts a 0x8001 built from the packet alone; the server answers nothing until the transfer is
   complete (the packet is not complete: writer_reply is quiet) *)
Definition ex_fragment : list N :=
  let p := [2; 0; 32; 3; 1; 56; 0; 19; 128; 0; 0; 9; 0; 2; 0; 1; 7; 8; 9] in escape (p ++ [xor_all p]).

Lemma refuted_expected_reply_fragment :
  match dm ex_fragment with
  | [d] =>
    m_id (d_m d) = 0x0200 /\ In (m_id (d_m d)) sim_reply_ids /\ m_frag (d_m d) = 1 /\
    m_sum (d_m d) = 2 /\ m_no (d_m d) = 1 /\ has_complete d = false /\ body_wf (d_m d) = true /\
    writes (snd (step (final (init [d]) [MLook; MSend]) MReply)) = [] /\
    writes (run [d]) = [] /\
    snd (expected_reply (sim0 V2013 [1]) 0 ex_fragment) =
      Some [126; 128; 1; 0; 5; 1; 56; 0; 19; 128; 0; 0; 0; 0; 9; 2; 0; 0; 37; 126]
  | _ => False
  end.
Proof. vm_compute. repeat split; try reflexivity. do 3 right. left. reflexivity. Qed.

(* ------------------------------------------------------------------------------------------ *)
(* Bodies of 1024..2047 bytes: the frame CreateCommandData produces is REJECTED               *)
(* ------------------------------------------------------------------------------------------ *)
Lemma prop_fields_over ver enc x : ver < 2 -> enc < 2 -> x < 1024 ->
  let a := prop_word ver enc (1024 + x) in
  a < 65536 /\ N.land (N.shiftr a 14) 1 = ver /\ N.land (N.shiftr a 13) 1 = 0 /\ N.land a 1023 = x.
Proof.
  intros Hv He Hb.
  assert (S : forallb (fun ver => forallb (fun enc => forallb (fun x =>
    let a := prop_word ver enc (1024 + x) in
    (a <? 65536) && (N.land (N.shiftr a 14) 1 =? ver) && (N.land (N.shiftr a 13) 1 =? 0) &&
    (N.land a 1023 =? x))
    (nrange 1024)) (nrange 2)) (nrange 2) = true) by (vm_compute; reflexivity).
  pose proof (sweep 2 _ S ver Hv) as S1. cbv beta in S1.
  pose proof (sweep 2 _ S1 enc He) as S2. cbv beta in S2.
  pose proof (sweep 1024 _ S2 x Hb) as S3. cbv beta zeta in S3.
  cbv zeta. lia.
Qed.

Lemma parse_encode_payload_over h rid ps body :
  decoded_header h -> 1024 <= len body -> len body < 2048 ->
  let p := encode_payload h rid ps body in
  parse_payload (p ++ [xor_all p]) = Err E_BODY_LEN.
Proof.
  intros (Hv & He & Hid & Hb & Hl) L1 L2 p.
  unfold parse_payload. rewrite xor_all_self. change (negb (0 =? 0)) with false. cbv iota.
  set (id := if rid =? 0 then m_id h else rid).
  set (x := len body - 1024).
  assert (Hx : x < 1024) by (subst x; lia).
  assert (Ex : len body = 1024 + x) by (subst x; lia).
  destruct (prop_fields_over (m_ver h) (m_enc h) x Hv He Hx) as (A0 & A1 & A2 & A4).
  cbv zeta in A0, A1, A2, A4. rewrite <- Ex in A0, A1, A2, A4.
  set (attr := prop_word (m_ver h) (m_enc h) (len body)) in *.
  assert (Ep : p ++ [xor_all p] =
    ([id / 256 mod 256; id mod 256; attr / 256 mod 256; attr mod 256] ++
     (if m_ver h =? 1 then [1] else []) ++ m_bcd h ++ [ps / 256 mod 256; ps mod 256]) ++ body ++ [xor_all p]).
  { subst p. unfold encode_payload. fold id. fold attr. now rewrite <- !app_assoc. }
  set (chk := xor_all p) in *. rewrite Ep. clear Ep.
  set (pre := [id / 256 mod 256; id mod 256; attr / 256 mod 256; attr mod 256] ++
     (if m_ver h =? 1 then [1] else []) ++ m_bcd h ++ [ps / 256 mod 256; ps mod 256]).
  assert (Lpre : len pre = (if m_ver h =? 1 then 5 else 4) + (if m_ver h =? 1 then 10 else 6) + 2).
  { subst pre. rewrite !len_app. unfold len at 3. rewrite Hl. destruct (m_ver h =? 1); reflexivity. }
  assert (P2 : forall t, at_ (pre ++ t) 2 = attr / 256 mod 256) by reflexivity.
  assert (P3 : forall t, at_ (pre ++ t) 3 = attr mod 256) by reflexivity.
  rewrite P2, P3, be16_split by assumption.
  rewrite A1, A2, A4. change (0 =? 1) with false. cbn [andb]. cbv iota.
  assert (Ltot : len (pre ++ body ++ [chk]) = len pre + len body + 1).
  { rewrite !len_app, len_cons, len_nil. lia. }
  rewrite Ltot.
  replace (len pre + len body + 1 <? 4) with false by lia.
  rewrite <- Lpre.
  replace (len pre + len body + 1 <? len pre) with false by lia.
  replace (len pre + x + 1 =? len pre + len body + 1) with false by lia.
  reflexivity.
Qed.

Theorem decode_encode_over h rid ps body :
  decoded_header h -> (1024 <= length body < 2048)%nat ->
  decode (encode h rid ps body) = Err E_BODY_LEN.
Proof.
  intros Hh [L1 L2]. rewrite decode_unfold. unfold encode.
  rewrite unescape_escape by (destruct (encode_payload h rid ps body); discriminate).
  cbn [bind]. apply parse_encode_payload_over; auto; unfold len; lia.
Qed.

(* CreateCommandData on any Terminal made by WithHeader (any version, phone of the domain, any number
   of frames generated before, any command): a body of 1024..2047 bytes yields a frame the decoder
   rejects with the body-length error *)
Theorem body_1024_2047_rejected ver phone ps hst cmd body :
  digits phone -> (length phone <= maxlen ver)%nat -> (1024 <= length body < 2048)%nat ->
  decode (snd (create_command {| t_hdr := sim_hdr ver phone; t_pv := ver; t_ps := ps; t_h := hst |} cmd body))
  = Err E_BODY_LEN.
Proof.
  intros Hd Hl Hb. unfold create_command. cbn [snd t_pv t_hdr t_ps].
  rewrite encode_pv_eq by apply sim_hdr_pv.
  apply decode_encode_over; auto using sim_hdr_decoded.
Qed.

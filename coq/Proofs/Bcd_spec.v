(* The standard's reading of a BCD[n] field (JT/T 808 table 2: TerminalPhoneNo BCD[6] / BCD[10];
   JT/T 1078 table 19: SIM BCD[6]) written independently of the code, and the proof that
   Prelude.bcd2dec (the model of utils.Bcd2Dec / bcdConvert / nibbleToHexChar, which renders
   TerminalPhoneNo, the jt1078 Sim and every other Bcd2Dec text) is that reading.

   Spec.  A BCD field is its nibbles, high nibble first (bcd_digits); the number it denotes is the
   decimal value of that digit string (digits_value); as text it is the digit string without its
   leading zeros, except that a field holding only zeros is written with all its zeros (that is
   what the library does: "000000000000" stays "000000000000"; it is also what keeps the text
   non-empty).  The spec works on digits: leading ZERO DIGITS are dropped first, the rest is rendered
   afterwards; the code renders every nibble to a character first and then strips '0' characters.
   Nibbles above 9 are not rejected by the library: they are rendered 'a'..'f' (lower case); the
   domain of the properties is "every BCD phone", i.e. decimal nibbles (all_decimal), and the general
   statement bcd2dec_spec holds for every byte list. *)
From JT.Base Require Import Prelude PreludeP.
From JT.Model Require Import Frame Jt1078.
From JT.Proofs Require Import Frame_proofs.
From Coq Require Import ZArith ZifyN ZifyNat ZifyBool.
Ltac Zify.zify_post_hook ::= Z.div_mod_to_equations.
Local Open Scope N_scope.

(* ---------------- the spec ---------------- *)
Definition bcd_digits (l : list N) : list N := flat_map (fun b => [b / 16; b mod 16]) l.
Definition all_decimal (l : list N) : bool := forallb (fun d => d <=? 9) (bcd_digits l).
Definition digits_value (ds : list N) : N := fold_left (fun acc d => acc * 10 + d) ds 0.
Fixpoint drop_zeros (ds : list N) : list N :=
  match ds with
  | [] => []
  | d :: t => if d =? 0 then drop_zeros t else ds
  end.
(* '0'..'9', 'a'..'f' *)
Definition hex_char (d : N) : N := if d <? 10 then 48 + d else 87 + d.
Definition digit_char (d : N) : N := 48 + d.
(* the significant digits: all of them when there is nothing but zeros *)
Definition significant (ds : list N) : list N := match drop_zeros ds with [] => ds | s => s end.
Definition std_bcd_text (l : list N) : list N := map hex_char (significant (bcd_digits l)).
(* the decimal value of a text of digit characters *)
Definition text_value (cs : list N) : N := digits_value (map (fun c => c - 48) cs).

(* ---------------- the code is the spec, for every byte list ---------------- *)
Lemma nibble_char_hex d : nibble_char d = hex_char d.
Proof. unfold nibble_char, hex_char. destruct (d <=? 9) eqn:A; destruct (d <? 10) eqn:B; lia. Qed.

Lemma bcd_convert_digits l : bcd_convert l = map hex_char (bcd_digits l).
Proof.
  unfold bcd_convert, bcd_digits. induction l as [|b l IH]; cbn [flat_map map app]. reflexivity.
  now rewrite IH, !nibble_char_hex.
Qed.

Lemma hex_char_zero d : (hex_char d =? 48) = (d =? 0).
Proof. unfold hex_char. destruct (d <? 10) eqn:A; lia. Qed.

Lemma strip0_map ds : strip0 (map hex_char ds) = map hex_char (drop_zeros ds).
Proof.
  induction ds as [|d t IH]; cbn [map strip0 drop_zeros]. reflexivity.
  rewrite hex_char_zero. destruct (d =? 0); [exact IH|reflexivity].
Qed.

Theorem bcd2dec_spec l : bcd2dec l = std_bcd_text l.
Proof.
  unfold bcd2dec, std_bcd_text, significant. rewrite bcd_convert_digits, strip0_map.
  destruct (drop_zeros (bcd_digits l)) as [|d t]; reflexivity.
Qed.

(* ---------------- consequences on decimal fields ---------------- *)
Lemma drop_zeros_suffix ds : exists z, ds = repeat 0 z ++ drop_zeros ds.
Proof.
  induction ds as [|d t [z IH]]; cbn [drop_zeros]. exists 0%nat. reflexivity.
  destruct (d =? 0) eqn:E.
  - exists (S z). cbn [repeat app]. assert (d = 0) by lia. subst d. now rewrite <- IH.
  - exists 0%nat. reflexivity.
Qed.

Lemma drop_zeros_head ds d t : drop_zeros ds = d :: t -> d <> 0.
Proof.
  induction ds as [|x r IH]; cbn [drop_zeros]. discriminate.
  destruct (x =? 0) eqn:E. exact IH. intros H. injection H as -> _. lia.
Qed.

Lemma drop_zeros_nil ds : drop_zeros ds = [] -> ds = repeat 0 (List.length ds).
Proof.
  induction ds as [|x r IH]; cbn [drop_zeros]. reflexivity.
  destruct (x =? 0) eqn:E; [|discriminate]. intros H. cbn [List.length repeat].
  assert (x = 0) by lia. subst x. now rewrite <- IH.
Qed.

Lemma forallb_significant (P : N -> bool) ds : forallb P ds = true -> forallb P (significant ds) = true.
Proof.
  intros H. unfold significant. destruct (drop_zeros_suffix ds) as [z E].
  destruct (drop_zeros ds) as [|d t] eqn:D. exact H.
  rewrite E, forallb_app in H. apply andb_true_iff in H. tauto.
Qed.

(* (a) every character is a decimal digit character *)
Theorem bcd2dec_digit_chars l : all_decimal l = true -> Forall (fun c => 48 <= c <= 57) (bcd2dec l).
Proof.
  intros H. rewrite bcd2dec_spec. unfold std_bcd_text. apply Forall_forall. intros c Hc.
  apply in_map_iff in Hc. destruct Hc as (d & <- & Hd).
  apply forallb_significant in H. rewrite forallb_forall in H. specialize (H d Hd).
  unfold hex_char. replace (d <? 10) with true by lia. lia.
Qed.

Lemma bcd_digits_length l : List.length (bcd_digits l) = (2 * List.length l)%nat.
Proof. unfold bcd_digits. induction l as [|b l IH]; cbn [flat_map List.length app]. reflexivity. rewrite IH. lia. Qed.

(* (b) no leading '0' unless every nibble is 0, and then the text is all the zeros *)
Theorem bcd2dec_leading l :
  (drop_zeros (bcd_digits l) <> [] -> exists c t, bcd2dec l = c :: t /\ c <> 48) /\
  (drop_zeros (bcd_digits l) = [] -> bcd2dec l = repeat 48 (2 * List.length l)).
Proof.
  rewrite bcd2dec_spec. unfold std_bcd_text, significant. split.
  - destruct (drop_zeros (bcd_digits l)) as [|d t] eqn:D. congruence. intros _.
    exists (hex_char d), (map hex_char t). split. reflexivity.
    apply drop_zeros_head in D. pose proof (hex_char_zero d). lia.
  - intros D. rewrite D. rewrite (drop_zeros_nil _ D).
    rewrite bcd_digits_length. clear. induction (2 * List.length l)%nat as [|n IH]; cbn [repeat map]. reflexivity. now rewrite IH.
Qed.

(* (c) the decimal value of the text is the value of the digit string *)
Lemma fold_value_zeros z : forall acc ds,
  fold_left (fun a d => a * 10 + d) (repeat 0 z ++ ds) acc =
  fold_left (fun a d => a * 10 + d) ds (acc * 10 ^ N.of_nat z).
Proof.
  induction z as [|z IH]; intros acc ds; cbn [repeat app fold_left].
  - f_equal. cbn. lia.
  - rewrite IH. f_equal. rewrite Nat2N.inj_succ, N.pow_succ_r'. lia.
Qed.

Lemma digits_value_drop ds : digits_value (drop_zeros ds) = digits_value ds.
Proof.
  unfold digits_value. destruct (drop_zeros_suffix ds) as [z E]. rewrite E at 2.
  rewrite fold_value_zeros. reflexivity.
Qed.

Lemma digits_value_significant ds : digits_value (significant ds) = digits_value ds.
Proof. unfold significant. destruct (drop_zeros ds) eqn:D; [reflexivity|]. rewrite <- D. apply digits_value_drop. Qed.

Theorem bcd2dec_value l : all_decimal l = true -> text_value (bcd2dec l) = digits_value (bcd_digits l).
Proof.
  intros H. rewrite bcd2dec_spec. unfold text_value, std_bcd_text.
  rewrite <- (digits_value_significant (bcd_digits l)). f_equal.
  apply forallb_significant in H. rewrite forallb_forall in H.
  rewrite map_map. rewrite <- (map_id (significant (bcd_digits l))) at 2.
  apply map_ext_in. intros d Hd. specialize (H d Hd). unfold hex_char. replace (d <? 10) with true by lia. lia.
Qed.

(* (d) not all zero: the digit string without its leading zeros, as digit characters *)
Theorem bcd2dec_decimal l : all_decimal l = true -> drop_zeros (bcd_digits l) <> [] ->
  bcd2dec l = map digit_char (drop_zeros (bcd_digits l)).
Proof.
  intros H D. rewrite bcd2dec_spec. unfold std_bcd_text.
  pose proof (forallb_significant _ _ H) as Hs. unfold significant in *.
  destruct (drop_zeros (bcd_digits l)) as [|d t]; [congruence|].
  rewrite forallb_forall in Hs. apply map_ext_in. intros x Hx. specialize (Hs x Hx).
  unfold hex_char, digit_char. replace (x <? 10) with true by lia. reflexivity.
Qed.

(* nibbles above 9 are rendered 'a'..'f', not rejected: every character of any field's text is a
   lower-case hexadecimal digit (bytes: values < 256) *)
Theorem bcd2dec_hex_chars l : bytes l -> Forall (fun c => 48 <= c <= 57 \/ 97 <= c <= 102) (bcd2dec l).
Proof.
  intros Hb. rewrite bcd2dec_spec. unfold std_bcd_text. apply Forall_forall. intros c Hc.
  apply in_map_iff in Hc. destruct Hc as (d & <- & Hd).
  assert (Hd16 : d < 16).
  { assert (A : forallb (fun d => d <? 16) (bcd_digits l) = true).
    { unfold bcd_digits. clear Hd. induction l as [|b l IH]; cbn [flat_map forallb app]. reflexivity.
      apply bytes_cons in Hb. destruct Hb as [Hb Hl]. rewrite (IH Hl). lia. }
    apply forallb_significant in A. rewrite forallb_forall in A. specialize (A d Hd). lia. }
  unfold hex_char. destruct (d <? 10) eqn:E; lia.
Qed.

(* ---------------- corollaries: the two decoders that render a BCD field ---------------- *)
(* TerminalPhoneNo of a decoded frame: the six (2013) or ten (2019) BCD bytes of the header, read
   as the standard reads them *)
Theorem frame_phone d m : bytes d -> Frame.decode d = Ok m ->
  phone_of m = std_bcd_text (m_bcd m) /\
  List.length (m_bcd m) = (if m_ver m =? 1 then 10%nat else 6%nat) /\
  (all_decimal (m_bcd m) = true ->
     Forall (fun c => 48 <= c <= 57) (phone_of m) /\
     text_value (phone_of m) = digits_value (bcd_digits (m_bcd m))).
Proof.
  intros Hb Hd. destruct (decode_gives_decoded_header d m Hb Hd) as (_ & _ & _ & _ & L).
  unfold phone_of. split. apply bcd2dec_spec. split. exact L.
  intros Hdec. split. now apply bcd2dec_digit_chars. now apply bcd2dec_value.
Qed.

(* the SIM of a decoded RTP packet: the six BCD bytes data[8:14] *)
Lemma decode_head_sim r d p rest : decode_head r d = Ok (p, rest) -> k_sim p = sub d 8 14.
Proof.
  unfold decode_head. do 16 (destruct d as [|? d]; [discriminate|]).
  cbv zeta.
  repeat match goal with
  | |- (if ?c then _ else _) = _ -> _ => destruct c; try discriminate
  | |- bind ?x _ = _ -> _ => destruct x as [[? ?]| |]; cbn [bind]; cbv beta iota; try discriminate
  end.
  intros H. apply (f_equal (fun r => match r with Ok (q, _) => k_sim q | _ => [] end)) in H.
  cbv beta iota in H. cbn [k_sim] in H. rewrite <- H. reflexivity.
Qed.

Theorem rtp_sim r d p rest : Jt1078.decode r d = Ok (p, rest) ->
  k_sim p = sub d 8 14 /\ List.length (k_sim p) = 6%nat /\ bcd2dec (k_sim p) = std_bcd_text (k_sim p) /\
  (all_decimal (k_sim p) = true ->
     Forall (fun c => 48 <= c <= 57) (bcd2dec (k_sim p)) /\
     text_value (bcd2dec (k_sim p)) = digits_value (bcd_digits (k_sim p))).
Proof.
  unfold Jt1078.decode. destruct (decode_head r d) as [[q body]| |] eqn:H; cbn [bind]; try discriminate.
  pose proof (decode_head_sim r d q body H) as S.
  destruct (len body <? k_blen q); [discriminate|].
  destruct (take (k_blen q) body) as [[b rs]| |]; cbn [bind]; try discriminate.
  intros E. injection E as <- _. cbn [k_sim]. split. exact S. split.
  - rewrite S. revert H. unfold decode_head. do 16 (destruct d as [|? d]; [discriminate|]). intros _. reflexivity.
  - split. apply bcd2dec_spec. intros Hdec. split. now apply bcd2dec_digit_chars. now apply bcd2dec_value.
Qed.

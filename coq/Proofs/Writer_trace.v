(* Proofs about Model/Writer.v, part 2: trace invariants and the theorems over all schedules. *)
From Coq Require Import List NArith Bool Arith Lia.
From JT.Base Require Import Sched.
From JT.Model Require Import Writer.
From JT.Proofs Require Import Writer_proofs.
Import ListNotations.
Open Scope N_scope.

Arguments next_serial : simpl never.


Lemma no_reuse_app : forall a b, no_reuse (a ++ b) <-> no_reuse a /\ no_reuse b.
Proof. unfold no_reuse; intros; rewrite in_app_iff; tauto. Qed.

(* ------------------------------------------------------------------------------------------ *)
(* calls in the trace are numbered 0, 1, 2, ...                                                *)
(* ------------------------------------------------------------------------------------------ *)
Lemma calls_app : forall a b, calls (a ++ b) = calls a ++ calls b.
Proof. induction a as [|x a IH]; intros b; simpl; auto. destruct x; simpl; now rewrite ?IH. Qed.

Definition invH (s : st) (tr : list obs) : Prop := map c_id (calls tr) = List.seq 0 (ncalls s).

Lemma calls_stop : forall l, calls (map (fun p : N * call => OReturn (c_id (snd p)) RNoExist) l) = [].
Proof. induction l; simpl; auto. Qed.

Lemma invH_step : forall s tr c s' o, invH s tr -> step s c = Some (s', o) -> invH s' (tr ++ o).
Proof.
  intros s tr c s' o HH H. unfold invH in *. rewrite calls_app, map_app.
  destruct c; step_inv H; sproj; rewrite ?calls_stop; cbn [calls map app c_id];
    rewrite ?app_nil_r; auto.
  rewrite seq_S, HH. reflexivity.
Qed.

(* ------------------------------------------------------------------------------------------ *)
(* first assembly                                                                              *)
(* ------------------------------------------------------------------------------------------ *)
Record inv1 (s : st) (tr : list obs) : Prop := {
  i_A : invA s;
  i_B : invB s;
  i_nocrash : ~ In OCrash tr;
  i_H : invH s tr;
  i_Le : locLe s tr;
  i_C : no_reuse tr -> locC s tr
}.

Lemma inv1_init : forall s0, inv1 (init s0) [].
Proof.
  intros s0; constructor.
  - apply invA_init.
  - intros _ k c H; destruct H.
  - intros H; destruct H.
  - reflexivity.
  - intros i. simpl. lia.
  - intros _ i. reflexivity.
Qed.

Lemma inv1_step : forall s tr c s' o, inv1 s tr -> step s c = Some (s', o) -> inv1 s' (tr ++ o).
Proof.
  intros s tr c s' o [HA HB Hnc HH HLe HC] H; constructor.
  - eapply invA_step; eauto.
  - eapply invB_step; eauto.
  - rewrite in_app_iff; intros [Hc|Hc]; [auto | eapply step_no_crash; eauto].
  - eapply invH_step; eauto.
  - eapply locLe_step; eauto.
  - intros Hnr. apply no_reuse_app in Hnr. destruct Hnr as [Hn1 Hn2].
    eapply locC_step; eauto.
Qed.

Lemma inv1_all : forall s0 sched,
  inv1 (final step (init s0) sched) (trace step (init s0) sched).
Proof.
  intros s0 sched.
  apply (run_invariant_all st choice obs step inv1 inv1_step sched (init s0) (inv1_init s0)).
Qed.

(* ------------------------------------------------------------------------------------------ *)
(* C13: no crash; every caller returns                                                         *)
(* ------------------------------------------------------------------------------------------ *)
Theorem no_crash_all : forall s0 sched, ~ In OCrash (trace step (init s0) sched).
Proof. intros; apply (i_nocrash _ _ (inv1_all s0 sched)). Qed.

Lemma returned_in : forall i tr, In i (returned tr) <-> exists r, In (OReturn i r) tr.
Proof.
  intros i tr; unfold returned; induction tr as [|x t IH]; simpl.
  - split; [tauto | intros [r []]].
  - destruct x; simpl; rewrite ?IH;
      try solve [split; [intros [r H]; exists r; auto | intros [r [H|H]]; [discriminate | eauto]]].
    split.
    + intros [<-|[r' H]]; eauto.
    + intros [r' [H|H]]; [injection H as -> ->; auto | eauto].
Qed.

Lemma calls_in : forall c tr, In c (calls tr) <-> In (OCall c) tr.
Proof.
  intros c tr; induction tr as [|x t IH]; simpl; [tauto|].
  destruct x; simpl; rewrite ?IH; try (split; [auto | intros [H|H]; [discriminate | auto]]).
  split; intros [H|H]; auto; [left; congruence | injection H as ->; auto].
Qed.

(* at most one result per call, and only for calls that were made *)
Theorem one_result_all : forall s0 sched, let tr := trace step (init s0) sched in
  no_reuse tr ->
  NoDup (returned tr) /\ forall i, In i (returned tr) -> exists c, In (OCall c) tr /\ c_id c = i.
Proof.
  intros s0 sched tr Hnr. destruct (inv1_all s0 sched) as [HA HB Hnc HH HLe HC]. fold tr in HH, HC, Hnc.
  specialize (HC Hnr). split.
  - apply cnt_nodup. intros i. specialize (HC i). destruct (Nat.ltb _ _); lia.
  - intros i Hi. apply cnt_in in Hi. specialize (HC i).
    destruct (Nat.ltb_spec i (ncalls (final step (init s0) sched))) as [Hlt|Hge]; [|lia].
    unfold invH in HH.
    assert (Hin : In i (map c_id (calls tr))) by (rewrite HH; apply in_seq; lia).
    apply in_map_iff in Hin. destruct Hin as [c [Hc Hin]]. exists c. split; auto. now apply calls_in.
Qed.

(* without any hypothesis: nobody is answered twice (a reused serial loses a caller, it never duplicates one) *)
Theorem nodup_returned_all : forall s0 sched, NoDup (returned (trace step (init s0) sched)).
Proof.
  intros s0 sched. pose proof (i_Le _ _ (inv1_all s0 sched)) as HLe.
  apply cnt_nodup. intros i. specialize (HLe i). destruct (Nat.ltb _ _); lia.
Qed.

(* in a quiescent state every call has returned, except commands without a timeout waiting on a live,
   idle connection *)
Theorem quiescent_all : forall s0 sched,
  let s := final step (init s0) sched in let tr := trace step (init s0) sched in
  no_reuse tr -> quiescent s ->
  forall c, In (OCall c) tr ->
    In (c_id c) (returned tr) \/
    (exists k c', In (k, c') (rec s) /\ c_id c' = c_id c /\ c_tmo c' = false /\
                  stop_closed s = false /\ rd s = RRun /\ wr s = WsRun).
Proof.
  intros s0 sched s tr Hnr Q c Hc. destruct (inv1_all s0 sched) as [HA HB Hnc HH HLe HC].
  fold tr in HH, HC, Hnc. fold s in HA, HB, HH, HC. specialize (HC Hnr (c_id c)).
  assert (Hlt : (c_id c < ncalls s)%nat).
  { apply calls_in in Hc. unfold invH in HH.
    assert (Hin : In (c_id c) (map c_id (calls tr))) by (apply in_map; auto).
    rewrite HH in Hin. apply in_seq in Hin. lia. }
  destruct (Nat.ltb_spec (c_id c) (ncalls s)); [|lia].
  unfold pending_ids in HC. rewrite (quiescent_mgrQ s HA Q), (quiescent_actQ s HA Q) in HC.
  simpl in HC.
  destruct (cnt (c_id c) (returned tr)) eqn:Er.
  - right. assert (Hin : In (c_id c) (ids (rec s))) by (apply cnt_in; lia).
    apply in_map_iff in Hin. destruct Hin as [[k c'] [Hid Hin]]. simpl in Hid.
    destruct (quiescent_rec s k c' HA HB Q Hin) as (H1 & H2 & H3 & H4).
    exists k, c'. repeat split; auto.
  - left. apply cnt_in. lia.
Qed.

(* C13: the connection went away (the reader's Read fails): in every quiescent state every call has returned *)
Theorem stopped_all_return : forall s0 sched,
  let s := final step (init s0) sched in let tr := trace step (init s0) sched in
  no_reuse tr -> quiescent s -> peer_closed s = true ->
  forall c, In (OCall c) tr -> exists r, In (OReturn (c_id c) r) tr.
Proof.
  intros s0 sched s tr Hnr Q Hp c Hc.
  destruct (quiescent_all s0 sched Hnr Q c Hc) as [H|(k & c' & _ & _ & _ & _ & Hr & _)].
  - now apply returned_in.
  - exfalso. assert (H : step s RdFail = None) by (apply Q; reflexivity).
    simpl in H. fold s in Hr. rewrite Hr, Hp in H. destruct (joined s); discriminate.
Qed.

(* ------------------------------------------------------------------------------------------ *)
(* Invariant E: the frames handed to conn.Write carry consecutive serials                      *)
(* ------------------------------------------------------------------------------------------ *)
Fixpoint chain (k : N) (l : list N) : option N :=
  match l with
  | [] => Some k
  | x :: t => if x =? k then chain (next_serial k) t else None
  end.

Lemma chain_app : forall a b k, chain k (a ++ b) = match chain k a with Some k' => chain k' b | None => None end.
Proof. induction a as [|x a IH]; intros b k; simpl; auto. destruct (x =? k); auto. Qed.

Lemma serials_app : forall a b, serials (a ++ b) = serials a ++ serials b.
Proof. induction a as [|x a IH]; intros b; simpl; auto. destruct x; simpl; now rewrite ?IH. Qed.

Lemma serials_stop : forall l, serials (map (fun p : N * call => OReturn (c_id (snd p)) RNoExist) l) = [].
Proof. induction l; simpl; auto. Qed.

Definition invE (s0 : N) (s : st) (tr : list obs) : Prop := chain s0 (serials tr) = Some (seq s).

Lemma invE_step : forall s0 s tr c s' o, invE s0 s tr -> step s c = Some (s', o) -> invE s0 s' (tr ++ o).
Proof.
  intros s0 s tr c s' o HE H. unfold invE in *. rewrite serials_app, chain_app, HE.
  destruct c; step_inv H; sproj; rewrite ?serials_stop; cbn [serials chain app];
    rewrite ?serials_app; cbn [serials chain app]; rewrite ?N.eqb_refl; auto;
    destruct (busy _ _); cbn [serials chain app]; rewrite ?N.eqb_refl; auto.
Qed.

Lemma chain_nth : forall l k k' j x, chain k l = Some k' -> nth_error l j = Some x -> x = nth_serial k j.
Proof.
  induction l as [|y l IH]; intros k k' j x Hc Hn; [destruct j; discriminate|].
  simpl in Hc. destruct (N.eqb_spec y k) as [->|]; [|discriminate].
  destruct j as [|j]; simpl in *.
  - now injection Hn as ->.
  - rewrite (IH _ _ _ _ Hc Hn). clear. revert k. induction j as [|j IHj]; intros k; simpl; auto.
    now rewrite IHj.
Qed.

Theorem serials_all : forall s0 sched j x,
  nth_error (serials (trace step (init s0) sched)) j = Some x -> x = nth_serial s0 j.
Proof.
  intros s0 sched j x H.
  assert (HE : invE s0 (final step (init s0) sched) (trace step (init s0) sched)).
  { apply (run_invariant_all st choice obs step (invE s0)).
    - intros; eapply invE_step; eauto.
    - reflexivity. }
  eapply chain_nth; eauto.
Qed.

(* ------------------------------------------------------------------------------------------ *)
(* Invariant F: other traffic is answered, in order                                            *)
(* ------------------------------------------------------------------------------------------ *)
Definition tags (l : list tmsg) : list N := flat_map wants_reply l.
Definition held (r : rstate) : list tmsg :=
  match r with RJoinWait m | RPush m => [m] | RPushR => [TReissue] | _ => [] end.
Definition reading (r : rstate) : bool :=
  match r with RRun | RJoinWait _ | RPush _ | RPushR => true | _ => false end.

Lemma tags_app : forall a b, tags (a ++ b) = tags a ++ tags b.
Proof. intros; unfold tags; now rewrite flat_map_app. Qed.
Lemma sent_tags_app : forall a b, sent_tags (a ++ b) = sent_tags a ++ sent_tags b.
Proof. induction a as [|x a IH]; intros b; simpl; auto. destruct x; simpl; rewrite ?IH, ?app_assoc; auto. Qed.
Lemma replied_tags_app : forall a b, replied_tags (a ++ b) = replied_tags a ++ replied_tags b.
Proof. induction a as [|x a IH]; intros b; simpl; auto. destruct x; simpl; rewrite ?IH, ?app_assoc; auto. Qed.
Lemma sent_tags_stop : forall l, sent_tags (map (fun p : N * call => OReturn (c_id (snd p)) RNoExist) l) = [].
Proof. induction l; simpl; auto. Qed.
Lemma replied_tags_stop : forall l, replied_tags (map (fun p : N * call => OReturn (c_id (snd p)) RNoExist) l) = [].
Proof. induction l; simpl; auto. Qed.

Definition invF (s : st) (tr : list obs) : Prop :=
  exists dropped,
    (reading (rd s) = true -> dropped = []) /\
    replied_tags tr ++ tags (buf (msgQ s)) ++ tags (held (rd s)) ++ dropped ++ tags (inQ s) = sent_tags tr.

Lemma invF_step : forall s tr c s' o, invA s -> invF s tr -> step s c = Some (s', o) -> invF s' (tr ++ o).
Proof.
  intros s tr c s' o HA [d [Hd HF]] H. unfold invF.
  assert (Hnc := step_no_crash _ _ _ _ HA H).
  rewrite sent_tags_app, replied_tags_app, <- HF.
  destruct c; step_inv H; try solve [exfalso; apply Hnc; simpl; tauto]; sproj; rw_proj s;
    rewrite ?sent_tags_stop, ?replied_tags_stop;
    cbn [sent_tags replied_tags held reading app tags flat_map wants_reply] in *;
    rewrite ?tags_app; cbn [tags flat_map] ; rewrite ?app_nil_r, <- ?app_assoc;
    try solve [exists d; split; [assumption | reflexivity]];
    try solve [exists d; split; [intros; discriminate | reflexivity]];
    try solve [rewrite Hd by reflexivity; exists []; split; auto; rewrite ?app_nil_r, <- ?app_assoc; reflexivity].
  - exists (wants_reply m0 ++ d). split; [intros; discriminate|]. now rewrite <- ?app_assoc.
  - exists d. split; auto. rewrite <- ?app_assoc. reflexivity.
  - exists d. split; auto. rewrite <- ?app_assoc. reflexivity.
Qed.

Theorem other_traffic_all : forall s0 sched,
  let s := final step (init s0) sched in let tr := trace step (init s0) sched in
  (exists rest, replied_tags tr ++ rest = sent_tags tr) /\
  (quiescent s -> stop_closed s = false -> replied_tags tr = sent_tags tr).
Proof.
  intros s0 sched s tr.
  assert (HI : invA s /\ invF s tr).
  { apply (run_invariant_all st choice obs step (fun s tr => invA s /\ invF s tr)).
    - intros s1 tr1 c s' o [HA HF] H. split; [eapply invA_step | eapply invF_step]; eauto.
    - split; [apply invA_init | exists []; split; auto]. }
  destruct HI as [HA [d [Hd HF]]]. split.
  - eexists. exact HF.
  - intros Q Hs. destruct (quiescent_up s HA Q Hs) as (Hr & Hw & Hi & Hm & _).
    rewrite Hr, Hi, Hm in *. rewrite Hd in HF by reflexivity. simpl in HF. now rewrite app_nil_r in HF.
Qed.

(* ------------------------------------------------------------------------------------------ *)
(* Invariant G4: a timer / queued timeout whose serial is a key of the record belongs to that   *)
(* entry's call (needs: no serial handed out while still in use)                               *)
(* ------------------------------------------------------------------------------------------ *)
Definition invG4 (s : st) : Prop :=
  forall k c, lookup k (rec s) = Some c ->
    (forall j, In (j, k) (timers s) -> j = c_id c) /\ (forall j, In (k, j) (buf (cplQ s)) -> j = c_id c).

Lemma in_del_timer_sub : forall i p l, In p (del_timer i l) -> In p l.
Proof.
  intros i p l; induction l as [|[j k] t IH]; simpl; auto.
  destruct (Nat.eqb j i); simpl; intuition.
Qed.

Lemma timer_of_some_in : forall i k l, timer_of i l = Some k -> In (i, k) l.
Proof.
  intros i k l; induction l as [|[j x] t IH]; simpl; intros H; [discriminate|].
  destruct (Nat.eqb_spec j i) as [->|]; [injection H as ->; auto | auto].
Qed.

Lemma existsb_snd_false : forall k (l : list (nat * N)) j,
  existsb (fun t : nat * N => snd t =? k) l = false -> In (j, k) l -> False.
Proof.
  intros k l j H Hin. assert (existsb (fun t : nat * N => snd t =? k) l = true); [|congruence].
  apply existsb_exists. exists (j, k). split; auto. simpl. apply N.eqb_refl.
Qed.
Lemma existsb_fst_false : forall k (l : list (N * nat)) j,
  existsb (fun t : N * nat => fst t =? k) l = false -> In (k, j) l -> False.
Proof.
  intros k l j H Hin. assert (existsb (fun t : N * nat => fst t =? k) l = true); [|congruence].
  apply existsb_exists. exists (k, j). split; auto. simpl. apply N.eqb_refl.
Qed.

Lemma lookup_del_some : forall k k' c l, lookup k' (del k l) = Some c -> k' <> k /\ lookup k' l = Some c.
Proof.
  intros k k' c l H. destruct (N.eq_dec k' k) as [->|Hne].
  - rewrite lookup_del_same in H. discriminate.
  - split; auto. now rewrite lookup_del_other in H.
Qed.

Lemma invG4_step : forall s c s' o, invA s -> invG4 s -> step s c = Some (s', o) ->
  ~ In OReuse o -> invG4 s'.
Proof.
  intros s c s' o HA HG H Hnr.
  assert (Hnc := step_no_crash _ _ _ _ HA H).
  destruct c; step_inv H; try solve [exfalso; apply Hnc; simpl; tauto];
    try solve [exfalso; apply Hnr; simpl; tauto];
    unfold invG4 in *; sproj; try assumption; intros k0 c1 Hl; rec_norm;
    repeat match goal with
           | H : lookup _ (del _ _) = Some _ |- _ => apply lookup_del_some in H; destruct H as [? H]
           end;
    try solve [discriminate Hl];
    try solve [destruct (HG _ _ Hl) as [G1 G2]; split; intros j Hj; auto].
  - (* WAct, written, with a timer *)
    cbn [lookup] in Hl. destruct (N.eqb_spec (seq s) k0) as [<-|Hne].
    + injection Hl as <-. split; intros j Hj.
      * destruct Hj as [Hj|Hj]; [congruence | exfalso; eapply existsb_snd_false; eauto].
      * exfalso; eapply existsb_fst_false; eauto.
    + destruct (HG _ _ Hl) as [G1 G2]. split; intros j Hj; auto.
      destruct Hj as [Hj|Hj]; [congruence | auto].
  - (* WAct, written, no timer *)
    cbn [lookup] in Hl. destruct (N.eqb_spec (seq s) k0) as [<-|Hne].
    + injection Hl as <-. split; intros j Hj.
      * exfalso; eapply existsb_snd_false; eauto.
      * exfalso; eapply existsb_fst_false; eauto.
    + destruct (HG _ _ Hl) as [G1 G2]. split; intros j Hj; auto.
  - congruence.
  - destruct (HG _ _ Hl) as [G1 G2]. split; intros j Hj; auto. apply G2. rewrite E0. right; auto.
  - destruct (HG _ _ Hl) as [G1 G2]. split; intros j Hj; auto. apply G2. rewrite E0. right; auto.
  - destruct (HG _ _ Hl) as [G1 G2]. split; intros j Hj.
    + apply G1. eapply in_del_timer_sub; eauto.
    + apply in_app_single in Hj. destruct Hj as [Hj|Hj]; auto.
      injection Hj as -> ->. apply G1. now apply timer_of_some_in.
  - destruct (HG _ _ Hl) as [G1 G2]. split; intros j Hj; auto.
    apply G1. eapply in_del_timer_sub; eauto.
Qed.

(* ------------------------------------------------------------------------------------------ *)
(* Invariant G1: every outstanding entry was written with its key as serial; since then no      *)
(* response echoing that serial was taken from msgChan; a timeout message queued for it was     *)
(* sent by its own timer, after the write                                                      *)
(* ------------------------------------------------------------------------------------------ *)

Definition since_write (tr : list obs) (k : N) (c : call) (F : Prop) : Prop :=
  exists a1 a2, tr = a1 ++ OWrite k c true :: a2 /\ noseen k a2 /\ (F -> In (OFire (c_id c)) a2).

Definition invG1 (s : st) (tr : list obs) : Prop :=
  forall k c, In (k, c) (rec s) -> since_write tr k c (exists j, In (k, j) (buf (cplQ s))).

Lemma since_write_ext : forall tr o k c (F F' : Prop),
  since_write tr k c F -> noseen k o -> (F' -> F \/ In (OFire (c_id c)) o) ->
  since_write (tr ++ o) k c F'.
Proof.
  intros tr o k c F F' (a1 & a2 & -> & Hn & Hf) Hno HF.
  exists a1, (a2 ++ o). split; [now rewrite <- app_assoc|]. split.
  - intros m Hm. apply in_app_iff in Hm. destruct Hm; auto.
  - intros H. apply in_app_iff. destruct (HF H); auto.
Qed.

Lemma noseen_stop : forall k l, noseen k (map (fun p : N * call => OReturn (c_id (snd p)) RNoExist) l).
Proof. intros k l m Hm. apply in_map_iff in Hm. destruct Hm as [x [Hx _]]. discriminate. Qed.

Ltac noseen_tac :=
  let m := fresh "m" in let Hm := fresh "Hm" in
  intros m Hm; simpl in Hm;
  repeat match type of Hm with
         | _ \/ _ => destruct Hm as [Hm|Hm]
         | False => destruct Hm
         end; try discriminate Hm; try (injection Hm as <-); simpl; auto.

Lemma invG1_step : forall s tr c s' o, invA s -> invG4 s -> invG1 s tr -> step s c = Some (s', o) ->
  ~ In OReuse o -> invG1 s' (tr ++ o).
Proof.
  intros s tr c s' o HA HG4 HG H Hnr.
  assert (Hnc := step_no_crash _ _ _ _ HA H).
  destruct c; step_inv H; try solve [exfalso; apply Hnc; simpl; tauto];
    try solve [exfalso; apply Hnr; simpl; tauto];
    unfold invG1 in *; sproj; intros k0 c1 Hin; rec_norm;
    repeat match goal with
           | H : In _ (del _ _) |- _ => apply in_del in H; destruct H as [H ?]
           end;
    try solve [destruct Hin];
    try solve [eapply since_write_ext; [apply (HG _ _ Hin) | noseen_tac | tauto]].
  - (* WAct, timer *)
    destruct Hin as [Hin|Hin].
    + injection Hin as <- <-. exists tr, []. split; auto. split; [intros m []|].
      intros [j Hj]. exfalso; eapply existsb_fst_false; eauto.
    + eapply since_write_ext; [apply (HG _ _ Hin) | noseen_tac | tauto].
  - (* WAct, no timer *)
    destruct Hin as [Hin|Hin].
    + injection Hin as <- <-. exists tr, []. split; auto. split; [intros m []|].
      intros [j Hj]. exfalso; eapply existsb_fst_false; eauto.
    + eapply since_write_ext; [apply (HG _ _ Hin) | noseen_tac | tauto].
  - (* WAct, write failed, impossible branch *)
    discriminate E3.
  - (* WMsg TResp, matched: the remaining entries have other keys *)
    eapply since_write_ext; [apply (HG _ _ Hin) | noseen_tac | tauto].
    simpl in H. apply N.eqb_neq. congruence.
  - (* WMsg TResp, no entry with that key *)
    eapply since_write_ext; [apply (HG _ _ Hin) | noseen_tac | tauto].
    apply N.eqb_neq. intros ->. apply (in_lookup _ _ _ (a_keys _ HA)) in Hin. congruence.
  - eapply since_write_ext; [apply (HG _ _ Hin) | noseen_tac | tauto].
    simpl in H. apply N.eqb_neq. congruence.
  - eapply since_write_ext; [apply (HG _ _ Hin) | noseen_tac | tauto].
    apply N.eqb_neq. intros ->. apply (in_lookup _ _ _ (a_keys _ HA)) in Hin. congruence.
  - (* WCpl, matched *)
    eapply since_write_ext; [apply (HG _ _ Hin) | noseen_tac |].
    intros [j Hj]. left. exists j. rewrite E0. right; auto.
  - rewrite app_nil_r. destruct (HG _ _ Hin) as (a1 & a2 & Htr & Hn & Hf).
    exists a1, a2. split; auto. split; auto. intros [j Hj]. apply Hf. exists j. rewrite E0. right; auto.
  - (* TSend *)
    eapply since_write_ext; [apply (HG _ _ Hin) | noseen_tac |].
    intros [j Hj]. apply in_app_single in Hj. destruct Hj as [Hj|Hj]; [left; eauto|].
    injection Hj as -> ->. right. left.
    apply (in_lookup _ _ _ (a_keys _ HA)) in Hin. destruct (HG4 _ _ Hin) as [G1 _].
    rewrite (G1 i); auto. now apply timer_of_some_in.
Qed.

(* ------------------------------------------------------------------------------------------ *)
(* Invariant D: a call whose command was handed to conn.Write is outstanding or has returned    *)
(* Invariant G5: queued calls were made; G6: queued terminal messages were sent                 *)
(* ------------------------------------------------------------------------------------------ *)
Lemma written_app : forall a b, written (a ++ b) = written a ++ written b.
Proof. induction a as [|x a IH]; intros b; simpl; auto. destruct x; simpl; now rewrite ?IH. Qed.
Lemma written_stop : forall l, written (map (fun p : N * call => OReturn (c_id (snd p)) RNoExist) l) = [].
Proof. induction l; simpl; auto. Qed.

Definition invD (s : st) (tr : list obs) : Prop :=
  forall i, In i (written tr) -> In i (ids (rec s)) \/ In i (returned tr).

Lemma ids_del : forall i k c l, NoDup (map fst l) -> lookup k l = Some c -> In i (ids l) ->
  In i (ids (del k l)) \/ i = c_id c.
Proof.
  intros i k c l Hn Hl Hin. apply in_map_iff in Hin. destruct Hin as [[k' c'] [Hi Hin]]. simpl in Hi.
  destruct (N.eq_dec k' k) as [->|Hne].
  - apply (in_lookup _ _ _ Hn) in Hin. right. congruence.
  - left. apply in_map_iff. exists (k', c'). split; auto. apply in_del. auto.
Qed.

Lemma invD_step : forall s tr c s' o, invA s -> invD s tr -> step s c = Some (s', o) ->
  ~ In OReuse o -> invD s' (tr ++ o).
Proof.
  intros s tr c s' o HA HD H Hnr i Hi.
  assert (Hnc := step_no_crash _ _ _ _ HA H).
  rewrite written_app in Hi. rewrite returned_app. rewrite in_app_iff in *.
  destruct c; step_inv H; try solve [exfalso; apply Hnc; simpl; tauto];
    try solve [exfalso; apply Hnr; simpl; tauto];
    sproj; rewrite ?written_stop, ?returned_stop in *; rec_norm;
    cbn [written returned returns map fst snd app In c_id] in *;
    try solve [destruct Hi as [Hi|[]]; destruct (HD _ Hi); tauto];
    try solve [destruct Hi as [Hi|[Hi|[]]]; [destruct (HD _ Hi); tauto | tauto]];
    try match goal with
        | Hl : lookup ?k (rec s) = Some ?c0 |- _ =>
            solve [destruct Hi as [Hi|[]]; destruct (HD _ Hi) as [Hr|Hr]; [|tauto];
                   destruct (ids_del i k c0 (rec s) (a_keys _ HA) Hl Hr); [tauto | subst; tauto]]
        end.
Qed.

Definition invG5 (s : st) (tr : list obs) : Prop :=
  (forall c, In (MRoute c) (mgrQ s) -> In (OCall c) tr) /\
  (forall c, In c (buf (actQ s)) -> In (OCall c) tr).

Lemma invG5_step : forall s tr c s' o, invG5 s tr -> step s c = Some (s', o) -> invG5 s' (tr ++ o).
Proof.
  intros s tr c s' o [H1 H2] H.
  destruct c; step_inv H; unfold invG5; sproj; rw_proj s; split; intros c' Hc;
    apply in_app_iff; rewrite ?in_app_single in Hc; simpl in *;
    try solve [left; auto];
    try solve [destruct Hc as [Hc|Hc]; [left; auto | injection Hc as <-; auto]];
    try solve [destruct Hc as [Hc|Hc]; [left; auto | discriminate Hc]];
    try solve [destruct Hc as [Hc|Hc]; [left; auto | subst; left; auto]].
Qed.

Definition invG6 (s : st) (tr : list obs) : Prop :=
  (forall m, In m (inQ s) \/ In m (held (rd s)) \/ In m (buf (msgQ s)) -> In (OSent m) tr) /\
  (buf (reisQ s) <> [] -> In (OSent TReissue) tr).

Lemma invG6_step : forall s tr c s' o, invG6 s tr -> step s c = Some (s', o) -> invG6 s' (tr ++ o).
Proof.
  intros s tr c s' o [HG HR] H.
  destruct c; step_inv H; unfold invG6 in *; sproj; rw_proj s; (split; [intros m' Hm | intros Hne]);
    apply in_app_iff; rewrite ?in_app_single in *; simpl in *;
    try solve [left; apply HG; tauto];
    try solve [left; apply HR; congruence];
    try solve [left; apply HR; discriminate];
    try solve [intuition (subst; auto)].
Qed.

(* registration, disconnect and stop as seen in the trace *)
Lemma reg_of_app : forall a b x, reg_of (a ++ b) x = reg_of b (reg_of a x).
Proof. induction a as [|y a IH]; intros b x; simpl; auto. destruct y; auto. Qed.

Lemma reg_of_stop : forall l x, reg_of (map (fun p : N * call => OReturn (c_id (snd p)) RNoExist) l) x = x.
Proof. induction l; simpl; auto. Qed.

Definition invS (s : st) (tr : list obs) : Prop :=
  registered_after tr = registered s /\
  (peer_closed s = true -> In OPeerClose tr) /\
  (conn_closed s = true -> In OStop tr).

Lemma invS_step : forall s tr c s' o, invS s tr -> step s c = Some (s', o) -> invS s' (tr ++ o).
Proof.
  intros s tr c s' o (HR & HP & HC) H. unfold invS, registered_after in *. rewrite reg_of_app, HR.
  destruct c; step_inv H; sproj; rewrite ?reg_of_stop; cbn [reg_of]; rw_proj s;
    (split; [try reflexivity; try congruence | split; intros Hx; apply in_app_iff; simpl; auto]).
Qed.

(* ------------------------------------------------------------------------------------------ *)
(* Every event of a trace is justified by what happened before it                              *)
(* ------------------------------------------------------------------------------------------ *)
Definition just (a : list obs) (x : obs) : Prop :=
  match x with
  | OReturn i (RResp m) =>
      (* a response: the writer has just taken m from msgChan, and m answers the command that was
         written for call i, with the serial it echoes *)
      exists k c a', c_id c = i /\ In (OWrite k c true) a /\ answers m k c = true /\ a = a' ++ [OSeen m]
  | OReturn i RTimeout =>
      (* a timeout: after the command of call i was written, its own timer fired and no response echoing
         its serial was taken from msgChan *)
      exists k c a1 a2, c_id c = i /\ a = a1 ++ OWrite k c true :: a2 /\ In (OFire i) a2 /\ noseen k a2
  | OReturn i RWriteFail => exists k c a', c_id c = i /\ a = a' ++ [OWrite k c false]
  | OReturn i RNoExist =>
      (* ErrNotExistKey: the registry does not route the key to this connection at that moment (it never
         joined, or it has left - which stop() does before anything else) *)
      registered_after a = false
  | OWrite k c ok =>
      In (OCall c) a /\ ~ In (c_id c) (written a) /\
      (* conn.Write fails only once the terminal is gone or this side has closed the socket *)
      (ok = false -> In OPeerClose a \/ In OStop a)
  | OReply k m ok => exists a', a = a' ++ [OSeen m]
  | OSeen m => In (OSent m) a
  | _ => True
  end.

Fixpoint justified_from (past : list obs) (l : list obs) : Prop :=
  match l with
  | [] => True
  | x :: t => just past x /\ justified_from (past ++ [x]) t
  end.
Definition justified (tr : list obs) : Prop := justified_from [] tr.

Lemma justified_from_app : forall a b p,
  justified_from p (a ++ b) <-> justified_from p a /\ justified_from (p ++ a) b.
Proof.
  induction a as [|x a IH]; intros b p; simpl.
  - rewrite app_nil_r. tauto.
  - rewrite IH, <- app_assoc. simpl. tauto.
Qed.

Lemma justified_split : forall tr a x b, justified tr -> tr = a ++ x :: b -> just a x.
Proof.
  intros tr a x b H ->. unfold justified in H. apply justified_from_app in H.
  simpl in H. tauto.
Qed.

Lemma justified_stop : forall l p, registered_after p = false ->
  justified_from p (map (fun q : N * call => OReturn (c_id (snd q)) RNoExist) l).
Proof.
  induction l as [|x l IH]; intros p Hp; simpl; auto. split; auto.
  apply IH. unfold registered_after in *. rewrite reg_of_app. simpl. exact Hp.
Qed.

Lemma stopped_not_registered : forall s, invA s -> stop_closed s = true -> registered s = false.
Proof.
  intros s HA Hs. destruct (registered s) eqn:E; auto.
  destruct (a_reg _ HA E) as [H0 _]. apply (a_stop _ HA) in Hs. lia.
Qed.

Record inv2 (s : st) (tr : list obs) : Prop := {
  j_1 : inv1 s tr;
  j_G4 : invG4 s;
  j_G1 : invG1 s tr;
  j_D : invD s tr;
  j_G5 : invG5 s tr;
  j_G6 : invG6 s tr;
  j_S : invS s tr
}.

Lemma head_not_written : forall s tr c l, locC s tr -> invD s tr -> buf (actQ s) = c :: l ->
  ~ In (c_id c) (written tr).
Proof.
  intros s tr c l HC HD Hb Hin. specialize (HC (c_id c)). unfold pending_ids in HC. rewrite Hb in HC.
  rewrite !cnt_app in HC. simpl in HC. rewrite Nat.eqb_refl in HC.
  destruct (HD _ Hin) as [H|H]; apply cnt_in in H; destruct (Nat.ltb _ _); lia.
Qed.

Lemma since_write_in : forall tr k c F, since_write tr k c F -> In (OWrite k c true) tr.
Proof. intros tr k c F (a1 & a2 & -> & _). apply in_app_iff. right; left; auto. Qed.

Lemma just_step : forall s tr c s' o, inv2 s tr -> no_reuse tr -> step s c = Some (s', o) ->
  ~ In OReuse o -> justified_from tr o.
Proof.
  intros s tr c s' o [[HA HB Hnc0 HH HLe HC] HG4 HG1 HD [HG5a HG5b] [HG6 HG6r] (HSr & HSp & HSc)] Hnr0 H Hnr.
  specialize (HC Hnr0).
  assert (Hnc := step_no_crash _ _ _ _ HA H).
  assert (Hstopreg : stop_closed s = true -> registered_after tr = false).
  { intros Hs. rewrite HSr. now apply stopped_not_registered. }
  destruct c; step_inv H; try solve [exfalso; apply Hnc; simpl; tauto];
    try solve [exfalso; apply Hnr; simpl; tauto];
    try solve [apply justified_stop; auto];
    rec_norm;
    cbn [justified_from just]; repeat split; auto;
    try solve [apply HG5b; left; reflexivity];
    try solve [eapply head_not_written; eauto];
    try solve [apply HG6; right; right; try (match goal with Hm : buf (msgQ s) = _ |- _ => rewrite Hm end); left; reflexivity];
    try solve [apply HG6r; first [congruence | discriminate]];
    try solve [intros _; match goal with Hw : peer_closed s || conn_closed s = true |- _ =>
                 apply orb_true_iff in Hw; destruct Hw; [left; apply HSp | right; apply HSc]; assumption end];
    try solve [eexists; reflexivity];
    try solve [intros; discriminate];
    try solve [congruence];
    try solve [rewrite HSr; assumption];
    try solve [apply Hstopreg; apply (a_wr _ HA); congruence].
  - sproj. rewrite lookup_put_same in E3. injection E3 as <-. exists (seq s), c, tr. auto.
  - exists echo, c, tr. repeat split; auto.
    + apply in_app_iff. left. eapply since_write_in. apply HG1. now apply lookup_in.
    + simpl. apply N.eqb_refl.
  - sproj. assert (c0 = c) by congruence. subst c0. exists pick, c, tr. repeat split; auto.
    apply in_app_iff. left. eapply since_write_in. apply HG1. now apply lookup_in.
  - exists echo, c, tr. repeat split; auto.
    + apply in_app_iff. left. eapply since_write_in. apply HG1. now apply lookup_in.
    + simpl. apply N.eqb_refl.
  - sproj. assert (c0 = c) by congruence. subst c0. exists pick, c, tr. repeat split; auto.
    apply in_app_iff. left. eapply since_write_in. apply HG1. now apply lookup_in.
  - sproj. destruct (HG1 n c (lookup_in _ _ _ E2)) as (a1 & a2 & Htr & Hn & Hf). exists n, c, a1, a2.
    repeat split; auto. apply Hf. eexists. rewrite E0. left; reflexivity.
Qed.

(* ------------------------------------------------------------------------------------------ *)
(* second assembly                                                                             *)
(* ------------------------------------------------------------------------------------------ *)
Definition inv3 (s : st) (tr : list obs) : Prop := no_reuse tr -> inv2 s tr /\ justified tr.

Lemma inv3_step : forall s tr c s' o, inv1 s tr -> inv3 s tr -> step s c = Some (s', o) ->
  inv1 s' (tr ++ o) /\ inv3 s' (tr ++ o).
Proof.
  intros s tr c s' o H1 H3 H. split; [eapply inv1_step; eauto|].
  intros Hnr. apply no_reuse_app in Hnr. destruct Hnr as [Hn1 Hn2].
  destruct (H3 Hn1) as [H2 HJ]. pose proof H2 as [_ HG4 HG1 HD HG5 HG6 HS].
  pose proof (i_A _ _ H1) as HA. split.
  - constructor.
    + eapply inv1_step; eauto.
    + eapply invG4_step; eauto.
    + eapply invG1_step; eauto.
    + eapply invD_step; eauto.
    + eapply invG5_step; eauto.
    + eapply invG6_step; eauto.
    + eapply invS_step; eauto.
  - unfold justified. apply justified_from_app. split; auto. simpl.
    eapply just_step; eauto.
Qed.

Lemma inv3_all : forall s0 sched,
  let s := final step (init s0) sched in let tr := trace step (init s0) sched in
  inv1 s tr /\ inv3 s tr.
Proof.
  intros s0 sched.
  apply (run_invariant_all st choice obs step (fun s tr => inv1 s tr /\ inv3 s tr)).
  - intros s tr c s' o [H1 H3] H. eapply inv3_step; eauto.
  - split; [apply inv1_init|]. intros _. split; [|exact I]. constructor.
    + apply inv1_init.
    + intros k c H; discriminate.
    + intros k c H; destruct H.
    + intros i H; destruct H.
    + split; intros c H; destruct H.
    + split; [intros m [H|[H|H]]; destruct H | intros H; exfalso; apply H; reflexivity].
    + split; [reflexivity | split; intros H; discriminate].
Qed.

Theorem justified_all : forall s0 sched, let tr := trace step (init s0) sched in
  no_reuse tr -> justified tr.
Proof. intros s0 sched tr Hnr. destruct (inv3_all s0 sched) as [_ H3]. now apply H3. Qed.


(* ------------------------------------------------------------------------------------------ *)
(* consequences used by Props                                                                  *)
(* ------------------------------------------------------------------------------------------ *)
Lemma nodup_snoc : forall (l : list nat) x, NoDup l -> ~ In x l -> NoDup (l ++ [x]).
Proof.
  induction l as [|y l IH]; intros x Hn Hx; simpl.
  - constructor; [intros [] | constructor].
  - inversion Hn; subst. constructor.
    + rewrite in_app_iff; simpl. intros [H|[H|[]]]; [auto | subst; apply Hx; left; auto].
    + apply IH; auto. intros H; apply Hx; right; auto.
Qed.

Lemma justified_written : forall l p, justified_from p l -> NoDup (written p) -> NoDup (written (p ++ l)).
Proof.
  induction l as [|x l IH]; intros p HJ Hn; simpl in *.
  - now rewrite app_nil_r.
  - destruct HJ as [Hx HJ]. replace (p ++ x :: l) with ((p ++ [x]) ++ l) by now rewrite <- app_assoc.
    apply IH; auto. rewrite written_app.
    destruct x; simpl; rewrite ?app_nil_r; auto.
    apply nodup_snoc; auto. simpl in Hx. tauto.
Qed.

Theorem written_once_all : forall s0 sched, let tr := trace step (init s0) sched in
  no_reuse tr -> NoDup (written tr).
Proof.
  intros s0 sched tr Hnr. pose proof (justified_all s0 sched Hnr) as HJ.
  apply (justified_written tr [] HJ). constructor.
Qed.

(* serials: the j-th frame carries (s0 + j) mod 65536; two frames less than 65536 apart differ *)
From Coq Require Import ZArith ZifyN ZifyNat ZifyBool.
Ltac Zify.zify_post_hook ::= Z.div_mod_to_equations.

Lemma nth_serial_mod : forall s0 j, s0 < 65536 -> nth_serial s0 j = (s0 + N.of_nat j) mod 65536.
Proof.
  intros s0 j Hs. induction j as [|j IH].
  - simpl. rewrite N.add_0_r. symmetry. now apply N.mod_small.
  - cbn [nth_serial]. rewrite IH. unfold next_serial.
    rewrite N.add_mod_idemp_l by discriminate. f_equal. lia.
Qed.

Lemma nth_serial_fresh : forall s0 j j', s0 < 65536 -> (j < j')%nat -> N.of_nat j' < N.of_nat j + 65536 ->
  nth_serial s0 j <> nth_serial s0 j'.
Proof.
  intros s0 j j' Hs H1 H2. rewrite !nth_serial_mod by auto. lia.
Qed.

(* the system cannot run for ever on its own *)
Theorem internal_steps_bounded : forall sched s,
  Forall (fun c => internal c = true) sched -> (executed s sched <= measure s)%nat.
Proof.
  induction sched as [|c t IH]; intros s HF; simpl; [lia|].
  inversion HF as [|? ? Hc Ht]; subst.
  destruct (step s c) as [[s' o]|] eqn:E; auto.
  pose proof (measure_step _ _ _ _ Hc E). specialize (IH s' Ht). lia.
Qed.

(* ------------------------------------------------------------------------------------------ *)
(* A structural sufficient condition for no_reuse: at most 65536 frames on the connection       *)
(* ------------------------------------------------------------------------------------------ *)
Definition busyP (k : N) (s : st) : Prop :=
  In k (map fst (rec s)) \/ In k (map snd (timers s)) \/ In k (map fst (buf (cplQ s))).

Lemma busy_busyP : forall k s, busy k s = true -> busyP k s.
Proof.
  unfold busy, busyP; intros k s H.
  apply orb_true_iff in H. destruct H as [H|H]; [apply orb_true_iff in H; destruct H as [H|H]|];
    apply existsb_exists in H; destruct H as [[a b] [Hin He]]; simpl in He; apply N.eqb_eq in He.
  - left. rewrite <- He. change a with (fst (a, b)). now apply in_map.
  - right; left. rewrite <- He. change b with (snd (a, b)). now apply in_map.
  - right; right. rewrite <- He. change a with (fst (a, b)). now apply in_map.
Qed.

(* every serial in use is one of the serials handed out so far *)
Definition invR (s0 : N) (s : st) (tr : list obs) : Prop :=
  forall k, busyP k s -> exists j, (j < length (serials tr))%nat /\ k = nth_serial s0 j.

Lemma in_keys_del_sub : forall k k' l, In k' (map fst (del k l)) -> In k' (map fst l).
Proof. intros k k' l H. apply in_keys_del in H. tauto. Qed.

Lemma in_del_timer_snd : forall i k l, In k (map snd (del_timer i l)) -> In k (map snd l).
Proof.
  intros i k l H. apply in_map_iff in H. destruct H as [[a b] [He Hin]]. simpl in He; subst.
  apply in_del_timer_sub in Hin. change k with (snd (a, k)). now apply in_map.
Qed.

Lemma nth_serial_shift : forall m k, nth_serial (next_serial k) m = next_serial (nth_serial k m).
Proof. induction m as [|m IH]; intros k; simpl; auto. now rewrite IH. Qed.

Lemma chain_final : forall l k k', chain k l = Some k' -> k' = nth_serial k (length l).
Proof.
  induction l as [|x l IH]; intros k k' H; simpl in *.
  - now injection H as <-.
  - destruct (x =? k); [|discriminate]. rewrite (IH _ _ H). apply nth_serial_shift.
Qed.

Lemma invR_step : forall s0 s tr c s' o, invE s0 s tr -> invR s0 s tr -> step s c = Some (s', o) ->
  invR s0 s' (tr ++ o).
Proof.
  intros s0 s tr c s' o HE HR H k Hb.
  pose proof (chain_final _ _ _ HE) as Hseq.
  rewrite serials_app, app_length.
  assert (Hold : busyP k s -> exists j, (j < length (serials tr) + length (serials o))%nat /\ k = nth_serial s0 j).
  { intros Hk. destruct (HR k Hk) as [j [Hj Hkj]]. exists j. split; [lia | auto]. }
  destruct c; step_inv H; unfold busyP in *; sproj; rewrite ?serials_stop in *;
    rewrite ?map_app in *; cbn [serials length map fst snd app In] in *; rewrite ?in_app_iff in *;
    cbn [In] in *;
    try solve [apply Hold; tauto];
    try solve [apply Hold; destruct Hb as [Hb|[Hb|Hb]]; eauto using in_keys_del_sub, in_del_timer_snd];
    repeat match goal with
           | H : _ \/ _ |- _ => destruct H as [H|H]
           | H : False |- _ => destruct H
           end;
    try solve [apply Hold; eauto 6 using in_keys_del_sub, in_del_timer_snd];
    try solve [exists (length (serials tr)); split; [lia | congruence]];
    try solve [apply Hold; right; left;
               match goal with Ht : timer_of _ _ = Some _ |- _ => apply timer_of_some_in in Ht;
                 subst; change n with (snd (i, n)); now apply in_map end].
  - rewrite N.eqb_refl in Hb. cbn [negb] in Hb. apply Hold. left. eauto using in_keys_del_sub.
  - rewrite N.eqb_refl in Hb. cbn [negb] in Hb. apply Hold. left. eauto using in_keys_del_sub.
  - apply Hold. right; right. rewrite E0. right; auto.
  - apply Hold. right; right. rewrite E0. right; auto.
  - subst k. apply Hold. right; left. apply timer_of_some_in in E.
    change n with (snd (i, n)). now apply in_map.
Qed.

Theorem no_reuse_if_few_frames : forall s0 sched, s0 < 65536 ->
  let tr := trace step (init s0) sched in
  N.of_nat (length (serials tr)) <= 65536 -> no_reuse tr.
Proof.
  intros s0 sched Hs0 tr Hlen.
  (* the invariant holds and there is no OReuse so far, as long as the bound holds for the prefix *)
  pose (I := fun (s : st) (tr' : list obs) =>
               invE s0 s tr' /\ (N.of_nat (length (serials tr')) <= 65536 -> invR s0 s tr' /\ no_reuse tr')).
  assert (HI : I (final step (init s0) sched) tr).
  { apply (run_invariant_all st choice obs step I).
    - intros s tr' c s' o [HE HR] Hstep. split; [eapply invE_step; eauto|].
      intros Hb. rewrite serials_app, app_length in Hb.
      destruct HR as [HR Hn]; [lia|]. split; [eapply invR_step; eauto|].
      apply no_reuse_app. split; auto.
      (* OReuse only comes from WAct on a busy serial, which would be one of the earlier serials *)
      intros Hin. pose proof (chain_final _ _ _ HE) as Hseq.
      destruct c; step_inv Hstep; simpl in Hin; try tauto;
        try (rewrite in_map_iff in Hin; destruct Hin as [x [Hx _]]; discriminate);
        try solve [intuition discriminate];
        match goal with Hbusy : busy (seq s) s = true |- _ =>
          destruct (HR _ (busy_busyP _ _ Hbusy)) as [j [Hj Hk]] end;
        rewrite Hseq in Hk; cbn [serials length app] in Hb;
        symmetry in Hk; revert Hk; apply nth_serial_fresh; auto; lia.
    - split; [reflexivity|]. intros _. split; [|intros []].
      intros k [H|[H|H]]; destruct H. }
  destruct HI as [_ HI]. apply HI. exact Hlen.
Qed.

(* ------------------------------------------------------------------------------------------ *)
(* written at least once: the liveness half                                                    *)
(* ------------------------------------------------------------------------------------------ *)
Lemma written_in : forall k c ok tr, In (OWrite k c ok) tr -> In (c_id c) (written tr).
Proof.
  intros k c ok tr; induction tr as [|x t IH]; simpl; intros H; [tauto|].
  destruct H as [->|H]; [left; reflexivity|].
  destruct x; simpl; auto.
Qed.

(* In a quiescent state every call that was made has had its command handed to the socket - unless it was
   answered ErrNotExistKey, which (justified) happens only while the registry does not route the key here. *)
Theorem written_at_least_once_all : forall s0 sched,
  let s := final step (init s0) sched in let tr := trace step (init s0) sched in
  no_reuse tr -> quiescent s ->
  forall c, In (OCall c) tr -> In (c_id c) (written tr) \/ In (OReturn (c_id c) RNoExist) tr.
Proof.
  intros s0 sched s tr Hnr Q c Hc.
  destruct (inv3_all s0 sched) as [_ H3]. destruct (H3 Hnr) as [H2 HJ]. fold tr in HJ. fold s tr in H2.
  destruct (quiescent_all s0 sched Hnr Q c Hc) as [H|(k & c' & Hin & Hid & _)].
  - apply returned_in in H. destruct H as [r Hr]. apply in_split in Hr. destruct Hr as (a & b & E).
    pose proof (justified_split _ _ _ _ HJ E) as Hj. fold tr in E.
    assert (Hsub : forall i, In i (written a) -> In i (written tr)).
    { intros i Hi. rewrite E, written_app. apply in_app_iff. now left. }
    destruct r as [m| | |]; simpl in Hj.
    + destruct Hj as (k & c1 & a' & Hid & Hw & _). left. apply Hsub. rewrite <- Hid. eapply written_in; eauto.
    + destruct Hj as (k & c1 & a1 & a2 & Hid & Ha & _). left. apply Hsub. rewrite <- Hid.
      apply (written_in k c1 true). rewrite Ha. apply in_app_iff. right; left; reflexivity.
    + destruct Hj as (k & c1 & a' & Hid & Ha). left. apply Hsub. rewrite <- Hid.
      apply (written_in k c1 false). rewrite Ha. apply in_app_iff. right; left; reflexivity.
    + right. rewrite E. apply in_app_iff. right; left; reflexivity.
  - left. rewrite <- Hid. apply (written_in k c' true). eapply since_write_in. apply (j_G1 _ _ H2). exact Hin.
Qed.

(* ------------------------------------------------------------------------------------------ *)
(* A quiescent state is reached: from ANY state some schedule of server steps ends in a state   *)
(* in which no server step is enabled (and by internal_steps_bounded every such schedule is     *)
(* short)                                                                                       *)
(* ------------------------------------------------------------------------------------------ *)
Definition cands (s : st) : list choice :=
  [MgrStep JOk; RdRead; RdFail; RdPush; RdClose; WStop; WAct true; WAct false; WCpl; WDrain;
   WReis true; WReis false; WMsg 0 true; WMsg 0 false]
  ++ flat_map (fun p : N * call => [WMsg (fst p) true; WMsg (fst p) false]) (rec s)
  ++ flat_map (fun t : nat * N => [TSend (fst t); TQuit (fst t)]) (timers s).

Definition enabledb (s : st) (c : choice) : bool := match step s c with Some _ => true | None => false end.
Definition quiescentb (s : st) : bool := negb (existsb (enabledb s) (cands s)).

Lemma cands_internal : forall s c, In c (cands s) -> internal c = true.
Proof.
  intros s c H. unfold cands in H. rewrite !in_app_iff in H.
  destruct H as [H|[H|H]].
  - simpl in H. repeat (destruct H as [<-|H]; [reflexivity|]). destruct H.
  - apply in_flat_map in H. destruct H as [p [_ [<-|[<-|[]]]]]; reflexivity.
  - apply in_flat_map in H. destruct H as [p [_ [<-|[<-|[]]]]]; reflexivity.
Qed.

Lemma in_cands_wmsg : forall s k c w, In (k, c) (rec s) -> In (WMsg k w) (cands s).
Proof.
  intros s k c w H. unfold cands. rewrite !in_app_iff. right; left.
  apply in_flat_map. exists (k, c). split; auto. destruct w; simpl; auto.
Qed.

Lemma in_cands_timer : forall s i k, In (i, k) (timers s) ->
  In (TSend i) (cands s) /\ In (TQuit i) (cands s).
Proof.
  intros s i k H. unfold cands. rewrite !in_app_iff. split; right; right;
    apply in_flat_map; exists (i, k); simpl; auto.
Qed.

Lemma cands_complete : forall s c, internal c = true -> step s c <> None ->
  exists c', In c' (cands s) /\ step s c' <> None.
Proof.
  intros s c Hi Hs. destruct c; try discriminate Hi.
  - (* MgrStep *) exists (MgrStep JOk). split; [simpl; auto|].
    simpl in *. unfold step_mgr in *. destruct (mgrQ s) as [|[c| |] q]; auto;
      destruct (rd s); discriminate.
  - exists RdRead; split; [simpl; tauto | auto].
  - exists RdFail; split; [simpl; tauto | auto].
  - exists RdPush; split; [simpl; tauto | auto].
  - exists RdClose; split; [simpl; tauto | auto].
  - exists WStop; split; [simpl; tauto | auto].
  - exists (WAct wok); split; [destruct wok; simpl; tauto | auto].
  - (* WMsg *)
    destruct (lookup pick (rec s)) as [c|] eqn:El.
    + exists (WMsg pick wok). split; auto. eapply in_cands_wmsg. apply lookup_in; eauto.
    + exists (WMsg 0 wok). split; [destruct wok; simpl; tauto|].
      simpl in *. unfold step_wmsg in *.
      destruct (wr s); auto. destruct (ch_recv (msgQ s)) as [m q| |]; auto.
      destruct (write_possible s wok); auto.
      destruct m; auto.
      destruct (existsb _ (rec s)); [rewrite El in Hs; contradiction | auto].
  - exists WCpl; split; [simpl; tauto | auto].
  - exists WDrain; split; [simpl; tauto | auto].
  - exists (WReis wok); split; [destruct wok; simpl; tauto | auto].
  - exists (TSend i). split; auto. simpl in Hs.
    destruct (timer_of i (timers s)) as [k|] eqn:E; [|contradiction].
    apply timer_of_some_in in E. now apply (in_cands_timer s i k).
  - exists (TQuit i). split; auto. simpl in Hs.
    destruct (timer_of i (timers s)) as [k|] eqn:E; [|contradiction].
    apply timer_of_some_in in E. now apply (in_cands_timer s i k).
Qed.

Lemma quiescentb_true : forall s, quiescentb s = true -> quiescent s.
Proof.
  intros s H c Hi. destruct (step s c) as [p|] eqn:E; auto. exfalso.
  destruct (cands_complete s c Hi) as [c' [Hin Hs]]; [congruence|].
  unfold quiescentb in H. apply negb_true_iff in H.
  assert (existsb (enabledb s) (cands s) = true); [|congruence].
  apply existsb_exists. exists c'. split; auto. unfold enabledb. destruct (step s c'); congruence.
Qed.

Theorem quiescent_reached : forall s,
  exists sched, Forall (fun c => internal c = true) sched /\ quiescent (final step s sched) /\
                (length sched <= measure s)%nat.
Proof.
  intros s. remember (measure s) as n eqn:En. revert s En.
  induction n as [n IH] using lt_wf_ind. intros s En.
  destruct (quiescentb s) eqn:Q.
  - exists []. split; [constructor|]. split; [now apply quiescentb_true | simpl; lia].
  - unfold quiescentb in Q. apply negb_false_iff in Q. apply existsb_exists in Q.
    destruct Q as [c [Hin He]]. unfold enabledb in He.
    destruct (step s c) as [[s' o]|] eqn:E; [|discriminate].
    pose proof (cands_internal _ _ Hin) as Hi.
    pose proof (measure_step _ _ _ _ Hi E) as Hm.
    destruct (IH (measure s') ltac:(lia) s' eq_refl) as (sched & HF & HQ & HL).
    exists (c :: sched). split; [constructor; auto|]. split.
    + unfold final in *. simpl. rewrite E. destruct (run step s' sched). exact HQ.
    + simpl. lia.
Qed.

(* fairness-free form of "a quiescent state is reached": a run of server steps that has not reached a quiescent
   state has executed fewer than [measure s] steps - so every run that keeps executing enabled server steps is
   quiescent after at most [measure s] of them *)
Lemma executed_measure : forall sched s, Forall (fun c => internal c = true) sched ->
  (executed s sched + measure (final step s sched) <= measure s)%nat.
Proof.
  induction sched as [|c t IH]; intros s HF; simpl; [unfold final; simpl; lia|].
  inversion HF as [|? ? Hc Ht]; subst. unfold final in *. simpl.
  destruct (step s c) as [[s' o]|] eqn:E.
  - pose proof (measure_step _ _ _ _ Hc E). specialize (IH s' Ht).
    destruct (run step s' t) as [s'' o'] eqn:Er. simpl in *. lia.
  - apply IH; auto.
Qed.

Lemma measure_zero_quiescent : forall s, measure s = 0%nat -> quiescent s.
Proof.
  intros s Hm c Hi. destruct (step s c) as [[s' o]|] eqn:E; auto.
  pose proof (measure_step _ _ _ _ Hi E). lia.
Qed.

Theorem not_quiescent_few_steps : forall sched s, Forall (fun c => internal c = true) sched ->
  ~ quiescent (final step s sched) -> (executed s sched < measure s)%nat.
Proof.
  intros sched s HF Hq. pose proof (executed_measure sched s HF) as H.
  destruct (measure (final step s sched)) eqn:E; [|lia].
  exfalso. apply Hq. now apply measure_zero_quiescent.
Qed.

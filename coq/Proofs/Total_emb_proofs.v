(* Proofs about Model/Total_emb.v: T0x0200.Parse with an extension handler (0x64 0x65 0x67 0x70)
   installed through CustomAdditionContentFunc never panics, and what lies behind the body is never
   read: the result is the same for every tail. *)
From JT.Base Require Import Prelude PreludeP.
From JT.Model Require Import Location LocationExt Total_cap Total_cap2 Total_emb.
From JT.Proofs Require Import LocationStd Location_proofs LocationExt_proofs Total_cap_proofs Total_cap2_proofs.
From Coq Require Import ZArith ZifyN ZifyNat ZifyBool.
Ltac Zify.zify_post_hook ::= Z.div_mod_to_equations.
Local Open Scope N_scope.

Lemma decode_item_local id c ctail : contrast id (len c) = true -> decode_item_cap id c ctail = decode_item id c.
Proof.
  intros H. apply refines_eq. apply refines_item.
  destruct (decode_item_total id c H) as [v E]. rewrite E. discriminate.
Qed.

Lemma block_local body tail : block_parse_cap body tail = block_parse body.
Proof. apply refines_eq. apply refines_block. apply block_total. Qed.

(* one item: the tail plays no role, and there is no panic *)
Lemma decode_emb_canon kind e id c ctail : kind <> 102 -> contrast id (len c) = true ->
  decode_emb kind e id c ctail =
  match ext_parse kind e id c [] with
  | Ok e' => Ok (VNone, true, e')
  | Err _ => v <- decode_item id c ;; Ok (v, false, e)
  | Panic => Panic
  end.
Proof. intros Hk Hc. unfold decode_emb. rewrite ext_local by exact Hk. now rewrite decode_item_local. Qed.

Lemma decode_emb_total kind e id c ctail : kind <> 102 -> contrast id (len c) = true ->
  decode_emb kind e id c ctail <> Panic.
Proof.
  intros Hk Hc. rewrite decode_emb_canon by assumption.
  pose proof (ext_parse_total kind e id c [] (or_introl Hk)) as T.
  destruct (ext_parse kind e id c []); try congruence; try discriminate.
  destruct (decode_item_total id c Hc) as [v E]. rewrite E. discriminate.
Qed.

Lemma take_cap_in n l tail : n <= len l -> take_cap n l tail = Ok (firstn (N.to_nat n) l, skipn (N.to_nat n) l).
Proof. intros H. unfold take_cap. replace (n <=? len l) with true by lia. reflexivity. Qed.

Lemma walk_emb_local fuel kind : kind <> 102 -> forall e m body tail,
  adds_walk_emb fuel kind e m body tail = adds_walk_emb fuel kind e m body [] /\
  adds_walk_emb fuel kind e m body [] <> Panic.
Proof.
  intros Hk. induction fuel as [|f IH]; intros e m body tail; destruct body as [|id [|alen rest]];
    cbn [adds_walk_emb]; try (split; [reflexivity|discriminate]).
  destruct (contrast id alen) eqn:Hc; cbn [negb]; [|split; [reflexivity|discriminate]].
  destruct (len rest <? alen) eqn:Hl; [split; [reflexivity|discriminate]|].
  rewrite !take_cap_in by lia. cbn [bind fst snd].
  assert (Hc' : contrast id (len (firstn (N.to_nat alen) rest)) = true) by (rewrite len_firstn by lia; exact Hc).
  rewrite (decode_emb_canon kind e id _ (skipn (N.to_nat alen) rest ++ tail) Hk Hc').
  rewrite (decode_emb_canon kind e id _ (skipn (N.to_nat alen) rest ++ []) Hk Hc').
  pose proof (decode_emb_total kind e id _ [] Hk Hc') as T. rewrite (decode_emb_canon kind e id _ [] Hk Hc') in T.
  destruct (match ext_parse kind e id (firstn (N.to_nat alen) rest) [] with
            | Ok e' => Ok (VNone, true, e')
            | Err _ => v <- decode_item id (firstn (N.to_nat alen) rest) ;; Ok (v, false, e)
            | Panic => Panic end) as [r|err|]; cbn [bind]; try congruence.
  - apply IH.
  - split; [reflexivity|discriminate].
Qed.

Theorem t0200_emb_local kind e body tail : kind <> 102 ->
  t0200_emb kind e body tail = t0200_emb kind e body [] /\ t0200_emb kind e body tail <> Panic.
Proof.
  intros Hk.
  assert (A : forall tl, t0200_emb kind e body tl = t0200_emb kind e body [] /\ t0200_emb kind e body [] <> Panic).
  { intros tl. unfold t0200_emb. rewrite !block_local. pose proof (block_total body) as B.
    destruct (block_parse body) as [l|err|]; cbn [bind]; try congruence; [|split; [reflexivity|discriminate]].
    destruct (28 <? len body) eqn:L; [|split; [reflexivity|discriminate]].
    rewrite slice_from_ok by lia. cbn [bind].
    destruct (walk_emb_local (List.length (skipn (N.to_nat 28) body)) kind Hk e [] (skipn (N.to_nat 28) body) tl) as [E T].
    rewrite E. split. reflexivity.
    destruct (adds_walk_emb _ kind e [] (skipn (N.to_nat 28) body) []); cbn [bind]; congruence. }
  destruct (A tail) as [E T]. split. exact E. rewrite E. exact T.
Qed.

(* without the handler's cooperation nothing changes: an item the handler declines is decoded as
   Model/Location.v decodes it *)
Lemma decode_emb_declined kind e id c : kind <> 102 -> contrast id (len c) = true ->
  (exists err, ext_parse kind e id c [] = Err err) ->
  decode_emb kind e id c [] = (v <- decode_item id c ;; Ok (v, false, e)).
Proof. intros Hk Hc [err E]. rewrite decode_emb_canon by assumption. now rewrite E. Qed.

(* C07 — the helper laws (BCD phone numbers, fixed-width padding) and the witness of the recorded finding. *)
From JT.Base Require Import Prelude PreludeP Fmt.
From JT.Model Require Import Msg_simple.
From Coq Require Import ZArith ZifyN ZifyNat ZifyBool.
Ltac Zify.zify_post_hook ::= Z.div_mod_to_equations.

(* ---- String2FillingBytes *)
Lemma fill_spec s n :
  len (fill s n) = n /\
  (len s <= n -> no_trail0 s = true -> trim_right0 (fill s n) = s) /\
  (n <= len s -> fill s n = firstn (N.to_nat n) s).
Proof.
  split; [apply fill_len|]. split.
  - intros Hl Ht. rewrite fill_fits by exact Hl. now rewrite trim_right0_app_zeros, trim_right0_id.
  - intros Hl. unfold fill. replace (len s <? n) with false by lia. reflexivity.
Qed.

(* ---- Bcd2Dec and back *)
Lemma nibble_digit n : n < 10 -> nibble_char n = n + 48.
Proof. intros H. unfold nibble_char. replace (n <=? 9) with true by lia. reflexivity. Qed.

Lemma bcd_convert_chars b : forallb bcd_byte_ok b = true -> bcd_convert b = bcd_chars b.
Proof.
  induction b as [|v b IH]; intros H; [reflexivity|]. cbn [forallb] in H. apply andb_true_iff in H. destruct H as [Hv Hb].
  unfold bcd_convert, bcd_chars in *. cbn [flat_map]. rewrite IH by exact Hb.
  unfold bcd_byte_ok in Hv. rewrite !nibble_digit by lia. reflexivity.
Qed.

Lemma bcd_chars_length b : length (bcd_chars b) = (2 * length b)%nat.
Proof. induction b as [|v b IH]; [reflexivity|]. unfold bcd_chars in *. cbn [flat_map app length]. rewrite IH. lia. Qed.

Lemma strip0_length s : (length (strip0 s) <= length s)%nat.
Proof. induction s as [|c s IH]; cbn [strip0 length]; [lia|]. destruct (c =? 48); cbn [length]; lia. Qed.

Lemma strip0_pad s : repeat 48 (length s - length (strip0 s)) ++ strip0 s = s.
Proof.
  induction s as [|c s IH]; [reflexivity|]. cbn [strip0]. destruct (c =? 48) eqn:E.
  - apply N.eqb_eq in E. pose proof (strip0_length s).
    replace (length (c :: s) - length (strip0 s))%nat with (S (length s - length (strip0 s))) by (cbn [length]; lia).
    cbn [repeat app]. rewrite IH. now subst c.
  - rewrite Nat.sub_diag. reflexivity.
Qed.

Lemma pad_zeros_bcd2dec b : pad_zeros (2 * len b) (bcd2dec b) = bcd_convert b.
Proof.
  unfold pad_zeros, bcd2dec.
  assert (L : length (bcd_convert b) = (2 * length b)%nat).
  { unfold bcd_convert. induction b as [|v b IH]; [reflexivity|]. cbn [flat_map app length]. rewrite IH. lia. }
  pose proof (strip0_pad (bcd_convert b)) as P. pose proof (strip0_length (bcd_convert b)) as Q.
  destruct (strip0 (bcd_convert b)) as [|c t] eqn:E.
  - replace (N.to_nat (2 * len b - len (bcd_convert b))) with 0%nat by (unfold len; lia). reflexivity.
  - replace (N.to_nat (2 * len b - len (c :: t))) with (length (bcd_convert b) - length (c :: t))%nat
      by (unfold len; lia). exact P.
Qed.

Lemma bcd_chars_no_colon b : forallb bcd_byte_ok b = true -> existsb (N.eqb 58) (bcd_chars b) = false.
Proof.
  induction b as [|v b IH]; intros H; [reflexivity|]. cbn [forallb] in H. apply andb_true_iff in H. destruct H as [Hv Hb].
  unfold bcd_chars in *. cbn [flat_map app existsb]. rewrite IH by exact Hb.
  unfold bcd_byte_ok in Hv. replace (58 =? v / 16 + 48) with false by lia. replace (58 =? v mod 16 + 48) with false by lia.
  reflexivity.
Qed.

Lemma bcd_pairs_chars b : forallb bcd_byte_ok b = true -> bcd_pairs (bcd_chars b) = b.
Proof.
  induction b as [|v b IH]; intros H; [reflexivity|]. cbn [forallb] in H. apply andb_true_iff in H. destruct H as [Hv Hb].
  unfold bcd_chars in *. cbn [flat_map app bcd_pairs]. rewrite IH by exact Hb.
  destruct (byte_digits v Hv) as (_ & _ & E). now rewrite E.
Qed.

Lemma bcd_phone b : forallb bcd_byte_ok b = true -> time2bcd (pad_zeros (2 * len b) (bcd2dec b)) = b.
Proof.
  intros H. rewrite pad_zeros_bcd2dec, bcd_convert_chars by exact H.
  unfold time2bcd. rewrite bcd_chars_no_colon by exact H.
  replace (N.odd (len (bcd_chars b))) with false.
  - now apply bcd_pairs_chars.
  - unfold len. rewrite bcd_chars_length, Nat2N.inj_mul, N.odd_mul. reflexivity.
Qed.

(* ---- the recorded finding C07/sign-id-leading-nul: a 7-byte-dialect alarm sign whose terminal id is 00 41 *)
Definition leading_nul_witness : val :=
  VL [VN 0; VB []; VN 0; VN 0;
      VL [VB [0; 65]; VB [50;48;50;52;45;48;49;45;51;49;32;50;51;58;53;57;58;53;57]; VN 1; VN 2; VB [0]; VN 1];
      VB []; VB []].
Lemma sign_id_leading_nul : exists v,
  m_wf (m_9208_required 1) v = true /\ m_dec (m_9208 1) (m_enc (m_9208 1) v) <> Ok v.
Proof.
  exists leading_nul_witness. split; [vm_compute; reflexivity|]. vm_compute. intros E. discriminate E.
Qed.


(* C18 for any number of connections — proofs about Model/RaceN.v.
   Part GA  [gmon_sound]: the ownership monitor is sound over arbitrary name types (the proof of
            Race_proofs.mon_sound, with the three equality tests as section hypotheses).
   Part NS  simulation: if the one-connection monitor accepts an event from a local state, the global monitor
            accepts the renamed event from any global state that contains that local state as connection c,
            and the other connections' parts (and the shared registry location) are left as they were.
   Part NT  [nrace_free]: every schedule of N repaired connections is accepted, hence race free. *)
From Coq Require Import List Arith Bool Lia.
From JT.Base Require Import Sched.
From JT.Model Require Import Race RaceN.
From JT.Proofs Require Import Race_proofs.
Import ListNotations.

(* ================================================================ Part GA *)
Section GenericProofs.
  Variables T L K : Type.
  Variable teqb : T -> T -> bool.
  Variable leqb : L -> L -> bool.
  Variable keqb : K -> K -> bool.
  Hypothesis teqb_spec : forall a b, reflect (a = b) (teqb a b).
  Hypothesis leqb_spec : forall a b, reflect (a = b) (leqb a b).
  Hypothesis keqb_spec : forall a b, reflect (a = b) (keqb a b).

  Local Notation gvcs := (gvcs T L K).
  Local Notation gmon := (gmon T L K).
  Local Notation gev := (gev T L K).
  Local Notation gvc0 := (gvc0 T L K teqb).
  Local Notation gmon0 := (gmon0 T L K).
  Local Notation gupdt := (gupdt T teqb).
  Local Notation gupdk := (gupdk K keqb).
  Local Notation gupdl := (gupdl L leqb).
  Local Notation gvjoin := (gvjoin T).
  Local Notation gtick := (gtick T teqb).
  Local Notation gconflict := (gconflict T L teqb leqb).
  Local Notation gvc_step := (gvc_step T L K teqb leqb keqb).
  Local Notation gvc_run := (gvc_run T L K teqb leqb keqb).
  Local Notation graces := (graces T L K teqb leqb keqb).
  Local Notation gmem_loc := (gmem_loc L leqb).
  Local Notation gmem_tid := (gmem_tid T teqb).
  Local Notation gowned_by := (gowned_by T L K teqb).
  Local Notation gshareable := (gshareable T L K teqb).
  Local Notation gmon_step := (gmon_step T L K teqb leqb keqb).
  Local Notation gmon_run := (gmon_run T L K teqb leqb keqb).

  Lemma teqb_refl a : teqb a a = true. Proof. destruct (teqb_spec a a); congruence. Qed.
  Lemma leqb_refl a : leqb a a = true. Proof. destruct (leqb_spec a a); congruence. Qed.
  Lemma keqb_refl a : keqb a a = true. Proof. destruct (keqb_spec a a); congruence. Qed.

  Lemma gmem_loc_In l ls : gmem_loc l ls = true <-> In l ls.
  Proof.
    unfold RaceN.gmem_loc. rewrite existsb_exists. split.
    - intros [x [Hx E]]. destruct (leqb_spec l x); [subst; auto | discriminate].
    - intros H. exists l. split; [auto | apply leqb_refl].
  Qed.

  Lemma gmem_tid_In t ts : gmem_tid t ts = true <-> In t ts.
  Proof.
    unfold RaceN.gmem_tid. rewrite existsb_exists. split.
    - intros [x [Hx E]]. destruct (teqb_spec t x); [subst; auto | discriminate].
    - intros H. exists t. split; [auto | apply teqb_refl].
  Qed.

  Definition GInv (s : gvcs) (m : gmon) : Prop :=
    (forall a, In a (ghist s) ->
       match gown m (ga_loc a) with
       | GFresh => False
       | GThread t => ga_ep a <= gclk s t (ga_tid a)
       | GToken k => exists v, gtkv s k = Some v /\ ga_ep a <= v (ga_tid a)
       | GShared ts => ga_w a = true -> forall t, In t ts -> ga_ep a <= gclk s t (ga_tid a)
       end)
    /\ (forall l k, gown m l = GToken k -> gsent m k = true).

  Lemma GInv0 : GInv gvc0 gmon0.
  Proof. split; [intros a [] | intros l k H; discriminate]. Qed.

  Lemma gupdt_same {A} (f : T -> A) t a : gupdt f t a t = a.
  Proof. unfold RaceN.gupdt. now rewrite teqb_refl. Qed.
  Lemma gupdt_other {A} (f : T -> A) t a x : x <> t -> gupdt f t a x = f x.
  Proof. unfold RaceN.gupdt. destruct (teqb_spec x t); congruence. Qed.

  Lemma gtick_ge t v x : v x <= gtick t v x.
  Proof. unfold RaceN.gtick, RaceN.gupdt. destruct (teqb_spec x t); subst; lia. Qed.
  Lemma gvjoin_ge_l a b x : a x <= gvjoin a b x. Proof. unfold RaceN.gvjoin; lia. Qed.
  Lemma gvjoin_ge_r a b x : b x <= gvjoin a b x. Proof. unfold RaceN.gvjoin; lia. Qed.

  (* every goroutine's clock only grows *)
  Lemma gclk_mono s e t x : gclk s t x <= gclk (fst (gvc_step s e)) t x.
  Proof.
    destruct e as [t0 l w|t0 k g|t0 k|t0 u g sh]; cbn [RaceN.gvc_step fst gclk].
    - lia.
    - unfold RaceN.gupdt. destruct (teqb_spec t t0); subst; [apply gtick_ge | lia].
    - destruct (gtkv s k) as [v|]; cbn [fst gclk]; [|lia].
      unfold RaceN.gupdt. destruct (teqb_spec t t0); subst; [apply gvjoin_ge_l | lia].
    - unfold RaceN.gupdt. destruct (teqb_spec t t0); subst; [apply gtick_ge|].
      destruct (teqb_spec t u); subst; [apply gvjoin_ge_l | lia].
  Qed.

  Lemma gforallb_In {A} (f : A -> bool) l x : forallb f l = true -> In x l -> f x = true.
  Proof. rewrite forallb_forall. auto. Qed.

  Lemma gowned_by_eq m t l : gowned_by m t l = true -> gown m l = GThread t.
  Proof.
    unfold RaceN.gowned_by. destruct (gown m l) as [|t'|k|ts]; try discriminate.
    destruct (teqb_spec t' t); [now subst | discriminate].
  Qed.

  Lemma gfilter_nil {A} (f : A -> bool) l : (forall x, In x l -> f x = false) -> filter f l = [].
  Proof.
    induction l as [|a l IH]; intros H; cbn; [reflexivity|].
    rewrite (H a (or_introl eq_refl)). apply IH. intros x Hx. apply H. now right.
  Qed.

  Lemma gmon_step_sound s m e m' :
    GInv s m -> gmon_step m e = Some m' ->
    snd (gvc_step s e) = [] /\ GInv (fst (gvc_step s e)) m'.
  Proof.
    intros [I1 I2] Hm.
    destruct e as [t l w|t k give|t k|t u give share].
    - (* access *)
      cbn [RaceN.gmon_step] in Hm. cbn [RaceN.gvc_step fst snd].
      destruct (gown m l) as [|t'|k|ts] eqn:Eo.
      + (* first touch *)
        injection Hm as <-. split.
        * rewrite gfilter_nil; [reflexivity|]. intros a Ha. unfold RaceN.gconflict.
          destruct (leqb_spec (ga_loc a) l) as [El|]; [|reflexivity].
          specialize (I1 a Ha). rewrite El, Eo in I1. destruct I1.
        * split; cbn [ghist gown gclk gtkv gsent].
          -- intros a [<-|Ha]; cbn [ga_loc ga_tid ga_ep].
             ++ unfold RaceN.gupdl. rewrite leqb_refl. lia.
             ++ specialize (I1 a Ha). unfold RaceN.gupdl. destruct (leqb_spec (ga_loc a) l) as [El|]; [|exact I1].
                rewrite El, Eo in I1. destruct I1.
          -- intros l0 k. unfold RaceN.gupdl. destruct (leqb_spec l0 l); [discriminate | apply I2].
      + (* the owner *)
        destruct (teqb_spec t' t) as [->|]; [|discriminate]. injection Hm as <-. split.
        * rewrite gfilter_nil; [reflexivity|]. intros a Ha. unfold RaceN.gconflict.
          destruct (leqb_spec (ga_loc a) l) as [El|]; [|reflexivity].
          specialize (I1 a Ha). rewrite El, Eo in I1.
          destruct (teqb (ga_tid a) t); cbn [negb andb]; [reflexivity|].
          destruct (w || ga_w a); cbn [andb]; [|reflexivity].
          apply Nat.leb_le in I1. now rewrite I1.
        * split; cbn [ghist gown gclk gtkv gsent]; [|exact I2].
          intros a [<-|Ha]; cbn [ga_loc ga_tid ga_ep]; [rewrite Eo; lia | exact (I1 a Ha)].
      + discriminate.
      + (* shared, read only *)
        destruct w; cbn [negb andb] in Hm; [discriminate|].
        destruct (gmem_tid t ts) eqn:Et; [|discriminate]. injection Hm as <-.
        apply gmem_tid_In in Et. split.
        * rewrite gfilter_nil; [reflexivity|]. intros a Ha. unfold RaceN.gconflict.
          destruct (leqb_spec (ga_loc a) l) as [El|]; [|reflexivity].
          specialize (I1 a Ha). rewrite El, Eo in I1.
          destruct (teqb (ga_tid a) t); cbn [negb andb]; [reflexivity|].
          cbn [orb]. destruct (ga_w a); cbn [andb]; [|reflexivity].
          specialize (I1 eq_refl t Et). apply Nat.leb_le in I1. now rewrite I1.
        * split; cbn [ghist gown gclk gtkv gsent]; [|exact I2].
          intros a [<-|Ha]; cbn [ga_loc ga_tid ga_ep ga_w]; [rewrite Eo; discriminate | exact (I1 a Ha)].
    - (* send *)
      cbn [RaceN.gmon_step] in Hm. destruct (gsent m k) eqn:Es; [discriminate|].
      destruct (forallb (gowned_by m t) give) eqn:Eg; [|discriminate]. injection Hm as <-.
      split; [reflexivity|]. cbn [RaceN.gvc_step fst]. split; cbn [ghist gown gclk gtkv gsent].
      + intros a Ha. specialize (I1 a Ha).
        destruct (gmem_loc (ga_loc a) give) eqn:Em.
        * apply gmem_loc_In in Em. apply (gforallb_In _ _ _ Eg), gowned_by_eq in Em. rewrite Em in I1.
          exists (gclk s t). split; [unfold RaceN.gupdk; now rewrite keqb_refl | exact I1].
        * destruct (gown m (ga_loc a)) as [|t0|k0|ts] eqn:Eo; [exact I1| | |].
          -- unfold RaceN.gupdt. destruct (teqb_spec t0 t); subst; [etransitivity; [exact I1 | apply gtick_ge] | exact I1].
          -- assert (k0 <> k) by (intros ->; rewrite (I2 _ _ Eo) in Es; discriminate).
             unfold RaceN.gupdk. destruct (keqb_spec k0 k); [contradiction | exact I1].
          -- intros Hw t0 Ht0. specialize (I1 Hw t0 Ht0).
             unfold RaceN.gupdt. destruct (teqb_spec t0 t); subst; [etransitivity; [exact I1 | apply gtick_ge] | exact I1].
      + intros l k0. destruct (gmem_loc l give).
        * intros [= <-]. unfold RaceN.gupdk. now rewrite keqb_refl.
        * intros H. unfold RaceN.gupdk. destruct (keqb k0 k); [reflexivity | exact (I2 _ _ H)].
    - (* receive *)
      cbn [RaceN.gmon_step] in Hm. injection Hm as <-. cbn [RaceN.gvc_step].
      assert (Hmono : forall t0 x, gclk s t0 x <= gclk (fst (gvc_step s (GRecv t k))) t0 x) by (intros; apply gclk_mono).
      cbn [RaceN.gvc_step] in Hmono.
      destruct (gtkv s k) as [v|] eqn:Ek; cbn [fst snd] in *; (split; [reflexivity|]); split; cbn [ghist gown gclk gtkv gsent].
      + intros a Ha. specialize (I1 a Ha).
        destruct (gown m (ga_loc a)) as [|t0|k0|ts] eqn:Eo; [exact I1| | |].
        * etransitivity; [exact I1 | apply Hmono].
        * destruct (keqb_spec k0 k) as [->|].
          -- destruct I1 as [v' [Ev' Hle]]. rewrite Ek in Ev'. injection Ev' as <-.
             rewrite gupdt_same. etransitivity; [exact Hle | apply gvjoin_ge_r].
          -- exact I1.
        * intros Hw t0 Ht0. etransitivity; [exact (I1 Hw t0 Ht0) | apply Hmono].
      + intros l k0. destruct (gown m l) as [|t0|k1|ts] eqn:Eo; try discriminate.
        destruct (keqb_spec k1 k); [discriminate|]. intros [= <-]. exact (I2 _ _ Eo).
      + intros a Ha. specialize (I1 a Ha).
        destruct (gown m (ga_loc a)) as [|t0|k0|ts] eqn:Eo; [exact I1|exact I1| |exact I1].
        destruct (keqb_spec k0 k) as [->|]; [|exact I1].
        destruct I1 as [v' [Ev' _]]. rewrite Ek in Ev'. discriminate.
      + intros l k0. destruct (gown m l) as [|t0|k1|ts] eqn:Eo; try discriminate.
        destruct (keqb_spec k1 k); [discriminate|]. intros [= <-]. exact (I2 _ _ Eo).
    - (* go *)
      cbn [RaceN.gmon_step] in Hm. destruct (teqb_spec t u) as [|Htu]; [discriminate|].
      destruct (forallb (gowned_by m t) give) eqn:Eg; cbn [andb] in Hm; [|discriminate].
      destruct (forallb (gshareable m t) share) eqn:Esh; [|discriminate]. injection Hm as <-.
      split; [reflexivity|].
      assert (Hmono : forall t0 x, gclk s t0 x <= gclk (fst (gvc_step s (GFork t u give share))) t0 x) by (intros; apply gclk_mono).
      cbn [RaceN.gvc_step fst] in *. cbn [gclk] in Hmono.
      assert (Hu : forall x, gclk s t x <= gupdt (gupdt (gclk s) u (gvjoin (gclk s u) (gclk s t))) t (gtick t (gclk s t)) u x).
      { intros x. rewrite gupdt_other by congruence. rewrite gupdt_same. apply gvjoin_ge_r. }
      split; cbn [ghist gown gclk gtkv gsent].
      + intros a Ha. specialize (I1 a Ha).
        destruct (gmem_loc (ga_loc a) give) eqn:Em.
        * apply gmem_loc_In in Em. apply (gforallb_In _ _ _ Eg), gowned_by_eq in Em. rewrite Em in I1.
          etransitivity; [exact I1 | apply Hu].
        * destruct (gmem_loc (ga_loc a) share) eqn:Ems.
          -- apply gmem_loc_In in Ems. pose proof (gforallb_In _ _ _ Esh Ems) as Hs. unfold RaceN.gshareable in Hs.
             destruct (gown m (ga_loc a)) as [|t0|k0|ts] eqn:Eo; try discriminate.
             ++ destruct (teqb_spec t0 t) as [->|]; [|discriminate].
                intros Hw t1 [<-|[<-|[]]].
                ** etransitivity; [exact I1 | apply Hu].
                ** etransitivity; [exact I1 | apply Hmono].
             ++ apply gmem_tid_In in Hs. intros Hw t1 [<-|Ht1].
                ** etransitivity; [exact (I1 Hw t Hs) | apply Hu].
                ** etransitivity; [exact (I1 Hw t1 Ht1) | apply Hmono].
          -- destruct (gown m (ga_loc a)) as [|t0|k0|ts] eqn:Eo; [exact I1| |exact I1|].
             ++ etransitivity; [exact I1 | apply Hmono].
             ++ intros Hw t1 Ht1. etransitivity; [exact (I1 Hw t1 Ht1) | apply Hmono].
      + intros l k0. destruct (gmem_loc l give); [discriminate|].
        destruct (gmem_loc l share); [|apply I2].
        destruct (gown m l) as [|t0|k1|ts] eqn:Eo; try discriminate. intros [= <-]. exact (I2 _ _ Eo).
  Qed.

  Lemma gmon_run_sound : forall tr s m m', GInv s m -> gmon_run m tr = Some m' -> gvc_run s tr = [].
  Proof.
    induction tr as [|e tr IH]; intros s m m' HI Hr; cbn [RaceN.gvc_run]; [reflexivity|].
    cbn [RaceN.gmon_run] in Hr. destruct (gmon_step m e) as [m1|] eqn:E1; [|discriminate].
    destruct (gmon_step_sound s m e m1 HI E1) as [Hn HI1].
    destruct (gvc_step s e) as [s1 r]. cbn [fst snd] in *. subst r. cbn [app].
    exact (IH s1 m1 m' HI1 Hr).
  Qed.

  (* an execution that respects the ownership discipline has no data race *)
  Theorem gmon_sound : forall tr m', gmon_run gmon0 tr = Some m' -> graces tr = [].
  Proof. intros tr m' H. exact (gmon_run_sound tr gvc0 gmon0 m' GInv0 H). Qed.

End GenericProofs.

(* ================================================================ Part NS: names and simulation *)
Lemma ntid_eqb_spec a b : reflect (a = b) (ntid_eqb a b).
Proof.
  destruct a as [| |c t], b as [| |d u]; cbn; try (constructor; congruence).
  destruct (Nat.eqb_spec c d); cbn; [|constructor; congruence].
  destruct (tid_eqb_spec t u); constructor; congruence.
Qed.

Lemma nloc_eqb_spec a b : reflect (a = b) (nloc_eqb a b).
Proof.
  destruct a as [|c l], b as [|d l']; cbn; try (constructor; congruence).
  destruct (Nat.eqb_spec c d); cbn; [|constructor; congruence].
  destruct (loc_eqb_spec l l'); constructor; congruence.
Qed.

Lemma ntok_eqb_spec a b : reflect (a = b) (ntok_eqb a b).
Proof.
  destruct a as [c k], b as [d k']; cbn.
  destruct (Nat.eqb_spec c d); cbn; [|constructor; congruence].
  destruct (tok_eqb_spec k k'); constructor; congruence.
Qed.

Notation nmon := (gmon ntid nloc ntok).
Notation nmon_step := (gmon_step ntid nloc ntok ntid_eqb nloc_eqb ntok_eqb).
Notation nmon_run := (gmon_run ntid nloc ntok ntid_eqb nloc_eqb ntok_eqb).
Notation nmem_loc := (gmem_loc nloc nloc_eqb).
Notation nmem_tid := (gmem_tid ntid ntid_eqb).

Lemma tagt_eqb c t u : ntid_eqb (tagt c t) (tagt c u) = tid_eqb t u.
Proof. destruct t, u; cbn; rewrite ?Nat.eqb_refl; reflexivity. Qed.

Lemma tagl_eqb c l l' : l <> LRegistry -> l' <> LRegistry -> nloc_eqb (tagl c l) (tagl c l') = loc_eqb l l'.
Proof. intros H H'. destruct l, l'; cbn; rewrite ?Nat.eqb_refl; try reflexivity; congruence. Qed.

Lemma tagl_NL c l : l <> LRegistry -> tagl c l = NL c l.
Proof. destruct l; cbn; congruence. Qed.

Lemma nmem_tid_map c t ts : nmem_tid (tagt c t) (map (tagt c) ts) = mem_tid t ts.
Proof.
  unfold gmem_tid, mem_tid. induction ts as [|a ts IH]; cbn; [reflexivity|]. now rewrite tagt_eqb, IH.
Qed.

Lemma nmem_loc_map c l g : l <> LRegistry -> ~ In LRegistry g -> nmem_loc (NL c l) (map (tagl c) g) = mem_loc l g.
Proof.
  intros Hl. unfold gmem_loc, mem_loc. rewrite <- (tagl_NL c l Hl).
  induction g as [|a g IH]; cbn [map existsb]; intros Hg; [reflexivity|].
  assert (Ha : a <> LRegistry) by (intros ->; apply Hg; now left).
  rewrite IH by (intros H; apply Hg; now right).
  rewrite tagl_eqb by assumption. reflexivity.
Qed.

Lemma nmem_loc_other c d l g : d <> c -> nmem_loc (NL d l) (map (tagl c) g) = false.
Proof.
  intros Hd. unfold gmem_loc. induction g as [|a g IH]; cbn; [reflexivity|]. rewrite IH, orb_false_r.
  destruct a; cbn; try reflexivity; apply Nat.eqb_neq in Hd; now rewrite Hd.
Qed.

Lemma nmem_loc_reg c g : ~ In LRegistry g -> nmem_loc NReg (map (tagl c) g) = false.
Proof.
  unfold gmem_loc. induction g as [|a g IH]; cbn; intros Hg; [reflexivity|].
  rewrite IH by (intros H; apply Hg; now right). rewrite orb_false_r.
  destruct a; cbn; try reflexivity. exfalso. apply Hg. now left.
Qed.

Definition tag_owner (c : nat) (o : owner) : gowner ntid ntok :=
  match o with
  | OFresh => GFresh
  | OThread t => GThread (tagt c t)
  | OToken k => GToken (tagk c k)
  | OShared ts => GShared (map (tagt c) ts)
  end.

(* the global monitor state m contains the one-connection monitor state mc as connection c *)
Record Rc (c : nat) (m : nmon) (mc : mon) : Prop := {
  r_own : forall l, l <> LRegistry -> gown m (NL c l) = tag_owner c (own mc l);
  r_reg : own mc LRegistry = OFresh \/ own mc LRegistry = OThread TMgr;
  r_sent : forall k, gsent m (NK c k) = sent mc k;
}.

(* THE registry location: the manager goroutine's, from its first access on *)
Definition RegOK (m : nmon) (mcs : nat -> mon) : Prop :=
  gown m NReg = GThread NMgr \/ (gown m NReg = GFresh /\ forall c, own (mcs c) LRegistry = OFresh).

(* what every event of the one-connection model satisfies: the registry is the manager's and never travels *)
Definition ev_okb (e : ev) : bool :=
  match e with
  | EAcc t l _ => negb (loc_eqb l LRegistry) || tid_eqb t TMgr
  | ESend _ _ g => negb (mem_loc LRegistry g)
  | ERecv _ _ => true
  | EFork _ _ g sh => negb (mem_loc LRegistry g) && negb (mem_loc LRegistry sh)
  end.

Lemma not_mem_reg g : mem_loc LRegistry g = false -> ~ In LRegistry g.
Proof. intros H Hin. apply mem_loc_In in Hin. congruence. Qed.

Definition upd_mc (mcs : nat -> mon) (c : nat) (mc' : mon) : nat -> mon := fun d => if Nat.eqb d c then mc' else mcs d.

Notation nowned_by := (gowned_by ntid nloc ntok ntid_eqb).
Notation nshareable := (gshareable ntid nloc ntok ntid_eqb).

Lemma owned_map c m mc t g : Rc c m mc -> ~ In LRegistry g ->
  forallb (owned_by mc t) g = true -> forallb (nowned_by m (tagt c t)) (map (tagl c) g) = true.
Proof.
  intros HR. induction g as [|a g IH]; cbn [map forallb]; intros Hg H; [reflexivity|].
  apply andb_prop in H. destruct H as [Ha Hr].
  assert (Hna : a <> LRegistry) by (intros ->; apply Hg; now left).
  rewrite IH by (auto; intros X; apply Hg; now right). rewrite andb_true_r.
  apply owned_by_eq in Ha. unfold gowned_by. rewrite (tagl_NL c a Hna), (r_own _ _ _ HR a Hna), Ha. cbn [tag_owner].
  rewrite tagt_eqb. apply tid_eqb_refl.
Qed.

Lemma shareable_map c m mc t g : Rc c m mc -> ~ In LRegistry g ->
  forallb (shareable mc t) g = true -> forallb (nshareable m (tagt c t)) (map (tagl c) g) = true.
Proof.
  intros HR. induction g as [|a g IH]; cbn [map forallb]; intros Hg H; [reflexivity|].
  apply andb_prop in H. destruct H as [Ha Hr].
  assert (Hna : a <> LRegistry) by (intros ->; apply Hg; now left).
  rewrite IH by (auto; intros X; apply Hg; now right). rewrite andb_true_r.
  unfold shareable in Ha. unfold gshareable. rewrite (tagl_NL c a Hna), (r_own _ _ _ HR a Hna).
  destruct (own mc a) as [|t'|k|ts]; try discriminate; cbn [tag_owner].
  - rewrite tagt_eqb. exact Ha.
  - rewrite nmem_tid_map. exact Ha.
Qed.

Lemma Rc_same c m mcs : (forall d, Rc d m (mcs d)) -> forall d, Rc d m (upd_mc mcs c (mcs c) d).
Proof. intros H d. unfold upd_mc. destruct (Nat.eqb_spec d c) as [->|]; apply H. Qed.

Lemma RegOK_same c m mcs : RegOK m mcs -> RegOK m (upd_mc mcs c (mcs c)).
Proof.
  intros [H|[H1 H2]]; [left; exact H | right; split; [exact H1|]].
  intros d. unfold upd_mc. destruct (Nat.eqb_spec d c) as [->|]; apply H2.
Qed.

Lemma sim_step c mcs m e mc' :
  (forall d, Rc d m (mcs d)) -> RegOK m mcs -> ev_okb e = true ->
  mon_step (mcs c) e = Some mc' ->
  exists m', nmon_step m (tage c e) = Some m' /\
             (forall d, Rc d m' (upd_mc mcs c mc' d)) /\ RegOK m' (upd_mc mcs c mc').
Proof.
  intros HR HG Hok Hm. pose proof (HR c) as HRc.
  destruct e as [t l w|t k g|t k|t u g sh]; cbn [mon_step tage ev_okb] in *.
  - (* access *)
    destruct (loc_eqb_spec l LRegistry) as [->|Hl].
    + (* the registry: the manager's *)
      cbn [negb orb] in Hok. destruct (tid_eqb_spec t TMgr) as [->|]; [|discriminate]. cbn [tagt tagl gmon_step].
      assert (Hcases : (own (mcs c) LRegistry = OFresh /\ mc' = {| own := updl (own (mcs c)) LRegistry (OThread TMgr); sent := sent (mcs c) |})
                       \/ (own (mcs c) LRegistry = OThread TMgr /\ mc' = mcs c)).
      { destruct (r_reg _ _ _ HRc) as [E|E]; rewrite E in Hm; [left | right]; split; auto; try congruence.
        cbn [tid_eqb] in Hm. congruence. }
      assert (Hloc : forall d, Rc d m (upd_mc mcs c mc' d)).
      { intros d. unfold upd_mc. destruct (Nat.eqb_spec d c) as [->|]; [|apply HR].
        destruct Hcases as [[E ->]|[E ->]]; [|exact HRc].
        constructor; cbn [own sent].
        - intros l0 Hl0. unfold updl. destruct (loc_eqb_spec l0 LRegistry); [contradiction|]. apply (r_own _ _ _ HRc l0 Hl0).
        - right. unfold updl. now rewrite loc_eqb_refl.
        - apply (r_sent _ _ _ HRc). }
      destruct HG as [HG|[HG1 HG2]].
      * rewrite HG. cbn [ntid_eqb]. exists m. split; [reflexivity|]. split; [exact Hloc | left; exact HG].
      * rewrite HG1. eexists. split; [reflexivity|]. split.
        -- intros d. destruct (Hloc d) as [Ho Hr Hs]. constructor; cbn [gown gsent]; auto.
        -- left. cbn [gown]. unfold gupdl. cbn [nloc_eqb]. reflexivity.
    + (* a location of connection c *)
      rewrite (tagl_NL c l Hl). cbn [gmon_step]. rewrite (r_own _ _ _ HRc l Hl).
      destruct (own (mcs c) l) as [|t'|k|ts] eqn:Eo; cbn [tag_owner].
      * (* first touch *)
        injection Hm as <-. eexists. split; [reflexivity|]. split.
        -- intros d. unfold upd_mc. destruct (Nat.eqb_spec d c) as [->|Hd].
           ++ constructor; cbn [gown gsent own sent].
              ** intros l0 Hl0. unfold gupdl, updl. cbn [nloc_eqb]. rewrite Nat.eqb_refl. cbn [andb].
                 destruct (loc_eqb l0 l); [reflexivity | apply (r_own _ _ _ HRc l0 Hl0)].
              ** unfold updl. destruct (loc_eqb_spec LRegistry l); [congruence | apply (r_reg _ _ _ HRc)].
              ** apply (r_sent _ _ _ HRc).
           ++ destruct (HR d) as [Ho Hr Hs]. constructor; cbn [gown gsent]; auto.
              intros l0 Hl0. unfold gupdl. cbn [nloc_eqb]. apply Nat.eqb_neq in Hd. rewrite Hd. cbn [andb]. apply Ho. exact Hl0.
        -- destruct HG as [HG|[HG1 HG2]]; [left | right]; cbn [gown]; unfold gupdl; cbn [nloc_eqb]; auto.
           split; [exact HG1|]. intros d. unfold upd_mc. destruct (Nat.eqb_spec d c) as [->|]; [|apply HG2].
           cbn [own]. unfold updl. destruct (loc_eqb_spec LRegistry l); [congruence | apply HG2].
      * rewrite tagt_eqb. destruct (tid_eqb t' t); [|discriminate]. injection Hm as <-.
        exists m. split; [reflexivity|]. split; [apply Rc_same; exact HR | apply RegOK_same; exact HG].
      * discriminate.
      * rewrite nmem_tid_map. destruct (negb w && mem_tid t ts); [|discriminate]. injection Hm as <-.
        exists m. split; [reflexivity|]. split; [apply Rc_same; exact HR | apply RegOK_same; exact HG].
  - (* send *)
    apply negb_true_iff in Hok. pose proof (not_mem_reg g Hok) as Hg.
    destruct (sent (mcs c) k) eqn:Es; [discriminate|].
    destruct (forallb (owned_by (mcs c) t) g) eqn:Eg; [|discriminate]. injection Hm as <-.
    cbn [gmon_step]. unfold tagk. rewrite (r_sent _ _ _ HRc k), Es, (owned_map c m (mcs c) t g HRc Hg Eg).
    eexists. split; [reflexivity|]. split.
    + intros d. unfold upd_mc. destruct (Nat.eqb_spec d c) as [->|Hd].
      * constructor; cbn [gown gsent own sent].
        -- intros l0 Hl0. rewrite (nmem_loc_map c l0 g Hl0 Hg).
           destruct (mem_loc l0 g); [reflexivity | apply (r_own _ _ _ HRc l0 Hl0)].
        -- rewrite Hok. apply (r_reg _ _ _ HRc).
        -- intros k0. unfold gupdk, updk. cbn [ntok_eqb]. rewrite Nat.eqb_refl. cbn [andb].
           destruct (tok_eqb k0 k); [reflexivity | apply (r_sent _ _ _ HRc)].
      * destruct (HR d) as [Ho Hr Hs]. constructor; cbn [gown gsent]; auto.
        -- intros l0 Hl0. rewrite (nmem_loc_other c d l0 g Hd). apply Ho. exact Hl0.
        -- intros k0. unfold gupdk. cbn [ntok_eqb]. apply Nat.eqb_neq in Hd. rewrite Hd. cbn [andb]. apply Hs.
    + destruct HG as [HG|[HG1 HG2]]; [left | right]; cbn [gown]; rewrite (nmem_loc_reg c g Hg); auto.
      split; [exact HG1|]. intros d. unfold upd_mc. destruct (Nat.eqb_spec d c) as [->|]; [|apply HG2].
      cbn [own]. rewrite Hok. apply HG2.
  - (* receive *)
    injection Hm as <-. cbn [gmon_step]. unfold tagk. eexists. split; [reflexivity|]. split.
    + intros d. unfold upd_mc. destruct (Nat.eqb_spec d c) as [->|Hd].
      * constructor; cbn [gown gsent own sent].
        -- intros l0 Hl0. rewrite (r_own _ _ _ HRc l0 Hl0).
           destruct (own (mcs c) l0) as [|t'|k0|ts]; cbn [tag_owner]; unfold tagk; try reflexivity.
           cbn [ntok_eqb]. rewrite Nat.eqb_refl. cbn [andb]. destruct (tok_eqb k0 k); reflexivity.
        -- destruct (r_reg _ _ _ HRc) as [E|E]; rewrite E; auto.
        -- apply (r_sent _ _ _ HRc).
      * destruct (HR d) as [Ho Hr Hs]. constructor; cbn [gown gsent]; auto.
        intros l0 Hl0. rewrite (Ho l0 Hl0).
        destruct (own (mcs d) l0) as [|t'|k0|ts]; cbn [tag_owner]; unfold tagk; try reflexivity.
        cbn [ntok_eqb]. apply Nat.eqb_neq in Hd. rewrite Hd. reflexivity.
    + destruct HG as [HG|[HG1 HG2]]; [left | right]; cbn [gown].
      * rewrite HG. reflexivity.
      * rewrite HG1. split; [reflexivity|]. intros d. unfold upd_mc. destruct (Nat.eqb_spec d c) as [->|]; [|apply HG2].
        cbn [own]. rewrite (HG2 c). reflexivity.
  - (* go *)
    apply andb_prop in Hok. destruct Hok as [Hok1 Hok2]. apply negb_true_iff in Hok1, Hok2.
    pose proof (not_mem_reg g Hok1) as Hg. pose proof (not_mem_reg sh Hok2) as Hsh.
    destruct (tid_eqb t u) eqn:Etu; [discriminate|].
    destruct (forallb (owned_by (mcs c) t) g) eqn:Eg; cbn [andb] in Hm; [|discriminate].
    destruct (forallb (shareable (mcs c) t) sh) eqn:Es; [|discriminate]. injection Hm as <-.
    cbn [gmon_step]. rewrite tagt_eqb, Etu, (owned_map c m (mcs c) t g HRc Hg Eg), (shareable_map c m (mcs c) t sh HRc Hsh Es).
    cbn [andb]. eexists. split; [reflexivity|]. split.
    + intros d. unfold upd_mc. destruct (Nat.eqb_spec d c) as [->|Hd].
      * constructor; cbn [gown gsent own sent].
        -- intros l0 Hl0. rewrite (nmem_loc_map c l0 g Hl0 Hg), (nmem_loc_map c l0 sh Hl0 Hsh), (r_own _ _ _ HRc l0 Hl0).
           destruct (mem_loc l0 g); [reflexivity|]. destruct (mem_loc l0 sh); [|reflexivity].
           destruct (own (mcs c) l0); reflexivity.
        -- rewrite Hok1, Hok2. apply (r_reg _ _ _ HRc).
        -- apply (r_sent _ _ _ HRc).
      * destruct (HR d) as [Ho Hr Hs]. constructor; cbn [gown gsent]; auto.
        intros l0 Hl0. rewrite (nmem_loc_other c d l0 g Hd), (nmem_loc_other c d l0 sh Hd). apply Ho. exact Hl0.
    + destruct HG as [HG|[HG1 HG2]]; [left | right]; cbn [gown];
        rewrite (nmem_loc_reg c g Hg), (nmem_loc_reg c sh Hsh); auto.
      split; [exact HG1|]. intros d. unfold upd_mc. destruct (Nat.eqb_spec d c) as [->|]; [|apply HG2].
      cbn [own]. rewrite Hok1, Hok2. apply HG2.
Qed.

(* ================================================================ Part NT: N connections *)
Lemma nmon_run_app : forall a b m,
  nmon_run m (a ++ b) = match nmon_run m a with Some m1 => nmon_run m1 b | None => None end.
Proof.
  induction a as [|e a IH]; intros b m; cbn [app gmon_run]; [reflexivity|].
  destruct (nmon_step m e); [apply IH | reflexivity].
Qed.

Lemma upd_mc_same mcs c mc : upd_mc mcs c mc c = mc.
Proof. unfold upd_mc. now rewrite Nat.eqb_refl. Qed.

Lemma sim_run c : forall evs mcs m mc',
  (forall d, Rc d m (mcs d)) -> RegOK m mcs -> forallb ev_okb evs = true ->
  mon_run (mcs c) evs = Some mc' ->
  exists m', nmon_run m (map (tage c) evs) = Some m' /\
             (forall d, Rc d m' (upd_mc mcs c mc' d)) /\ RegOK m' (upd_mc mcs c mc').
Proof.
  induction evs as [|e evs IH]; intros mcs m mc' HR HG Hok Hr; cbn [mon_run map gmon_run forallb] in *.
  - injection Hr as <-. exists m. split; [reflexivity|]. split; [apply Rc_same; exact HR | apply RegOK_same; exact HG].
  - apply andb_prop in Hok. destruct Hok as [Hok1 Hok2].
    destruct (mon_step (mcs c) e) as [mc1|] eqn:E1; [|discriminate].
    destruct (sim_step c mcs m e mc1 HR HG Hok1 E1) as [m1 [Hs1 [HR1 HG1]]]. rewrite Hs1.
    assert (Hr' : mon_run (upd_mc mcs c mc1 c) evs = Some mc') by (rewrite upd_mc_same; exact Hr).
    destruct (IH (upd_mc mcs c mc1) m1 mc' HR1 HG1 Hok2 Hr') as [m' [Hrun [HR' HG']]].
    exists m'. split; [exact Hrun|].
    assert (Hpt : forall d, upd_mc (upd_mc mcs c mc1) c mc' d = upd_mc mcs c mc' d).
    { intros d. unfold upd_mc. destruct (Nat.eqb d c); reflexivity. }
    split.
    + intros d. rewrite <- Hpt. apply HR'.
    + destruct HG' as [H|[H1 H2]]; [left; exact H | right; split; [exact H1|]].
      intros d. rewrite <- Hpt. apply H2.
Qed.

(* the registry is the manager's and never travels: every event of every step of the one-connection model *)
Lemma crepl_not_reg s m i l : J s m -> cst s i = CRepl l -> l <> LRegistry.
Proof.
  intros HJ E ->. pose proof (j_cmd _ _ HJ i) as Hc. unfold cmd_ok in Hc. rewrite E in Hc.
  pose proof (j_own _ _ HJ LRegistry) as Ho. cbn in Ho. congruence.
Qed.

Lemma step_ev_ok s m c s' evs : J s m -> step repaired s c = Some (s', evs) -> forallb ev_okb evs = true.
Proof.
  intros HJ H. pose proof (j_hdr _ _ HJ) as Hh.
  destruct c; cbn [step repaired v_share_header v_clear_handles v_log_serial v_alias_buf v_share_merged] in H;
    repeat match type of H with
           | context [if ?b then _ else _] => destruct b
           | context [match ?x with _ => _ end] => destruct x eqn:?
           end;
    try discriminate; injection H as <- <-; rewrite ?Hh; try reflexivity.
  (* CRet: the answer object is not the registry *)
  match goal with E : cst s ?i = CRepl ?l |- _ => pose proof (crepl_not_reg s m i l HJ E) as Hl end.
  cbn [forallb ev_okb]. destruct (loc_eqb_spec l LRegistry); [contradiction | reflexivity].
Qed.

Definition GoodC (s : st) (mc : mon) : Prop := (s = init /\ mc = mon0) \/ J s mc.

Definition NGood (s : nst) (tr : list nev) : Prop :=
  exists m (mcs : nat -> mon),
    nmon_run (gmon0 ntid nloc ntok) tr = Some m /\
    (forall d, Rc d m (mcs d)) /\ RegOK m mcs /\ forall d, GoodC (s d) (mcs d).

Lemma NGood_init : NGood ninit [].
Proof.
  exists (gmon0 ntid nloc ntok), (fun _ => mon0). split; [reflexivity|]. split; [|split].
  - intros d. constructor; cbn; auto.
  - right. split; [reflexivity | intros c; reflexivity].
  - intros d. left. split; reflexivity.
Qed.

Lemma NGood_step s tr ch s' o : NGood s tr -> nstep repaired s ch = Some (s', o) -> NGood s' (tr ++ o).
Proof.
  intros [m [mcs [Hrun [HR [HG HC]]]]] Hs. destruct ch as [c x]. cbn [nstep] in Hs.
  destruct (step repaired (s c) x) as [[sc' evs]|] eqn:Est; [|discriminate]. injection Hs as <- <-.
  assert (Hloc : exists mc', mon_run (mcs c) evs = Some mc' /\ J sc' mc' /\ forallb ev_okb evs = true).
  { destruct (HC c) as [[E1 E2]|HJ].
    - rewrite E1 in Est. destruct (init_only_boot x sc' evs Est) as [-> ->]. rewrite E2.
      destruct boot_ok as [m1 [Hb HJ1]]. exists m1. split; [exact Hb | split; [exact HJ1 | reflexivity]].
    - destruct (step_ok (s c) (mcs c) x sc' evs HJ Est) as [mc' [Hr' HJ']].
      exists mc'. split; [exact Hr' | split; [exact HJ' | exact (step_ev_ok _ _ _ _ _ HJ Est)]]. }
  destruct Hloc as [mc' [Hr' [HJ' Hok]]].
  destruct (sim_run c evs mcs m mc' HR HG Hok Hr') as [m' [Hrun' [HR' HG']]].
  exists m', (upd_mc mcs c mc'). split; [rewrite nmon_run_app, Hrun; exact Hrun'|]. split; [exact HR'|]. split; [exact HG'|].
  intros d. unfold upd_mc. destruct (Nat.eqb_spec d c) as [->|]; [right; exact HJ' | apply HC].
Qed.

(* every schedule of any number of repaired connections respects the ownership discipline ... *)
Theorem nconn_disciplined : forall sched,
  exists m, nmon_run (gmon0 ntid nloc ntok) (trace (nstep repaired) ninit sched) = Some m.
Proof.
  intros sched.
  pose proof (run_invariant_all _ _ _ (nstep repaired) NGood NGood_step sched ninit NGood_init) as [m [mcs [H _]]].
  exists m. exact H.
Qed.

(* ... and therefore has no data race *)
Theorem nrace_free : forall sched, nraces (trace (nstep repaired) ninit sched) = [].
Proof.
  intros sched. destruct (nconn_disciplined sched) as [m Hm].
  exact (gmon_sound ntid nloc ntok ntid_eqb nloc_eqb ntok_eqb ntid_eqb_spec nloc_eqb_spec ntok_eqb_spec _ _ Hm).
Qed.

(* Proofs about Model/Paths.v (C19) *)
From JT.Base Require Import Prelude PreludeP.
From JT.Model Require Import Paths.
From Coq Require Import ZArith ZifyN ZifyNat ZifyBool.
Ltac Zify.zify_post_hook ::= Z.div_mod_to_equations.

Definition no_slash (a : str) : Prop := Forall (fun c => c <> SLASH) a.

Lemma split_noslash a : no_slash a -> split_slash a = [a].
Proof.
  induction a as [|c a IH]; intros H. reflexivity.
  inversion H as [|? ? Hc Ha]; subst. cbn [split_slash].
  destruct (c =? SLASH) eqn:E. apply N.eqb_eq in E. contradiction.
  rewrite (IH Ha). reflexivity.
Qed.

Lemma split_app a b : no_slash a -> split_slash (a ++ SLASH :: b) = a :: split_slash b.
Proof.
  induction a as [|c a IH]; intros H; cbn [app split_slash].
  - rewrite N.eqb_refl. reflexivity.
  - inversion H as [|? ? Hc Ha]; subst.
    destruct (c =? SLASH) eqn:E. apply N.eqb_eq in E. contradiction.
    rewrite (IH Ha). reflexivity.
Qed.

Lemma list_eqb_false a b : a <> b -> list_eqb a b = false.
Proof.
  intros H. destruct (list_eqb a b) eqn:E; [|reflexivity]. apply list_eqb_spec in E. contradiction.
Qed.

Lemma list_eqb_refl a : list_eqb a a = true.
Proof. now apply list_eqb_spec. Qed.

Definition plain (c : str) : Prop := no_slash c /\ c <> [] /\ c <> [DOT] /\ c <> [DOT; DOT].

Lemma step_plain loc c : plain c -> step loc c = loc ++ [c].
Proof.
  intros (_ & H1 & H2 & H3). unfold step.
  rewrite (list_eqb_false _ _ H1), (list_eqb_false _ _ H2), (list_eqb_false _ _ H3). reflexivity.
Qed.

Lemma accepted_plain name : accepted name = true -> plain name.
Proof.
  unfold accepted. intros H. apply negb_true_iff in H.
  apply orb_false_iff in H. destruct H as [H H4]. apply orb_false_iff in H. destruct H as [H H3].
  apply orb_false_iff in H. destruct H as [H1 H2].
  split; [|split; [|split]].
  - apply Forall_forall. intros c Hc E. subst c.
    assert (X : existsb (fun c => (c =? SLASH) || (c =? BACKSLASH)) name = true).
    { apply existsb_exists. exists SLASH. split; [exact Hc | reflexivity]. }
    congruence.
  - intros E. subst. discriminate.
  - intros E. subst. discriminate.
  - intros E. subst. discriminate.
Qed.

(* conversely the filter rejects nothing but names that are not one plain component or contain '\' *)
Lemma plain_accepted name : plain name -> Forall (fun c => c <> BACKSLASH) name -> accepted name = true.
Proof.
  intros (H0 & H1 & H2 & H3) Hb. unfold accepted.
  rewrite (list_eqb_false _ _ H1), (list_eqb_false _ _ H2), (list_eqb_false _ _ H3). cbn [orb].
  apply negb_true_iff. destruct (existsb _ name) eqn:E; [|reflexivity].
  apply existsb_exists in E. destruct E as (c & Hc & E). unfold no_slash in H0.
  rewrite Forall_forall in H0, Hb. specialize (H0 c Hc). specialize (Hb c Hc).
  apply orb_true_iff in E. destruct E as [E | E]; apply N.eqb_eq in E; contradiction.
Qed.

Lemma hexdigit_facts c : hexdigit c = true -> c <> SLASH /\ c <> DOT.
Proof. unfold hexdigit, SLASH, DOT. intros H. lia. Qed.

Lemma phone_plain phone : phone_chars phone -> plain phone.
Proof.
  intros [Hne Hall]. rewrite forallb_forall in Hall.
  assert (Hd : forall c, In c phone -> c <> SLASH /\ c <> DOT) by (intros c Hc; apply hexdigit_facts, Hall, Hc).
  split; [|split; [|split]].
  - apply Forall_forall. intros c Hc. apply (Hd c Hc).
  - exact Hne.
  - intros E. subst. destruct (Hd DOT) as [_ X]. now left. contradiction.
  - intros E. subst. destruct (Hd DOT) as [_ X]. now left. contradiction.
Qed.

Lemma save_path_split phone name : no_slash phone -> no_slash name ->
  split_slash (save_path phone name) = [[DOT]; phone; name].
Proof.
  intros Hp Hn. unfold save_path.
  change ([DOT; SLASH] ++ phone ++ [SLASH] ++ name) with ([DOT] ++ SLASH :: (phone ++ SLASH :: name)).
  rewrite split_app by (repeat constructor; discriminate).
  rewrite split_app by exact Hp. now rewrite split_noslash.
Qed.

Theorem confined_eq : forall cwd phone name, phone_chars phone -> accepted name = true ->
  resolve cwd (save_path phone name) = cwd ++ [phone; name].
Proof.
  intros cwd phone name Hp Ha. apply phone_plain in Hp. apply accepted_plain in Ha.
  unfold resolve. rewrite save_path_split by (apply Hp || apply Ha).
  cbn [save_path app]. change (DOT =? SLASH) with false.
  cbn [fold_left]. unfold step at 3. cbn [list_eqb orb andb]. change (DOT =? DOT) with true. cbn [orb andb].
  rewrite !step_plain by assumption. rewrite <- app_assoc. reflexivity.
Qed.

Theorem confined : forall cwd phone name, phone_chars phone -> accepted name = true ->
  inside (cwd ++ [phone]) (resolve cwd (save_path phone name)).
Proof.
  intros cwd phone name Hp Ha. rewrite confined_eq by assumption.
  exists name, []. rewrite <- app_assoc. reflexivity.
Qed.

Theorem writes_confined : forall cwd phone names p, phone_chars phone ->
  In p (writes phone names) -> inside (cwd ++ [phone]) (resolve cwd p).
Proof.
  intros cwd phone names p Hp Hin. unfold writes in Hin. apply in_map_iff in Hin.
  destruct Hin as (name & <- & Hf). apply filter_In in Hf. destruct Hf as [_ Ha].
  now apply confined.
Qed.

(* distinct accepted names are stored in distinct files (nothing is merged by sanitising) *)
Theorem writes_injective : forall cwd phone n1 n2, phone_chars phone ->
  accepted n1 = true -> accepted n2 = true ->
  resolve cwd (save_path phone n1) = resolve cwd (save_path phone n2) -> n1 = n2.
Proof.
  intros cwd phone n1 n2 Hp H1 H2 E. rewrite !confined_eq in E by assumption.
  apply app_inv_head in E. now inversion E.
Qed.

(* without the filter the property fails: "../x" lands beside the terminal directory *)
Theorem unfiltered_escapes : forall cwd phone, phone_chars phone ->
  resolve cwd (save_path phone [DOT; DOT; SLASH; 120]) = cwd ++ [[120]] /\
  ~ inside (cwd ++ [phone]) (cwd ++ [[120]]).
Proof.
  intros cwd phone Hp. pose proof (phone_plain _ Hp) as Hpl. split.
  - unfold resolve, save_path.
    change ([DOT; SLASH] ++ phone ++ [SLASH] ++ [DOT; DOT; SLASH; 120])
      with ([DOT] ++ SLASH :: (phone ++ SLASH :: ([DOT; DOT] ++ SLASH :: [120]))).
    rewrite split_app by (repeat constructor; discriminate).
    rewrite split_app by apply Hpl.
    rewrite split_app by (repeat constructor; discriminate).
    rewrite split_noslash by (repeat constructor; discriminate).
    cbn [app]. change (DOT =? SLASH) with false. cbn [fold_left].
    unfold step at 4. cbn [list_eqb orb andb]. change (DOT =? DOT) with true. cbn [orb andb].
    rewrite (step_plain cwd phone Hpl).
    unfold step at 2. cbn [list_eqb orb andb]. change (DOT =? DOT) with true. cbn [orb andb].
    rewrite removelast_last.
    apply step_plain. split; [|split; [|split]]; try discriminate. repeat constructor; discriminate.
  - intros (c & rest & E). apply (f_equal (@length _)) in E. rewrite !app_length in E. cbn [length] in E. lia.
Qed.

(* ---------- the directory name is always a safe component ---------- *)
Lemma nibble_hex n : n < 16 -> hexdigit (nibble_char n) = true.
Proof. unfold hexdigit, nibble_char. intros H. destruct (n <=? 9) eqn:E; lia. Qed.

Lemma bcd_convert_hex l : bytes l -> forallb hexdigit (bcd_convert l) = true.
Proof.
  induction l as [|b l IH]; intros H. reflexivity.
  apply bytes_cons in H. destruct H as [Hb Hl]. unfold bcd_convert. cbn [flat_map app forallb].
  fold (bcd_convert l). rewrite (IH Hl), !nibble_hex by lia. reflexivity.
Qed.

Lemma strip0_hex l : forallb hexdigit l = true -> forallb hexdigit (strip0 l) = true.
Proof.
  induction l as [|c l IH]; intros H. reflexivity.
  cbn [strip0]. destruct (c =? 48). apply IH. cbn [forallb] in H. apply andb_true_iff in H. tauto. exact H.
Qed.

Theorem phone_of_chars : forall l, bytes l -> l <> [] -> phone_chars (bcd2dec l).
Proof.
  intros l Hb Hne. pose proof (bcd_convert_hex l Hb) as Hh. unfold bcd2dec.
  destruct (strip0 (bcd_convert l)) as [|c s] eqn:E.
  - split; [|exact Hh]. destruct l as [|b l]; [contradiction|]. discriminate.
  - split. discriminate. rewrite <- E. now apply strip0_hex.
Qed.

(* C07 — every model the oracle can reach through the registry satisfies the round-trip law. *)
From JT.Base Require Import Prelude PreludeP Fmt.
From JT.Model Require Import Msg_simple Msg_text Params Msg_location Msg_all.
From JT.Proofs Require Import Msg_simple_proofs Msg_text_proofs Msg_params_proofs Msg_location_proofs.

Lemma assoc_in_msg k (t : list (N * msg)) m : assoc k t = Some m -> In (k, m) t.
Proof.
  induction t as [|[k' a'] t IH]; cbn [assoc]; intros H; [discriminate|].
  destruct (k' =? k) eqn:E; [apply N.eqb_eq in E; inversion H; subst; now left | right; auto].
Qed.

Lemma simple_table_ok ver d : Forall (fun p => msg_ok (snd p)) (simple_table ver d).
Proof.
  unfold simple_table.
  repeat (apply Forall_cons; [cbn [snd]|]); try apply Forall_nil;
    auto using m_0001_ok, m_empty_ok, m_0102_ok, m_0800_ok, m_0805_ok, m_1003_ok, m_1005_ok, m_1205_ok, m_1206_ok,
      m_1210_ok, m_1211_ok, m_1212_ok, m_8001_ok, m_8003_ok, m_8100_ok, m_8800_ok, m_8801_ok, m_9101_ok, m_9102_ok,
      m_9105_ok, m_9201_ok, m_9202_ok, m_9205_ok, m_9206_ok, m_9207_ok, m_9208_ok, m_9212_ok.
Qed.

Lemma msg_simple_ok id ver d m : msg_simple id ver d = Some m -> msg_ok m.
Proof.
  unfold msg_simple. intros H. apply assoc_in_msg in H.
  pose proof (simple_table_ok ver d) as T. rewrite Forall_forall in T. exact (T _ H).
Qed.

Lemma msg_all_ok u2g g2u gdom : codec_ok u2g g2u gdom ->
  forall id ver d m, msg_all u2g g2u gdom id ver d = Some m -> msg_ok m.
Proof.
  intros Hc id ver d m. unfold msg_all, msg_text.
  destruct (id =? 33027); [intros H; inversion H; subst; now apply m_8103_ok|].
  destruct (msg_location id) as [ml|] eqn:EL; [intros H; inversion H; subst; now apply (msg_location_ok id)|].
  destruct (id =? 256); [intros H; inversion H; subst; now apply m_0100_ok|].
  apply msg_simple_ok.
Qed.

(* Proofs about Model/Subpkg.v: sub-package reassembly (C05), re-requests and expiry (C14). *)
From JT.Base Require Import Prelude PreludeP.
From JT.Model Require Import Frame Unpack Subpkg.
From Coq Require Import ZArith ZifyN ZifyNat ZifyBool.
Ltac Zify.zify_post_hook ::= Z.div_mod_to_equations.

(* ---------------- the id -> transfer map ---------------- *)
Lemma find_remove_same id s : find id (remove id s) = None.
Proof.
  induction s as [|[k v] s IH]; cbn [remove find]. reflexivity.
  destruct (N.eqb_spec k id) as [->|Hk]. exact IH.
  cbn [find]. destruct (N.eqb_spec k id); [contradiction|exact IH].
Qed.

Lemma find_remove_other id id' s : id <> id' -> find id' (remove id s) = find id' s.
Proof.
  intros Hne. induction s as [|[k v] s IH]; cbn [remove find]. reflexivity.
  destruct (N.eqb_spec k id) as [->|Hk].
  - destruct (N.eqb_spec id id'); [contradiction|exact IH].
  - cbn [find]. destruct (N.eqb_spec k id'); [reflexivity|exact IH].
Qed.

Lemma find_put_same id v s : find id (put id v s) = Some v.
Proof. unfold put. cbn [find]. now rewrite N.eqb_refl. Qed.

Lemma find_put_other id id' v s : id <> id' -> find id' (put id v s) = find id' s.
Proof.
  intros Hne. unfold put. cbn [find]. destruct (N.eqb_spec id id'); [contradiction|].
  now apply find_remove_other.
Qed.

Lemma remove_none id s : find id s = None -> remove id s = s.
Proof.
  induction s as [|[k v] s IH]; cbn [remove find]; intros H. reflexivity.
  destruct (N.eqb_spec k id). discriminate. now rewrite IH.
Qed.

(* ---------------- slots ---------------- *)
Lemma set_nth_length {A} n (v : A) l : length (set_nth n v l) = length l.
Proof. revert n. induction l as [|x l IH]; intros [|n]; cbn [set_nth length]; auto. Qed.

Lemma nth_set_nth_eq {A} n (v d : A) l : (n < length l)%nat -> nth n (set_nth n v l) d = v.
Proof.
  revert n. induction l as [|x l IH]; intros [|n] H; cbn [set_nth nth length] in *; try lia; auto.
  apply IH. lia.
Qed.

Lemma nth_set_nth_neq {A} n j (v d : A) l : n <> j -> nth j (set_nth n v l) d = nth j l d.
Proof.
  revert n j. induction l as [|x l IH]; intros [|n] [|j] H; cbn [set_nth nth]; auto; try lia.
Qed.

Definition memN (k : N) (l : list N) : bool := existsb (N.eqb k) l.

Lemma memN_In k l : memN k l = true <-> In k l.
Proof.
  unfold memN. rewrite existsb_exists. split.
  - intros (x & Hin & Hx). apply N.eqb_eq in Hx. now subst.
  - intros H. exists k. split. exact H. apply N.eqb_refl.
Qed.

(* the slot table of a transfer of which the numbers in seen have arrived *)
Definition slots_of (n : nat) (bodies : list (list N)) (seen : list N) : list (list N) :=
  map (fun i => if memN (N.of_nat i + 1) seen then nth i bodies [] else []) (seq 0 n).

Lemma slots_of_length n bodies seen : length (slots_of n bodies seen) = n.
Proof. unfold slots_of. now rewrite map_length, seq_length. Qed.

Lemma nth_map_seq {A} (f : nat -> A) n i d : (i < n)%nat -> nth i (map f (seq 0 n)) d = f i.
Proof.
  intros H. rewrite nth_indep with (d' := f 0%nat) by now rewrite map_length, seq_length.
  rewrite map_nth, seq_nth by exact H. reflexivity.
Qed.

Lemma slots_of_nth n bodies seen i : (i < n)%nat ->
  nth i (slots_of n bodies seen) [] = if memN (N.of_nat i + 1) seen then nth i bodies [] else [].
Proof. intros H. unfold slots_of. now rewrite nth_map_seq. Qed.

Lemma slots_of_nil n bodies : slots_of n bodies [] = repeat [] n.
Proof.
  apply nth_ext with (d := []) (d' := []). now rewrite slots_of_length, repeat_length.
  intros i Hi. rewrite slots_of_length in Hi. rewrite slots_of_nth by exact Hi.
  cbn. now rewrite nth_repeat.
Qed.

Lemma slots_of_set n bodies seen k : 1 <= k -> (N.to_nat (k - 1) < n)%nat ->
  set_nth (N.to_nat (k - 1)) (nth (N.to_nat (k - 1)) bodies []) (slots_of n bodies seen) =
  slots_of n bodies (k :: seen).
Proof.
  intros Hk Hn. apply nth_ext with (d := []) (d' := []).
  - now rewrite set_nth_length, !slots_of_length.
  - intros j Hj. rewrite set_nth_length, slots_of_length in Hj.
    rewrite (slots_of_nth _ _ (k :: seen)) by exact Hj. unfold memN. cbn [existsb]. fold (memN (N.of_nat j + 1) seen).
    destruct (Nat.eq_dec (N.to_nat (k - 1)) j) as [<-|Hne].
    + rewrite nth_set_nth_eq by now rewrite slots_of_length.
      replace (N.of_nat (N.to_nat (k - 1)) + 1 =? k) with true by lia. reflexivity.
    + rewrite nth_set_nth_neq by exact Hne. rewrite slots_of_nth by exact Hj.
      replace (N.of_nat j + 1 =? k) with false by lia. reflexivity.
Qed.

Lemma slots_of_ext n bodies seen seen' : (forall k, In k seen <-> In k seen') ->
  slots_of n bodies seen = slots_of n bodies seen'.
Proof.
  intros H. unfold slots_of. apply map_ext. intros i.
  assert (memN (N.of_nat i + 1) seen = memN (N.of_nat i + 1) seen') as ->; [|reflexivity].
  apply eq_true_iff_eq. rewrite !memN_In. apply H.
Qed.

(* all numbers present: the table is the list of bodies *)
Lemma slots_of_full bodies seen : covers (len bodies) seen ->
  slots_of (length bodies) bodies seen = bodies.
Proof.
  intros Hc. apply nth_ext with (d := []) (d' := []). now rewrite slots_of_length.
  intros i Hi. rewrite slots_of_length in Hi. rewrite slots_of_nth by exact Hi.
  assert (In (N.of_nat i + 1) seen) as H by (apply Hc; unfold len; lia).
  apply memN_In in H. now rewrite H.
Qed.

Lemma filter_length_le {A} (p : A -> bool) l : (length (filter p l) <= length l)%nat.
Proof. induction l as [|x l IH]; cbn [filter length]. lia. destruct (p x); cbn [length]; lia. Qed.

Lemma filter_length_all {A} (p : A -> bool) l :
  length (filter p l) = length l <-> forallb p l = true.
Proof.
  induction l as [|x l IH]; cbn [filter length forallb]. tauto.
  pose proof (filter_length_le p l). destruct (p x); cbn [length andb].
  - rewrite <- IH. lia.
  - split; [lia|discriminate].
Qed.


Lemma len_zero_iff (b : list N) : (len b =? 0) = true <-> b = [].
Proof. destruct b as [|x b]. split; reflexivity. rewrite len_cons. split; intros H. lia. discriminate. Qed.

(* receivedSum == total exactly when every number has arrived *)
Lemma received_full n bodies seen : length bodies = n -> Forall nonempty bodies ->
  (received (slots_of n bodies seen) = N.of_nat n <-> covers (N.of_nat n) seen).
Proof.
  intros Hl Hne. unfold received, len.
  assert (E : forall a b : nat, N.of_nat a = N.of_nat b <-> a = b) by (intros; lia).
  rewrite E. rewrite <- (slots_of_length n bodies seen) at 2.
  rewrite filter_length_all, forallb_forall. unfold covers. split.
  - intros H k Hk. set (i := N.to_nat (k - 1)).
    assert (Hi : (i < n)%nat) by (subst i; lia).
    assert (Hin : In (nth i (slots_of n bodies seen) []) (slots_of n bodies seen)).
    { apply nth_In. now rewrite slots_of_length. }
    apply H in Hin. rewrite slots_of_nth in Hin by exact Hi.
    replace (N.of_nat i + 1) with k in Hin by (subst i; lia).
    destruct (memN k seen) eqn:Hm. now apply memN_In. cbn in Hin. discriminate.
  - intros H b Hb. apply In_nth with (d := []) in Hb. destruct Hb as (i & Hi & <-).
    rewrite slots_of_length in Hi. rewrite slots_of_nth by exact Hi.
    assert (Hin : In (N.of_nat i + 1) seen) by (apply H; lia). apply memN_In in Hin. rewrite Hin.
    assert (Hb : nonempty (nth i bodies [])).
    { rewrite Forall_forall in Hne. apply Hne, nth_In. lia. }
    destruct (nth i bodies []) eqn:Hbi. now elim Hb. reflexivity.
Qed.

(* ---------------- well-formed maps: one entry per message id ---------------- *)

Lemma keys_remove id s k : In k (map fst (remove id s)) <-> In k (map fst s) /\ k <> id.
Proof.
  induction s as [|[k' v] s IH]; cbn [remove map fst In]. tauto.
  destruct (N.eqb_spec k' id) as [->|Hne].
  - rewrite IH. split. tauto. intros [[H|H] Hk]; [congruence|tauto].
  - cbn [map fst In]. rewrite IH. split. intros [->|H]; tauto. tauto.
Qed.

Lemma wf_remove id s : wf s -> wf (remove id s).
Proof.
  unfold wf. induction s as [|[k v] s IH]; cbn [remove map fst]; intros H. constructor.
  inversion H as [|? ? Hn Hs]; subst. destruct (k =? id). now apply IH.
  cbn [map fst]. constructor. rewrite keys_remove. tauto. now apply IH.
Qed.

Lemma wf_put id v s : wf s -> wf (put id v s).
Proof.
  intros H. unfold wf, put. cbn [map fst]. constructor. rewrite keys_remove. tauto.
  now apply wf_remove.
Qed.

Lemma find_none_keys id s : find id s = None <-> ~ In id (map fst s).
Proof.
  induction s as [|[k v] s IH]; cbn [find map fst In]. tauto.
  destruct (N.eqb_spec k id) as [->|Hne]. split. discriminate. tauto.
  rewrite IH. tauto.
Qed.

Lemma find_filter_none id p s : find id s = None -> find id (filter p s) = None.
Proof.
  rewrite !find_none_keys. intros H Hin. apply H. apply in_map_iff in Hin.
  destruct Hin as (kv & <- & Hin). apply filter_In in Hin. apply in_map. tauto.
Qed.

Lemma find_filter_some id p s x : wf s -> find id s = Some x ->
  find id (filter p s) = if p (id, x) then Some x else None.
Proof.
  unfold wf. induction s as [|[k v] s IH]; cbn [find filter map fst]; intros Hwf H. discriminate.
  inversion Hwf as [|? ? Hn Hs]; subst.
  destruct (N.eqb_spec k id) as [->|Hne].
  - injection H as ->. destruct (p (id, x)). cbn [find]. now rewrite N.eqb_refl.
    apply find_filter_none. now apply find_none_keys.
  - destruct (p (k, v)). cbn [find]. destruct (N.eqb_spec k id); [contradiction|]. now apply IH.
    now apply IH.
Qed.

Lemma wf_filter p s : wf s -> wf (filter p s).
Proof.
  unfold wf. induction s as [|[k v] s IH]; cbn [filter map fst]; intros H. constructor.
  inversion H as [|? ? Hn Hs]; subst. destruct (p (k, v)); [|now apply IH].
  cbn [map fst]. constructor; [|now apply IH]. intros Hin. apply Hn.
  apply in_map_iff in Hin. destruct Hin as (kv & <- & Hin). apply filter_In in Hin. apply in_map. tauto.
Qed.

(* the expiry pass at the beginning of a read *)
Lemma wf_dt now s : wf s -> wf (delete_timeout now s).
Proof. apply wf_filter. Qed.

Lemma dt_find_none X now s : find X s = None -> find X (delete_timeout now s) = None.
Proof. apply find_filter_none. Qed.

Lemma dt_find_young X now s x : wf s -> find X s = Some x -> (x_create x + 60000 <? now) = false ->
  find X (delete_timeout now s) = Some x.
Proof.
  intros Hwf Hf Hy. unfold delete_timeout. rewrite (find_filter_some _ _ _ _ Hwf Hf). cbn [snd]. now rewrite Hy.
Qed.

Lemma dt_find_some_inv X now s x : wf s -> find X (delete_timeout now s) = Some x -> find X s = Some x.
Proof.
  intros Hwf H. destruct (find X s) as [y|] eqn:Hy.
  - unfold delete_timeout in H. rewrite (find_filter_some _ _ _ _ Hwf Hy) in H.
    destruct (negb _); [exact H|discriminate].
  - rewrite (dt_find_none X now s Hy) in H. discriminate.
Qed.

Lemma dt_find_old X now s x : wf s -> find X s = Some x -> (x_create x + 60000 <? now) = true ->
  find X (delete_timeout now s) = None.
Proof.
  intros Hwf Hf Hy. unfold delete_timeout. rewrite (find_filter_some _ _ _ _ Hwf Hf). cbn [snd]. now rewrite Hy.
Qed.

Lemma dt_idem now s : delete_timeout now (delete_timeout now s) = delete_timeout now s.
Proof.
  unfold delete_timeout. induction s as [|kv s IH]; cbn [filter]; auto.
  destruct (negb (x_create (snd kv) + 60000 <? now)) eqn:E; cbn [filter]; [rewrite E, IH|]; auto.
Qed.


(* ---------------- supplementary / housekeeping ---------------- *)
Definition refresh (now : N) (x : xfer) : xfer :=
  if x_update x + 5000 <? now
  then {| x_slots := x_slots x; x_create := x_create x; x_update := now; x_first := x_first x |}
  else x.

Lemma supplementary_keys now s : map fst (fst (supplementary now s)) = map fst s.
Proof.
  induction s as [|[k x] s IH]; cbn [supplementary]. reflexivity.
  destruct (supplementary now s) as [t' rs]. cbn [fst] in IH.
  destruct (x_update x + 5000 <? now); cbn [fst map]; now rewrite IH.
Qed.

Lemma supplementary_find now s id :
  find id (fst (supplementary now s)) = option_map (refresh now) (find id s).
Proof.
  induction s as [|[k x] s IH]; cbn [supplementary]. reflexivity.
  destruct (supplementary now s) as [t' rs]. cbn [fst] in IH. unfold refresh.
  destruct (x_update x + 5000 <? now) eqn:Hs; cbn [fst find]; destruct (k =? id); cbn [option_map];
    try rewrite Hs; auto.
Qed.

Lemma supplementary_ids now s r : In r (snd (supplementary now s)) -> In (rr_id r) (map fst s).
Proof.
  induction s as [|[k x] s IH]; cbn [supplementary]. tauto.
  destruct (supplementary now s) as [t' rs]. cbn [snd] in IH.
  destruct (x_update x + 5000 <? now); cbn [snd map fst In]; intros H.
  - destruct H as [<-|H]. now left. right. now apply IH.
  - right. now apply IH.
Qed.

(* the re-requests for one id produced by one housekeeping pass *)
Lemma supplementary_rr now s id : wf s ->
  filter (fun r => rr_id r =? id) (snd (supplementary now s)) =
  match find id s with
  | Some x => if x_update x + 5000 <? now then [mk_rereq id x] else []
  | None => []
  end.
Proof.
  unfold wf. induction s as [|[k x] s IH]; cbn [supplementary map fst]; intros Hwf. reflexivity.
  inversion Hwf as [|? ? Hn Hs]; subst. specialize (IH Hs).
  pose proof (supplementary_ids now s) as Hids.
  destruct (supplementary now s) as [t' rs]. cbn [snd] in *. cbn [find].
  assert (Hnone : k = id -> filter (fun r => rr_id r =? id) rs = []).
  { intros ->. destruct (filter (fun r => rr_id r =? id) rs) as [|r l] eqn:Hf. reflexivity.
    assert (Hin : In r (filter (fun r => rr_id r =? id) rs)) by (rewrite Hf; now left).
    apply filter_In in Hin. destruct Hin as [Hin Hid]. apply N.eqb_eq in Hid.
    exfalso. apply Hn. rewrite <- Hid. now apply Hids. }
  destruct (x_update x + 5000 <? now) eqn:Hst; cbn [snd filter mk_rereq rr_id];
    destruct (N.eqb_spec k id) as [Hk|Hk]; try (rewrite Hnone by exact Hk); subst;
    try rewrite Hst; auto.
Qed.

Lemma wf_supplementary now s : wf s -> wf (fst (supplementary now s)).
Proof. unfold wf. now rewrite supplementary_keys. Qed.

Definition expired (now : N) (x : xfer) : bool := x_create x + 60000 <? now.

Lemma housekeeping_find now s id : wf s ->
  find id (fst (housekeeping now s)) =
  match find id s with
  | Some x => if expired now x then None else Some (refresh now x)
  | None => None
  end.
Proof.
  intros Hwf. unfold housekeeping. destruct s as [|kv s']. reflexivity.
  set (s := kv :: s') in *. rewrite supplementary_find. unfold delete_timeout.
  destruct (find id s) as [x|] eqn:Hf.
  - rewrite (find_filter_some id _ s x Hwf Hf). cbn [snd]. unfold expired.
    destruct (x_create x + 60000 <? now); reflexivity.
  - now rewrite find_filter_none.
Qed.

Lemma housekeeping_rr now s id : wf s ->
  filter (fun r => rr_id r =? id) (snd (housekeeping now s)) =
  match find id s with
  | Some x => if expired now x then [] else if x_update x + 5000 <? now then [mk_rereq id x] else []
  | None => []
  end.
Proof.
  intros Hwf. unfold housekeeping. destruct s as [|kv s']. reflexivity.
  set (s := kv :: s') in *. rewrite supplementary_rr by now apply wf_filter. unfold delete_timeout.
  destruct (find id s) as [x|] eqn:Hf.
  - rewrite (find_filter_some id _ s x Hwf Hf). cbn [snd]. unfold expired.
    destruct (x_create x + 60000 <? now); reflexivity.
  - now rewrite find_filter_none.
Qed.

Lemma wf_housekeeping now s : wf s -> wf (fst (housekeeping now s)).
Proof.
  intros H. unfold housekeeping. destruct s as [|kv s']. exact H.
  apply wf_supplementary, wf_filter, H.
Qed.

(* ---------------- completePack ---------------- *)
(* the part of completePack after packet 1 has (re)created the record *)
Definition cp_tail (now : N) (s1 : pstate) (m : msg) : pstate * option (list N) :=
  match find (m_id m) s1 with
  | None => (s1, None)
  | Some x =>
    if (m_no m <? 1) || (len (x_slots x) <? m_no m) then (s1, None) else
    let slots' := set_nth (N.to_nat (m_no m - 1)) (m_body m) (x_slots x) in
    if received slots' =? m_sum m
    then (remove (m_id m) s1, Some (concat (firstn (N.to_nat (m_sum m)) slots')))
    else (put (m_id m) {| x_slots := slots'; x_create := x_create x; x_update := now; x_first := x_first x |} s1,
          None)
  end.

Lemma complete_pack_eq now s m :
  complete_pack now s m =
  if m_sum m =? 0 then (s, None)
  else cp_tail now (if m_no m =? 1 then put (m_id m) (new_xfer now m) s else s) m.
Proof. reflexivity. Qed.

Lemma wf_cp_tail now s m : wf s -> wf (fst (cp_tail now s m)).
Proof.
  intros H. unfold cp_tail. destruct (find (m_id m) s) as [x|]; [|exact H].
  destruct ((m_no m <? 1) || (len (x_slots x) <? m_no m)); [exact H|].
  cbn zeta. destruct (received _ =? m_sum m); cbn [fst]. now apply wf_remove. now apply wf_put.
Qed.

Lemma wf_complete_pack now s m : wf s -> wf (fst (complete_pack now s m)).
Proof.
  intros H. rewrite complete_pack_eq. destruct (m_sum m =? 0). exact H.
  apply wf_cp_tail. destruct (m_no m =? 1). now apply wf_put. exact H.
Qed.

(* messages that are not sub-packages of X leave X's transfer alone and deliver nothing for X *)
Lemma cp_foreign X now s m : foreign X m ->
  find X (fst (complete_pack now s m)) = find X s /\
  (snd (complete_pack now s m) = None \/ m_id m <> X).
Proof.
  intros Hf. rewrite complete_pack_eq. destruct (N.eqb_spec (m_sum m) 0) as [H0|H0].
  { split. reflexivity. now left. }
  destruct Hf as [Hf|Hf]; [contradiction|].
  split; [|now right].
  set (s1 := if m_no m =? 1 then put (m_id m) (new_xfer now m) s else s).
  assert (H1 : find X s1 = find X s).
  { subst s1. destruct (m_no m =? 1); [|reflexivity]. now apply find_put_other. }
  rewrite <- H1. unfold cp_tail. destruct (find (m_id m) s1) as [x|]; [|reflexivity].
  destruct ((m_no m <? 1) || (len (x_slots x) <? m_no m)); [reflexivity|].
  cbn zeta. destruct (received _ =? m_sum m); cbn [fst].
  now apply find_remove_other. now apply find_put_other.
Qed.

(* an impossible number changes nothing at all: the state is literally the same *)
Lemma cp_bad_number now s m : m_sum m <> 0 ->
  (m_no m = 0 \/ match find (m_id m) s with Some x => len (x_slots x) < m_no m | None => m_no m <> 1 end) ->
  m_no m <> 1 -> complete_pack now s m = (s, None).
Proof.
  intros Hs Hbad H1. rewrite complete_pack_eq.
  replace (m_sum m =? 0) with false by lia. replace (m_no m =? 1) with false by lia.
  unfold cp_tail. destruct (find (m_id m) s) as [x|]; [|reflexivity].
  replace ((m_no m <? 1) || (len (x_slots x) <? m_no m)) with true by lia. reflexivity.
Qed.

Lemma cp_absent X now s m : find X s = None -> m_id m = X -> m_no m <> 1 -> complete_pack now s m = (s, None).
Proof.
  intros Hf Hid H1. rewrite complete_pack_eq. destruct (m_sum m =? 0). reflexivity.
  replace (m_no m =? 1) with false by lia. unfold cp_tail. now rewrite Hid, Hf.
Qed.

Section Transfer.
Variable X : N.
Variable n : nat.
Variable bodies : list (list N).
Hypothesis Hlen : length bodies = n.
Hypothesis Hne : Forall nonempty bodies.
Hypothesis Hn1 : (1 <= n)%nat.

(* the transfer of X is in progress: packet 1 was p1 at time t1, the numbers in seen have arrived,
   the stamp is upd *)
Definition pending (t1 : N) (p1 : msg) (seen : list N) (upd : N) (s : pstate) : Prop :=
  wf s /\ exists x, find X s = Some x /\ x_slots x = slots_of n bodies seen /\
                    x_create x = t1 /\ x_update x = upd /\ x_first x = p1.

Lemma pending_ext t1 p1 seen seen' upd s : (forall k, In k seen <-> In k seen') ->
  pending t1 p1 seen upd s -> pending t1 p1 seen' upd s.
Proof.
  intros He (Hwf & x & Hf & Hs & Hc & Hu & Hp). split. exact Hwf. exists x. repeat split; auto.
  rewrite Hs. now apply slots_of_ext.
Qed.

(* storing an accepted packet into a table that holds the numbers in seen *)
Lemma cp_tail_good now s m t1 p1 seen upd :
  pending t1 p1 seen upd s -> good_pkt X (N.of_nat n) bodies m ->
  (covers (N.of_nat n) (m_no m :: seen) /\ cp_tail now s m = (remove X s, Some (concat bodies))) \/
  (~ covers (N.of_nat n) (m_no m :: seen) /\ snd (cp_tail now s m) = None /\
   pending t1 p1 (m_no m :: seen) now (fst (cp_tail now s m))).
Proof.
  intros (Hwf & x & Hf & Hs & Hc & Hu & Hp) (Hid & Hsum & Hno & Hbody).
  assert (Hl : len (slots_of n bodies seen) = N.of_nat n) by (unfold len; now rewrite slots_of_length).
  unfold cp_tail. rewrite Hid, Hf, Hs, Hl.
  replace ((m_no m <? 1) || (N.of_nat n <? m_no m)) with false by lia. cbn zeta.
  rewrite Hbody, Hsum. rewrite slots_of_set by lia.
  destruct (N.eqb_spec (received (slots_of n bodies (m_no m :: seen))) (N.of_nat n)) as [Hr|Hr].
  - left. apply received_full in Hr; auto. split. exact Hr. f_equal. f_equal.
    rewrite Nat2N.id. rewrite <- Hlen in *. rewrite slots_of_full by exact Hr. now rewrite firstn_all.
  - right. split. { intros Hcov. apply Hr. apply received_full; auto. }
    split. reflexivity. cbn [fst]. split. now apply wf_put.
    eexists. split. apply find_put_same. cbn [x_slots x_create x_update x_first]. auto.
Qed.

(* packet 1 from any state *)
Lemma cp_first now s m : wf s -> good_pkt X (N.of_nat n) bodies m -> m_no m = 1 ->
  (covers (N.of_nat n) [1] /\ snd (complete_pack now s m) = Some (concat bodies) /\
   find X (fst (complete_pack now s m)) = None /\ wf (fst (complete_pack now s m))) \/
  (~ covers (N.of_nat n) [1] /\ snd (complete_pack now s m) = None /\
   pending now m [1] now (fst (complete_pack now s m))).
Proof.
  intros Hwf Hg H1. pose proof Hg as (Hid & Hsum & Hno & Hbody).
  rewrite complete_pack_eq. replace (m_sum m =? 0) with false by lia.
  replace (m_no m =? 1) with true by lia.
  assert (Hp : pending now m [] now (put (m_id m) (new_xfer now m) s)).
  { split. now apply wf_put. eexists. split. rewrite Hid. apply find_put_same.
    cbn [new_xfer x_slots x_create x_update x_first]. rewrite Hsum, Nat2N.id, slots_of_nil. auto. }
  destruct (cp_tail_good now _ m now m [] now Hp Hg) as [(Hc & He)|(Hc & He & Hp')]; rewrite H1 in Hc; try rewrite H1 in Hp'.
  - left. split. exact Hc. rewrite He. cbn [fst snd]. split. reflexivity. split.
    apply find_remove_same. apply wf_remove, wf_put, Hwf.
  - right. auto.
Qed.

(* packets 2..n while the transfer is pending *)
Lemma cp_next now s m t1 p1 seen upd :
  pending t1 p1 seen upd s -> good_pkt X (N.of_nat n) bodies m -> m_no m <> 1 ->
  (covers (N.of_nat n) (m_no m :: seen) /\ snd (complete_pack now s m) = Some (concat bodies) /\
   find X (fst (complete_pack now s m)) = None /\ wf (fst (complete_pack now s m))) \/
  (~ covers (N.of_nat n) (m_no m :: seen) /\ snd (complete_pack now s m) = None /\
   pending t1 p1 (m_no m :: seen) now (fst (complete_pack now s m))).
Proof.
  intros Hp Hg H1. pose proof Hg as (Hid & Hsum & Hno & Hbody).
  rewrite complete_pack_eq. replace (m_sum m =? 0) with false by lia.
  replace (m_no m =? 1) with false by lia.
  destruct (cp_tail_good now s m t1 p1 seen upd Hp Hg) as [(Hc & He)|(Hc & He & Hp')].
  - left. split. exact Hc. rewrite He. cbn [fst snd]. split. reflexivity. split.
    apply find_remove_same. apply wf_remove, Hp.
  - right. auto.
Qed.

(* an impossible number while the transfer is pending, or after it finished *)
Lemma cp_bad_pending now s m t1 p1 seen upd :
  pending t1 p1 seen upd s -> bad_pkt X (N.of_nat n) m -> complete_pack now s m = (s, None).
Proof.
  intros (Hwf & x & Hf & Hs & _) (Hid & Hsum & Hno). apply cp_bad_number; auto; [|lia].
  rewrite Hid, Hf, Hs. unfold len. rewrite slots_of_length. lia.
Qed.

End Transfer.

Lemma dt_pending X n bodies now t1 p1 seen upd s : pending X n bodies t1 p1 seen upd s -> now <= t1 + 60000 ->
  pending X n bodies t1 p1 seen upd (delete_timeout now s).
Proof.
  intros (Hwf & x & Hf & Hs & Hc & Hu & Hp) Hn. split. now apply wf_dt. exists x. split; [|auto].
  apply dt_find_young; auto. rewrite Hc. apply N.ltb_ge. lia.
Qed.


(* ---------------- runs ---------------- *)
Lemma run_app s l1 l2 :
  run s (l1 ++ l2) = let '(s1, o1) := run s l1 in let '(s2, o2) := run s1 l2 in (s2, o1 ++ o2).
Proof.
  revert s. induction l1 as [|[t e] l1 IH]; intros s; cbn [app run].
  - now destruct (run s l2).
  - destruct (step t s e) as [s1 o]. rewrite IH. destruct (run s1 l1) as [s2 o1].
    destruct (run s2 l2) as [s3 o2]. reflexivity.
Qed.

Lemma run_length s l : length (snd (run s l)) = length l.
Proof.
  revert s. induction l as [|[t e] l IH]; intros s; cbn [run]. reflexivity.
  destruct (step t s e) as [s1 o]. specialize (IH s1). destruct (run s1 l). cbn [snd length] in *. lia.
Qed.

Lemma completions_from_app k id o1 o2 :
  completions_from k id (o1 ++ o2) = completions_from k id o1 ++ completions_from (k + length o1) id o2.
Proof.
  revert k. induction o1 as [|o o1 IH]; intros k; cbn [app completions_from length].
  - now rewrite Nat.add_0_r.
  - replace (k + S (length o1))%nat with (S k + length o1)%nat by lia.
    destruct o as [|i b|l]; try apply IH. destruct (i =? id); cbn [app]; now rewrite IH.
Qed.

Lemma rereqs_from_app k id o1 o2 :
  rereqs_from k id (o1 ++ o2) = rereqs_from k id o1 ++ rereqs_from (k + length o1) id o2.
Proof.
  revert k. induction o1 as [|o o1 IH]; intros k; cbn [app rereqs_from length].
  - now rewrite Nat.add_0_r.
  - replace (k + S (length o1))%nat with (S k + length o1)%nat by lia.
    destruct o as [|i b|l]; try apply IH. now rewrite IH, app_assoc.
Qed.

Lemma wf_step now s e : wf s -> wf (fst (step now s e)).
Proof.
  intros H. destruct e as [m|]; cbn [step].
  - pose proof (wf_complete_pack now _ m (wf_dt now s H)). destruct (complete_pack now (delete_timeout now s) m). exact H0.
  - pose proof (wf_housekeeping now s H). destruct (housekeeping now s). exact H0.
Qed.

(* the expiry pass is part of every event: running it once more before the event changes nothing *)
Lemma step_dt now s e : step now (delete_timeout now s) e = step now s e.
Proof.
  destruct e as [m|]; cbn [step]. now rewrite dt_idem.
  unfold housekeeping. destruct s as [|kv s]. reflexivity.
  destruct (delete_timeout now (kv :: s)) as [|kv' s'] eqn:E. reflexivity.
  rewrite <- E, dt_idem. reflexivity.
Qed.

Lemma wf_run s l : wf s -> wf (fst (run s l)).
Proof.
  revert s. induction l as [|[t e] l IH]; intros s H; cbn [run]. exact H.
  pose proof (wf_step t s e H). destruct (step t s e) as [s1 o]. specialize (IH s1 H0).
  destruct (run s1 l). exact IH.
Qed.

(* while no transfer of X exists and none is started, nothing is delivered or re-requested for X *)
Lemma run_absent X l : forall s k0, wf s -> find X s = None ->
  Forall (fun te => no_start X (snd te)) l ->
  completions_from k0 X (snd (run s l)) = [] /\ rereqs_from k0 X (snd (run s l)) = [] /\
  find X (fst (run s l)) = None.
Proof.
  induction l as [|[t e] l IH]; intros s k0 Hwf Hf Hall; cbn [run]. auto.
  apply Forall_cons_iff in Hall. destruct Hall as [He Hall]. cbn [snd] in He.
  pose proof (wf_step t s e Hwf) as Hwf1.
  assert (Hstep : find X (fst (step t s e)) = None /\
                  completions_from k0 X [snd (step t s e)] = [] /\ rereqs_from k0 X [snd (step t s e)] = []).
  { destruct e as [m|]; cbn [step no_start] in *.
    - pose proof (dt_find_none X t s Hf) as Hf'. set (s' := delete_timeout t s) in *.
      destruct (N.eqb_spec (m_sum m) 0) as [H0|H0].
      + rewrite complete_pack_eq. replace (m_sum m =? 0) with true by lia. cbn. auto.
      + destruct (N.eq_dec (m_id m) X) as [Hid|Hid].
        * rewrite (cp_absent X t s' m Hf' Hid (He Hid H0)). cbn. auto.
        * destruct (cp_foreign X t s' m (or_intror Hid)) as [Hfind Hout].
          destruct (complete_pack t s' m) as [s1 [b|]]; cbn [fst snd completions_from rereqs_from] in *.
          replace (m_id m =? X) with false by lia. rewrite Hfind. auto. rewrite Hfind. auto.
    - pose proof (housekeeping_find t s X Hwf) as H1. pose proof (housekeeping_rr t s X Hwf) as H2.
      rewrite Hf in H1, H2. destruct (housekeeping t s) as [s1 rrs]. cbn [fst snd rereqs_from completions_from] in *.
      rewrite H2. auto. }
  destruct (step t s e) as [s1 o]. cbn [fst snd] in *. destruct Hstep as (Hf1 & Hc1 & Hr1).
  destruct (IH s1 (S k0) Hwf1 Hf1 Hall) as (Hc & Hr & Hfin).
  destruct (run s1 l) as [s2 os]. cbn [fst snd] in *.
  change (o :: os) with ([o] ++ os). rewrite completions_from_app, rereqs_from_app, Hc1, Hr1.
  cbn [length app]. replace (k0 + 1)%nat with (S k0) by lia. auto.
Qed.

Lemma covers_ext n l l' : (forall k, In k l <-> In k l') -> covers n l -> covers n l'.
Proof. intros H Hc k Hk. apply H, Hc, Hk. Qed.

Lemma covers_mono n l l' : (forall k, In k l -> In k l') -> covers n l -> covers n l'.
Proof. intros H Hc k Hk. apply H, Hc, Hk. Qed.

Section Transfer2.
Variable X : N.
Variable n : nat.
Variable bodies : list (list N).
Hypothesis Hlen : length bodies = n.
Hypothesis Hne : Forall nonempty bodies.
Hypothesis Hn1 : (1 <= n)%nat.
Let NN := N.of_nat n.

Lemma foreign_not_accepted m : foreign X m -> accepted X NN m = false.
Proof. unfold accepted. intros [H|H]. replace (m_sum m =? 0) with true by lia. now rewrite andb_false_r.
  replace (m_id m =? X) with false by lia. reflexivity. Qed.

Lemma bad_not_accepted m : bad_pkt X NN m -> accepted X NN m = false.
Proof. unfold accepted. intros (_ & _ & [H|H]). replace (1 <=? m_no m) with false by lia. now rewrite andb_false_r.
  replace (m_no m <=? NN) with false by lia. now rewrite andb_false_r. Qed.

Lemma good_accepted m : good_pkt X NN bodies m -> accepted X NN m = true.
Proof. unfold accepted. intros (Hid & Hsum & Hno & _). subst NN.
  replace (m_id m =? X) with true by lia. replace (m_sum m =? 0) with false by lia.
  replace (1 <=? m_no m) with true by lia. replace (m_no m <=? N.of_nat n) with true by lia. reflexivity. Qed.

Lemma ev_ok_no_start e : ev_ok X NN bodies e -> no_start X e.
Proof.
  destruct e as [m|]; cbn [ev_ok no_start]; [|tauto].
  intros [[H|H]|[[_ H]|(_ & _ & [H|H])]] Hid Hs; subst NN; try contradiction; lia.
Qed.

(* while the transfer of X is pending and the events do not complete it *)
Lemma run_pending l : forall s k0 t1 p1 seen upd,
  pending X n bodies t1 p1 seen upd s ->
  Forall (fun te => fst te <= t1 + 60000 /\ ev_ok X NN bodies (snd te)) l ->
  ~ covers NN (numbers X NN l ++ seen) ->
  completions_from k0 X (snd (run s l)) = [] /\
  pending X n bodies t1 p1 (numbers X NN l ++ seen) (last_stamp X NN upd l) (fst (run s l)).
Proof.
  induction l as [|[t e] l IH]; intros s k0 t1 p1 seen upd Hp Hall Hnc; cbn [run numbers last_stamp].
  - split; [reflexivity|exact Hp].
  - apply Forall_cons_iff in Hall. destruct Hall as [[Ht He] Hall]. cbn [fst snd] in Ht, He.
    destruct e as [m|].
    + cbn [ev_ok] in He. cbn [step]. cbn [numbers] in Hnc.
      apply (dt_pending X n bodies t) in Hp; [|exact Ht]. set (s' := delete_timeout t s) in *. clearbody s'. clear s. rename s' into s.
      destruct He as [Hf|[[Hg H1]|Hb]].
      * (* foreign *)
        rewrite (foreign_not_accepted m Hf) in *.
        destruct (cp_foreign X t s m Hf) as [Hfind Hout].
        pose proof (wf_complete_pack t s m (proj1 Hp)) as Hwf1.
        destruct (complete_pack t s m) as [s1 r]. cbn [fst snd] in *.
        assert (Hp1 : pending X n bodies t1 p1 seen upd s1).
        { destruct Hp as (_ & x & Hx). split. exact Hwf1. exists x. now rewrite Hfind. }
        destruct (IH s1 (S k0) t1 p1 seen upd Hp1 Hall Hnc) as [Hc Hp2].
        destruct (run s1 l) as [s2 os]. cbn [fst snd] in *. split; [|exact Hp2].
        cbn [completions_from]. destruct r as [b|]; [|exact Hc].
        destruct Hout as [Hout|Hout]; [discriminate|]. replace (m_id m =? X) with false by lia. exact Hc.
      * (* accepted packet 2..n *)
        rewrite (good_accepted m Hg) in *.
        destruct (cp_next X n bodies Hlen Hne Hn1 t s m t1 p1 seen upd Hp Hg H1) as [(Hc & _)|(Hc & Ho & Hp1)].
        { exfalso. apply Hnc. eapply covers_mono; [|exact Hc]. intros k [<-|Hk]. now left.
          right. apply in_or_app. now right. }
        destruct (complete_pack t s m) as [s1 r]. cbn [fst snd] in *. subst r.
        assert (Hnc' : ~ covers NN (numbers X NN l ++ m_no m :: seen)).
        { intros Hc'. apply Hnc. eapply covers_ext; [|exact Hc']. intros k. cbn [app In].
          rewrite !in_app_iff. cbn [In]. tauto. }
        destruct (IH s1 (S k0) t1 p1 (m_no m :: seen) t Hp1 Hall Hnc') as [Hc2 Hp2].
        destruct (run s1 l) as [s2 os]. cbn [fst snd] in *. split. exact Hc2.
        eapply pending_ext; [|exact Hp2]. intros k. cbn [app In]. rewrite !in_app_iff. cbn [In]. tauto.
      * (* impossible number *)
        rewrite (bad_not_accepted m Hb) in *.
        rewrite (cp_bad_pending X n bodies Hlen Hn1 t s m t1 p1 seen upd Hp Hb).
        destruct (IH s (S k0) t1 p1 seen upd Hp Hall Hnc) as [Hc Hp2].
        destruct (run s l) as [s2 os]. cbn [fst snd] in *. auto.
    + (* end of a read *)
      cbn [step]. cbn [numbers] in Hnc.
      pose proof (housekeeping_find t s X (proj1 Hp)) as Hfind.
      pose proof (wf_housekeeping t s (proj1 Hp)) as Hwf1.
      destruct (housekeeping t s) as [s1 rrs]. cbn [fst] in *.
      assert (Hp1 : pending X n bodies t1 p1 seen (if upd + 5000 <? t then t else upd) s1).
      { destruct Hp as (_ & x & Hx & Hs & Hc & Hu & Hf). rewrite Hx in Hfind. unfold expired in Hfind.
        replace (x_create x + 60000 <? t) with false in Hfind by lia.
        split. exact Hwf1. exists (refresh t x). split. exact Hfind. unfold refresh. rewrite Hu.
        destruct (upd + 5000 <? t); cbn [x_slots x_create x_update x_first]; auto. }
      destruct (IH s1 (S k0) t1 p1 seen _ Hp1 Hall Hnc) as [Hc Hp2].
      destruct (run s1 l) as [s2 os]. cbn [fst snd completions_from] in *.
      destruct (upd + 5000 <? t); auto.
Qed.

Definition ok_after_n (t1 : N) (te : N * event) : Prop :=
  fst te <= t1 + 60000 /\ ev_ok X NN bodies (snd te).

(* packet 1 followed by events that do not complete the transfer: nothing delivered for X, and
   the transfer's record is exactly what the history says *)
Theorem state_after s0 t1 p1 rest :
  wf s0 -> good_pkt X NN bodies p1 -> m_no p1 = 1 -> Forall (ok_after_n t1) rest ->
  ~ covers NN (numbers X NN ((t1, EvMsg p1) :: rest)) ->
  completions X (snd (run s0 ((t1, EvMsg p1) :: rest))) = [] /\
  pending X n bodies t1 p1 (numbers X NN ((t1, EvMsg p1) :: rest)) (last_stamp X NN t1 rest)
          (fst (run s0 ((t1, EvMsg p1) :: rest))).
Proof.
  intros Hwf Hg H1 Hall Hnc. cbn [run step numbers] in *. rewrite (good_accepted p1 Hg), H1 in Hnc.
  rewrite (good_accepted p1 Hg), H1.
  apply (wf_dt t1) in Hwf. set (s0' := delete_timeout t1 s0) in *. clearbody s0'. clear s0. rename s0' into s0.
  destruct (cp_first X n bodies Hlen Hne Hn1 t1 s0 p1 Hwf Hg H1) as [(Hc & _)|(Hc & Ho & Hp)].
  { exfalso. apply Hnc. eapply covers_mono; [|exact Hc]. intros k [<-|[]]. now left. }
  destruct (complete_pack t1 s0 p1) as [s1 r]. cbn [fst snd] in *. subst r.
  assert (Hnc' : ~ covers NN (numbers X NN rest ++ [1])).
  { intros Hc'. apply Hnc. eapply covers_ext; [|exact Hc']. intros k. rewrite in_app_iff. cbn [In]. tauto. }
  destruct (run_pending rest s1 1%nat t1 p1 [1] t1 Hp Hall Hnc') as [Hc2 Hp2].
  destruct (run s1 rest) as [s2 os]. cbn [fst snd] in *. split.
  - unfold completions. cbn [completions_from]. exact Hc2.
  - eapply pending_ext; [|exact Hp2]. intros k. rewrite in_app_iff. cbn [In]. tauto.
Qed.

Lemma numbers_app l1 l2 : numbers X NN (l1 ++ l2) = numbers X NN l1 ++ numbers X NN l2.
Proof.
  induction l1 as [|[t e] l1 IH]; cbn [app numbers]. reflexivity.
  destruct e as [m|]; [|exact IH]. destruct (accepted X NN m); cbn [app]; now rewrite IH.
Qed.

Lemma completions_after_absent s l k0 : wf s -> find X s = None -> Forall (fun te => ev_ok X NN bodies (snd te)) l ->
  completions_from k0 X (snd (run s l)) = [].
Proof.
  intros Hwf Hf Hall. apply run_absent; auto.
  eapply Forall_impl; [|exact Hall]. intros te H. now apply ev_ok_no_start.
Qed.

(* C05: the message is delivered exactly once, with the concatenation of the bodies, by the
   event that brings the last missing number *)
Theorem exact s0 t1 p1 rest l1 t m l2 :
  wf s0 -> good_pkt X NN bodies p1 -> m_no p1 = 1 -> Forall (ok_after_n t1) rest ->
  (t1, EvMsg p1) :: rest = l1 ++ (t, EvMsg m) :: l2 ->
  ~ covers NN (numbers X NN l1) -> covers NN (numbers X NN (l1 ++ [(t, EvMsg m)])) ->
  completions X (snd (run s0 ((t1, EvMsg p1) :: rest))) = [(length l1, concat bodies)].
Proof.
  intros Hwf Hg H1 Hall Hsplit Hnc Hc.
  assert (Hok2 : forall l, Forall (ok_after_n t1) l -> Forall (fun te => ev_ok X NN bodies (snd te)) l).
  { intros l H. eapply Forall_impl; [|exact H]. now intros te []. }
  destruct l1 as [|e1 l1].
  - (* packet 1 alone completes: n = 1 *)
    cbn [app] in Hsplit. injection Hsplit as <- <- <-.
    cbn [app numbers] in Hc. rewrite (good_accepted p1 Hg), H1 in Hc.
    cbn [run step]. apply (wf_dt t1) in Hwf. set (s0' := delete_timeout t1 s0) in *. clearbody s0'. clear s0. rename s0' into s0.
    destruct (cp_first X n bodies Hlen Hne Hn1 t1 s0 p1 Hwf Hg H1) as [(_ & Ho & Hf & Hwf1)|(Hn & _)];
      [|contradiction].
    destruct (complete_pack t1 s0 p1) as [s1 r]. cbn [fst snd] in *. subst r.
    pose proof (completions_after_absent s1 rest 1%nat Hwf1 Hf (Hok2 _ Hall)) as Hrest.
    destruct (run s1 rest) as [s2 os]. cbn [fst snd] in *.
    unfold completions. cbn [completions_from length]. destruct Hg as (Hid & _). rewrite Hid, N.eqb_refl, Hrest.
    reflexivity.
  - cbn [app] in Hsplit. injection Hsplit as <- ->.
    apply Forall_app in Hall. destruct Hall as [Hall1 Hall2].
    apply Forall_cons_iff in Hall2. destruct Hall2 as [[Ht Hm] Hall2]. cbn [fst snd] in Ht, Hm.
    destruct (state_after s0 t1 p1 l1 Hwf Hg H1 Hall1 Hnc) as [Hc1 Hp1].
    rewrite numbers_app in Hc. cbn [numbers] in Hc.
    (* the completing event is an accepted packet 2..n *)
    assert (Hacc : accepted X NN m = true).
    { destruct (accepted X NN m); [reflexivity|]. exfalso. apply Hnc. now rewrite app_nil_r in Hc. }
    rewrite Hacc in Hc.
    assert (Hgm : good_pkt X NN bodies m /\ m_no m <> 1).
    { cbn [ev_ok] in Hm. destruct Hm as [Hf|[Hgm|Hb]]; [|exact Hgm|].
      rewrite (foreign_not_accepted m Hf) in Hacc; discriminate.
      rewrite (bad_not_accepted m Hb) in Hacc; discriminate. }
    destruct Hgm as [Hgm Hm1].
    change ((t1, EvMsg p1) :: l1 ++ (t, EvMsg m) :: l2) with (((t1, EvMsg p1) :: l1) ++ [(t, EvMsg m)] ++ l2).
    rewrite run_app.
    pose proof (run_length s0 ((t1, EvMsg p1) :: l1)) as Hlen1.
    destruct (run s0 ((t1, EvMsg p1) :: l1)) as [s1 o1]. cbn [fst snd] in *.
    cbn [app run step].
    apply (dt_pending X n bodies t) in Hp1; [|exact Ht]. set (s1' := delete_timeout t s1) in *. clearbody s1'. clear s1. rename s1' into s1.
    destruct (cp_next X n bodies Hlen Hne Hn1 t s1 m t1 p1 _ _ Hp1 Hgm Hm1) as [(_ & Ho & Hf & Hwf2)|(Hn & _)].
    2:{ exfalso. apply Hn. eapply covers_ext; [|exact Hc]. intros k. rewrite in_app_iff. cbn [In]. tauto. }
    destruct (complete_pack t s1 m) as [s2 r]. cbn [fst snd] in *. subst r.
    pose proof (completions_after_absent s2 l2 (length o1 + 1)%nat Hwf2 Hf (Hok2 _ Hall2)) as Hrest.
    destruct (run s2 l2) as [s3 o3]. cbn [fst snd] in *.
    unfold completions in *. rewrite completions_from_app, Hc1. cbn [app completions_from Nat.add].
    destruct Hgm as (Hid & _). rewrite Hid, N.eqb_refl.
    replace (S (length o1)) with (length o1 + 1)%nat by lia. rewrite Hrest, Hlen1. reflexivity.
Qed.

(* C05: an incomplete set is never delivered *)
Theorem never_early s0 t1 p1 rest :
  wf s0 -> good_pkt X NN bodies p1 -> m_no p1 = 1 -> Forall (ok_after_n t1) rest ->
  ~ covers NN (numbers X NN ((t1, EvMsg p1) :: rest)) ->
  completions X (snd (run s0 ((t1, EvMsg p1) :: rest))) = [].
Proof. intros. now apply state_after. Qed.

End Transfer2.

(* ---------------- the missing list ---------------- *)
Lemma missing_map_seq (f : nat -> list N) (a l : nat) :
  missing (map f (seq a l)) (N.of_nat a + 1) =
  filter (fun k => len (f (N.to_nat (k - 1))) =? 0) (map (fun i => N.of_nat i + 1) (seq a l)).
Proof.
  revert a. induction l as [|l IH]; intros a; cbn [seq map missing filter]. reflexivity.
  replace (N.to_nat (N.of_nat a + 1 - 1)) with a by lia.
  replace (N.of_nat a + 1 + 1) with (N.of_nat (S a) + 1) by lia. rewrite IH.
  destruct (len (f a) =? 0); reflexivity.
Qed.

Lemma missing_map_seq0 (f : nat -> list N) (l : nat) :
  missing (map f (seq 0 l)) 1 =
  filter (fun k => len (f (N.to_nat (k - 1))) =? 0) (map (fun i => N.of_nat i + 1) (seq 0 l)).
Proof. exact (missing_map_seq f 0 l). Qed.

Lemma missing_slots_of n bodies seen : length bodies = n -> Forall nonempty bodies ->
  missing (slots_of n bodies seen) 1 = missing_of (N.of_nat n) seen.
Proof.
  intros Hl Hne. unfold slots_of, missing_of.
  rewrite missing_map_seq0. rewrite Nat2N.id. apply filter_ext_in.
  intros k Hk. apply in_map_iff in Hk. destruct Hk as (i & <- & Hi). apply in_seq in Hi.
  replace (N.to_nat (N.of_nat i + 1 - 1)) with i by lia. fold (memN (N.of_nat i + 1) seen).
  destruct (memN (N.of_nat i + 1) seen); [|reflexivity]. cbn [negb].
  assert (Hb : nonempty (nth i bodies [])). { rewrite Forall_forall in Hne. apply Hne, nth_In. lia. }
  destruct (nth i bodies []) as [|b0 b]. now elim Hb. reflexivity.
Qed.

(* exactly the numbers 1..n that are not in l ... *)
Lemma missing_of_In n l k : In k (missing_of n l) <-> (1 <= k <= n /\ ~ In k l).
Proof.
  unfold missing_of. rewrite filter_In, in_map_iff. fold (memN k l). split.
  - intros [(i & <- & Hi) Hm]. apply in_seq in Hi. split. lia.
    intros Hin. apply memN_In in Hin. rewrite Hin in Hm. discriminate.
  - intros [Hk Hn]. split.
    + exists (N.to_nat (k - 1)). split. lia. apply in_seq. lia.
    + destruct (memN k l) eqn:Hm; [|reflexivity]. apply memN_In in Hm. contradiction.
Qed.

(* ... in strictly ascending order *)
Lemma ascending_filter p l : ascending l -> ascending (filter p l).
Proof.
  induction l as [|a l IH]; cbn [filter ascending]. tauto.
  intros [Ha Hl]. destruct (p a); cbn [ascending]; [|now apply IH]. split; [|now apply IH].
  intros b Hb. apply filter_In in Hb. now apply Ha.
Qed.

Lemma ascending_seq a l : ascending (map (fun i => N.of_nat i + 1) (seq a l)).
Proof.
  revert a. induction l as [|l IH]; intros a; cbn [seq map ascending]. tauto. split; [|apply IH].
  intros b Hb. apply in_map_iff in Hb. destruct Hb as (i & <- & Hi). apply in_seq in Hi. lia.
Qed.

Lemma missing_of_ascending n l : ascending (missing_of n l).
Proof. unfold missing_of. apply ascending_filter, ascending_seq. Qed.

(* the 0x8003 body in the standard's layout (table 5 of JT/T 808: WORD serial, BYTE count, WORD ids) *)
Lemma body_8003_std serial l : serial < 65536 -> Forall (fun k => k < 65536) l -> len l < 256 ->
  body_8003 serial (len l) l =
  [serial / 256; serial mod 256; len l] ++ flat_map (fun k => [k / 256; k mod 256]) l.
Proof.
  intros Hs Hl Hc. unfold body_8003. cbn [be_enc app].
  replace ((serial / 256) mod 256) with (serial / 256) by lia.
  replace (len l mod 256) with (len l) by lia. do 3 f_equal.
  induction l as [|k l IH]; cbn [flat_map]. reflexivity.
  apply Forall_cons_iff in Hl. destruct Hl as [Hk Hl]. rewrite len_cons in Hc.
  cbn [be_enc app]. replace ((k / 256) mod 256) with (k / 256) by lia. rewrite IH; auto. lia.
Qed.

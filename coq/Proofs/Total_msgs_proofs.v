(* Proofs about Model/Total_msgs.v: no decoder ever evaluates an index or slice expression beyond
   the length of the body (<> Panic), the loops by induction with the invariant cursor <= length,
   only the never-written members of the previous receiver are inputs, and the three String()
   methods that re-slice their Encode() output are total on parsed values. *)
From JT.Base Require Import Prelude PreludeP.
From JT.Model Require Import Location LocationExt Total_base Total_msgs.
From JT.Proofs Require Import LocationStd Location_proofs LocationExt_proofs Total_base_proofs.
From Coq Require Import ZArith ZifyN ZifyNat ZifyBool.
Ltac Zify.zify_post_hook ::= Z.div_mod_to_equations.
Local Open Scope N_scope.

(* `if grd then Err E_LEN else ...` : the error branch is not a panic, go on in the other one *)
Ltac grd :=
  match goal with
  | |- (if ?b then _ else _) <> Panic => let G := fresh "G" in destruct b eqn:G; [discriminate|]
  end.
(* the next checked read lies inside the body: replace it by its value *)
Ltac rd :=
  first [ rewrite idx_ok by lia | rewrite be_at_ok by lia | rewrite slice_ok by lia
        | rewrite slice_from_ok by lia ]; cbn [bind].
Ltac fields base body n fs :=
  let vs := fresh "vs" in let E := fresh "E" in
  destruct (read_fields_ok base body n fs) as [vs E]; [reflexivity | lia | rewrite E; cbn [bind]].
Ltac loop n i body start stride fs :=
  let vs := fresh "vs" in let E := fresh "E" in let L := fresh "L" in
  destruct (rec_loop_ok n i body start stride fs) as (vs & E & L); [reflexivity | lia | rewrite E; cbn [bind]].

(* ------------------------------------------------------------------------------------------ *)
(* straight-line types: the static check, once, by computation *)
Lemma fixed_layouts_ok :
  forallb (fun p => layout_ok (fst (snd p)) (snd (snd p))) fixed_layouts = true.
Proof. vm_compute. reflexivity. Qed.

Lemma lookup_in {A} k (t : list (N * A)) v : lookup k t = Some v -> In (k, v) t.
Proof.
  induction t as [|p t IH]; cbn [lookup]. discriminate.
  destruct (fst p =? k) eqn:E.
  - intros H. inversion H. left. destruct p as [a b]. cbn in *. f_equal. lia.
  - intros H. right. now apply IH.
Qed.

Theorem fixed_total id lay : lookup id fixed_layouts = Some lay -> forall body,
  fixed_parse (fst lay) (snd lay) body <> Panic.
Proof.
  intros H. apply lookup_in in H. pose proof fixed_layouts_ok as F.
  rewrite forallb_forall in F. specialize (F _ H). cbn [fst snd] in F.
  now apply fixed_layout_total.
Qed.

(* ------------------------------------------------------------------------------------------ *)
(* one length prefix *)
Theorem t1211_total body : t1211_parse body <> Panic.
Proof.
  unfold t1211_parse. grd. rd. grd. rd.
  fields (1 + at_ body 0) body 5 [fbyte 0; fnumfrom 1 4]. discriminate.
Qed.

Theorem t1212_total r body : t1212_parse r body <> Panic.
Proof.
  unfold t1212_parse. pose proof (t1211_total body) as H.
  destruct (t1211_parse body); cbn [bind]; congruence.
Qed.

Theorem p9101_total body : p9101_parse body <> Panic.
Proof.
  unfold p9101_parse. grd. rd. grd. rd.
  fields (at_ body 0 + 1) body 7 [fnumfrom 0 2; fnumfrom 2 2; fbyte 4; fbyte 5; fbyte 6]. discriminate.
Qed.

Theorem p9201_total body : p9201_parse body <> Panic.
Proof.
  unfold p9201_parse. grd. rd. grd. rd.
  fields (at_ body 0 + 1) body 22
    [fnumfrom 0 2; fnumfrom 2 2; fbyte 4; fbyte 5; fbyte 6; fbyte 7; fbyte 8; fbyte 9; ftime 10; ftime 16].
  discriminate.
Qed.

Theorem p9206_total body : p9206_parse body <> Panic.
Proof.
  unfold p9206_parse. grd. rd. cbv zeta. grd. rd. rd. rd. grd. rd. rd. grd. rd. rd. grd. rd.
  match goal with |- context [read_fields ?b body ?fs] => fields b body 25 fs end.
  discriminate.
Qed.

Theorem t0102_total ver body : t0102_parse ver body <> Panic.
Proof.
  unfold t0102_parse. destruct (ver =? 3); [|discriminate].
  grd. rd. grd. rd. rd. rd. discriminate.
Qed.

Lemma t0100_known_version ver l r : ver = 1 \/ ver = 2 \/ ver = 3 ->
  t0100_version ver l r = t0100_version ver l (VL []).
Proof. intros [->|[->| ->]]; reflexivity. Qed.

Theorem t0100_total gbk ver r body : ver = 1 \/ ver = 2 \/ ver = 3 -> t0100_parse gbk ver r body <> Panic.
Proof.
  intros Hv. unfold t0100_parse, t0100_widths, t0100_version.
  destruct Hv as [->|[->| ->]]; cbn [N.eqb Pos.eqb orb andb].
  - destruct (36 <? len body) eqn:L; cbn [N.eqb Pos.eqb andb orb]; [|grd]; repeat rd; discriminate.
  - destruct (36 <? len body) eqn:L; cbn [N.eqb Pos.eqb andb orb]; [|grd]; repeat rd; discriminate.
  - grd. repeat rd. discriminate.
Qed.

Theorem p9208_total d body : p9208_parse d body <> Panic.
Proof.
  unfold p9208_parse. cbv zeta. grd. rd. grd. rd. rd. rd. rd.
  match goal with |- context [asign_parse ?r ?x] => destruct (asign_parse_ok r x) as [s Es]; rewrite Es; cbn [bind] end.
  rd. rd. discriminate.
Qed.

(* ------------------------------------------------------------------------------------------ *)
(* count-driven loops: the count is compared with the length before the loop *)
Theorem t0805_total body : t0805_parse body <> Panic.
Proof.
  unfold t0805_parse. grd. rd. rd. rd. grd.
  loop (N.to_nat (be_dec (sub body 3 (3 + 2)))) 0 body 5 4 [fnum 0 4]. discriminate.
Qed.

Theorem t1205_total body : t1205_parse body <> Panic.
Proof.
  unfold t1205_parse. grd. rd. rd. grd.
  loop (N.to_nat (be_dec (sub body 2 (2 + 4)))) 0 body 6 28
    [fbyte 0; ftime 1; ftime 7; fnum 13 8; fbyte 21; fbyte 22; fbyte 23; fnum 24 4].
  discriminate.
Qed.

Theorem p8003_total body : p8003_parse body <> Panic.
Proof.
  unfold p8003_parse. grd. rd. rd. grd.
  loop (N.to_nat (at_ body 2)) 0 body 3 2 [fnum 0 2]. discriminate.
Qed.

Theorem p8800_total body : p8800_parse body <> Panic.
Proof.
  unfold p8800_parse. destruct (len body =? 4) eqn:L4.
  - rd. discriminate.
  - grd. rd. rd. grd.
    loop (N.to_nat (at_ body 4)) 0 body 5 2 [fnum 0 2]. discriminate.
Qed.

Theorem p9212_total body : p9212_parse body <> Panic.
Proof.
  unfold p9212_parse. grd. rd. grd. rd. rd. rd. rd. grd.
  loop (N.to_nat (at_ body (3 + at_ body 0))) 0 body (4 + at_ body 0) 8 [fnumfrom 0 4; fnumfrom 4 4].
  discriminate.
Qed.

(* 0x1210: every item is guarded before it is read; invariant: nothing (the guards are per item) *)
Lemma t1210_items_total n : forall body start, t1210_items n body start <> Panic.
Proof.
  induction n as [|n IH]; intros body start; cbn [t1210_items]. discriminate.
  grd. rd. grd. rd. rd.
  rewrite uint_of_ok by (rewrite len_skipn; lia). cbn [bind].
  specialize (IH body (start + 1 + at_ body start + 4)).
  destruct (t1210_items n body (start + 1 + at_ body start + 4)); cbn [bind]; congruence.
Qed.

Lemma tid_len_pos d : 7 <= tid_len d.
Proof.
  unfold tid_len, dialect_widths. cbn [lookup fst snd].
  repeat match goal with |- context [if ?c then _ else _] => destruct c end; cbn [fst]; lia.
Qed.

Lemma sign_len_bounds d : 16 <= sign_len d <= 40.
Proof.
  unfold sign_len, dialect_widths. cbn [lookup fst snd].
  repeat match goal with |- context [if ?c then _ else _] => destruct c end; cbn [snd]; lia.
Qed.

Theorem t1210_total d r body : t1210_parse d r body <> Panic.
Proof.
  unfold t1210_parse. cbv zeta.
  pose proof (tid_len_pos d) as Ht. pose proof (sign_len_bounds d) as Hs.
  set (idl := if d =? 2 then 0 else tid_len d).
  assert (Hi : idl <= tid_len d) by (unfold idl; destruct (d =? 2); lia).
  grd.
  assert (Etid : exists t, (if 0 <? idl then s <- slice body 0 idl ;; Ok (trim_right0 s)
                            else Ok (vstr (vnth 0 r))) = Ok t).
  { destruct (0 <? idl); [rewrite slice_ok by lia; cbn [bind]|]; eauto. }
  destruct Etid as [t Et]. rewrite Et. cbn [bind].
  repeat rd.
  match goal with |- context [asign_parse ?r ?x] => destruct (asign_parse_ok r x) as [s Es]; rewrite Es; cbn [bind] end.
  repeat rd. grd.
  match goal with |- context [t1210_items ?n ?b ?s] =>
    pose proof (t1210_items_total n b s) as Hit; destruct (t1210_items n b s); cbn [bind]; congruence end.
Qed.

(* ------------------------------------------------------------------------------------------ *)
(* terminal parameters *)
Lemma array_of_ok w c : w <= len c -> array_of w c = Ok (firstn (N.to_nat w) c).
Proof. intros H. unfold array_of. replace (len c <? w) with false by lia. reflexivity. Qed.

(* parseParam on a content of exactly the announced length: a value or the length error *)
Lemma param_store_result gbk id plen c known other : len c = plen ->
  (exists ko, param_store gbk id plen c known other = Ok ko) \/
  param_store gbk id plen c known other = Err E_LEN.
Proof.
  intros Hc. unfold param_store.
  repeat match goal with
  | |- context [if mem ?i ?l then _ else _] => destruct (mem i l)
  | |- context [if ?i =? 50 then _ else _] => destruct (i =? 50)
  | |- context [if ?i =? 272 then _ else _] => destruct (i =? 272)
  end;
  try (destruct (negb (plen =? _)) eqn:G; [right; reflexivity|]);
  try rewrite uint_of_ok by lia; try rewrite array_of_ok by lia; try rewrite idx_ok by lia;
  cbn [bind]; left; eauto.
Qed.

Lemma params_walk_total fuel : forall gbk count known other body,
  params_walk fuel gbk count known other body <> Panic.
Proof.
  induction fuel as [|f IH]; intros gbk count known other body; destruct body as [|b t]; cbn [params_walk];
    try discriminate.
  remember (b :: t) as body eqn:Hb. clear Hb b t.
  grd. rd. rd. grd. rd.
  destruct (param_store_result gbk (be_dec (sub body 0 (0 + 4))) (at_ body 4) (sub body 5 (5 + at_ body 4)) known other)
    as [[ko E]|E].
  { rewrite len_sub by lia. lia. }
  - rewrite E. cbn [bind]. rd. apply IH.
  - rewrite E. cbn [bind]. discriminate.
Qed.

(* the only error of the walk is the length error: the fuel (= length of the body) is never used up *)
Lemma params_walk_err fuel : forall gbk count known other body e, (List.length body <= fuel)%nat ->
  params_walk fuel gbk count known other body = Err e -> e = E_LEN.
Proof.
  induction fuel as [|f IH]; intros gbk count known other body e Hf; destruct body as [|b t]; cbn [params_walk];
    try discriminate.
  - cbn [List.length] in Hf. lia.
  - remember (b :: t) as body eqn:Hb. assert (Hl : 1 <= len body) by (subst body; rewrite len_cons; lia).
    clear Hb b t.
    destruct (len body <? 5) eqn:G1. { intros H; inversion H; reflexivity. }
    rd. rd.
    destruct (len body <? 5 + at_ body 4) eqn:G2. { intros H; inversion H; reflexivity. }
    rd.
    destruct (param_store_result gbk (be_dec (sub body 0 (0 + 4))) (at_ body 4) (sub body 5 (5 + at_ body 4)) known other)
      as [[ko E]|E].
    { rewrite len_sub by lia. lia. }
    + rewrite E. cbn [bind]. rd. apply IH.
      rewrite skipn_length. unfold len in *. lia.
    + rewrite E. cbn [bind]. intros H; inversion H; reflexivity.
Qed.

Theorem params_total gbk count body : params_parse gbk count body <> Panic.
Proof.
  unfold params_parse. pose proof (params_walk_total (List.length body) gbk count [] [] body) as H.
  destruct (params_walk (List.length body) gbk count [] [] body); cbn [bind]; try congruence.
  destruct (negb (fst a =? 0)); discriminate.
Qed.

Theorem params_err gbk count body e : params_parse gbk count body = Err e -> e = E_LEN.
Proof.
  unfold params_parse.
  destruct (params_walk (List.length body) gbk count [] [] body) eqn:W; cbn [bind].
  - destruct (negb (fst a =? 0)); intros H; inversion H; reflexivity.
  - intros H. inversion H. subst. eapply params_walk_err; [|exact W]. lia.
  - discriminate.
Qed.

Theorem t0104_total gbk body : t0104_parse gbk body <> Panic.
Proof.
  unfold t0104_parse. grd. rd. rd. rd.
  match goal with |- context [params_parse ?g ?c ?b] =>
    pose proof (params_total g c b) as H; destruct (params_parse g c b); cbn [bind]; congruence end.
Qed.

Theorem p8103_total gbk body : p8103_parse gbk body <> Panic.
Proof.
  unfold p8103_parse. grd. rd. rd.
  match goal with |- context [params_parse ?g ?c ?b] =>
    pose proof (params_total g c b) as H; destruct (params_parse g c b); cbn [bind]; congruence end.
Qed.

(* ------------------------------------------------------------------------------------------ *)
(* all of them *)
Theorem parse_msg_total id gbk ver d r body : ver = 1 \/ ver = 2 \/ ver = 3 ->
  parse_msg id gbk ver d r body <> Panic.
Proof.
  intros Hv. unfold parse_msg. destruct (lookup id fixed_layouts) as [lay|] eqn:L.
  - now apply fixed_total with id.
  - repeat match goal with |- (if ?c then _ else _) <> Panic => destruct c end;
      auto using t0100_total, t0102_total, t0104_total, t0805_total, t1205_total, t1210_total, t1211_total,
        t1212_total, p8003_total, p8103_total, p8800_total, p9101_total, p9201_total, p9206_total, p9208_total,
        p9212_total.
    discriminate.
Qed.

(* only the members Parse never writes are inputs *)
Theorem parse_msg_history id gbk ver d r body : ver = 1 \/ ver = 2 \/ ver = 3 ->
  parse_msg id gbk ver d r body = parse_msg id gbk ver d (config_of id d r) body.
Proof.
  intros Hv. unfold parse_msg. destruct (lookup id fixed_layouts); [reflexivity|].
  destruct (id =? 256) eqn:E0.
  { unfold t0100_parse. now rewrite (t0100_known_version ver (len body) r), (t0100_known_version ver (len body) (config_of id d r)). }
  destruct (id =? 258); [reflexivity|]. destruct (id =? 260); [reflexivity|].
  destruct (id =? 2053); [reflexivity|]. destruct (id =? 4613); [reflexivity|].
  destruct (id =? 4624) eqn:E1.
  { unfold config_of. rewrite E1. cbn [andb]. unfold t1210_parse. destruct (d =? 2) eqn:E2; [reflexivity|].
    pose proof (tid_len_pos d). replace (0 <? tid_len d) with true by lia. reflexivity. }
  destruct (id =? 4625); [reflexivity|].
  destruct (id =? 4626) eqn:E2.
  { unfold config_of. rewrite E1, E2. cbn [andb]. reflexivity. }
  reflexivity.
Qed.

Lemma config_fresh id d : config_of id d (VL []) = VL [] \/
  (id = 4624 /\ d = 2 /\ config_of id d (VL []) = VL [VS []]) \/ (id = 4626 /\ config_of id d (VL []) = VL [VL []; VL []]).
Proof.
  unfold config_of. destruct ((id =? 4624) && (d =? 2)) eqn:A.
  - right. left. repeat split; try lia.
  - destruct (id =? 4626) eqn:B. right. right. split. lia. reflexivity. now left.
Qed.

(* ------------------------------------------------------------------------------------------ *)
(* String() on parsed values *)
Lemma be_enc_len2 x : len (be_enc 2 x) = 2.
Proof. now rewrite be_enc_len. Qed.

Theorem p8100_render_total v : p8100_render v <> Panic.
Proof.
  unfold p8100_render. rewrite slice_from_ok. discriminate.
  rewrite !len_app, be_enc_len2, len_cons. lia.
Qed.

Theorem t0100_render_total enc v : t0100_render enc v <> Panic.
Proof.
  unfold t0100_render.
  destruct (vnum (vnth 7 v) =? 2); [|destruct (vnum (vnth 7 v) =? 3)];
    (rewrite slice_from_ok; [discriminate|]; rewrite !len_app, !be_enc_len2, !fill_bytes_len, len_cons; lia).
Qed.

Lemma ok_inj {A} (a b : A) : Ok a = Ok b -> a = b.
Proof. intros H. exact (f_equal (fun r => match r with Ok x => x | _ => a end) H). Qed.

(* 0x0102: the index 1+AuthCodeLen+15 is inside Encode() because the parsed AuthCode has exactly
   AuthCodeLen bytes and the IMEI fifteen *)
Theorem t0102_render_total ver body v : t0102_parse ver body = Ok v -> t0102_render v <> Panic.
Proof.
  unfold t0102_parse. destruct (ver =? 3).
  - destruct (len body <? 1 + 15 + 20) eqn:G1; [discriminate|]. rd.
    destruct (len body <? 1 + at_ body 0 + 15 + 20) eqn:G2; [discriminate|]. rd. rd. rd.
    intros H. apply ok_inj in H. subst v.
    unfold t0102_render. cbn [vnth nth vnum vstr]. change (3 =? 3) with true. cbv iota.
    rewrite slice_from_ok. discriminate.
    rewrite len_app, len_cons. change (@len N []) with 0. rewrite len_app, len_app, fill_bytes_len.
    rewrite (len_sub body 1) by lia. rewrite (len_sub body (1 + at_ body 0)) by lia. lia.
  - intros H. apply ok_inj in H. subst v. unfold t0102_render. cbn [vnth nth vnum]. change (2 =? 3) with false. discriminate.
Qed.

Theorem render_msg_total id gbk ver d r body enc v :
  parse_msg id gbk ver d r body = Ok v -> render_msg id enc v <> Panic.
Proof.
  intros H. unfold render_msg.
  destruct (id =? 33024). apply p8100_render_total.
  destruct (id =? 258) eqn:E.
  - assert (id = 258) by lia. subst id. vm_compute in H. fold (t0102_parse ver body) in H.
    now apply t0102_render_total with ver body.
  - destruct (id =? 256). apply t0100_render_total. discriminate.
Qed.

(* ------------------------------------------------------------------------------------------ *)
(* history independence over whole sequences of calls.
   A receiver is reachable when it is fresh, or the value a successful Parse of a reachable
   receiver produced, or whatever a FAILING Parse left behind: a failing Parse may have assigned
   any of the members Parse assigns, but not the never-written ones (config_of). *)
Ltac bind_inv :=
  repeat match goal with
  | |- (if ?c then _ else _) = Ok _ -> _ => destruct c; try discriminate
  | |- bind ?x _ = Ok _ -> _ => destruct x; cbn [bind]; try discriminate
  end.

Lemma t1210_hlj_tid r body v : t1210_parse 2 r body = Ok v -> vstr (vnth 0 v) = vstr (vnth 0 r).
Proof.
  unfold t1210_parse. change (2 =? 2) with true. cbv iota zeta. change (0 <? 0) with false. cbv iota.
  cbn [bind]. bind_inv. intros H. apply ok_inj in H. subst v. reflexivity.
Qed.

Lemma t1212_list r body v : t1212_parse r body = Ok v -> vnth 1 v = vnth 1 r.
Proof. unfold t1212_parse. bind_inv. intros H. apply ok_inj in H. subst v. reflexivity. Qed.

(* a successful Parse hands the never-written members on unchanged *)
Lemma config_preserved id gbk ver d r body v :
  parse_msg id gbk ver d r body = Ok v -> config_of id d v = config_of id d r.
Proof.
  intros H. unfold config_of.
  destruct ((id =? 4624) && (d =? 2)) eqn:A.
  - apply andb_true_iff in A. destruct A as [A1 A2]. assert (id = 4624) by lia. assert (d = 2) by lia. subst id d.
    vm_compute in H. fold (t1210_parse 2 r body) in H. now rewrite (t1210_hlj_tid r body v H).
  - destruct (id =? 4626) eqn:B; [|reflexivity].
    assert (id = 4626) by lia. subst id. vm_compute in H. fold (t1212_parse r body) in H.
    now rewrite (t1212_list r body v H).
Qed.

Lemma reach_config id gbk d r : reach id gbk d r -> config_of id d r = config_of id d (VL []).
Proof.
  induction 1 as [|r ver body v _ IH _ E|r r' _ IH E].
  - reflexivity.
  - rewrite (config_preserved _ _ _ _ _ _ _ E). exact IH.
  - now rewrite E.
Qed.

Theorem parse_msg_history_seq id gbk d r ver body : reach id gbk d r -> ver_ok ver ->
  parse_msg id gbk ver d r body = parse_msg id gbk ver d (VL []) body.
Proof.
  intros Hr Hv. rewrite (parse_msg_history id gbk ver d r body Hv), (parse_msg_history id gbk ver d (VL []) body Hv).
  now rewrite (reach_config id gbk d r Hr).
Qed.

(* ------------------------------------------------------------------------------------------ *)
(* "returns an error or a value": the only error any modelled decoder returns is the length error
   (protocol.ErrBodyLengthInconsistency); the model's own error numbers 98 (unknown message id) and
   99 (out of fuel) are never the answer for a modelled id *)
Definition only_len {A} (r : result A) : Prop := forall e, r = Err e -> e = E_LEN.

Lemma ol_bind {A B} (r : result A) (f : A -> result B) :
  only_len r -> (forall a, only_len (f a)) -> only_len (bind r f).
Proof. intros H1 H2 e. destruct r as [a|e0|]; cbn [bind]; [apply H2| |discriminate].
  intros H. assert (e0 = e) by (injection H; auto). subst e0. now apply H1. Qed.
Lemma ol_ok {A} (a : A) : only_len (Ok a). Proof. intros e; discriminate. Qed.
Lemma ol_panic {A} : only_len (@Panic A). Proof. intros e; discriminate. Qed.
Lemma ol_err {A} : only_len (@Err A E_LEN). Proof. intros e H. apply (f_equal (fun r => match r with Err x => x | _ => e end)) in H. now subst. Qed.
Lemma ol_idx l i : only_len (idx l i).
Proof. unfold idx. destruct (nth_error l (N.to_nat i)); [apply ol_ok|apply ol_panic]. Qed.
Lemma ol_slice l i j : only_len (slice l i j).
Proof. unfold slice. destruct ((i <=? j) && (j <=? len l)); [apply ol_ok|apply ol_panic]. Qed.
Lemma ol_slice_from l i : only_len (slice_from l i).
Proof. unfold slice_from. destruct (i <=? len l); [apply ol_ok|apply ol_panic]. Qed.
Lemma ol_be_at l i n : only_len (be_at l i n).
Proof. unfold be_at. apply ol_bind. apply ol_slice. intros; apply ol_ok. Qed.
Lemma ol_uint_of w b : only_len (uint_of w b).
Proof. unfold uint_of. destruct (len b <? w); [apply ol_panic|apply ol_ok]. Qed.
Lemma ol_array_of w b : only_len (array_of w b).
Proof. unfold array_of. destruct (len b <? w); [apply ol_panic|apply ol_ok]. Qed.

Ltac ol :=
  repeat first
  [ apply ol_ok | apply ol_err | apply ol_panic | apply ol_idx | apply ol_slice | apply ol_slice_from
  | apply ol_be_at | apply ol_uint_of | apply ol_array_of
  | apply ol_bind; [|intros ?]
  | match goal with |- only_len (if ?c then _ else _) => destruct c end ].

Lemma ol_read_field base body f : only_len (read_field base body f).
Proof. unfold read_field. destruct (f_kind f); ol. Qed.
Lemma ol_read_fields base body fs : only_len (read_fields base body fs).
Proof. induction fs as [|f fs IH]; cbn [read_fields]. apply ol_ok. apply ol_bind. apply ol_read_field. intros; ol. exact IH. Qed.
Lemma ol_rec_loop n : forall i body start stride fs, only_len (rec_loop n i body start stride fs).
Proof.
  induction n as [|n IH]; intros; cbn [rec_loop]. apply ol_ok.
  apply ol_bind. apply ol_read_fields. intros. apply ol_bind. apply IH. intros; apply ol_ok.
Qed.
Lemma ol_asign r data : only_len (asign_parse r data).
Proof. destruct (asign_parse_ok r data) as [s E]. rewrite E. apply ol_ok. Qed.
Lemma ol_fixed g fs body : only_len (fixed_parse g fs body).
Proof. unfold fixed_parse. destruct (guard_ok g (len body)); [|apply ol_err]. apply ol_bind. apply ol_read_fields. intros; apply ol_ok. Qed.
Lemma ol_t1210_items n : forall body start, only_len (t1210_items n body start).
Proof.
  induction n as [|n IH]; intros; cbn [t1210_items]. apply ol_ok.
  ol. apply IH.
Qed.
Lemma ol_params gbk count body : only_len (params_parse gbk count body).
Proof. intros e. apply params_err. Qed.

Ltac ol2 :=
  repeat first
  [ apply ol_read_fields | apply ol_rec_loop | apply ol_asign | apply ol_t1210_items | apply ol_params
  | apply ol_ok | apply ol_err | apply ol_panic | apply ol_idx | apply ol_slice | apply ol_slice_from
  | apply ol_be_at | apply ol_uint_of | apply ol_array_of
  | apply ol_bind; [|intros ?]
  | match goal with |- only_len (if ?c then _ else _) => destruct c end ].

Theorem parse_msg_only_len id gbk ver d r body e : mem id modelled_ids = true ->
  parse_msg id gbk ver d r body = Err e -> e = E_LEN.
Proof.
  intros Hm. revert e. change (only_len (parse_msg id gbk ver d r body)).
  unfold parse_msg. destruct (lookup id fixed_layouts) as [lay|] eqn:L. apply ol_fixed.
  destruct (id =? 256) eqn:E256. { unfold t0100_parse. destruct (t0100_widths ver (len body)) as [[m t] i]. ol2. }
  destruct (id =? 258) eqn:E258. { unfold t0102_parse. ol2. }
  destruct (id =? 260) eqn:E260. { unfold t0104_parse. ol2. }
  destruct (id =? 2053) eqn:E2053. { unfold t0805_parse. ol2. }
  destruct (id =? 4613) eqn:E4613. { unfold t1205_parse. ol2. }
  destruct (id =? 4624) eqn:E4624. { unfold t1210_parse. cbv zeta. ol2. }
  destruct (id =? 4625) eqn:E4625. { unfold t1211_parse. ol2. }
  destruct (id =? 4626) eqn:E4626. { unfold t1212_parse, t1211_parse. ol2. }
  destruct (id =? 32771) eqn:E32771. { unfold p8003_parse. ol2. }
  destruct (id =? 33027) eqn:E33027. { unfold p8103_parse. ol2. }
  destruct (id =? 34816) eqn:E34816. { unfold p8800_parse. ol2. }
  destruct (id =? 37121) eqn:E37121. { unfold p9101_parse. ol2. }
  destruct (id =? 37377) eqn:E37377. { unfold p9201_parse. ol2. }
  destruct (id =? 37382) eqn:E37382. { unfold p9206_parse. cbv zeta. ol2. }
  destruct (id =? 37384) eqn:E37384. { unfold p9208_parse. cbv zeta. ol2. }
  destruct (id =? 37394) eqn:E37394. { unfold p9212_parse. ol2. }
  (* not a modelled id: contradiction with Hm *)
  exfalso. unfold mem in Hm. apply existsb_exists in Hm. destruct Hm as (x & Hin & Hx).
  assert (x = id) by lia. subst x. vm_compute in Hin.
  repeat (destruct Hin as [Hin|Hin]; [subst id; first [now vm_compute in L | lia]|]).
  exact Hin.
Qed.

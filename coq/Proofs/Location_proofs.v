(* Lemmas and proofs about Model/Location.v against Proofs/LocationStd.v (C08, and the carriers'
   part of C03).  The extension parsers are in LocationExt_proofs.v. *)
From JT.Base Require Import Prelude PreludeP.
From JT.Model Require Import Location.
From JT.Proofs Require Import LocationStd.
From Coq Require Import String.
From Coq Require Import ZArith ZifyN ZifyNat ZifyBool.
Ltac Zify.zify_post_hook ::= Z.div_mod_to_equations.
Local Open Scope N_scope.

(* ------------------------------------------------------------------------------------------ *)
(* checked primitives inside their range *)
Lemma idx_ok l i : i < len l -> idx l i = Ok (at_ l i).
Proof.
  intros H. unfold idx, at_. destruct (nth_error l (N.to_nat i)) eqn:E.
  - f_equal. symmetry. apply nth_error_nth with (d := 0) in E. exact E.
  - apply nth_error_None in E. unfold len in H. lia.
Qed.

Lemma idx_not_panic l i : i < len l -> idx l i <> Panic.
Proof. intros H. rewrite idx_ok by exact H. discriminate. Qed.

Lemma slice_ok l i j : i <= j -> j <= len l -> slice l i j = Ok (sub l i j).
Proof.
  intros H1 H2. unfold slice, sub.
  replace ((i <=? j) && (j <=? len l)) with true by lia. reflexivity.
Qed.

Lemma be_at_ok l i n : i + n <= len l -> be_at l i n = Ok (be_dec (sub l i (i + n))).
Proof. intros H. unfold be_at. rewrite slice_ok by lia. reflexivity. Qed.

Lemma slice_from_ok l i : i <= len l -> slice_from l i = Ok (skipn (N.to_nat i) l).
Proof. intros H. unfold slice_from. replace (i <=? len l) with true by lia. reflexivity. Qed.

Lemma sub_length l i j : i <= j -> j <= len l -> List.length (sub l i j) = N.to_nat (j - i).
Proof.
  intros H1 H2. unfold sub, len in *. rewrite firstn_length, skipn_length. lia.
Qed.

Lemma len_sub l i j : i <= j -> j <= len l -> len (sub l i j) = j - i.
Proof. intros H1 H2. unfold len at 1. rewrite sub_length by assumption. lia. Qed.

Lemma len_firstn (l : list N) n : n <= len l -> len (firstn (N.to_nat n) l) = n.
Proof. unfold len. rewrite firstn_length. lia. Qed.

Lemma len_skipn (l : list N) n : len (skipn (N.to_nat n) l) = len l - n.
Proof. unfold len. rewrite skipn_length. lia. Qed.

Lemma len_repeat {A} (x : A) n : len (repeat x n) = N.of_nat n.
Proof. unfold len. now rewrite repeat_length. Qed.

Lemma take_ok' n l : n <= len l ->
  take n l = Ok (firstn (N.to_nat n) l, skipn (N.to_nat n) l).
Proof. intros H. unfold take. replace (n <=? len l) with true by lia. reflexivity. Qed.

(* ------------------------------------------------------------------------------------------ *)
(* the binary string *)
Lemma bin_str_length n w : List.length (bin_str n w) = n.
Proof.
  revert w. induction n as [|n IH]; intros w; cbn [bin_str]. reflexivity.
  rewrite app_length, IH. cbn [List.length]. lia.
Qed.

Lemma len_bin_str n w : len (bin_str n w) = N.of_nat n.
Proof. unfold len. now rewrite bin_str_length. Qed.

(* character K of the n-character string is bit n-1-K of the word *)
Lemma bin_str_nth n : forall w K, (K < n)%nat ->
  nth K (bin_str n w) 0 = 48 + N.b2n (N.testbit w (N.of_nat (n - 1 - K))).
Proof.
  induction n as [|n IH]; intros w K HK. lia.
  cbn [bin_str]. destruct (Nat.eq_dec K n) as [->|Hne].
  - rewrite app_nth2 by (rewrite bin_str_length; lia).
    rewrite bin_str_length, Nat.sub_diag. cbn [nth].
    replace (S n - 1 - n)%nat with 0%nat by lia. cbn [N.of_nat].
    now rewrite N.bit0_mod.
  - rewrite app_nth1 by (rewrite bin_str_length; lia).
    rewrite IH by lia. rewrite N.div2_bits.
    replace (S n - 1 - K)%nat with (S (n - 1 - K)) by lia.
    now rewrite Nat2N.inj_succ.
Qed.

Lemma bin_str_char n w K : (K < n)%nat ->
  (nth K (bin_str n w) 0 =? 49) = N.testbit w (N.of_nat (n - 1 - K)).
Proof.
  intros H. rewrite bin_str_nth by exact H.
  destruct (N.testbit w (N.of_nat (n - 1 - K))); reflexivity.
Qed.

(* ------------------------------------------------------------------------------------------ *)
(* flag chains *)
Lemma set_flag_length f fl : List.length (set_flag f fl) = List.length fl.
Proof.
  revert f. induction fl as [|b t IH]; intros f; cbn [set_flag]. reflexivity.
  destruct f; cbn [List.length]; auto.
Qed.

Lemma set_flag_nth f fl g :
  nth g (set_flag f fl) false = (nth g fl false || ((g =? f)%nat && (f <? List.length fl)%nat))%bool.
Proof.
  revert f g. induction fl as [|b t IH]; intros f g; cbn [set_flag List.length].
  - destruct g; cbn; now rewrite andb_false_r.
  - destruct f as [|f]; destruct g as [|g]; cbn [nth].
    + cbn. now rewrite orb_true_r.
    + cbn. now rewrite orb_false_r.
    + cbn. now rewrite orb_false_r.
    + rewrite IH. f_equal.
Qed.

(* the string indices a table tests for field f *)
Definition ks_of (f : N) (table : list (N * N)) : list N :=
  map fst (filter (fun p => snd p =? f) table).

Lemma flags_parse_spec table : forall data fl,
  (forall p, In p table -> fst p < len data) ->
  exists fl', flags_parse table data fl = Ok fl' /\ List.length fl' = List.length fl /\
    forall f, nth f fl' false =
      (nth f fl false ||
       ((f <? List.length fl)%nat && existsb (fun K => at_ data K =? 49) (ks_of (N.of_nat f) table)))%bool.
Proof.
  induction table as [|p t IH]; intros data fl Hin.
  - exists fl. cbn [flags_parse ks_of filter map existsb]. repeat split.
    intros f. now rewrite andb_false_r, orb_false_r.
  - cbn [flags_parse]. rewrite idx_ok by (apply Hin; now left). cbn [bind].
    destruct (IH data (if at_ data (fst p) =? 49 then set_flag (N.to_nat (snd p)) fl else fl))
      as (fl' & E & L & Hn). { intros q Hq. apply Hin. now right. }
    exists fl'. split. exact E. split.
    { rewrite L. destruct (at_ data (fst p) =? 49). apply set_flag_length. reflexivity. }
    intros f. rewrite Hn. unfold ks_of. cbn [filter].
    destruct (at_ data (fst p) =? 49) eqn:Ec.
    + rewrite set_flag_nth, set_flag_length.
      destruct (snd p =? N.of_nat f) eqn:Ef.
      * cbn [map existsb]. rewrite Ec.
        replace (N.to_nat (snd p)) with f by lia. rewrite Nat.eqb_refl.
        destruct (nth f fl false), (f <? List.length fl)%nat, (existsb _ _); reflexivity.
      * replace (f =? N.to_nat (snd p))%nat with false by lia.
        rewrite andb_false_l, orb_false_r. reflexivity.
    + destruct (snd p =? N.of_nat f) eqn:Ef.
      * cbn [map existsb]. rewrite Ec. reflexivity.
      * reflexivity.
Qed.

(* ------------------------------------------------------------------------------------------ *)
(* a code table against a table of the standard: a finite check on the TABLES (computed), lifted
   to every word by the lemmas above *)
Definition table_ok (table : list (N * N)) (n : nat) (std : list (N * string)) (fields : list string)
  : bool :=
  forallb (fun p => fst p <? N.of_nat n) table &&
  forallb (fun f =>
    match std_bit (nth f fields ""%string) std with
    | Some k => (k <? N.of_nat n) && list_eqb (ks_of (N.of_nat f) table) [N.of_nat n - 1 - k]
    | None => list_eqb (ks_of (N.of_nat f) table) []
    end) (seq 0 (List.length fields)).

Lemma std_flags_length std fields w : List.length (std_flags std fields w) = List.length fields.
Proof. unfold std_flags. apply map_length. Qed.

Lemma std_flags_nth std fields w f : (f < List.length fields)%nat ->
  nth f (std_flags std fields w) false =
  match std_bit (nth f fields ""%string) std with Some k => N.testbit w k | None => false end.
Proof.
  intros H. unfold std_flags.
  set (g := fun name => match std_bit name std with Some k => N.testbit w k | None => false end).
  rewrite nth_indep with (d' := g ""%string) by (rewrite map_length; exact H).
  rewrite map_nth. reflexivity.
Qed.

Lemma nth_false_beyond (l : list bool) f : (List.length l <= f)%nat -> nth f l false = false.
Proof. intros H. apply nth_overflow. exact H. Qed.

Theorem flags_parse_std table n std fields w :
  table_ok table n std fields = true ->
  flags_parse table (bin_str n w) (repeat false (List.length fields)) = Ok (std_flags std fields w).
Proof.
  intros Hok. unfold table_ok in Hok. apply andb_true_iff in Hok. destruct Hok as [Hk Hf].
  rewrite forallb_forall in Hk, Hf.
  destruct (flags_parse_spec table (bin_str n w) (repeat false (List.length fields)))
    as (fl' & E & L & Hn).
  { intros p Hp. rewrite len_bin_str. specialize (Hk p Hp). lia. }
  rewrite E. f_equal. rewrite repeat_length in L.
  apply nth_ext with (d := false) (d' := false).
  - now rewrite std_flags_length.
  - intros f Hlt. rewrite L in Hlt. rewrite Hn, std_flags_nth by exact Hlt.
    rewrite repeat_length.
    replace (nth f (repeat false (List.length fields)) false) with false
      by (symmetry; apply nth_repeat).
    replace (f <? List.length fields)%nat with true by lia. cbn [orb andb].
    specialize (Hf f). rewrite in_seq in Hf. specialize (Hf ltac:(lia)).
    destruct (std_bit (nth f fields ""%string) std) as [k|].
    + apply andb_true_iff in Hf. destruct Hf as [Hkn Heq]. apply list_eqb_spec in Heq.
      rewrite Heq. cbn [existsb]. rewrite orb_false_r. unfold at_.
      rewrite bin_str_char by lia. f_equal. lia.
    + apply list_eqb_spec in Hf. rewrite Hf. reflexivity.
Qed.

(* reading a named flag *)
Lemma index_of_spec name fields : In name fields ->
  (index_of name fields < List.length fields)%nat /\ nth (index_of name fields) fields ""%string = name.
Proof.
  induction fields as [|f r IH]; intros H. destruct H.
  cbn [index_of]. destruct (String.eqb_spec f name) as [->|Hne].
  - cbn. split. lia. reflexivity.
  - destruct H as [H|H]. congruence. destruct (IH H) as [A B]. cbn [List.length nth]. split. lia. exact B.
Qed.

Definition uniq_names (t : list (N * string)) : bool :=
  forallb (fun p => match std_bit (snd p) t with Some k => k =? fst p | None => false end) t.

Lemma std_bit_in t k name : uniq_names t = true -> In (k, name) t -> std_bit name t = Some k.
Proof.
  unfold uniq_names. rewrite forallb_forall. intros H Hin. specialize (H _ Hin). cbn [fst snd] in H.
  destruct (std_bit name t) as [k'|]; [|discriminate]. f_equal. lia.
Qed.

Definition names_in (t : list (N * string)) (fields : list string) : bool :=
  forallb (fun p => existsb (String.eqb (snd p)) fields) t.

Lemma names_in_spec t fields k name : names_in t fields = true -> In (k, name) t -> In name fields.
Proof.
  unfold names_in. rewrite forallb_forall. intros H Hin. specialize (H _ Hin). cbn [snd] in H.
  apply existsb_exists in H. destruct H as (x & Hx & Ex). apply String.eqb_eq in Ex. now subst.
Qed.

Theorem flag_named_std std fields w k name :
  uniq_names std = true -> names_in std fields = true -> In (k, name) std ->
  flag_named fields (std_flags std fields w) name = N.testbit w k.
Proof.
  intros Hu Hn Hin. unfold flag_named.
  destruct (index_of_spec name fields (names_in_spec _ _ _ _ Hn Hin)) as [Hlt Hnth].
  rewrite std_flags_nth by exact Hlt. rewrite Hnth, (std_bit_in _ _ _ Hu Hin). reflexivity.
Qed.

(* the five tables of the code against the standard's *)
Lemma alarm_table_std : table_ok alarm_table 32 std_alarm alarm_fields = true.
Proof. vm_compute. reflexivity. Qed.
Lemma status_table_std : table_ok status_table 32 std_status status_fields = true.
Proof. vm_compute. reflexivity. Qed.
Lemma extsig_table_std : table_ok extsig_table 32 std_extsig extsig_fields = true.
Proof. vm_compute. reflexivity. Qed.
Lemma io_table_std : table_ok io_table 16 std_io io_fields = true.
Proof. vm_compute. reflexivity. Qed.

Lemma std_tables_wf :
  uniq_names std_alarm = true /\ names_in std_alarm alarm_fields = true /\
  uniq_names std_status = true /\ names_in std_status status_fields = true /\
  uniq_names std_extsig = true /\ names_in std_extsig extsig_fields = true /\
  uniq_names std_io = true /\ names_in std_io io_fields = true.
Proof. vm_compute. repeat split. Qed.

(* ------------------------------------------------------------------------------------------ *)
(* the 28-byte block *)
Lemma bcd2time_six y mo d h mi s :
  bcd2time [y; mo; d; h; mi; s] =
  [50; 48] ++ bcd_digits y ++ [45] ++ bcd_digits mo ++ [45] ++ bcd_digits d ++ [32] ++
  bcd_digits h ++ [58] ++ bcd_digits mi ++ [58] ++ bcd_digits s.
Proof.
  unfold bcd2time, bcd_chars, bcd_digits. cbn [flat_map app].
  rewrite !(N.add_comm 48). reflexivity.
Qed.

Lemma list_of_length_6 (l : list N) : List.length l = 6%nat ->
  exists a b c d e f, l = [a; b; c; d; e; f].
Proof.
  intros H. do 6 (destruct l as [|? l]; [discriminate|]). destruct l; [|discriminate].
  now eexists _, _, _, _, _, _.
Qed.

Lemma cargo_total w : exists c, cargo_parse (bin_str 32 w) = Ok c.
Proof.
  unfold cargo_parse. rewrite !idx_ok by (rewrite len_bin_str; lia). cbn [bind]. eauto.
Qed.

(* every field of the block at the standard's offset; the flags as the standard's tables say *)
Theorem block_std b : 28 <= len b ->
  exists v, block_parse b = Ok v /\
    l_alarm v = std_alarm_word b /\ l_status v = std_status_word b /\
    l_lat v = std_lat b /\ l_lon v = std_lon b /\ l_alt v = std_alt b /\
    l_speed v = std_speed b /\ l_dir v = std_dir b /\ l_time v = std_time b /\
    l_aflags v = std_flags std_alarm alarm_fields (std_alarm_word b) /\
    l_sflags v = std_flags std_status status_fields (std_status_word b).
Proof.
  intros H. unfold block_parse. replace (len b <? 28) with false by lia.
  rewrite !be_at_ok by lia. cbn [bind].
  change (List.length alarm_fields) with 32%nat.
  rewrite (flags_parse_std alarm_table 32 std_alarm alarm_fields _ alarm_table_std). cbn [bind].
  rewrite (flags_parse_std status_table 32 std_status status_fields _ status_table_std). cbn [bind].
  destruct (cargo_total (be_dec (sub b 4 (4 + 4)))) as [c Ec]. rewrite Ec. cbn [bind].
  rewrite slice_ok by lia. cbn [bind].
  eexists. split. reflexivity. cbn [l_alarm l_status l_lat l_lon l_alt l_speed l_dir l_time l_aflags l_sflags].
  unfold std_alarm_word, std_status_word, std_lat, std_lon, std_alt, std_speed, std_dir, std_time.
  repeat split.
  destruct (list_of_length_6 (sub b 22 28)) as (y & mo & d & h & mi & s & E).
  { rewrite sub_length by lia. reflexivity. }
  rewrite E. apply bcd2time_six.
Qed.

Lemma block_total b : block_parse b <> Panic.
Proof.
  destruct (N.ltb_spec (len b) 28) as [H|H].
  - unfold block_parse. replace (len b <? 28) with true by lia. discriminate.
  - destruct (block_std b H) as (v & E & _). rewrite E. discriminate.
Qed.

Lemma block_err b : forall e, block_parse b = Err e -> e = E_LEN /\ len b < 28.
Proof.
  intros e He. destruct (N.ltb_spec (len b) 28) as [H|H].
  - unfold block_parse in He. replace (len b <? 28) with true in He by lia. split; [congruence | exact H].
  - destruct (block_std b H) as (v & E & _). congruence.
Qed.

(* C08_alarm / C08_status: for every body, every named flag is the standard's bit of the word *)
Theorem alarm_flags_std b v k name : block_parse b = Ok v -> In (k, name) std_alarm ->
  flag_named alarm_fields (l_aflags v) name = N.testbit (l_alarm v) k.
Proof.
  intros E Hin. destruct (N.ltb_spec (len b) 28) as [H|H].
  - unfold block_parse in E. replace (len b <? 28) with true in E by lia. discriminate.
  - destruct (block_std b H) as (v' & E' & A & _ & _ & _ & _ & _ & _ & _ & F & _).
    rewrite E in E'. injection E' as <-. rewrite F, A.
    destruct std_tables_wf as (U & I & _). now apply flag_named_std.
Qed.

Theorem status_flags_std b v k name : block_parse b = Ok v -> In (k, name) std_status ->
  flag_named status_fields (l_sflags v) name = N.testbit (l_status v) k.
Proof.
  intros E Hin. destruct (N.ltb_spec (len b) 28) as [H|H].
  - unfold block_parse in E. replace (len b <? 28) with true in E by lia. discriminate.
  - destruct (block_std b H) as (v' & E' & _ & A & _ & _ & _ & _ & _ & _ & _ & F).
    rewrite E in E'. injection E' as <-. rewrite F, A.
    destruct std_tables_wf as (_ & _ & U & I & _). now apply flag_named_std.
Qed.

(* the same fact stated on the decoder of the word alone: string index K <-> bit 31-K, all 2^32
   words (and beyond: no bound on w is needed) *)
Theorem alarm_word_std w : exists fl,
  flags_parse alarm_table (bin_str 32 w) (repeat false 32) = Ok fl /\
  forall k name, In (k, name) std_alarm -> flag_named alarm_fields fl name = N.testbit w k.
Proof.
  exists (std_flags std_alarm alarm_fields w). split.
  - exact (flags_parse_std alarm_table 32 std_alarm alarm_fields w alarm_table_std).
  - intros k name Hin. destruct std_tables_wf as (U & I & _). now apply flag_named_std.
Qed.

Theorem status_word_std w : exists fl,
  flags_parse status_table (bin_str 32 w) (repeat false 22) = Ok fl /\
  forall k name, In (k, name) std_status -> flag_named status_fields fl name = N.testbit w k.
Proof.
  exists (std_flags std_status status_fields w). split.
  - exact (flags_parse_std status_table 32 std_status status_fields w status_table_std).
  - intros k name Hin. destruct std_tables_wf as (_ & _ & U & I & _). now apply flag_named_std.
Qed.

(* ------------------------------------------------------------------------------------------ *)
(* additional-information items *)
Lemma u32_ok c : 4 <= len c -> u32 c = Ok (be_dec (firstn 4 c)).
Proof. intros H. unfold u32. replace (len c <? 4) with false by lia. reflexivity. Qed.
Lemma u16_ok c : 2 <= len c -> u16 c = Ok (be_dec (firstn 2 c)).
Proof. intros H. unfold u16. replace (len c <? 2) with false by lia. reflexivity. Qed.
Lemma u32_exact c : len c = 4 -> u32 c = Ok (be_dec c).
Proof. intros H. rewrite u32_ok by lia. rewrite firstn_all2. reflexivity. unfold len in H. lia. Qed.
Lemma u16_exact c : len c = 2 -> u16 c = Ok (be_dec c).
Proof. intros H. rewrite u16_ok by lia. rewrite firstn_all2. reflexivity. unfold len in H. lia. Qed.

Lemma tire_parse_std k c :
  tire_parse k c =
  flat_map (fun p => if snd p =? 0 then [] else [p])
           (combine (map N.of_nat (seq (N.to_nat k) (List.length c))) c).
Proof.
  revert k. induction c as [|v t IH]; intros k. reflexivity.
  cbn [tire_parse List.length seq map combine flat_map snd]. rewrite IH.
  rewrite N2Nat.id. replace (N.to_nat (k + 1)) with (S (N.to_nat k)) by lia. reflexivity.
Qed.

(* contrast on a listed / unlisted id *)
Lemma contrast_listed id ls n : lookup id item_len_table = Some ls ->
  contrast id n = existsb (N.eqb n) ls.
Proof. intros H. unfold contrast. now rewrite H. Qed.

(* case analysis over the ids the code and the standard know; the last goal has id different from
   all of them *)
Ltac case_id id :=
  destruct (N.eqb_spec id 1) as [->|?]; [|
  destruct (N.eqb_spec id 2) as [->|?]; [|
  destruct (N.eqb_spec id 3) as [->|?]; [|
  destruct (N.eqb_spec id 4) as [->|?]; [|
  destruct (N.eqb_spec id 5) as [->|?]; [|
  destruct (N.eqb_spec id 6) as [->|?]; [|
  destruct (N.eqb_spec id 17) as [->|?]; [|
  destruct (N.eqb_spec id 18) as [->|?]; [|
  destruct (N.eqb_spec id 19) as [->|?]; [|
  destruct (N.eqb_spec id 37) as [->|?]; [|
  destruct (N.eqb_spec id 42) as [->|?]; [|
  destruct (N.eqb_spec id 43) as [->|?]; [|
  destruct (N.eqb_spec id 48) as [->|?]; [|
  destruct (N.eqb_spec id 49) as [->|?]]]]]]]]]]]]]].

Ltac neq_false id :=
  repeat match goal with
  | H : id <> ?k |- _ =>
      (replace (id =? k) with false in * by (symmetry; apply N.eqb_neq; exact H));
      (replace (k =? id) with false in * by (symmetry; apply N.eqb_neq; intros ?; apply H; congruence));
      clear H
  end.

(* the code's length table and the standard's agree on every id *)
Lemma contrast_std id n : contrast id n =
  match lookup id std_item_lens with Some ls => existsb (N.eqb n) ls | None => true end.
Proof.
  unfold contrast. case_id id; try reflexivity.
  unfold lookup, item_len_table, std_item_lens; cbn [fst snd]. neq_false id. reflexivity.
Qed.

Lemma existsb_eqb_1 n a : existsb (N.eqb n) [a] = true -> n = a.
Proof. cbn [existsb]. rewrite orb_false_r. apply N.eqb_eq. Qed.

Lemma flags_ext v : flags_parse extsig_table (bin_str 32 v) (repeat false 16) =
                    Ok (std_flags std_extsig extsig_fields v).
Proof. exact (flags_parse_std extsig_table 32 std_extsig extsig_fields v extsig_table_std). Qed.
Lemma flags_io v : flags_parse io_table (bin_str 16 v) (repeat false 3) =
                   Ok (std_flags std_io io_fields v).
Proof. exact (flags_parse_std io_table 16 std_io io_fields v io_table_std). Qed.

Ltac use_contrast H :=
  match type of H with
  | contrast ?id ?n = true =>
    let r := eval vm_compute in (lookup id item_len_table) in
    match r with
    | Some ?l => rewrite (contrast_listed id l n (eq_refl (Some l))) in H
    end
  end.

(* no item whose length passed the table makes decode panic *)
Lemma decode_item_total id c : contrast id (len c) = true -> exists v, decode_item id c = Ok v.
Proof.
  intros H. unfold decode_item. case_id id;
    try (use_contrast H; try apply existsb_eqb_1 in H);
    cbn [N.eqb Pos.eqb].
  - rewrite u32_ok by lia. cbn [bind]. eauto.
  - rewrite u16_ok by lia. cbn [bind]. eauto.
  - rewrite u16_ok by lia. cbn [bind]. eauto.
  - rewrite u16_ok by lia. cbn [bind]. eauto.
  - eauto.
  - rewrite u16_ok by lia. cbn [bind]. eauto.
  - cbn [existsb] in H.
    assert (Hl : len c = 1 \/ len c = 5) by lia.
    rewrite idx_ok by lia. cbn [bind].
    destruct (negb (at_ c 0 =? 0) && (4 <=? len c)) eqn:Eg.
    + rewrite u32_ok by lia. cbn [bind]. eauto.
    + eauto.
  - rewrite idx_ok by lia. rewrite be_at_ok by lia. rewrite idx_ok by lia. cbn [bind]. eauto.
  - rewrite !be_at_ok by lia. rewrite idx_ok by lia. cbn [bind]. eauto.
  - rewrite u32_ok by lia. cbn [bind]. rewrite flags_ext. cbn [bind]. eauto.
  - rewrite u16_ok by lia. cbn [bind]. rewrite flags_io. cbn [bind]. eauto.
  - rewrite u32_ok by lia. cbn [bind]. eauto.
  - rewrite idx_ok by lia. cbn [bind]. eauto.
  - rewrite idx_ok by lia. cbn [bind]. eauto.
  - neq_false id. eauto.
Qed.

(* every admissible item decodes to the value the standard assigns to its bytes *)
Lemma decode_item_std it : admissible it = true ->
  decode_item (fst it) (snd it) = Ok (std_item_value (fst it) (snd it)).
Proof.
  destruct it as [id c]. unfold admissible, len_ok, is_0x11_with_area. cbn [fst snd]. intros H.
  apply andb_true_iff in H. destruct H as [H Hf].
  unfold decode_item, std_item_value. case_id id;
    try (cbn [lookup std_item_lens fst snd N.eqb Pos.eqb] in H; apply existsb_eqb_1 in H);
    cbn [N.eqb Pos.eqb].
  - rewrite u32_exact by exact H. reflexivity.
  - rewrite u16_exact by exact H. reflexivity.
  - rewrite u16_exact by exact H. reflexivity.
  - rewrite u16_exact by exact H. reflexivity.
  - rewrite tire_parse_std. reflexivity.
  - rewrite u16_exact by exact H. reflexivity.
  - cbn [lookup std_item_lens fst snd N.eqb Pos.eqb existsb] in H.
    cbn [N.eqb Pos.eqb andb] in Hf.
    assert (Hl : len c = 1 \/ len c = 5) by lia.
    rewrite idx_ok by lia. cbn [bind].
    destruct (at_ c 0 =? 0) eqn:E0; cbn [negb andb].
    + reflexivity.
    + (* type <> 0: only the length-1 form is left outside the finding's class *)
      assert (Hl1 : len c = 1) by lia.
      replace (4 <=? len c) with false by lia.
      f_equal. f_equal. unfold sub.
      destruct c as [|x [|y t]]; try reflexivity. unfold len in Hl1. cbn [List.length] in Hl1. lia.
  - rewrite idx_ok by lia. rewrite be_at_ok by lia. rewrite idx_ok by lia. reflexivity.
  - rewrite !be_at_ok by lia. rewrite idx_ok by lia. reflexivity.
  - rewrite u32_exact by exact H. cbn [bind]. rewrite flags_ext. reflexivity.
  - rewrite u16_exact by exact H. cbn [bind]. rewrite flags_io. reflexivity.
  - rewrite u32_exact by exact H. reflexivity.
  - rewrite idx_ok by lia. reflexivity.
  - rewrite idx_ok by lia. reflexivity.
  - neq_false id. reflexivity.
Qed.

(* ------------------------------------------------------------------------------------------ *)
(* the TLV walk *)
Lemma adds_walk_total fuel : forall m body, adds_walk fuel m body <> Panic.
Proof.
  induction fuel as [|f IH]; intros m body; destruct body as [|id [|alen rest]]; cbn [adds_walk];
    try discriminate.
  destruct (contrast id alen) eqn:Ec; cbn [negb]; [|discriminate].
  destruct (N.ltb_spec (len rest) alen) as [Hl|Hl]; [discriminate|].
  rewrite take_ok' by lia. cbn [bind fst snd].
  destruct (decode_item_total id (firstn (N.to_nat alen) rest)) as [v Ev].
  { rewrite len_firstn by lia. exact Ec. }
  rewrite Ev. cbn [bind]. apply IH.
Qed.

(* the walk returns no error but the length error, and never runs out of fuel *)
Lemma adds_walk_err fuel : forall m body e, (List.length body <= fuel)%nat ->
  adds_walk fuel m body = Err e -> e = E_LEN.
Proof.
  induction fuel as [|f IH]; intros m body e Hf; destruct body as [|id [|alen rest]]; cbn [adds_walk];
    try discriminate; try (intros H; congruence).
  - cbn [List.length] in Hf. lia.
  - destruct (contrast id alen) eqn:Ec; cbn [negb]; [|intros H; congruence].
    destruct (N.ltb_spec (len rest) alen) as [Hl|Hl]; [intros H; congruence|].
    rewrite take_ok' by lia. cbn [bind fst snd].
    destruct (decode_item_total id (firstn (N.to_nat alen) rest)) as [v Ev].
    { rewrite len_firstn by lia. exact Ec. }
    rewrite Ev. cbn [bind]. apply IH. cbn [List.length] in Hf. rewrite skipn_length. lia.
Qed.

(* more fuel than the length of the body changes nothing: the bound is never what stops the walk *)
Lemma adds_walk_fuel2 f1 : forall f2 m body, (List.length body <= f1)%nat ->
  (List.length body <= f2)%nat -> adds_walk f1 m body = adds_walk f2 m body.
Proof.
  induction f1 as [|f1 IH]; intros f2 m body H1 H2.
  - destruct body; [destruct f2; reflexivity | cbn [List.length] in H1; lia].
  - destruct body as [|id [|alen rest]]; [destruct f2; reflexivity ..|].
    destruct f2 as [|f2]; [cbn [List.length] in H2; lia|].
    cbn [adds_walk].
    destruct (contrast id alen); cbn [negb]; [|reflexivity].
    destruct (N.ltb_spec (len rest) alen) as [Hl|Hl]; [reflexivity|].
    rewrite take_ok' by lia. cbn [bind fst snd].
    destruct (decode_item id (firstn (N.to_nat alen) rest)); cbn [bind]; try reflexivity.
    cbn [List.length] in H1, H2. apply IH; rewrite skipn_length; lia.
Qed.

Lemma adds_walk_fuel fuel m body : (List.length body <= fuel)%nat ->
  adds_walk fuel m body = adds_walk (List.length body) m body.
Proof. intros H. apply adds_walk_fuel2; [exact H | lia]. Qed.

Lemma tlv_app it rest : tlv it ++ rest = fst it :: len (snd it) :: (snd it ++ rest).
Proof. reflexivity. Qed.

Lemma contrast_len_ok it : contrast (fst it) (len (snd it)) = len_ok it.
Proof. unfold len_ok. apply contrast_std. Qed.

(* one step of the walk over an item whose length is admissible for the code's table *)
Lemma adds_walk_step f m it rest v :
  contrast (fst it) (len (snd it)) = true -> decode_item (fst it) (snd it) = Ok v ->
  adds_walk (S f) m (tlv it ++ rest) =
  adds_walk f (amap_set m {| a_id := fst it; a_len := len (snd it); a_data := snd it; a_val := v |}) rest.
Proof.
  intros Hc Hd. rewrite tlv_app. cbn [adds_walk]. rewrite Hc. cbn [negb].
  replace (len (snd it ++ rest) <? len (snd it)) with false by (rewrite len_app; lia).
  rewrite take_app. cbn [bind fst snd]. rewrite Hd. reflexivity.
Qed.

Lemma tlv_length it : List.length (tlv it) = S (S (List.length (snd it))).
Proof. reflexivity. Qed.

(* a sequence of admissible items: the map after the walk is the map built from the standard's
   reading of each item, later items replacing earlier ones with the same id *)
Lemma walk_items items : forall m fuel,
  Forall (fun it => admissible it = true) items ->
  (List.length (flat_map tlv items) <= fuel)%nat ->
  adds_walk fuel m (flat_map tlv items) = Ok (fold_left amap_set (map std_addition items) m).
Proof.
  induction items as [|it items IH]; intros m fuel Hadm Hf.
  - cbn [flat_map map fold_left]. destruct fuel; reflexivity.
  - inversion Hadm as [|? ? Hit Hrest]; subst. cbn [flat_map] in *.
    rewrite app_length, tlv_length in Hf. destruct fuel as [|f]; [lia|].
    assert (Hc : contrast (fst it) (len (snd it)) = true).
    { rewrite contrast_len_ok. unfold admissible in Hit. apply andb_true_iff in Hit. tauto. }
    rewrite (adds_walk_step f m it _ _ Hc (decode_item_std it Hit)).
    rewrite IH by (auto; lia). reflexivity.
Qed.

(* the association list as a map *)
Lemma amap_find_set id m a :
  amap_find id (amap_set m a) = if a_id a =? id then Some a else amap_find id m.
Proof.
  induction m as [|x t IH]; cbn [amap_set amap_find].
  - reflexivity.
  - destruct (N.eqb_spec (a_id x) (a_id a)) as [E|E]; cbn [amap_find].
    + rewrite E. destruct (a_id a =? id); reflexivity.
    + rewrite IH. destruct (N.eqb_spec (a_id x) id) as [E1|E1]; [|reflexivity].
      replace (a_id a =? id) with false by (symmetry; apply N.eqb_neq; congruence). reflexivity.
Qed.

Lemma find_app' {A} (f : A -> bool) l1 l2 :
  find f (l1 ++ l2) = match find f l1 with Some x => Some x | None => find f l2 end.
Proof. induction l1 as [|x l1 IH]; cbn [app find]. reflexivity. destruct (f x); auto. Qed.

Lemma amap_find_fold id l : forall m,
  amap_find id (fold_left amap_set l m) =
  match find (fun a => a_id a =? id) (rev l) with Some a => Some a | None => amap_find id m end.
Proof.
  induction l as [|a l IH]; intros m; cbn [fold_left rev find]. reflexivity.
  rewrite IH, find_app'. destruct (find (fun a0 => a_id a0 =? id) (rev l)); [reflexivity|].
  cbn [find]. rewrite amap_find_set. destruct (a_id a =? id); reflexivity.
Qed.

Lemma find_map_std id l :
  find (fun a => a_id a =? id) (map std_addition l) = option_map std_addition (find (fun it => fst it =? id) l).
Proof.
  induction l as [|it l IH]; cbn [map find option_map]. reflexivity.
  cbn [std_addition a_id]. destruct (fst it =? id); [reflexivity | exact IH].
Qed.

Theorem items_std items : Forall (fun it => admissible it = true) items ->
  exists m, additions_parse (flat_map tlv items) = Ok m /\
    forall id, amap_find id m = option_map std_addition (find_last id items).
Proof.
  intros H. unfold additions_parse. rewrite walk_items by (auto; lia).
  eexists. split. reflexivity. intros id. rewrite amap_find_fold, <- map_rev, find_map_std.
  unfold find_last. destruct (find (fun it => fst it =? id) (rev items)); reflexivity.
Qed.

(* unknown ids: content preserved verbatim, nothing else filled in *)
Theorem unknown_std items id c : Forall (fun it => admissible it = true) items ->
  lookup id std_item_lens = None -> find_last id items = Some (id, c) ->
  exists m a, additions_parse (flat_map tlv items) = Ok m /\ amap_find id m = Some a /\
    a_id a = id /\ a_len a = len c /\ a_data a = c /\ a_val a = VNone.
Proof.
  intros H Hn Hl. destruct (items_std items H) as (m & E & F).
  exists m, (std_addition (id, c)). split. exact E. split. rewrite F, Hl. reflexivity.
  cbn [std_addition a_id a_len a_data a_val fst snd]. repeat split.
  unfold std_item_value. revert Hn. case_id id; try discriminate. intros _. neq_false id. reflexivity.
Qed.

(* an item whose length is impossible for its id: the report is rejected, wherever the item is *)
Definition bad_len (it : N * list N) : bool := negb (len_ok it).

Lemma walk_reject items : forall m fuel, Exists (fun it => bad_len it = true) items ->
  (List.length (flat_map tlv items) <= fuel)%nat ->
  adds_walk fuel m (flat_map tlv items) = Err E_LEN.
Proof.
  induction items as [|it items IH]; intros m fuel Hex Hf. inversion Hex.
  cbn [flat_map] in *. rewrite app_length, tlv_length in Hf. destruct fuel as [|f]; [lia|].
  destruct (contrast (fst it) (len (snd it))) eqn:Ec.
  - destruct (decode_item_total _ _ Ec) as [v Ev].
    rewrite (adds_walk_step f m it _ v Ec Ev). apply IH; [|lia].
    inversion Hex as [? ? Hb|? ? Hb]; subst; [|exact Hb].
    unfold bad_len in Hb. rewrite <- contrast_len_ok, Ec in Hb. discriminate.
  - rewrite tlv_app. cbn [adds_walk]. rewrite Ec. reflexivity.
Qed.

Theorem reject_std items : Exists (fun it => bad_len it = true) items ->
  additions_parse (flat_map tlv items) = Err E_LEN.
Proof. intros H. unfold additions_parse. apply walk_reject; auto. Qed.

(* the known finding: item 0x11 with an area id *)
Lemma refuted_0x11 : exists it, len_ok it = true /\ is_0x11_with_area it = true /\
  exists m a, additions_parse (tlv it) = Ok m /\ amap_find 17 m = Some a /\
    a_val a = VOverSpeed 1 16777216 /\ a_val (std_addition it) = VOverSpeed 1 66.
Proof.
  exists (17, [1; 0; 0; 0; 66]). split. reflexivity. split. reflexivity.
  eexists _, _. split. vm_compute. reflexivity. split. vm_compute. reflexivity.
  split; reflexivity.
Qed.

Lemma additions_total body : additions_parse body <> Panic.
Proof. apply adds_walk_total. Qed.

(* ------------------------------------------------------------------------------------------ *)
(* carriers *)

(* what T0x0200.Parse makes of a report body, split into its two steps *)
Definition adds_of (cur : list N) : result (list addition) :=
  if 28 <? len cur then r28 <- slice_from cur 28 ;; additions_parse r28 else Ok [].

Lemma t0200_parse_split r body :
  t0200_parse r body = l <- block_parse body ;; m <- adds_of body ;; Ok {| t_loc := l; t_adds := m |}.
Proof.
  unfold t0200_parse, adds_of. destruct (block_parse body); cbn [bind]; try reflexivity.
  destruct (28 <? len body); [|reflexivity].
  destruct (slice_from body 28); cbn [bind]; try reflexivity.
Qed.

Lemma t0200_ok_inv r body v : t0200_parse r body = Ok v ->
  block_parse body = Ok (t_loc v) /\ adds_of body = Ok (t_adds v).
Proof.
  rewrite t0200_parse_split. destruct (block_parse body); cbn [bind]; try discriminate.
  destruct (adds_of body); cbn [bind]; try discriminate. intros H. injection H as <-. auto.
Qed.

Lemma be_dec_enc2 x : x < 65536 -> be_dec (be_enc 2 x) = x.
Proof. intros H. apply be_dec_enc. cbn. lia. Qed.

Lemma be_at_app_head (h t : list N) n : len h = n -> be_at (h ++ t) 0 n = Ok (be_dec h).
Proof.
  intros H. rewrite be_at_ok by (rewrite len_app; lia). f_equal. f_equal. subst n.
  unfold sub. change (N.to_nat 0) with 0%nat. cbn [skipn].
  replace (N.to_nat (0 + len h - 0)) with (List.length h) by (unfold len; lia).
  rewrite firstn_app, Nat.sub_diag, firstn_all. cbn [firstn]. apply app_nil_r.
Qed.

(* 0x0704: every item is framed by its length and parsed exactly as a 0x0200 body is *)
Lemma items_loop_std its : forall vs acc rest,
  Forall2 (fun it v => t0200_parse fresh_0200 it = Ok v /\ len it < 65536) its vs ->
  items_loop (List.length its) (flat_map frame0704 its ++ rest) acc =
  Ok (acc ++ map (fun p => {| i_len := len (fst p); i_loc := t_loc (snd p); i_adds := t_adds (snd p) |})
                 (combine its vs)).
Proof.
  induction its as [|it its IH]; intros vs acc rest HF; inversion HF as [|? v ? vs' [Hp Hl] HF']; subst.
  - cbn [List.length items_loop combine map]. now rewrite app_nil_r.
  - cbn [List.length items_loop flat_map]. change (frame0704 it) with (be_enc 2 (len it) ++ it).
    rewrite <- !app_assoc.
    replace (len (be_enc 2 (len it) ++ it ++ flat_map frame0704 its ++ rest) <? 2) with false
      by (rewrite len_app, be_enc_len; lia).
    rewrite (take_app_n 2) by apply be_enc_len. cbn [bind fst snd].
    rewrite be_dec_enc2 by exact Hl.
    replace (len (it ++ flat_map frame0704 its ++ rest) <? len it) with false by (rewrite len_app; lia).
    rewrite take_app. cbn [bind fst snd].
    destruct (t0200_ok_inv _ _ _ Hp) as [Hb Ha]. rewrite Hb. cbn [bind].
    fold (adds_of it). rewrite Ha. cbn [bind].
    rewrite IH with (vs := vs') by exact HF'. cbn [combine map fst snd]. now rewrite <- app_assoc.
Qed.

Theorem t0704_std r ty its vs :
  Forall2 (fun it v => t0200_parse fresh_0200 it = Ok v /\ len it < 65536) its vs ->
  len its < 65536 -> 31 <= len (std_0704 ty its) ->
  t0704_parse r (std_0704 ty its) =
  Ok {| b_num := len its; b_type := ty;
        b_items := map (fun p => {| i_len := len (fst p); i_loc := t_loc (snd p); i_adds := t_adds (snd p) |})
                       (combine its vs) |}.
Proof.
  intros HF Hn Hl. unfold t0704_parse. replace (len (std_0704 ty its) <? 31) with false by lia.
  unfold std_0704 in *.
  assert (E2 : be_at (be_enc 2 (len its) ++ [ty] ++ flat_map frame0704 its) 0 2 = Ok (len its)).
  { rewrite be_at_app_head by apply be_enc_len. now rewrite be_dec_enc2. }
  rewrite E2. cbn [bind].
  assert (E3 : idx (be_enc 2 (len its) ++ [ty] ++ flat_map frame0704 its) 2 = Ok ty).
  { unfold idx. rewrite nth_error_app2 by (rewrite be_enc_length; cbn; lia).
    rewrite be_enc_length. reflexivity. }
  rewrite E3. cbn [bind].
  assert (E4 : slice_from (be_enc 2 (len its) ++ [ty] ++ flat_map frame0704 its) 3 = Ok (flat_map frame0704 its)).
  { rewrite slice_from_ok by (rewrite !len_app, be_enc_len, len_cons; lia).
    reflexivity. }
  rewrite E4. cbn [bind].
  replace (N.to_nat (len its)) with (List.length its) by (unfold len; lia).
  pose proof (items_loop_std its vs [] [] HF) as L. rewrite app_nil_r in L. rewrite L. reflexivity.
Qed.

(* ---- rejection lifted to the carriers (C08.7): an item whose length is impossible for its id makes
        T0x0200.Parse fail, and makes T0x0704.Parse fail wherever the report sits in the batch ---- *)
Lemma exists_tlv_nonempty (P : N * list N -> Prop) items : Exists P items -> 2 <= len (flat_map tlv items).
Proof.
  intros H. destruct items as [|it items]. inversion H.
  cbn [flat_map]. rewrite len_app. unfold tlv. rewrite !len_cons. lia.
Qed.

Lemma adds_of_reject blk items : len blk = 28 -> Exists (fun it => bad_len it = true) items ->
  adds_of (blk ++ flat_map tlv items) = Err E_LEN.
Proof.
  intros Hb Hex. pose proof (exists_tlv_nonempty _ _ Hex) as Hn. unfold adds_of.
  replace (28 <? len (blk ++ flat_map tlv items)) with true by (rewrite len_app; lia).
  rewrite slice_from_ok by (rewrite len_app; lia).
  replace (N.to_nat 28) with (List.length blk) by (unfold len in Hb; lia).
  rewrite skipn_app, skipn_all, Nat.sub_diag. cbn [skipn app bind]. now apply reject_std.
Qed.

Theorem reject_0200 r blk items : len blk = 28 -> Exists (fun it => bad_len it = true) items ->
  t0200_parse r (blk ++ flat_map tlv items) = Err E_LEN.
Proof.
  intros Hb Hex. rewrite t0200_parse_split.
  destruct (block_std (blk ++ flat_map tlv items)) as (v & Ev & _). { rewrite len_app. lia. }
  rewrite Ev. cbn [bind]. rewrite adds_of_reject by assumption. reflexivity.
Qed.

(* the reports in front of the bad one are consumed exactly as in items_loop_std *)
Lemma items_loop_prefix pre : forall vs k acc rest,
  Forall2 (fun it v => t0200_parse fresh_0200 it = Ok v /\ len it < 65536) pre vs ->
  items_loop (List.length pre + k) (flat_map frame0704 pre ++ rest) acc =
  items_loop k rest
    (acc ++ map (fun p => {| i_len := len (fst p); i_loc := t_loc (snd p); i_adds := t_adds (snd p) |})
                (combine pre vs)).
Proof.
  induction pre as [|it its IH]; intros vs k acc rest HF; inversion HF as [|? v ? vs' [Hp Hl] HF']; subst.
  - cbn [List.length combine map flat_map app Nat.add]. now rewrite app_nil_r.
  - cbn [List.length flat_map Nat.add items_loop]. change (frame0704 it) with (be_enc 2 (len it) ++ it).
    rewrite <- !app_assoc.
    replace (len (be_enc 2 (len it) ++ it ++ flat_map frame0704 its ++ rest) <? 2) with false
      by (rewrite len_app, be_enc_len; lia).
    rewrite (take_app_n 2) by apply be_enc_len. cbn [bind fst snd].
    rewrite be_dec_enc2 by exact Hl.
    replace (len (it ++ flat_map frame0704 its ++ rest) <? len it) with false by (rewrite len_app; lia).
    rewrite take_app. cbn [bind fst snd].
    destruct (t0200_ok_inv _ _ _ Hp) as [Hb Ha]. rewrite Hb. cbn [bind].
    fold (adds_of it). rewrite Ha. cbn [bind].
    rewrite IH with (vs := vs') by exact HF'. cbn [combine map fst snd]. now rewrite <- app_assoc.
Qed.

(* the loop fails on a report that carries an inadmissible item *)
Lemma items_loop_reject k blk items acc rest :
  len blk = 28 -> Exists (fun it => bad_len it = true) items -> len (blk ++ flat_map tlv items) < 65536 ->
  items_loop (S k) (frame0704 (blk ++ flat_map tlv items) ++ rest) acc = Err E_LEN.
Proof.
  intros Hb Hex Hl. set (bad := blk ++ flat_map tlv items) in *.
  cbn [items_loop]. change (frame0704 bad) with (be_enc 2 (len bad) ++ bad). rewrite <- app_assoc.
  replace (len (be_enc 2 (len bad) ++ bad ++ rest) <? 2) with false by (rewrite len_app, be_enc_len; lia).
  rewrite (take_app_n 2) by apply be_enc_len. cbn [bind fst snd].
  rewrite be_dec_enc2 by exact Hl.
  replace (len (bad ++ rest) <? len bad) with false by (rewrite len_app; lia).
  rewrite take_app. cbn [bind fst snd].
  destruct (block_std bad) as (v & Ev & _).
  { unfold bad. rewrite len_app. lia. }
  rewrite Ev. cbn [bind]. fold (adds_of bad). unfold bad. rewrite adds_of_reject by assumption. reflexivity.
Qed.

Theorem reject_0704 r ty pre vs blk items post :
  Forall2 (fun it v => t0200_parse fresh_0200 it = Ok v /\ len it < 65536) pre vs ->
  len blk = 28 -> Exists (fun it => bad_len it = true) items ->
  len (blk ++ flat_map tlv items) < 65536 ->
  len (pre ++ (blk ++ flat_map tlv items) :: post) < 65536 ->
  t0704_parse r (std_0704 ty (pre ++ (blk ++ flat_map tlv items) :: post)) = Err E_LEN.
Proof.
  intros HF Hb Hex Hl Hn. set (bad := blk ++ flat_map tlv items) in *. set (its := pre ++ bad :: post) in *.
  assert (Hflat : flat_map frame0704 its = flat_map frame0704 pre ++ frame0704 bad ++ flat_map frame0704 post).
  { unfold its. rewrite flat_map_app. reflexivity. }
  assert (H31 : 31 <= len (std_0704 ty its)).
  { assert (Hbad : 30 <= len bad).
    { unfold bad. rewrite len_app. pose proof (exists_tlv_nonempty _ _ Hex). lia. }
    unfold std_0704. rewrite !len_app, be_enc_len, len_cons, Hflat, !len_app.
    change (frame0704 bad) with (be_enc 2 (len bad) ++ bad). rewrite len_app, be_enc_len. lia. }
  unfold t0704_parse. replace (len (std_0704 ty its) <? 31) with false by lia.
  unfold std_0704 in *.
  assert (E2 : be_at (be_enc 2 (len its) ++ [ty] ++ flat_map frame0704 its) 0 2 = Ok (len its)).
  { rewrite be_at_app_head by apply be_enc_len. now rewrite be_dec_enc2. }
  rewrite E2. cbn [bind].
  assert (E3 : idx (be_enc 2 (len its) ++ [ty] ++ flat_map frame0704 its) 2 = Ok ty).
  { unfold idx. rewrite nth_error_app2 by (rewrite be_enc_length; cbn; lia).
    rewrite be_enc_length. reflexivity. }
  rewrite E3. cbn [bind].
  assert (E4 : slice_from (be_enc 2 (len its) ++ [ty] ++ flat_map frame0704 its) 3 = Ok (flat_map frame0704 its)).
  { rewrite slice_from_ok by (rewrite !len_app, be_enc_len, len_cons; lia). reflexivity. }
  rewrite E4. cbn [bind].
  replace (N.to_nat (len its)) with (List.length pre + S (List.length post))%nat
    by (unfold len, its; rewrite app_length; cbn [List.length]; lia).
  rewrite Hflat, (items_loop_prefix pre vs _ _ _ HF).
  unfold bad. rewrite items_loop_reject by assumption. reflexivity.
Qed.

(* 0x0801: the block sits at bytes 8..36 *)
Theorem t0801_std r id ty fm ev ch blk pkg :
  id < 4294967296 -> len blk = 28 ->
  exists v, block_parse blk = Ok v /\
    t0801_parse r (std_0801 id ty fm ev ch blk pkg) =
    Ok {| m_id := id; m_type := ty; m_fmt := fm; m_event := ev; m_chan := ch; m_loc := v; m_pkg := pkg |}.
Proof.
  intros Hid Hb. destruct (block_std blk ltac:(lia)) as (v & Ev & _). exists v. split. exact Ev.
  unfold t0801_parse, std_0801.
  set (h := be_enc 4 id).
  assert (Hh : len h = 4) by apply be_enc_len.
  replace (len (h ++ [ty; fm; ev; ch] ++ blk ++ pkg) <? 36) with false
    by (rewrite !len_app, Hh, Hb; change (len [ty; fm; ev; ch]) with 4; lia).
  assert (E1 : be_at (h ++ [ty; fm; ev; ch] ++ blk ++ pkg) 0 4 = Ok id).
  { rewrite be_at_app_head by exact Hh. unfold h. rewrite be_dec_enc. reflexivity. cbn. lia. }
  rewrite E1. cbn [bind].
  assert (Ei : idx (h ++ [ty; fm; ev; ch] ++ blk ++ pkg) 4 = Ok ty /\
               idx (h ++ [ty; fm; ev; ch] ++ blk ++ pkg) 5 = Ok fm /\
               idx (h ++ [ty; fm; ev; ch] ++ blk ++ pkg) 6 = Ok ev /\
               idx (h ++ [ty; fm; ev; ch] ++ blk ++ pkg) 7 = Ok ch).
  { unfold h. repeat split; reflexivity. }
  destruct Ei as (I4 & I5 & I6 & I7). rewrite I4, I5, I6, I7. cbn [bind].
  assert (E2 : slice (h ++ [ty; fm; ev; ch] ++ blk ++ pkg) 8 36 = Ok blk).
  { pose proof (slice_app (h ++ [ty; fm; ev; ch]) blk pkg) as S.
    rewrite len_app, Hh, Hb in S. rewrite <- app_assoc in S. exact S. }
  rewrite E2. cbn [bind]. rewrite Ev. cbn [bind].
  rewrite slice_from_ok by (rewrite !len_app, Hh, Hb; change (len [ty; fm; ev; ch]) with 4; lia). cbn [bind]. f_equal. f_equal.
  rewrite !app_assoc. rewrite skipn_app.
  rewrite skipn_all2 by (rewrite !app_length; unfold h; rewrite be_enc_length; unfold len in Hb; cbn; lia).
  rewrite !app_length. unfold h. rewrite be_enc_length. unfold len in Hb. cbn [List.length].
  replace (N.to_nat 36 - (4 + 4 + List.length blk))%nat with 0%nat by lia. reflexivity.
Qed.

(* ------------------------------------------------------------------------------------------ *)
(* C03 for the carriers: totality, independence from the previous receiver, renderers *)
Lemma adds_of_total cur : adds_of cur <> Panic.
Proof.
  unfold adds_of. destruct (N.ltb_spec 28 (len cur)) as [H|H]; [|discriminate].
  rewrite slice_from_ok by lia. cbn [bind]. apply additions_total.
Qed.

Theorem t0200_total r body : t0200_parse r body <> Panic.
Proof.
  rewrite t0200_parse_split. pose proof (block_total body). destruct (block_parse body); cbn [bind];
    try discriminate; try contradiction.
  pose proof (adds_of_total body). destruct (adds_of body); cbn [bind]; try discriminate; contradiction.
Qed.

Lemma items_loop_total n : forall rest acc, items_loop n rest acc <> Panic.
Proof.
  induction n as [|n IH]; intros rest acc; cbn [items_loop]. discriminate.
  destruct (N.ltb_spec (len rest) 2) as [H|H]; [discriminate|].
  rewrite take_ok' by lia. cbn [bind fst snd].
  set (tl := skipn (N.to_nat 2) rest). set (ilen := be_dec (firstn (N.to_nat 2) rest)).
  destruct (N.ltb_spec (len tl) ilen) as [H2|H2]; [discriminate|].
  rewrite take_ok' by lia. cbn [bind fst snd].
  pose proof (block_total (firstn (N.to_nat ilen) tl)) as Hb.
  destruct (block_parse (firstn (N.to_nat ilen) tl)); cbn [bind]; try discriminate; try contradiction.
  fold (adds_of (firstn (N.to_nat ilen) tl)).
  pose proof (adds_of_total (firstn (N.to_nat ilen) tl)) as Ha.
  destruct (adds_of (firstn (N.to_nat ilen) tl)); cbn [bind]; try discriminate; try contradiction.
  apply IH.
Qed.

Theorem t0704_total r body : t0704_parse r body <> Panic.
Proof.
  unfold t0704_parse. destruct (N.ltb_spec (len body) 31) as [H|H]; [discriminate|].
  rewrite be_at_ok by lia. rewrite idx_ok by lia. rewrite slice_from_ok by lia. cbn [bind].
  pose proof (items_loop_total (N.to_nat (be_dec (sub body 0 (0 + 2)))) (skipn (N.to_nat 3) body) []) as Hi.
  destruct (items_loop _ _ _); cbn [bind]; try discriminate; contradiction.
Qed.

Lemma t0801_parse_eq r body : 36 <= len body ->
  exists v, block_parse (sub body 8 36) = Ok v /\
  t0801_parse r body =
  Ok {| m_id := be_dec (sub body 0 4); m_type := at_ body 4; m_fmt := at_ body 5; m_event := at_ body 6;
        m_chan := at_ body 7; m_loc := v; m_pkg := skipn (N.to_nat 36) body |}.
Proof.
  intros H. destruct (block_std (sub body 8 36)) as (v & Ev & _). { rewrite len_sub by lia. lia. }
  exists v. split. exact Ev.
  unfold t0801_parse. replace (len body <? 36) with false by lia.
  rewrite be_at_ok by lia. rewrite !idx_ok by lia. rewrite slice_ok by lia. cbn [bind].
  rewrite Ev. cbn [bind]. rewrite slice_from_ok by lia. reflexivity.
Qed.

Theorem t0801_total r body : t0801_parse r body <> Panic.
Proof.
  destruct (N.ltb_spec (len body) 36) as [H|H].
  - unfold t0801_parse. replace (len body <? 36) with true by lia. discriminate.
  - destruct (t0801_parse_eq r body H) as (v & _ & E). rewrite E. discriminate.
Qed.

(* the result does not depend on what the receiver held *)
Theorem t0200_history r body : t0200_parse r body = t0200_parse fresh_0200 body.
Proof. reflexivity. Qed.
Theorem t0704_history r body : t0704_parse r body = t0704_parse fresh_0704 body.
Proof. reflexivity. Qed.
Theorem t0801_history r body : t0801_parse r body = t0801_parse fresh_0801 body.
Proof.
  destruct (N.ltb_spec (len body) 36) as [H|H].
  - unfold t0801_parse. replace (len body <? 36) with true by lia. reflexivity.
  - destruct (t0801_parse_eq r body H) as (v & Ev & E).
    destruct (t0801_parse_eq fresh_0801 body H) as (v' & Ev' & E'). rewrite E, E'. congruence.
Qed.

(* renderers *)
Lemma slice_cap_total l cap i j : i <= j -> j <= cap -> slice_cap l cap i j <> Panic.
Proof. intros H1 H2. unfold slice_cap. replace ((i <=? j) && (j <=? cap)) with true by lia. discriminate. Qed.

Theorem loc_render_total l : loc_render l <> Panic.
Proof. unfold loc_render, loc_encode_cap. apply slice_cap_total; lia. Qed.

Theorem t0200_render_total t : t0200_render t <> Panic.
Proof. apply loc_render_total. Qed.

Theorem t0704_render_total its : t0704_render its <> Panic.
Proof.
  induction its as [|i its IH]; cbn [t0704_render]. discriminate.
  pose proof (loc_render_total (i_loc i)). destruct (loc_render (i_loc i)); cbn [bind]; try discriminate;
    try contradiction.
  destruct (t0704_render its); cbn [bind]; try discriminate; contradiction.
Qed.

Theorem t0801_render_total t : t0801_render t <> Panic.
Proof.
  unfold t0801_render.
  pose proof (slice_cap_total (t0801_encode t) (N.max 100 (len (t0801_encode t))) 0 26 ltac:(lia) ltac:(lia)) as H.
  destruct (slice_cap _ _ 0 26); cbn [bind]; try discriminate; try contradiction.
  pose proof (loc_render_total (m_loc t)). destruct (loc_render (m_loc t)); cbn [bind]; try discriminate;
    contradiction.
Qed.

Theorem aval_render_total v : aval_render v <> Panic.
Proof.
  destruct v; cbn [aval_render]; try discriminate;
    rewrite slice_ok by (rewrite ?len_bin_str; lia); discriminate.
Qed.

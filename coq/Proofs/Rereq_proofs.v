(* Proofs about Model/Subpkg.v, part 2: re-requests (0x8003) and expiry (C14). *)
From JT.Base Require Import Prelude PreludeP.
From JT.Model Require Import Frame Unpack Subpkg.
From JT.Proofs Require Import Subpkg_proofs.
From Coq Require Import ZArith ZifyN ZifyNat ZifyBool.
Ltac Zify.zify_post_hook ::= Z.div_mod_to_equations.

Lemma step_end_rr X now s : wf s ->
  rr_for X (snd (step now s EvEnd)) =
  match find X s with
  | Some x => if expired now x then [] else if x_update x + 5000 <? now then [mk_rereq X x] else []
  | None => []
  end.
Proof.
  intros Hwf. cbn [step]. pose proof (housekeeping_rr now s X Hwf) as H.
  destruct (housekeeping now s) as [s1 rrs]. exact H.
Qed.

Lemma step_end_find X now s : wf s ->
  find X (fst (step now s EvEnd)) =
  match find X s with
  | Some x => if expired now x then None else Some (refresh now x)
  | None => None
  end.
Proof.
  intros Hwf. cbn [step]. pose proof (housekeeping_find now s X Hwf) as H.
  destruct (housekeeping now s) as [s1 rrs]. exact H.
Qed.

Section Transfer.
Variable X : N.
Variable n : nat.
Variable bodies : list (list N).
Hypothesis Hlen : length bodies = n.
Hypothesis Hne : Forall nonempty bodies.
Hypothesis Hn1 : (1 <= n)%nat.
Let NN := N.of_nat n.

(* C14: what the end of a read at time now produces for a pending transfer: nothing until the
   stamp is more than 5 s old, then exactly one re-request, addressed from packet 1's header,
   naming packet 1's serial and exactly the missing numbers, ascending *)
Theorem exact_list s0 t1 p1 rest now :
  wf s0 -> good_pkt X NN bodies p1 -> m_no p1 = 1 -> Forall (ok_after_n X n bodies t1) rest ->
  ~ covers NN (numbers X NN ((t1, EvMsg p1) :: rest)) -> now <= t1 + 60000 ->
  let evs := (t1, EvMsg p1) :: rest in
  let miss := missing_of NN (numbers X NN evs) in
  rr_for X (snd (step now (fst (run s0 evs)) EvEnd)) =
  if last_stamp X NN t1 rest + 5000 <? now
  then [{| rr_id := X; rr_first := p1; rr_list := miss; rr_body := body_8003 (m_serial p1) (len miss) miss |}]
  else [].
Proof.
  intros Hwf Hg H1 Hall Hnc Hnow. cbn zeta. unfold NN in *.
  destruct (state_after X n bodies Hlen Hne Hn1 s0 t1 p1 rest Hwf Hg H1 Hall Hnc) as [_ Hp].
  destruct Hp as (Hwf1 & x & Hf & Hs & Hc & Hu & Hfirst).
  rewrite step_end_rr by exact Hwf1. rewrite Hf. unfold expired. rewrite Hc, Hu.
  replace (t1 + 60000 <? now) with false by lia.
  destruct (last_stamp X (N.of_nat n) t1 rest + 5000 <? now); [|reflexivity].
  unfold mk_rereq. rewrite Hs, Hfirst. rewrite missing_slots_of by assumption. reflexivity.
Qed.

(* the state after that end of read: same table, stamp refreshed iff a re-request was sent *)
Lemma pending_after_end s t1 p1 seen upd now : pending X n bodies t1 p1 seen upd s -> now <= t1 + 60000 ->
  pending X n bodies t1 p1 seen (if upd + 5000 <? now then now else upd) (fst (step now s EvEnd)).
Proof.
  intros (Hwf & x & Hf & Hs & Hc & Hu & Hfirst) Hnow. split. now apply wf_step.
  exists (refresh now x). rewrite step_end_find by exact Hwf. rewrite Hf. unfold expired. rewrite Hc.
  replace (t1 + 60000 <? now) with false by lia. split. reflexivity.
  unfold refresh. rewrite Hu. destruct (upd + 5000 <? now); cbn [x_slots x_create x_update x_first]; auto.
Qed.

(* C14 expiry: once more than 60 s have passed since packet 1, the transfer is gone for good: the
   first event later than that - the end of a read OR a message, the remaining packets included:
   parse drops stale transfers before it processes the messages of a read - and whatever follows
   delivers nothing for X and re-requests nothing, until a new packet 1 *)
Theorem expiry s0 t1 p1 rest now e later :
  wf s0 -> good_pkt X NN bodies p1 -> m_no p1 = 1 -> Forall (ok_after_n X n bodies t1) rest ->
  ~ covers NN (numbers X NN ((t1, EvMsg p1) :: rest)) -> t1 + 60000 < now ->
  Forall (fun te => no_start X (snd te)) ((now, e) :: later) ->
  let outs := snd (run s0 (((t1, EvMsg p1) :: rest) ++ (now, e) :: later)) in
  completions X outs = [] /\
  rereqs_from (S (length rest)) X (skipn (S (length rest)) outs) = [] /\
  find X (fst (run s0 (((t1, EvMsg p1) :: rest) ++ (now, e) :: later))) = None.
Proof.
  intros Hwf Hg H1 Hall Hnc Hnow Hlater. cbn zeta. unfold NN in *.
  destruct (state_after X n bodies Hlen Hne Hn1 s0 t1 p1 rest Hwf Hg H1 Hall Hnc) as [Hc0 Hp].
  rewrite run_app. pose proof (run_length s0 ((t1, EvMsg p1) :: rest)) as Hl1.
  destruct (run s0 ((t1, EvMsg p1) :: rest)) as [s1 o1]. cbn [fst snd] in *.
  destruct Hp as (Hwf1 & x & Hf & Hs & Hc & Hu & Hfirst).
  (* the first late event starts by dropping the transfer *)
  assert (Hrun : run s1 ((now, e) :: later) = run (delete_timeout now s1) ((now, e) :: later)).
  { cbn [run]. now rewrite step_dt. }
  rewrite Hrun.
  assert (Hgone : find X (delete_timeout now s1) = None).
  { eapply dt_find_old; eauto. rewrite Hc. apply N.ltb_lt. lia. }
  destruct (run_absent X ((now, e) :: later) (delete_timeout now s1) (length o1) (wf_dt now s1 Hwf1) Hgone Hlater)
    as (Hc2 & Hr2 & Hf2).
  destruct (run (delete_timeout now s1) ((now, e) :: later)) as [s3 o3]. cbn [fst snd] in *.
  split; [|split].
  - unfold completions in *. rewrite completions_from_app, Hc0. cbn [app Nat.add]. exact Hc2.
  - cbn [length] in Hl1. rewrite <- Hl1. rewrite skipn_app, skipn_all, Nat.sub_diag. cbn [app skipn].
    exact Hr2.
  - exact Hf2.
Qed.

End Transfer.

(* ---------------- rate: for ANY state and ANY events ---------------- *)
(* every transfer of X in the state was last stamped at t or later *)
Definition stamp_ge (X t : N) (s : pstate) : Prop := forall x, find X s = Some x -> t <= x_update x.

Lemma cp_tail_stamp X now s m x' : find X (fst (cp_tail now s m)) = Some x' ->
  x_update x' = now \/ find X s = Some x'.
Proof.
  unfold cp_tail. destruct (find (m_id m) s) as [x|] eqn:Hf; [|now right].
  destruct ((m_no m <? 1) || (len (x_slots x) <? m_no m)); [now right|]. cbn zeta.
  destruct (received _ =? m_sum m); cbn [fst].
  - destruct (N.eq_dec (m_id m) X) as [->|Hne]. now rewrite find_remove_same.
    rewrite find_remove_other by exact Hne. now right.
  - destruct (N.eq_dec (m_id m) X) as [->|Hne].
    + rewrite find_put_same. intros [= <-]. now left.
    + rewrite find_put_other by exact Hne. now right.
Qed.

Lemma cp_stamp X now s m x' : find X (fst (complete_pack now s m)) = Some x' ->
  x_update x' = now \/ find X s = Some x'.
Proof.
  rewrite complete_pack_eq. destruct (m_sum m =? 0). now right.
  intros H. apply cp_tail_stamp in H. destruct H as [H|H]. now left.
  destruct (m_no m =? 1); [|now right].
  destruct (N.eq_dec (m_id m) X) as [<-|Hne].
  - rewrite find_put_same in H. injection H as <-. now left.
  - rewrite find_put_other in H by exact Hne. now right.
Qed.

Lemma stamp_step X t now s e : wf s -> stamp_ge X t s -> t <= now -> stamp_ge X t (fst (step now s e)).
Proof.
  intros Hwf Hs Ht x' Hf. destruct e as [m|].
  - cbn [step] in Hf. destruct (complete_pack now (delete_timeout now s) m) as [s1 r] eqn:Hcp. cbn [fst] in Hf.
    replace s1 with (fst (complete_pack now (delete_timeout now s) m)) in Hf by now rewrite Hcp.
    apply cp_stamp in Hf. destruct Hf as [Hf|Hf]. lia. apply Hs. eapply dt_find_some_inv; eauto.
  - rewrite step_end_find in Hf by exact Hwf. destruct (find X s) as [x|] eqn:Hx; [|discriminate].
    destruct (expired now x); [discriminate|]. injection Hf as <-. specialize (Hs x Hx).
    unfold refresh. destruct (x_update x + 5000 <? now); cbn [x_update]; lia.
Qed.

Lemma stamp_run X t l : forall s, wf s -> stamp_ge X t s -> Forall (fun te => t <= fst te) l ->
  stamp_ge X t (fst (run s l)).
Proof.
  induction l as [|[now e] l IH]; intros s Hwf Hs Hall; cbn [run]. exact Hs.
  apply Forall_cons_iff in Hall. destruct Hall as [Ht Hall]. cbn [fst] in Ht.
  pose proof (stamp_step X t now s e Hwf Hs Ht) as Hs1. pose proof (wf_step now s e Hwf) as Hwf1.
  destruct (step now s e) as [s1 o]. cbn [fst] in *. specialize (IH s1 Hwf1 Hs1 Hall).
  destruct (run s1 l). exact IH.
Qed.

Lemma rr_needs_old_stamp X t now s : wf s -> stamp_ge X t s -> rr_for X (snd (step now s EvEnd)) <> [] ->
  t + 5000 < now.
Proof.
  intros Hwf Hs Hrr. rewrite step_end_rr in Hrr by exact Hwf.
  destruct (find X s) as [x|] eqn:Hx; [|congruence]. specialize (Hs x Hx).
  destruct (expired now x); [congruence|]. destruct (x_update x + 5000 <? now) eqn:Hlt; [lia|congruence].
Qed.

(* C14 rate: two re-requests for the same id are more than 5 s apart - whatever the state before
   the first one and whatever happens in between (any messages, any reads, later in time) *)
Theorem rate X s ti between tj : wf s ->
  rr_for X (snd (step ti s EvEnd)) <> [] ->
  Forall (fun te => ti <= fst te) between ->
  rr_for X (snd (step tj (fst (run (fst (step ti s EvEnd)) between)) EvEnd)) <> [] ->
  ti + 5000 < tj.
Proof.
  intros Hwf H1 Hall H2.
  assert (Hs : stamp_ge X ti (fst (step ti s EvEnd))).
  { intros x' Hf. rewrite step_end_find in Hf by exact Hwf. rewrite step_end_rr in H1 by exact Hwf.
    destruct (find X s) as [x|]; [|discriminate]. destruct (expired ti x); [discriminate|].
    injection Hf as <-. unfold refresh. destruct (x_update x + 5000 <? ti); [|congruence]. cbn [x_update]. lia. }
  pose proof (wf_step ti s EvEnd Hwf) as Hwf1.
  eapply rr_needs_old_stamp; [| |exact H2]. now apply wf_run. now apply stamp_run.
Qed.

(* C14 none before 5 s: no re-request for X earlier than 5 s after a stored packet of X *)
Theorem quiet_after_packet X s t m between tj : wf s -> stored X s m ->
  Forall (fun te => t <= fst te) between ->
  rr_for X (snd (step tj (fst (run (fst (step t s (EvMsg m))) between)) EvEnd)) <> [] ->
  t + 5000 < tj.
Proof.
  intros Hwf (Hid & Hsum & Hst) Hall H2.
  assert (Hs : stamp_ge X t (fst (step t s (EvMsg m)))).
  { intros x' Hf. cbn [step] in Hf.
    assert (Hst' : m_no m = 1 \/ (exists x, find X (delete_timeout t s) = Some x /\ 1 <= m_no m <= len (x_slots x)) \/
                   (m_no m <> 1 /\ find X (delete_timeout t s) = None)).
    { destruct Hst as [H1|(x & Hx & Hno)]; [now left|].
      destruct (N.eq_dec (m_no m) 1) as [E1|E1]; [now left|]. right.
      destruct (x_create x + 60000 <? t) eqn:Old.
      - right. split; auto. eapply dt_find_old; eauto.
      - left. exists x. split; auto. eapply dt_find_young; eauto. }
    clear Hst. set (s' := delete_timeout t s) in *. clearbody s'.
    destruct Hst' as [H1|[(x & Hx & Hno)|(Hn1 & Hnone)]].
    - destruct (complete_pack t s' m) as [s1 r] eqn:Hcp. cbn [fst] in Hf.
      assert (Hs1 : s1 = fst (complete_pack t s' m)) by now rewrite Hcp. rewrite Hs1 in Hf. clear Hcp Hs1.
      rewrite complete_pack_eq in Hf. replace (m_sum m =? 0) with false in Hf by lia.
      replace (m_no m =? 1) with true in Hf by lia.
      apply cp_tail_stamp in Hf. destruct Hf as [Hf|Hf]. lia.
      rewrite <- Hid, find_put_same in Hf. injection Hf as <-. cbn [new_xfer x_update]. lia.
    - destruct (complete_pack t s' m) as [s1 r] eqn:Hcp. cbn [fst] in Hf.
      assert (Hs1 : s1 = fst (complete_pack t s' m)) by now rewrite Hcp. rewrite Hs1 in Hf. clear Hcp Hs1.
      rewrite complete_pack_eq in Hf. replace (m_sum m =? 0) with false in Hf by lia.
      destruct (m_no m =? 1).
      + apply cp_tail_stamp in Hf. destruct Hf as [Hf|Hf]. lia.
        rewrite <- Hid, find_put_same in Hf. injection Hf as <-. cbn [new_xfer x_update]. lia.
      + unfold cp_tail in Hf. rewrite Hid, Hx in Hf.
        replace ((m_no m <? 1) || (len (x_slots x) <? m_no m)) with false in Hf by lia. cbn zeta in Hf.
        destruct (received _ =? m_sum m); cbn [fst] in Hf.
        * now rewrite find_remove_same in Hf.
        * rewrite find_put_same in Hf. injection Hf as <-. cbn [x_update]. lia.
    - rewrite (cp_absent X t s' m Hnone Hid Hn1) in Hf. cbn [fst] in Hf. congruence. }
  pose proof (wf_step t s (EvMsg m) Hwf) as Hwf1.
  eapply rr_needs_old_stamp; [| |exact H2]. now apply wf_run. now apply stamp_run.
Qed.

(* state-level expiry, for any state *)
Theorem expiry_state X s x now : wf s -> find X s = Some x -> x_create x + 60000 < now ->
  find X (fst (step now s EvEnd)) = None /\ rr_for X (snd (step now s EvEnd)) = [].
Proof.
  intros Hwf Hf Hexp. rewrite step_end_find, step_end_rr by exact Hwf. rewrite Hf. unfold expired.
  replace (x_create x + 60000 <? now) with true by lia. auto.
Qed.

Section Transfer3.
Variable X : N.
Variable n : nat.
Variable bodies : list (list N).
Hypothesis Hlen : length bodies = n.
Hypothesis Hne : Forall nonempty bodies.
Hypothesis Hn1 : (1 <= n)%nat.
Let NN := N.of_nat n.

(* C14: a re-request round followed by resupply.  After packet 1 and rest1 (incomplete, stamp older
   than 5 s at time tr) the end of read at tr re-requests exactly the missing numbers; when the
   events after it bring the last missing number (event (t, m), position length l1) the message is
   delivered there, once, with the concatenation of the bodies, as in C05 *)
Theorem then_completes s0 t1 p1 rest1 tr rest2 l1 t m l2 :
  wf s0 -> good_pkt X NN bodies p1 -> m_no p1 = 1 ->
  Forall (ok_after_n X n bodies t1) rest1 -> tr <= t1 + 60000 -> Forall (ok_after_n X n bodies t1) rest2 ->
  ~ covers NN (numbers X NN ((t1, EvMsg p1) :: rest1)) ->
  last_stamp X NN t1 rest1 + 5000 < tr ->
  let evs := ((t1, EvMsg p1) :: rest1) ++ (tr, EvEnd) :: rest2 in
  evs = l1 ++ (t, EvMsg m) :: l2 ->
  ~ covers NN (numbers X NN l1) -> covers NN (numbers X NN (l1 ++ [(t, EvMsg m)])) ->
  let outs := snd (run s0 evs) in
  let miss := missing_of NN (numbers X NN ((t1, EvMsg p1) :: rest1)) in
  rr_for X (nth (S (length rest1)) outs ONone) =
    [{| rr_id := X; rr_first := p1; rr_list := miss; rr_body := body_8003 (m_serial p1) (len miss) miss |}] /\
  completions X outs = [(length l1, concat bodies)].
Proof.
  intros Hwf Hg H1 Hall1 Htr Hall2 Hnc Hstamp evs Hsplit Hnc1 Hc1 outs miss. subst evs outs miss. unfold NN in *.
  split.
  - pose proof (exact_list X n bodies Hlen Hne Hn1 s0 t1 p1 rest1 tr Hwf Hg H1 Hall1 Hnc Htr) as Hrr.
    cbn zeta in Hrr. replace (last_stamp X (N.of_nat n) t1 rest1 + 5000 <? tr) with true in Hrr by lia.
    rewrite run_app. pose proof (run_length s0 ((t1, EvMsg p1) :: rest1)) as Hl1.
    destruct (run s0 ((t1, EvMsg p1) :: rest1)) as [s1 o1]. cbn [fst snd length] in *.
    cbn [run]. destruct (step tr s1 EvEnd) as [s2 o]. destruct (run s2 rest2) as [s3 o3]. cbn [fst snd] in *.
    rewrite <- Hl1. rewrite app_nth2 by lia. rewrite Nat.sub_diag. cbn [nth]. exact Hrr.
  - change (((t1, EvMsg p1) :: rest1) ++ (tr, EvEnd) :: rest2)
      with ((t1, EvMsg p1) :: (rest1 ++ (tr, EvEnd) :: rest2)) in *.
    apply (exact X n bodies Hlen Hne Hn1 s0 t1 p1 (rest1 ++ (tr, EvEnd) :: rest2) l1 t m l2); auto.
    apply Forall_app. split. exact Hall1. constructor; [|exact Hall2]. split. exact Htr. exact I.
Qed.

End Transfer3.

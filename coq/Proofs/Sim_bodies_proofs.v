(* C20, default bodies: every body CreateDefaultCommandData puts into a frame (Model/Sim.v
   default_bodies: 3 versions x 24 commands, compared with the running code on every check) is parsed
   by the model of the matching message type (C07's registry Model/Msg_all.v) without error, and the
   parsed value re-encodes to the identical bytes.  Finite: decided by vm_compute.
   The C07 models are parametric in the GBK <-> UTF-8 conversion (only the licence plate of 0x0100
   goes through it); here the value keeps the plate as its GBK bytes (identity conversion). *)
From JT.Base Require Import Prelude PreludeP Fmt.
From JT.Model Require Import Msg_all Sim.

Definition idconv (l : list N) : list N := l.
Definition anydom (_ : list N) : bool := true.
(* header version bit of a protocol version *)
Definition hv (ver : N) : N := if ver =? V2019 then 1 else 0.

Definition body_roundtrips (ver cmd : N) (b : list N) : bool :=
  match msg_all idconv idconv anydom cmd (hv ver) 0 with
  | Some M => match m_dec M b with Ok v => list_eqb (m_enc M v) b | _ => false end
  | None => false
  end.

Lemma default_bodies_roundtrip_all :
  forallb (fun e => body_roundtrips (fst (fst e)) (snd (fst e)) (snd e)) default_bodies = true.
Proof. vm_compute. reflexivity. Qed.

Lemma assoc2_in ver cmd l b : assoc2 ver cmd l = Some b -> In ((ver, cmd), b) l.
Proof.
  induction l as [|[[v c] x] l IH]; cbn [assoc2]; intros H. discriminate.
  destruct ((v =? ver) && (c =? cmd)) eqn:E.
  - apply andb_true_iff in E. destruct E as [E1 E2]. apply N.eqb_eq in E1. apply N.eqb_eq in E2.
    inversion H; subst. now left.
  - right. auto.
Qed.

Theorem default_bodies_parse_and_reencode ver cmd b : default_body ver cmd = Some b ->
  exists M v, msg_all idconv idconv anydom cmd (hv ver) 0 = Some M /\
              m_dec M b = Ok v /\ m_enc M v = b.
Proof.
  intros H. apply assoc2_in in H.
  pose proof default_bodies_roundtrip_all as A. rewrite forallb_forall in A. specialize (A _ H).
  cbn [fst snd] in A. unfold body_roundtrips in A.
  destruct (msg_all idconv idconv anydom cmd (hv ver) 0) as [M|]; [|discriminate].
  destruct (m_dec M b) as [v| |] eqn:D; try discriminate.
  exists M, v. repeat split; auto. now apply list_eqb_spec.
Qed.

(* every supported (version, command) pair has a default body: 72 entries *)
Lemma default_bodies_complete :
  forallb (fun ver => forallb (fun cmd => match default_body ver cmd with Some _ => true | None => false end)
                              (map fst sim_handles)) [V2011; V2013; V2019] = true.
Proof. vm_compute. reflexivity. Qed.
